(* Proofs/PUpgrade.v — lemmas about Model/MUpgrade.v (property C20). *)
From Coq Require Import List Bool String Ascii ZArith NArith Lia DecimalString DecimalZ DecimalPos.
From KV Require Import Eqb Str AL.
From KV.Gen Require Import Tupgrade.
From KV.Model Require Import MUpgrade.
Import ListNotations.
Local Open Scope string_scope.
Local Open Scope list_scope.

(* ================================================================== 0. strings *)
Lemma app_nil_r_s s : s +++ EmptyString = s.
Proof. induction s as [|c s IH]; cbn; [reflexivity | rewrite IH; reflexivity]. Qed.

Lemma app_assoc_s a b c : (a +++ b) +++ c = a +++ (b +++ c).
Proof. induction a as [|x a IH]; cbn; [reflexivity | rewrite IH; reflexivity]. Qed.

Lemma app_inv_head_s a b c : a +++ b = a +++ c -> b = c.
Proof. induction a as [|x a IH]; cbn; [auto | intros [= E]; auto]. Qed.

Lemma prefixb_app p s : prefixb p (p +++ s) = true.
Proof. induction p as [|c p IH]; cbn; [reflexivity | rewrite Ascii.eqb_refl, IH; reflexivity]. Qed.

Definition no_char (c : ascii) (s : string) : Prop := forall t u, s <> t +++ String c u.

Fixpoint has_char (c : ascii) (s : string) : bool :=
  match s with EmptyString => false | String x s' => Ascii.eqb x c || has_char c s' end.

Lemma split_char_nonempty c s : split_char c s <> [].
Proof.
  induction s as [|x s IH]; cbn; [discriminate|].
  destruct (Ascii.eqb x c); [discriminate|]. destruct (split_char c s); [contradiction | discriminate].
Qed.

Lemma split_char_app c a b : split_char c (a +++ String c b) = split_char c a ++ split_char c b.
Proof.
  induction a as [|x a IH]; cbn.
  - rewrite Ascii.eqb_refl. reflexivity.
  - destruct (Ascii.eqb x c); [rewrite IH; reflexivity|].
    rewrite IH. destruct (split_char c a) eqn:E; [exfalso; eapply split_char_nonempty; eauto|]. reflexivity.
Qed.

Lemma split_char_no c s : has_char c s = false -> split_char c s = [s].
Proof.
  induction s as [|x s IH]; cbn; [reflexivity|]. intros H. apply orb_false_iff in H as [H1 H2].
  rewrite H1, (IH H2). reflexivity.
Qed.

Lemma last_app_nonempty {A} (l m : list A) d : m <> [] -> last (l ++ m) d = last m d.
Proof.
  intros N. induction l as [|x l IH]; [reflexivity|]. cbn [app].
  destruct (l ++ m) eqn:E; [destruct l, m; cbn in E; congruence|]. rewrite <- IH. reflexivity.
Qed.

Lemma basename_under ty p : basename (under ty p) = basename p.
Proof.
  unfold basename, under. change ("/" +++ p) with (String "/" p). rewrite split_char_app.
  apply last_app_nonempty. apply split_char_nonempty.
Qed.

Lemma has_ext_under e ty p : has_ext e (under ty p) = has_ext e p.
Proof. unfold has_ext. rewrite basename_under. reflexivity. Qed.

Lemma under_inj ty p q : under ty p = under ty q -> p = q.
Proof. unfold under. intros H. apply app_inv_head_s in H. cbn in H. congruence. Qed.

Lemma cut_slash_under ty r : has_char "/" ty = false -> cut_slash (under ty r) = Some (ty, r).
Proof.
  unfold under. induction ty as [|x ty IH]; cbn; [reflexivity|]. intros H. apply orb_false_iff in H as [H1 H2].
  rewrite H1. cbn in IH. rewrite (IH H2). reflexivity.
Qed.

Lemma cut_slash_spec p c r : cut_slash p = Some (c, r) -> p = under c r /\ has_char "/" c = false.
Proof.
  revert c. induction p as [|x p IH]; cbn; [discriminate|]. intros c.
  destruct (Ascii.eqb x "/") eqn:E.
  - intros [= <- <-]. apply Ascii.eqb_eq in E; subst. split; reflexivity.
  - destruct (cut_slash p) as [[a b]|]; [|discriminate]. intros [= <- <-].
    destruct (IH a eq_refl) as [-> H]. split; [reflexivity|]. cbn. rewrite E, H. reflexivity.
Qed.

Lemma cut_slash_has_ext e p c r : cut_slash p = Some (c, r) -> has_ext e r = has_ext e p.
Proof. intros H. apply cut_slash_spec in H as [-> _]. symmetry. apply has_ext_under. Qed.

Lemma cut_slash_none p : has_char "/" p = false -> cut_slash p = None.
Proof.
  induction p as [|x p IH]; cbn; [reflexivity|]. intros H. apply orb_false_iff in H as [H1 H2].
  rewrite H1, (IH H2). reflexivity.
Qed.

(* ================================================================== 1. folders *)
Section Folders.
  Context {V : Type}.
  Notation fold := (list (string * V)).

  Lemma lookup_map_inj (f : string -> string) (F : fold) k :
    (forall p, In p (keys F) -> f p = f k -> p = k) ->
    lookup (f k) (map (fun pc => (f (fst pc), snd pc)) F) = lookup k F.
  Proof.
    induction F as [|[p c] F IH]; cbn; [reflexivity|]. intros Inj.
    destruct (eqb_spec k p) as [->|N].
    - rewrite eqb_refl. reflexivity.
    - destruct (eqb_spec (f k) (f p)) as [E|_].
      + exfalso. apply N. symmetry. apply Inj; auto.
      + apply IH. intros q Hq. apply Inj. auto.
  Qed.

  Lemma lookup_map_none (f : string -> string) (F : fold) k :
    (forall p, In p (keys F) -> f p <> k) ->
    lookup k (map (fun pc => (f (fst pc), snd pc)) F) = None.
  Proof.
    induction F as [|[p c] F IH]; cbn; [reflexivity|]. intros H.
    destruct (eqb_spec k (f p)) as [E|_]; [exfalso; eapply H; eauto|]. apply IH. intros q Hq. apply H. auto.
  Qed.

  Lemma keys_map (f : string -> string) (F : fold) :
    keys (map (fun pc => (f (fst pc), snd pc)) F) = map f (keys F).
  Proof. unfold keys. rewrite !map_map. reflexivity. Qed.

  Lemma NoDup_map_inj {A B} (f : A -> B) (l : list A) :
    (forall x y, In x l -> In y l -> f x = f y -> x = y) -> NoDup l -> NoDup (map f l).
  Proof.
    induction l as [|x l IH]; cbn; [constructor|]. intros Inj ND. inversion ND; subst.
    constructor.
    - rewrite in_map_iff. intros [y [E Hy]]. assert (y = x) by (apply Inj; auto). subst. contradiction.
    - apply IH; auto.
  Qed.

  Lemma lookup_app (F G : fold) k :
    lookup k (F ++ G) = match lookup k F with Some v => Some v | None => lookup k G end.
  Proof. induction F as [|[p c] F IH]; cbn; [reflexivity|]. destruct (eqb k p); auto. Qed.

  Lemma lookup_filter_keys (P : string -> bool) (F : fold) k :
    lookup k (List.filter (fun pc => P (fst pc)) F) = if P k then lookup k F else None.
  Proof.
    induction F as [|[p c] F IH]; cbn; [destruct (P k); reflexivity|].
    destruct (P p) eqn:E; cbn.
    - destruct (eqb_spec k p) as [->|N]; [rewrite E; reflexivity | exact IH].
    - rewrite IH. destruct (eqb_spec k p) as [->|N]; [rewrite E; reflexivity | reflexivity].
  Qed.

  Lemma keys_filter (P : string -> bool) (F : fold) :
    keys (List.filter (fun pc => P (fst pc)) F) = List.filter P (keys F).
  Proof.
    unfold keys. induction F as [|[p c] F IH]; cbn; [reflexivity|]. destruct (P p); cbn; rewrite IH; reflexivity.
  Qed.

  Lemma NoDup_filter {A} (P : A -> bool) (l : list A) : NoDup l -> NoDup (List.filter P l).
  Proof.
    induction 1 as [|x l N ND IH]; cbn; [constructor|]. destruct (P x); [|assumption].
    constructor; [|assumption]. rewrite filter_In. tauto.
  Qed.
End Folders.

(* ---- move_key *)
Lemma lookup_move_key src dst (F : folder) k :
  src <> dst ->
  lookup k (move_key src dst F) =
  match lookup src F with
  | Some c => if eqb k dst then Some c else if eqb k src then None else lookup k F
  | None => lookup k F
  end.
Proof.
  intros N. unfold move_key. destruct (lookup src F) as [c|] eqn:E; [|reflexivity].
  rewrite lookup_insert. destruct (eqb_spec k dst) as [->|N1]; [reflexivity|].
  rewrite lookup_remove. reflexivity.
Qed.

Lemma wf_move_key src dst (F : folder) : wf F -> wf (move_key src dst F).
Proof. intros W. unfold move_key. destruct (lookup src F); [|assumption]. apply wf_insert, wf_remove, W. Qed.

Lemma In_keys_move_key src dst (F : folder) k :
  In k (keys (move_key src dst F)) ->
  k = dst \/ (k <> src /\ In k (keys F)) \/ (lookup src F = None /\ In k (keys F)).
Proof.
  unfold move_key. destruct (lookup src F) eqn:E.
  - rewrite In_keys_insert, In_keys_remove. tauto.
  - auto.
Qed.

(* ================================================================== 2. the parallel rename used by the repaired in-place loop *)
Section Rename.
  Variable ty e : string.

  Definition rn (p : string) : string := if has_ext e p then under ty p else p.

  Lemma rename_feat_eq F : rename_feat ty e F = map (fun pc => (rn (fst pc), snd pc)) F.
  Proof. reflexivity. Qed.

  Lemma has_ext_rn p : has_ext e (rn p) = has_ext e p.
  Proof. unfold rn. destruct (has_ext e p) eqn:E; [rewrite has_ext_under|]; assumption. Qed.

  Lemma rn_inj p q : rn p = rn q -> p = q.
  Proof.
    intros H. assert (E : has_ext e p = has_ext e q) by (rewrite <- (has_ext_rn p), <- (has_ext_rn q), H; reflexivity).
    unfold rn in H. rewrite E in H. destruct (has_ext e q); [apply under_inj in H|]; assumption.
  Qed.

  (* nothing is lost and nothing is overwritten: an entry is found at its new name with its content *)
  Lemma lookup_rename_feat F p : lookup (rn p) (rename_feat ty e F) = lookup p F.
  Proof. rewrite rename_feat_eq. apply lookup_map_inj. intros q _ H. apply rn_inj. assumption. Qed.

  Lemma lookup_rename_feat_feature F p :
    has_ext e p = true -> lookup (under ty p) (rename_feat ty e F) = lookup p F.
  Proof. intros H. rewrite <- (lookup_rename_feat F p). unfold rn. rewrite H. reflexivity. Qed.

  Lemma lookup_rename_feat_other F p :
    has_ext e p = false -> lookup p (rename_feat ty e F) = lookup p F.
  Proof. intros H. rewrite <- (lookup_rename_feat F p). unfold rn. rewrite H. reflexivity. Qed.

  Lemma wf_rename_feat F : wf F -> wf (rename_feat ty e F).
  Proof.
    unfold wf. rewrite rename_feat_eq, keys_map. apply NoDup_map_inj. intros x y _ _. apply rn_inj.
  Qed.

  Lemma keys_rename_feat F : keys (rename_feat ty e F) = map rn (keys F).
  Proof. rewrite rename_feat_eq. apply keys_map. Qed.

  Lemma length_rename_feat F : List.length (rename_feat ty e F) = List.length F.
  Proof. apply map_length. Qed.
End Rename.

(* ================================================================== 3. characters, stripping, the row codec *)
Fixpoint all_chars (P : ascii -> bool) (s : string) : bool :=
  match s with EmptyString => true | String c s' => P c && all_chars P s' end.

Lemma all_chars_app P a b : all_chars P (a +++ b) = all_chars P a && all_chars P b.
Proof. induction a as [|c a IH]; cbn; [reflexivity | rewrite IH, andb_assoc; reflexivity]. Qed.

Lemma has_char_app c a b : has_char c (a +++ b) = has_char c a || has_char c b.
Proof. induction a as [|x a IH]; cbn; [reflexivity | rewrite IH, orb_assoc; reflexivity]. Qed.

Lemma has_char_under ty p : has_char "/" (under ty p) = true.
Proof. unfold under. rewrite has_char_app. cbn. apply orb_true_r. Qed.

Lemma drop_while_ws_space s : drop_while is_ws (String " " s) = drop_while is_ws s.
Proof. reflexivity. Qed.

(* a field as kapture writes and reads it back: no comma, no line break, no blank at either end *)
Definition last_ok (s : string) : bool :=       (* the last character, if any, is not white space *)
  eqb (rstrip_by is_ws s) s.
Definition first_ok (s : string) : bool := match s with String c _ => negb (is_ws c) | EmptyString => true end.
Definition clean (s : string) : bool :=
  negb (has_char "," s) && negb (has_char "010" s) && negb (has_char "013" s) && first_ok s && last_ok s.

Lemma drop_while_first_ok s : first_ok s = true -> drop_while is_ws s = s.
Proof. destruct s as [|c s]; cbn; [reflexivity|]. intros H. apply negb_true_iff in H. rewrite H. reflexivity. Qed.

Lemma strip_clean s : clean s = true -> strip s = s.
Proof.
  unfold clean. rewrite !andb_true_iff. intros [[_ F] L]. unfold strip. rewrite (drop_while_first_ok _ F).
  apply eqb_true in L. exact L.
Qed.

Lemma strip_space s : strip (String " " s) = strip s.
Proof. reflexivity. Qed.

(* rstrip_by leaves a string alone when its last character does not satisfy p *)
Lemma rstrip_by_fix p s : rstrip_by p (rstrip_by p s) = rstrip_by p s.
Proof.
  induction s as [|c s IH]; cbn; [reflexivity|].
  destruct (rstrip_by p s) as [|d r] eqn:E.
  - destruct (p c) eqn:Pc; cbn; [reflexivity | rewrite Pc; reflexivity].
  - cbn. cbn in IH. rewrite IH. reflexivity.
Qed.

Lemma rstrip_by_nocrlf s :
  has_char "010" s = false -> has_char "013" s = false -> rstrip_by is_crlf s = s.
Proof.
  induction s as [|c s IH]; cbn; [reflexivity|]. intros H1 H2.
  apply orb_false_iff in H1 as [A1 B1]. apply orb_false_iff in H2 as [A2 B2].
  rewrite (IH B1 B2). destruct s; [|reflexivity].
  assert (is_crlf c = false) as ->; [|reflexivity].
  unfold is_crlf, code. apply orb_false_iff. split; apply N.eqb_neq; intros E.
  - apply Ascii.eqb_neq in A1. apply A1. rewrite <- (ascii_N_embedding c), E. reflexivity.
  - apply Ascii.eqb_neq in A2. apply A2. rewrite <- (ascii_N_embedding c), E. reflexivity.
Qed.

(* join ", " and split on "," *)
Lemma join_cons sep x y l : join sep (x :: y :: l) = x +++ sep +++ join sep (y :: l).
Proof. reflexivity. Qed.

Lemma split_join_aux (l : list string) :
  forallb clean l = true -> l <> [] ->
  map strip (split_char "," (join ", " l)) = l /\
  map strip (split_char "," (String " " (join ", " l))) = l.
Proof.
  induction l as [|x l IH]; [intros _ N; contradiction|]. intros C _. cbn [forallb] in C.
  apply andb_true_iff in C as [Cx Cl].
  assert (NC : has_char "," x = false).
  { unfold clean in Cx. rewrite !andb_true_iff in Cx. destruct Cx as [[[[A _] _] _] _]. apply negb_true_iff in A. exact A. }
  destruct l as [|y l].
  - cbn [join]. rewrite (split_char_no _ _ NC). cbn [map].
    assert (NC' : has_char "," (String " " x) = false) by (cbn; exact NC).
    rewrite (split_char_no _ _ NC'). cbn [map]. rewrite strip_space, (strip_clean _ Cx). auto.
  - rewrite join_cons. destruct (IH Cl ltac:(discriminate)) as [_ IH2].
    change (", " +++ join ", " (y :: l)) with (String "," (String " " (join ", " (y :: l)))).
    split.
    + rewrite split_char_app, (split_char_no _ _ NC), map_app. cbn [map app]. rewrite IH2, (strip_clean _ Cx). reflexivity.
    + change (String " " (x +++ String "," (String " " (join ", " (y :: l)))))
        with ((String " " x) +++ String "," (String " " (join ", " (y :: l)))).
      assert (NC' : has_char "," (String " " x) = false) by (cbn; exact NC).
      rewrite split_char_app, (split_char_no _ _ NC'), map_app. cbn [map app].
      rewrite IH2, strip_space, (strip_clean _ Cx). reflexivity.
Qed.

Lemma split_join l : forallb clean l = true -> l <> [] -> map strip (split_char "," (join ", " l)) = l.
Proof. intros C N. apply (split_join_aux l C N). Qed.

(* ---- str(int) and int(str) *)
Definition dec_char (c : ascii) : bool := is_digit c || Ascii.eqb c "-".

Lemma dec_chars_uint u : all_chars dec_char (NilEmpty.string_of_uint u) = true.
Proof. induction u; cbn; try rewrite IHu; reflexivity. Qed.

Lemma dec_chars_show z : all_chars dec_char (show_Z z) = true.
Proof.
  unfold show_Z, NilZero.string_of_int, NilZero.string_of_uint.
  destruct (Z.to_int z) as [u|u]; destruct u; cbn; try rewrite dec_chars_uint; reflexivity.
Qed.

Lemma show_nonempty z : show_Z z <> EmptyString.
Proof.
  unfold show_Z. destruct z as [|p|p]; cbn; try discriminate;
    unfold NilZero.string_of_uint; pose proof (Unsigned.to_uint_nonnil p) as N;
    destruct (Pos.to_uint p); try contradiction; cbn; discriminate.
Qed.

Lemma all_chars_has P c s : all_chars P s = true -> P c = false -> has_char c s = false.
Proof.
  induction s as [|x s IH]; cbn; [reflexivity|]. intros H Pc. apply andb_true_iff in H as [Hx Hs].
  rewrite (IH Hs Pc), orb_false_r. destruct (Ascii.eqb_spec x c) as [->|]; [congruence | reflexivity].
Qed.

Lemma dec_char_not_ws c : dec_char c = true -> is_ws c = false.
Proof.
  unfold dec_char, is_digit, is_ws, code. intros H. apply orb_true_iff in H as [H|H].
  - apply andb_true_iff in H as [A B]. apply N.leb_le in A, B.
    apply orb_false_iff; split; apply andb_false_iff; right; apply N.leb_gt; lia.
  - apply Ascii.eqb_eq in H. subst. reflexivity.
Qed.

Lemma rstrip_by_none p s : all_chars (fun c => negb (p c)) s = true -> rstrip_by p s = s.
Proof.
  induction s as [|c s IH]; cbn; [reflexivity|]. intros H. apply andb_true_iff in H as [Hc Hs].
  rewrite (IH Hs). destruct s; [|reflexivity]. apply negb_true_iff in Hc. rewrite Hc. reflexivity.
Qed.

Lemma all_chars_impl (P Q : ascii -> bool) s :
  (forall c, P c = true -> Q c = true) -> all_chars P s = true -> all_chars Q s = true.
Proof.
  intros I. induction s as [|c s IH]; cbn; [reflexivity|]. intros H. apply andb_true_iff in H as [Hc Hs].
  rewrite (I _ Hc), (IH Hs). reflexivity.
Qed.

Lemma clean_dec s : all_chars dec_char s = true -> clean s = true.
Proof.
  intros H. unfold clean.
  rewrite (all_chars_has dec_char "," s H eq_refl), (all_chars_has dec_char "010" s H eq_refl),
          (all_chars_has dec_char "013" s H eq_refl). cbn [negb andb].
  apply andb_true_iff. split.
  - destruct s as [|c s]; [reflexivity|]. cbn in *. apply andb_true_iff in H as [Hc _].
    rewrite (dec_char_not_ws _ Hc). reflexivity.
  - unfold last_ok. rewrite rstrip_by_none; [apply eqb_refl|].
    eapply all_chars_impl; [|exact H]. intros c Hc. rewrite (dec_char_not_ws _ Hc). reflexivity.
Qed.

Lemma clean_show z : clean (show_Z z) = true.
Proof. apply clean_dec, dec_chars_show. Qed.

Lemma to_int_ok z : Z.to_int z <> Decimal.Pos Decimal.Nil /\ Z.to_int z <> Decimal.Neg Decimal.Nil.
Proof.
  destruct z as [|p|p]; cbn; split; try discriminate; intros [= E]; exact (Unsigned.to_uint_nonnil p E).
Qed.

Lemma parse_show z : parse_int (show_Z z) = Some z.
Proof.
  unfold parse_int. rewrite (strip_clean _ (clean_show z)).
  assert (E : option_map Z.of_int (NilZero.int_of_string (show_Z z)) = Some z).
  { unfold show_Z. destruct (to_int_ok z) as [A B]. rewrite (NilZero.isi _ A B). cbn. rewrite DecimalZ.of_to. reflexivity. }
  pose proof (dec_chars_show z) as D. destruct (show_Z z) as [|c r] eqn:S; [exact E|].
  destruct (Ascii.eqb_spec c "+") as [->|N]; [cbn in D; discriminate|].
  destruct c as [[] [] [] [] [] [] [] []]; try exact E. exfalso; apply N; reflexivity.
Qed.

(* ---- a written row reads back as itself *)
Lemma has_char_join c sep l :
  has_char c sep = false -> forallb (fun f => negb (has_char c f)) l = true -> has_char c (join sep l) = false.
Proof.
  intros Hs. induction l as [|x l IH]; [reflexivity|]. cbn [forallb]. intros H. apply andb_true_iff in H as [Hx Hl].
  apply negb_true_iff in Hx. destruct l as [|y l]; [exact Hx|].
  rewrite join_cons, !has_char_app, Hx, Hs, (IH Hl). reflexivity.
Qed.

Lemma clean_no c l : (c = "010" \/ c = "013")%char -> forallb clean l = true -> forallb (fun f => negb (has_char c f)) l = true.
Proof.
  intros Hc. induction l as [|x l IH]; [reflexivity|]. cbn [forallb]. intros H. apply andb_true_iff in H as [Hx Hl].
  rewrite (IH Hl), andb_true_r. unfold clean in Hx. rewrite !andb_true_iff in Hx.
  destruct Hx as [[[[_ A] B] _] _]. destruct Hc as [-> | ->]; assumption.
Qed.

Lemma has_char_drop_while c s : is_ws c = false -> has_char c s = true -> has_char c (drop_while is_ws s) = true.
Proof.
  intros W. induction s as [|x s IH]; cbn; [auto|]. intros H.
  destruct (is_ws x) eqn:Wx; [|exact H]. apply IH.
  apply orb_true_iff in H as [H|H]; [|exact H]. apply Ascii.eqb_eq in H. subst. congruence.
Qed.

Lemma has_char_rstrip c s : is_ws c = false -> has_char c s = true -> has_char c (rstrip_by is_ws s) = true.
Proof.
  intros W. induction s as [|x s IH]; cbn; [auto|]. intros H.
  apply orb_true_iff in H as [H|H].
  - apply Ascii.eqb_eq in H. subst x. destruct (rstrip_by is_ws s); [rewrite W|]; cbn; rewrite Ascii.eqb_refl; reflexivity.
  - specialize (IH H). destruct (rstrip_by is_ws s); [discriminate|]. cbn. cbn in IH. rewrite IH. apply orb_true_r.
Qed.

Lemma strip_nonempty c s : is_ws c = false -> has_char c s = true -> strip s <> EmptyString.
Proof.
  intros W H E. unfold strip in E.
  pose proof (has_char_rstrip c _ W (has_char_drop_while c s W H)) as K. rewrite E in K. discriminate.
Qed.

Definition not_hash (s : string) : bool := negb (prefixb "#" s).

Lemma prefixb_hash_cons c s : prefixb "#" (String c s) = Ascii.eqb "#" c.
Proof. cbn [prefixb]. apply andb_true_r. Qed.

Lemma row_of_line_join l :
  forallb clean l = true -> (2 <= List.length l)%nat -> not_hash (hd EmptyString l) = true ->
  row_of_line (join ", " l) = Some l.
Proof.
  intros C L H. unfold row_of_line.
  assert (N10 : has_char "010" (join ", " l) = false) by (apply has_char_join; [reflexivity | apply clean_no; auto]).
  assert (N13 : has_char "013" (join ", " l) = false) by (apply has_char_join; [reflexivity | apply clean_no; auto]).
  rewrite (rstrip_by_nocrlf _ N10 N13).
  destruct l as [|x [|y l]]; cbn in L; try lia.
  assert (Comma : has_char "," (join ", " (x :: y :: l)) = true).
  { rewrite join_cons, !has_char_app. cbn. rewrite orb_true_r. reflexivity. }
  destruct (eqb_spec (strip (join ", " (x :: y :: l))) EmptyString) as [E|_].
  { exfalso. revert E. apply (strip_nonempty ","); [reflexivity | exact Comma]. }
  assert (P : prefixb "#" (join ", " (x :: y :: l)) = false).
  { rewrite join_cons. cbn [hd] in H. unfold not_hash in H. apply negb_true_iff in H. destruct x as [|c x]; [reflexivity|].
    change ((String c x) +++ ", " +++ join ", " (y :: l)) with (String c (x +++ ", " +++ join ", " (y :: l))).
    rewrite prefixb_hash_cons in *. exact H. }
  rewrite P. cbn [orb]. rewrite split_join; [reflexivity | exact C | discriminate].
Qed.

Lemma rows_app a b : rows (a ++ b) = rows a ++ rows b.
Proof. unfold rows. apply flat_map_app. Qed.

Lemma rows_cons_none s l : row_of_line s = None -> rows (s :: l) = rows l.
Proof. intros H. unfold rows. cbn. rewrite H. reflexivity. Qed.

Lemma rows_cons_some s r l : row_of_line s = Some r -> rows (s :: l) = r :: rows l.
Proof. intros H. unfold rows. cbn. rewrite H. reflexivity. Qed.

Lemma row_of_line_hash s : prefixb "#" s = true -> row_of_line s = None.
Proof.
  intros H. unfold row_of_line.
  assert (prefixb "#" (rstrip_by is_crlf s) = true) as ->; [|rewrite orb_true_r; reflexivity].
  destruct s as [|c s]; [discriminate|]. rewrite prefixb_hash_cons in H. apply Ascii.eqb_eq in H. subst c.
  cbn [rstrip_by]. destruct (rstrip_by is_crlf s); reflexivity.
Qed.

Lemma row_format_11 : row_of_line format_11 = None.
Proof. vm_compute. reflexivity. Qed.

Lemma row_empty : row_of_line EmptyString = None.
Proof. reflexivity. Qed.

Lemma row_fhdr k : row_of_line (fhdr k) = None.
Proof. destruct k; vm_compute; reflexivity. Qed.

Lemma row_obs_hdr : row_of_line obs_hdr = None.
Proof. vm_compute. reflexivity. Qed.

(* the version line: found in what is written, and the data rows do not depend on it *)
Lemma version_format_11 : find_version format_11 = Some version_11.
Proof. vm_compute. reflexivity. Qed.

Lemma version_rewrite_header segs : version_of_file (rewrite_header segs) = Some version_11.
Proof. unfold rewrite_header. destruct (version_of_file segs); exact version_format_11. Qed.

(* hypothesis on a 1.0 text file: when its first line carries a version, that line is a comment *)
Definition header_is_comment (segs : list string) : bool :=
  match version_of_file segs with
  | Some _ => prefixb "#" (hd EmptyString segs)
  | None => true
  end.

Lemma rows_rewrite_header segs : header_is_comment segs = true -> rows (rewrite_header segs) = rows segs.
Proof.
  unfold header_is_comment, rewrite_header. destruct (version_of_file segs) as [v|].
  - intros H. rewrite (rows_cons_none _ _ row_format_11).
    destruct segs as [|h [|x r]]; cbn [tl hd] in *.
    + reflexivity.
    + rewrite (rows_cons_none _ _ (row_of_line_hash _ H)). reflexivity.
    + rewrite (rows_cons_none _ _ (row_of_line_hash _ H)). reflexivity.
  - intros _. apply (rows_cons_none _ _ row_format_11).
Qed.

(* ================================================================== 4. the unchanged text tables *)
Definition rewritten (names : list string) (top : folder) (k : string) : option content :=
  if memb k names then
    match lookup k top with Some (Txt segs) => Some (Txt (rewrite_header segs)) | o => o end
  else lookup k top.

Definition versions_lenient (names : list string) (top : folder) : Prop :=
  forall n segs, In n names -> lookup n top = Some (Txt segs) -> version_ok_lenient (version_of_file segs) = true.

Lemma csv_step_in_done names : forall top,
  NoDup names -> versions_lenient names top ->
  exists top', csv_step_in names top = Done top' /\ (forall k, lookup k top' = rewritten names top k)
               /\ keys top' = keys top.
Proof.
  induction names as [|n ns IH]; intros top ND V.
  - exists top. repeat split; reflexivity.
  - inversion ND as [|? ? Nn NDs]; subst. cbn [csv_step_in].
    assert (Vs : versions_lenient ns top) by (intros m s Hm; apply V; right; exact Hm).
    destruct (lookup n top) as [[segs|tok]|] eqn:E.
    + rewrite (V n segs (or_introl eq_refl) E).
      set (top1 := insert n (Txt (rewrite_header segs)) top).
      assert (V1 : versions_lenient ns top1).
      { intros m s Hm. unfold top1. rewrite lookup_insert_neq; [apply Vs; exact Hm | intros ->; contradiction]. }
      destruct (IH top1 NDs V1) as [top' [D [L K]]]. exists top'. split; [exact D|]. split.
      * intros k. rewrite L. unfold rewritten. cbn [memb].
        destruct (eqb_spec k n) as [->|Nk].
        -- apply memb_not_In in Nn. rewrite Nn. cbn [orb]. unfold top1. rewrite lookup_insert_eq, E. reflexivity.
        -- cbn [orb]. unfold top1. rewrite lookup_insert_neq by exact Nk. reflexivity.
      * rewrite K. unfold top1. apply keys_insert_mem. apply lookup_In_keys. rewrite E. discriminate.
    + destruct (IH top NDs Vs) as [top' [D [L K]]]. exists top'. split; [exact D|]. split; [|exact K].
      intros k. rewrite L. unfold rewritten. cbn [memb]. destruct (eqb_spec k n) as [->|Nk]; [|reflexivity].
      apply memb_not_In in Nn. rewrite Nn, E. reflexivity.
    + destruct (IH top NDs Vs) as [top' [D [L K]]]. exists top'. split; [exact D|]. split; [|exact K].
      intros k. rewrite L. unfold rewritten. cbn [memb]. destruct (eqb_spec k n) as [->|Nk]; [|reflexivity].
      apply memb_not_In in Nn. rewrite Nn, E. reflexivity.
Qed.

(* a tree whose text tables all carry another version is refused before anything is written *)
Lemma csv_step_in_refuses names : forall top,
  (forall n segs, In n names -> lookup n top = Some (Txt segs) -> version_ok_lenient (version_of_file segs) = false) ->
  (exists n segs, In n names /\ lookup n top = Some (Txt segs)) ->
  csv_step_in names top = Failed Refused top.
Proof.
  induction names as [|n ns IH]; intros top B [m [s [Hm Hs]]]; [contradiction|]. cbn [csv_step_in].
  destruct (lookup n top) as [[segs|tok]|] eqn:E.
  - rewrite (B n segs (or_introl eq_refl) E). reflexivity.
  - apply IH; [intros x y Hx; apply B; right; exact Hx|]. destruct Hm as [->|Hm]; [congruence|]. exists m, s; auto.
  - apply IH; [intros x y Hx; apply B; right; exact Hx|]. destruct Hm as [->|Hm]; [congruence|]. exists m, s; auto.
Qed.

Lemma tables_view_ext top top' :
  (forall n, n <> obs_file -> table_rows top' n = table_rows top n) -> tables_view top' = tables_view top.
Proof.
  intros H. unfold tables_view. induction csv_11 as [|n l IH]; [reflexivity|]. cbn [List.filter].
  destruct (eqb_spec n obs_file) as [->|N]; cbn [negb]; [exact IH|]. cbn [flat_map]. rewrite IH, (H n N). reflexivity.
Qed.

Definition headers_are_comments (names : list string) (top : folder) : Prop :=
  forall n segs, In n names -> lookup n top = Some (Txt segs) -> header_is_comment segs = true.

Lemma table_rows_rewritten names top top' n :
  headers_are_comments names top -> (forall k, lookup k top' = rewritten names top k) ->
  table_rows top' n = table_rows top n.
Proof.
  intros HC L. unfold table_rows. rewrite L. unfold rewritten. destruct (memb n names) eqn:M; [|reflexivity].
  apply memb_In in M. destruct (lookup n top) as [[segs|tok]|] eqn:E; try reflexivity.
  rewrite (rows_rewrite_header _ (HC n segs M E)). reflexivity.
Qed.

(* facts about the file names of the tree under test, by computation *)
Lemma csv_1_0_nodup : NoDup csv_1_0.
Proof.
  assert (H : forall l : list string, (fix nd (l : list string) := match l with [] => true | x :: r => negb (memb x r) && nd r end) l = true -> NoDup l).
  { induction l as [|x r IH]; [constructor|]. intros H. apply andb_true_iff in H as [A B]. constructor; [|auto].
    apply negb_true_iff, memb_not_In in A. exact A. }
  apply H. vm_compute. reflexivity.
Qed.
Lemma obs_not_csv : memb obs_file csv_1_0 = false. Proof. vm_compute. reflexivity. Qed.
Lemma sensors_in_csv : memb sensors_file csv_1_0 = true. Proof. vm_compute. reflexivity. Qed.
Lemma records_camera_not_obs : records_camera_file <> obs_file. Proof. intros E; vm_compute in E; discriminate. Qed.
Lemma points3d_not_obs : points3d_file <> obs_file. Proof. intros E; vm_compute in E; discriminate. Qed.
Lemma sensors_not_obs : sensors_file <> obs_file. Proof. intros E; vm_compute in E; discriminate. Qed.

(* ================================================================== 5. one feature folder *)
Definition in_folder (k : fkind) (ty : string) (row : list string) (F : folder) : folder :=
  let F1 := remove (descname k) F in
  let F2 := insert (under ty (descname k)) (desc11 k row) F1 in
  let F3 := match fjson k with Some j => move_key j (under ty j) F2 | None => F2 end in
  rename_feat ty (fext k) F3.
Definition cp_folder (k : fkind) (ty : string) (row : list string) (F : folder) : folder :=
  (under ty (descname k), desc11 k row) :: feat_files_cp ty (fext k) F.

(* facts about the names of the tree under test *)
Lemma desc_not_feature k : has_ext (fext k) (descname k) = false.
Proof. destruct k; vm_compute; reflexivity. Qed.
Lemma json_not_feature k j : fjson k = Some j -> has_ext (fext k) j = false.
Proof. destruct k; intros [= <-]; vm_compute; reflexivity. Qed.
Lemma desc_no_slash k : has_char "/" (descname k) = false.
Proof. destruct k; vm_compute; reflexivity. Qed.
Lemma json_no_slash k j : fjson k = Some j -> has_char "/" j = false.
Proof. destruct k; intros [= <-]; vm_compute; reflexivity. Qed.
Lemma json_not_desc k j : fjson k = Some j -> j <> descname k.
Proof. destruct k; intros [= <-] E; vm_compute in E; discriminate. Qed.
Lemma mt_json_not_feature : has_ext mt_ext mt_json = false.
Proof. vm_compute. reflexivity. Qed.
Lemma mt_json_no_slash : has_char "/" mt_json = false.
Proof. vm_compute. reflexivity. Qed.

Lemma under_neq_noslash ty p q : has_char "/" q = false -> under ty p <> q.
Proof. intros H E. rewrite <- E, has_char_under in H. discriminate. Qed.

Lemma ext_neq e p q : has_ext e p = true -> has_ext e q = false -> p <> q.
Proof. intros A B ->. congruence. Qed.

Section OneFolder.
  Variable k : fkind.
  Variable ty : string.
  Variable row : list string.
  Variable F : folder.
  Notation e := (fext k).
  Notation dn := (descname k).

  Definition F1 := remove dn F.
  Definition F2 := insert (under ty dn) (desc11 k row) F1.
  Definition F3 := match fjson k with Some j => move_key j (under ty j) F2 | None => F2 end.

  Lemma in_folder_eq : in_folder k ty row F = rename_feat ty e F3.
  Proof. reflexivity. Qed.

  (* a data file *)
  Lemma lookup_F3_feature x : has_ext e x = true -> lookup x F3 = lookup x F.
  Proof.
    intros H. assert (L2 : lookup x F2 = lookup x F).
    { unfold F2, F1. rewrite lookup_insert_neq, lookup_remove_neq; [reflexivity| |].
      - apply (ext_neq e); [exact H | apply desc_not_feature].
      - apply (ext_neq e); [exact H | rewrite has_ext_under; apply desc_not_feature]. }
    unfold F3. destruct (fjson k) as [j|] eqn:J; [|exact L2].
    rewrite lookup_move_key.
    - assert (x <> under ty j) by (apply (ext_neq e); [exact H | rewrite has_ext_under; apply (json_not_feature k j J)]).
      assert (x <> j) by (apply (ext_neq e); [exact H | apply (json_not_feature k j J)]).
      destruct (lookup j F2); [|exact L2].
      rewrite (neq_eqb _ _ H0), (neq_eqb _ _ H1). exact L2.
    - intros E. symmetry in E. revert E. apply under_neq_noslash. apply (json_no_slash k j J).
  Qed.

  Lemma lookup_in_folder_data x : has_ext e x = true -> lookup (under ty x) (in_folder k ty row F) = lookup x F.
  Proof. intros H. rewrite in_folder_eq, lookup_rename_feat_feature by exact H. apply lookup_F3_feature, H. Qed.

  (* the new descriptor *)
  Lemma lookup_F3_desc : lookup (under ty dn) F3 = Some (desc11 k row).
  Proof.
    assert (L2 : lookup (under ty dn) F2 = Some (desc11 k row)) by (unfold F2; apply lookup_insert_eq).
    unfold F3. destruct (fjson k) as [j|] eqn:J; [|exact L2].
    rewrite lookup_move_key.
    - destruct (lookup j F2); [|exact L2].
      assert (N1 : under ty dn <> under ty j).
      { intros E. apply under_inj in E. symmetry in E. revert E. apply (json_not_desc k j J). }
      assert (N2 : under ty dn <> j) by (apply under_neq_noslash, (json_no_slash k j J)).
      rewrite (neq_eqb _ _ N1), (neq_eqb _ _ N2). exact L2.
    - intros E. symmetry in E. revert E. apply under_neq_noslash. apply (json_no_slash k j J).
  Qed.

  Lemma lookup_in_folder_desc : lookup (under ty dn) (in_folder k ty row F) = Some (desc11 k row).
  Proof.
    rewrite in_folder_eq, lookup_rename_feat_other; [apply lookup_F3_desc|].
    rewrite has_ext_under. apply desc_not_feature.
  Qed.

  (* files that are neither data files nor the descriptor nor the side file stay where they are *)
  Lemma lookup_in_folder_other x :
    has_ext e x = false -> x <> dn -> x <> under ty dn ->
    (forall j, fjson k = Some j -> x <> j /\ x <> under ty j) ->
    lookup x (in_folder k ty row F) = lookup x F.
  Proof.
    intros H N1 N2 NJ. rewrite in_folder_eq, lookup_rename_feat_other by exact H.
    assert (L2 : lookup x F2 = lookup x F).
    { unfold F2, F1. rewrite lookup_insert_neq, lookup_remove_neq; auto. }
    unfold F3. destruct (fjson k) as [j|] eqn:J; [|exact L2].
    destruct (NJ j eq_refl) as [A B].
    rewrite lookup_move_key.
    - destruct (lookup j F2); [|exact L2]. rewrite (neq_eqb _ _ A), (neq_eqb _ _ B). exact L2.
    - intros E. symmetry in E. revert E. apply under_neq_noslash. apply (json_no_slash k j J).
  Qed.

  (* the side json file follows *)
  Lemma lookup_in_folder_json j c :
    fjson k = Some j -> lookup j F = Some c -> lookup (under ty j) (in_folder k ty row F) = Some c.
  Proof.
    intros J E. rewrite in_folder_eq, lookup_rename_feat_other.
    2:{ rewrite has_ext_under. apply (json_not_feature k j J). }
    unfold F3. rewrite J.
    assert (NE : j <> under ty j) by (intros E'; symmetry in E'; revert E'; apply under_neq_noslash, (json_no_slash k j J)).
    rewrite lookup_move_key by exact NE.
    assert (L2 : lookup j F2 = lookup j F).
    { unfold F2, F1. rewrite lookup_insert_neq, lookup_remove_neq; [reflexivity | apply (json_not_desc k j J)|].
      intros E'. symmetry in E'. revert E'. apply under_neq_noslash, (json_no_slash k j J). }
    rewrite L2, E, eqb_refl. reflexivity.
  Qed.
End OneFolder.

(* ---- the types found in an upgraded folder *)
Lemma dedup_const (t : string) (l : list string) : (forall x, In x l -> x = t) -> l <> [] -> dedup l = [t].
Proof.
  intros A N. pose proof (dedup_NoDup l) as ND. pose proof (dedup_In l) as DI.
  destruct (dedup l) as [|a [|b r]] eqn:E.
  - destruct l as [|x l]; [contradiction|]. exfalso. apply (proj2 (DI x)). left; reflexivity.
  - f_equal. apply A, DI. left; reflexivity.
  - exfalso. assert (a = t) by (apply A, DI; left; reflexivity). assert (b = t) by (apply A, DI; right; left; reflexivity).
    subst. inversion ND; subst. apply H1. left; reflexivity.
Qed.

Definition tsel (k : fkind) (pc : string * content) : list string :=
  match cut_slash (fst pc) with
  | Some (c, r) => if eqb r (descname k) then [c] else []
  | None => []
  end.

Lemma ftypes_eq k G : ftypes k G = dedup (flat_map (tsel k) G).
Proof. reflexivity. Qed.

Lemma ftypes_single k ty (G : folder) :
  (forall q c, In q (keys G) -> cut_slash q = Some (c, descname k) -> c = ty) ->
  In (under ty (descname k)) (keys G) -> has_char "/" ty = false ->
  ftypes k G = [ty].
Proof.
  intros A I S. rewrite ftypes_eq. apply dedup_const.
  - intros x Hx. apply in_flat_map in Hx as [[q c] [Hq Hs]]. unfold tsel in Hs. cbn [fst] in Hs.
    destruct (cut_slash q) as [[c' r]|] eqn:E; [|contradiction].
    destruct (eqb_spec r (descname k)) as [->|]; [|contradiction]. destruct Hs as [<-|[]].
    apply (A q c'); [|exact E]. unfold keys. apply in_map_iff. exists (q, c). auto.
  - intros E. unfold keys in I. apply in_map_iff in I as [[q c] [Hq Hin]]. cbn in Hq. subst q.
    assert (In ty (flat_map (tsel k) G)).
    { apply in_flat_map. exists (under ty (descname k), c). split; [exact Hin|]. unfold tsel. cbn [fst].
      rewrite (cut_slash_under _ _ S), eqb_refl. left; reflexivity. }
    rewrite E in H. contradiction.
Qed.

(* hypothesis on a 1.0 feature folder: no file sits where a 1.1 descriptor file would be looked for *)
Definition no_descriptor_below (k : fkind) (F : folder) : Prop :=
  forall p c, In p (keys F) -> cut_slash p <> Some (c, descname k).

Lemma keys_in_folder k ty row F q :
  In q (keys (in_folder k ty row F)) ->
  exists p, q = rn ty (fext k) p /\
            (In p (keys F) \/ p = under ty (descname k) \/ exists j, fjson k = Some j /\ p = under ty j).
Proof.
  rewrite in_folder_eq, keys_rename_feat, in_map_iff. intros [p [<- Hp]]. exists p. split; [reflexivity|].
  assert (K2 : forall x, In x (keys (F2 k ty row F)) -> In x (keys F) \/ x = under ty (descname k)).
  { intros x Hx. unfold F2 in Hx. apply In_keys_insert in Hx as [->|Hx]; [auto|]. unfold F1 in Hx.
    apply In_keys_remove in Hx as [_ Hx]. auto. }
  unfold F3 in Hp. destruct (fjson k) as [j|] eqn:J.
  - apply In_keys_move_key in Hp as [->|[[_ Hp]|[_ Hp]]].
    + right; right. exists j. auto.
    + destruct (K2 _ Hp); auto.
    + destruct (K2 _ Hp); auto.
  - destruct (K2 _ Hp); auto.
Qed.

Lemma ftypes_in_folder k ty row F :
  no_descriptor_below k F -> has_char "/" ty = false -> ftypes k (in_folder k ty row F) = [ty].
Proof.
  intros ND S. apply ftypes_single; [|apply lookup_In_keys; rewrite lookup_in_folder_desc; discriminate|exact S].
  intros q c Hq Hc. apply keys_in_folder in Hq as [p [-> Hp]]. unfold rn in Hc.
  destruct (has_ext (fext k) p) eqn:X.
  - rewrite (cut_slash_under _ _ S) in Hc. congruence.
  - destruct Hp as [Hp|[->|[j [J ->]]]].
    + exfalso. exact (ND p c Hp Hc).
    + rewrite (cut_slash_under _ _ S) in Hc. congruence.
    + rewrite (cut_slash_under _ _ S) in Hc. congruence.
Qed.

Lemma keys_cp_folder k ty row F :
  keys (cp_folder k ty row F) = under ty (descname k) :: map (under ty) (List.filter (has_ext (fext k)) (keys F)).
Proof.
  unfold cp_folder, feat_files_cp. cbn [keys map fst]. f_equal.
  change (map fst (map (fun pc => (under ty (fst pc), snd pc)) (List.filter (fun pc => has_ext (fext k) (fst pc)) F)))
    with (keys (map (fun pc => (under ty (fst pc), snd pc)) (List.filter (fun pc => has_ext (fext k) (fst pc)) F))).
  rewrite keys_map, keys_filter. reflexivity.
Qed.

Lemma ftypes_cp_folder k ty row F : has_char "/" ty = false -> ftypes k (cp_folder k ty row F) = [ty].
Proof.
  intros S. apply ftypes_single; [|rewrite keys_cp_folder; left; reflexivity|exact S].
  intros q c Hq Hc. rewrite keys_cp_folder in Hq. destruct Hq as [<-|Hq].
  - rewrite (cut_slash_under _ _ S) in Hc. congruence.
  - apply in_map_iff in Hq as [p [<- _]]. rewrite (cut_slash_under _ _ S) in Hc. congruence.
Qed.

Lemma lookup_cp_folder_desc k ty row F : lookup (under ty (descname k)) (cp_folder k ty row F) = Some (desc11 k row).
Proof. unfold cp_folder. cbn [lookup]. rewrite eqb_refl. reflexivity. Qed.

Lemma lookup_cp_folder_data k ty row F x :
  has_ext (fext k) x = true -> lookup (under ty x) (cp_folder k ty row F) = lookup x F.
Proof.
  intros H. unfold cp_folder. cbn [lookup].
  assert (N : under ty x <> under ty (descname k)).
  { intros E. apply under_inj in E. subst x. rewrite desc_not_feature in H. discriminate. }
  rewrite (neq_eqb _ _ N). unfold feat_files_cp.
  rewrite (lookup_map_inj (under ty)); [|intros p _ E; apply under_inj in E; exact E].
  rewrite lookup_filter_keys, H. reflexivity.
Qed.

(* nothing but data files and the descriptor lands in the copy *)
Lemma lookup_cp_folder_only k ty row F q c :
  lookup q (cp_folder k ty row F) = Some c ->
  (q = under ty (descname k) /\ c = desc11 k row) \/
  (exists x, q = under ty x /\ has_ext (fext k) x = true /\ lookup x F = Some c).
Proof.
  unfold cp_folder. cbn [lookup]. destruct (eqb_spec q (under ty (descname k))) as [->|N].
  - intros [= <-]. left; auto.
  - intros H. right. assert (I : In q (keys (feat_files_cp ty (fext k) F))) by (apply lookup_In_keys; rewrite H; discriminate).
    unfold feat_files_cp in I. rewrite keys_map, keys_filter in I. apply in_map_iff in I as [x [<- Hx]].
    apply filter_In in Hx as [_ Hx]. exists x. split; [reflexivity|]. split; [exact Hx|].
    unfold feat_files_cp in H. rewrite (lookup_map_inj (under ty)) in H; [|intros p _ E; apply under_inj in E; exact E].
    rewrite lookup_filter_keys, Hx in H. exact H.
Qed.

(* ---- the written descriptor reads back as the row that was written *)
Lemma dtype_norm_fix d : memb d dtype_names = true -> dtype_norm d = Some d.
Proof.
  intros M. apply memb_In in M. cbn in M.
  repeat (destruct M as [<-|M]; [vm_compute; reflexivity|]). contradiction.
Qed.

Lemma dtype_norm_in s d : dtype_norm s = Some d -> memb d dtype_names = true.
Proof.
  unfold dtype_norm. set (b := if prefixb "np." s then drop 3 s else if prefixb "numpy." s then drop 6 s else s).
  destruct (memb b dtype_names) eqn:M; [intros [= <-]; exact M | discriminate].
Qed.

Lemma clean_dtype d : memb d dtype_names = true -> clean d = true.
Proof.
  intros M. apply memb_In in M. cbn in M.
  repeat (destruct M as [<-|M]; [vm_compute; reflexivity|]). contradiction.
Qed.

Definition good_row (k : fkind) (d : desc10) (kt : string) (a : args) : Prop :=
  clean (d_name d) = true /\ not_hash (d_name d) = true /\ memb (d_dtype d) dtype_names = true /\
  match k with KP => True | DS => clean kt = true /\ clean (a_dm a) = true | GF => clean (a_gm a) = true end.

Lemma config11_written k d kt a :
  good_row k d kt a ->
  match desc11 k (new_row k d kt a) with Txt segs => config11 k segs | Bin _ => None end = Some (new_row k d kt a).
Proof.
  intros [Cn [Hn [Md Cx]]]. unfold desc11.
  assert (R : rows [format_11; fhdr k; join ", " (new_row k d kt a); EmptyString] = [new_row k d kt a]).
  { rewrite (rows_cons_none _ _ row_format_11), (rows_cons_none _ _ (row_fhdr k)).
    rewrite (rows_cons_some _ (new_row k d kt a)); [rewrite (rows_cons_none _ _ row_empty); reflexivity|].
    apply row_of_line_join.
    - destruct k; cbn [new_row forallb]; rewrite Cn, (clean_dtype _ Md), clean_show; cbn [andb]; try reflexivity.
      + destruct Cx as [A B]. rewrite A, B. reflexivity.
      + rewrite Cx. reflexivity.
    - destruct k; cbn; lia.
    - destruct k; exact Hn. }
  unfold config11. rewrite R.
  destruct k; cbn [new_row List.length ncols Nat.eqb nth skipn]; rewrite parse_show, (dtype_norm_fix _ Md); reflexivity.
Qed.

(* the images whose data file is found under a prefix *)
Lemma data_of_ext imgs pfx pfx' e (G G' : folder) :
  (forall i, In i imgs -> lookup (pfx +++ i +++ e) G = lookup (pfx' +++ i +++ e) G') ->
  data_of imgs pfx e G = data_of imgs pfx' e G'.
Proof.
  intros H. unfold data_of. induction imgs as [|i l IH]; [reflexivity|]. cbn [flat_map].
  rewrite (H i (or_introl eq_refl)), IH; [reflexivity|]. intros j Hj. apply H. right; exact Hj.
Qed.

Definition images_ok (e : string) (imgs : list string) : Prop :=
  forall i, In i imgs -> has_ext e (i +++ e) = true.

Lemma feat_view11_upgraded k ty d kt a imgs F (G : folder) :
  good_row k d kt a -> images_ok (fext k) imgs -> has_char "/" ty = false ->
  ftypes k G = [ty] ->
  lookup (under ty (descname k)) G = Some (desc11 k (new_row k d kt a)) ->
  (forall x, has_ext (fext k) x = true -> lookup (under ty x) G = lookup x F) ->
  feat_view11 k imgs G = Some [(ty, new_row k d kt a, data_of imgs EmptyString (fext k) F)].
Proof.
  intros GR IO S FT LD LX. unfold feat_view11. rewrite FT. cbn [map_opt]. rewrite LD.
  pose proof (config11_written k d kt a GR) as C. unfold desc11 in *. rewrite C.
  do 3 f_equal. apply data_of_ext. intros i Hi. rewrite app_assoc_s.
  change (ty +++ "/" +++ i +++ fext k) with (under ty (i +++ fext k)). rewrite LX by (apply IO, Hi). reflexivity.
Qed.

(* ================================================================== 6. matches *)
Lemma flat_map_remove {B} (g : string * content -> list B) src (G : folder) :
  (forall c, g (src, c) = []) -> flat_map g (remove src G) = flat_map g G.
Proof.
  intros H. induction G as [|[p c] G IH]; [reflexivity|]. cbn [remove flat_map].
  destruct (eqb_spec src p) as [<-|N]; [rewrite H; exact IH | cbn [flat_map]; rewrite IH; reflexivity].
Qed.

Lemma flat_map_insert {B} (g : string * content -> list B) dst c (G : folder) :
  (forall c, g (dst, c) = []) -> flat_map g (insert dst c G) = flat_map g G.
Proof.
  intros H. induction G as [|[p c'] G IH]; cbn [insert flat_map]; [rewrite H; reflexivity|].
  destruct (eqb_spec dst p) as [<-|N]; cbn [flat_map]; [rewrite !H; reflexivity | rewrite IH; reflexivity].
Qed.

Lemma flat_map_move_key {B} (g : string * content -> list B) src dst (G : folder) :
  (forall c, g (src, c) = []) -> (forall c, g (dst, c) = []) -> flat_map g (move_key src dst G) = flat_map g G.
Proof.
  intros A Bq. unfold move_key. destruct (lookup src G); [|reflexivity].
  rewrite flat_map_insert, flat_map_remove; auto.
Qed.

Lemma pair_of_not_feature rel : has_ext mt_ext rel = false -> pair_of rel = None.
Proof. intros H. unfold pair_of. rewrite H. reflexivity. Qed.

Lemma match_entry_not_feature imgs ty rel c : has_ext mt_ext rel = false -> match_entry imgs ty rel c = [].
Proof. intros H. unfold match_entry. rewrite (pair_of_not_feature _ H). reflexivity. Qed.

Definition g10 (imgs : list string) (ty : string) (pc : string * content) := match_entry imgs ty (fst pc) (snd pc).
Definition g11 (imgs : list string) (pc : string * content) :=
  match cut_slash (fst pc) with Some (ty, rel) => match_entry imgs ty rel (snd pc) | None => [] end.

Lemma mt_view11_eq imgs G : mt_view11 imgs G = flat_map (g11 imgs) G. Proof. reflexivity. Qed.
Lemma mt_view10_eq ty imgs G : mt_view10 ty imgs G = flat_map (g10 imgs ty) G. Proof. reflexivity. Qed.

Lemma g11_not_feature imgs p c : has_ext mt_ext p = false -> g11 imgs (p, c) = [].
Proof.
  intros H. unfold g11. cbn [fst snd]. destruct (cut_slash p) as [[t r]|] eqn:E; [|reflexivity].
  apply match_entry_not_feature. rewrite (cut_slash_has_ext _ _ _ _ E). exact H.
Qed.

Lemma g11_rename imgs ty (G : folder) :
  has_char "/" ty = false ->
  flat_map (g11 imgs) (rename_feat ty mt_ext G) = flat_map (g10 imgs ty) G.
Proof.
  intros S. induction G as [|[p c] G IH]; [reflexivity|]. cbn [rename_feat map flat_map fst snd]. f_equal; [|exact IH].
  destruct (has_ext mt_ext p) eqn:X.
  - unfold g11. cbn [fst snd]. rewrite (cut_slash_under _ _ S). reflexivity.
  - rewrite (g11_not_feature _ _ _ X). unfold g10. cbn [fst snd]. symmetry. apply match_entry_not_feature, X.
Qed.

Lemma mt_view_inplace imgs ty (G : folder) :
  has_char "/" ty = false ->
  mt_view11 imgs (rename_feat ty mt_ext (move_key mt_json (under ty mt_json) G)) = mt_view10 ty imgs G.
Proof.
  intros S. rewrite mt_view11_eq, (g11_rename _ _ _ S), mt_view10_eq. apply flat_map_move_key.
  - intros c. apply match_entry_not_feature, mt_json_not_feature.
  - intros c. apply match_entry_not_feature. unfold g10. cbn [fst]. rewrite has_ext_under. apply mt_json_not_feature.
Qed.

Lemma mt_view_copy imgs ty (G : folder) :
  has_char "/" ty = false ->
  mt_view11 imgs (feat_files_cp ty mt_ext G) = mt_view10 ty imgs G.
Proof.
  intros S. rewrite mt_view11_eq, mt_view10_eq. unfold feat_files_cp.
  induction G as [|[p c] G IH]; [reflexivity|]. cbn [List.filter fst].
  destruct (has_ext mt_ext p) eqn:X; cbn [map flat_map fst snd].
  - rewrite IH. f_equal. unfold g11. cbn [fst snd]. rewrite (cut_slash_under _ _ S). reflexivity.
  - rewrite IH. unfold g10 at 2. cbn [fst snd]. rewrite (match_entry_not_feature _ _ _ _ X). reflexivity.
Qed.

(* ================================================================== 7. observations *)
Definition flat_pairs (ps : list (string * Z)) : list string := flat_map (fun ik => [fst ik; show_Z (snd ik)]) ps.
Definition obs_row11 (ty : string) (e : Z * list (string * Z)) : list string := show_Z (fst e) :: ty :: flat_pairs (snd e).

Lemma obs_line_eq ty e : obs_line ty e = join ", " (obs_row11 ty e).
Proof. reflexivity. Qed.

Definition images_clean (L : obs_map) : Prop := forall e ik, In e L -> In ik (snd e) -> clean (fst ik) = true.

Lemma not_hash_show z : not_hash (show_Z z) = true.
Proof.
  pose proof (dec_chars_show z) as D. pose proof (show_nonempty z) as N. unfold not_hash.
  destruct (show_Z z) as [|c r]; [contradiction|]. rewrite prefixb_hash_cons. cbn in D. apply andb_true_iff in D as [D _].
  destruct (Ascii.eqb_spec "#" c) as [<-|]; [discriminate | reflexivity].
Qed.

Lemma clean_flat_pairs ps : (forall ik, In ik ps -> clean (fst ik) = true) -> forallb clean (flat_pairs ps) = true.
Proof.
  induction ps as [|[i z] ps IH]; [reflexivity|]. intros H. cbn [flat_pairs flat_map app forallb fst snd].
  pose proof (H (i, z) (or_introl eq_refl)) as Hi. cbn [fst] in Hi. rewrite Hi, clean_show. cbn [andb]. apply IH. intros x Hx. apply H. right; exact Hx.
Qed.

Lemma row_of_obs_line ty e :
  clean ty = true -> (forall ik, In ik (snd e) -> clean (fst ik) = true) ->
  row_of_line (obs_line ty e) = Some (obs_row11 ty e).
Proof.
  intros Ct Ci. rewrite obs_line_eq. apply row_of_line_join.
  - unfold obs_row11. cbn [forallb]. rewrite clean_show, Ct. cbn [andb]. apply clean_flat_pairs, Ci.
  - cbn. lia.
  - apply not_hash_show.
Qed.

Lemma rows_obs_lines ty L :
  clean ty = true -> images_clean L -> rows (map (obs_line ty) L) = map (obs_row11 ty) L.
Proof.
  intros Ct Ci. induction L as [|e L IH]; [reflexivity|]. cbn [map].
  rewrite (rows_cons_some _ (obs_row11 ty e)).
  - rewrite IH; [reflexivity|]. intros x ik Hx. apply Ci. right; exact Hx.
  - apply row_of_obs_line; [exact Ct|]. intros ik. apply Ci. left; reflexivity.
Qed.

Lemma rows_obs_file11 ty m :
  clean ty = true -> images_clean (sortZ m) ->
  match obs_file11 ty m with Txt segs => rows segs | Bin _ => [] end = map (obs_row11 ty) (sortZ m).
Proof.
  intros Ct Ci. unfold obs_file11. cbn [app].
  rewrite (rows_cons_none _ _ row_format_11), (rows_cons_none _ _ row_obs_hdr), rows_app, (rows_obs_lines _ _ Ct Ci).
  rewrite (rows_cons_none _ _ row_empty). cbn. apply app_nil_r.
Qed.

Lemma version_obs_file11 ty m :
  match obs_file11 ty m with Txt segs => version_of_file segs | Bin _ => None end = Some version_11.
Proof. exact version_format_11. Qed.

Lemma pair_up_f_flat keep ps : pair_up_f keep (flat_pairs ps) = Some (List.filter (fun ik => keep (fst ik)) ps).
Proof.
  induction ps as [|[i z] ps IH]; [reflexivity|]. cbn [flat_pairs flat_map app fst snd pair_up_f List.filter].
  fold (flat_pairs ps). destruct (keep i); [rewrite parse_show, IH; reflexivity | exact IH].
Qed.

Lemma length_flat_pairs ps : ps <> [] -> (1 <? List.length (flat_pairs ps))%nat = true.
Proof. destruct ps as [|[i z] ps]; [contradiction|]. intros _. reflexivity. Qed.

Lemma insert_fresh {K V} `{EqDec K} (k : K) (v : V) (m : list (K * V)) : lookup k m = None -> insert k v m = m ++ [(k, v)].
Proof.
  induction m as [|[k' v'] m IH]; cbn; [reflexivity|]. destruct (eqb k k'); [discriminate|]. intros E. rewrite IH; auto.
Qed.

Definition obs_sel (ty : string) (keep : string -> bool) (e : Z * list (string * Z)) : list (obs_key * list (string * Z)) :=
  match List.filter (fun ik => keep (fst ik)) (snd e) with
  | [] => []
  | ps => [((fst e, ty), ps)]
  end.

Lemma lookup_app_none {K V} `{EqDec K} (k : K) (a b : list (K * V)) :
  lookup k a = None -> lookup k b = None -> lookup k (a ++ b) = None.
Proof. induction a as [|[k' v'] a IH]; cbn; [auto|]. destruct (eqb k k'); [discriminate | auto]. Qed.

Lemma obs_collect11_written imgs_of ty i0 ims (L : obs_map) :
  imgs_of ty = i0 :: ims ->
  (forall e, In e L -> snd e <> []) -> NoDup (map fst L) ->
  forall acc, (forall e, In e L -> lookup (fst e, ty) acc = None) ->
  obs_collect11 imgs_of (map (obs_row11 ty) L) acc
  = Some (acc ++ flat_map (obs_sel ty (fun i => memb i (i0 :: ims))) L).
Proof.
  intros I NE. induction L as [|e L IH]; intros ND acc Fr.
  - cbn. rewrite app_nil_r. reflexivity.
  - inversion ND as [|? ? Nn NDL]; subst. cbn [map obs_collect11 obs_row11]. rewrite I, parse_show.
    rewrite (length_flat_pairs _ (NE e (or_introl eq_refl))), pair_up_f_flat.
    cbn [flat_map]. unfold obs_sel at 1.
    assert (NE' : forall x, In x L -> snd x <> []) by (intros x Hx; apply NE; right; exact Hx).
    destruct (List.filter (fun ik => memb (fst ik) (i0 :: ims)) (snd e)) as [|q ps] eqn:Fl.
    + cbn [app]. apply IH; [exact NE' | exact NDL|]. intros x Hx. apply Fr. right; exact Hx.
    + unfold append_at. rewrite (Fr e (or_introl eq_refl)), (insert_fresh _ _ _ (Fr e (or_introl eq_refl))).
      rewrite IH; [rewrite <- app_assoc; reflexivity | exact NE' | exact NDL |].
      intros x Hx. apply lookup_app_none; [apply Fr; right; exact Hx|]. cbn [lookup].
      assert (Nx : (fst x, ty) <> (fst e, ty)).
      { intros [= E]. apply Nn. rewrite <- E. apply in_map. exact Hx. }
      rewrite (neq_eqb _ _ Nx). reflexivity.
Qed.

Lemma obs_collect11_written_empty imgs_of ty (L : obs_map) acc :
  imgs_of ty = [] -> obs_collect11 imgs_of (map (obs_row11 ty) L) acc = Some acc.
Proof.
  intros I. induction L as [|e L IH]; [reflexivity|]. cbn [map obs_collect11 obs_row11]. rewrite I. exact IH.
Qed.

(* invariants of the collected observations *)
Definition obs_inv (m : obs_map) : Prop := NoDup (map fst m) /\ forall e, In e m -> snd e <> [].

Lemma lookup_In_some {V} (k : Z) (v : V) (m : list (Z * V)) : lookup k m = Some v -> In (k, v) m.
Proof.
  induction m as [|[k' v'] m IH]; cbn; [discriminate|]. destruct (eqb_spec k k') as [->|N]; [intros [= ->]; auto | auto].
Qed.

Lemma In_insert {V} (k : Z) (v : V) (m : list (Z * V)) e : In e (insert k v m) -> e = (k, v) \/ In e m.
Proof.
  induction m as [|[k' v'] m IH]; cbn; [intros [<-|[]]; auto|].
  destruct (eqb_spec k k') as [->|N]; cbn; intros [<-|H]; auto. destruct (IH H); auto.
Qed.

Lemma obs_inv_append z ps m : obs_inv m -> ps <> [] -> obs_inv (append_at z ps m).
Proof.
  intros [ND NE] P. unfold append_at. split.
  - destruct (lookup z m); apply (wf_insert (V := list (string * Z))); exact ND.
  - intros e He. destruct (lookup z m) as [l|] eqn:E; apply In_insert in He as [->|He]; cbn; auto.
    destruct l; cbn; [exact P | discriminate].
Qed.

Lemma obs_collect_inv rs : forall m m', obs_inv m -> obs_collect rs m = Some m' -> obs_inv m'.
Proof.
  induction rs as [|r rs IH]; intros m m' I; cbn [obs_collect]; [intros [= <-]; exact I|].
  destruct (obs_row10 r) as [[z ps]|]; [|discriminate]. apply IH.
  destruct ps; [exact I | apply obs_inv_append; [exact I | discriminate]].
Qed.

Lemma In_insZ {V} (e x : Z * V) l : In x (insZ e l) <-> x = e \/ In x l.
Proof.
  induction l as [|y l IH]; cbn; [intuition congruence|]. destruct (fst e <=? fst y)%Z; cbn; [intuition congruence|].
  rewrite IH. intuition congruence.
Qed.

Lemma In_sortZ {V} (x : Z * V) l : In x (sortZ l) <-> In x l.
Proof. induction l as [|e l IH]; cbn; [tauto|]. rewrite In_insZ, IH. intuition congruence. Qed.

Lemma NoDup_insZ {V} (e : Z * V) l : NoDup (map fst l) -> ~ In (fst e) (map fst l) -> NoDup (map fst (insZ e l)).
Proof.
  induction l as [|y l IH]; cbn; intros ND N; [constructor; [tauto | constructor]|].
  destruct (fst e <=? fst y)%Z; cbn; [constructor; assumption|].
  inversion ND; subst. constructor.
  - rewrite in_map_iff. intros [x [Ex Hx]]. apply In_insZ in Hx as [->|Hx]; [apply N; left; congruence|].
    apply H1. rewrite <- Ex. apply in_map. exact Hx.
  - apply IH; [assumption|]. intros H. apply N. right; exact H.
Qed.

Lemma obs_inv_sortZ m : obs_inv m -> obs_inv (sortZ m).
Proof.
  intros [ND NE]. split; [|intros e He; apply NE, (proj1 (In_sortZ e m)), He].
  clear NE. induction m as [|e m IH]; [constructor|]. cbn [sortZ]. cbn in ND. inversion ND; subst.
  apply NoDup_insZ; [apply IH; assumption|]. rewrite in_map_iff. intros [x [Ex Hx]]. apply (proj1 (In_sortZ x m)) in Hx.
  apply H1. rewrite <- Ex. apply in_map. exact Hx.
Qed.

Lemma map_flat_map {A B C} (f : B -> C) (g : A -> list B) l : map f (flat_map g l) = flat_map (fun x => map f (g x)) l.
Proof. induction l as [|x l IH]; [reflexivity|]. cbn. rewrite map_app, IH. reflexivity. Qed.

(* what the loader reads from the written observations = the 1.0 observations, merged, filtered, labelled *)
Lemma obs_roundtrip ty kpims rs m :
  clean ty = true -> obs_collect rs [] = Some m -> images_clean (sortZ m) ->
  forall imgs_of, imgs_of ty = kpims ->
  option_map flat_obs
    (obs_collect11 imgs_of (match obs_file11 ty m with Txt segs => rows segs | Bin _ => [] end) [])
  = obs_view10 ty kpims rs.
Proof.
  intros Ct C Ci imgs_of I. rewrite (rows_obs_file11 _ _ Ct Ci). unfold obs_view10. rewrite C.
  assert (Inv : obs_inv (sortZ m)).
  { apply obs_inv_sortZ. apply (obs_collect_inv rs [] m); [split; [constructor | intros e []] | exact C]. }
  destruct kpims as [|i0 ims].
  - rewrite (obs_collect11_written_empty _ _ _ _ I). cbn [option_map flat_obs map]. f_equal.
    assert (Z0 : forall l : list (string * Z), List.filter (fun ik => memb (fst ik) []) l = []).
    { induction l as [|x l IHl]; [reflexivity | exact IHl]. }
    generalize (sortZ m). intros L0. induction L0 as [|e L0 IH0]; [reflexivity|]. cbn [flat_map]. rewrite <- IH0, Z0. reflexivity.
  - destruct Inv as [ND NE]. rewrite (obs_collect11_written _ _ _ _ _ I NE ND []); [|reflexivity].
    cbn [app option_map]. f_equal. unfold flat_obs. rewrite map_flat_map. apply flat_map_ext. intros e.
    unfold obs_sel. destruct (List.filter (fun ik => memb (fst ik) (i0 :: ims)) (snd e)); reflexivity.
Qed.
