(* Props/C01.v — property C01: saving a dataset and loading it back returns the same dataset; saving the
   reloaded dataset again writes byte-identical text files.
   Only statements; every proof is a lemma of Proofs/PCodec*.v, instantiated with the tables that
   harness/tables/codec.py read from the repository under test on this run (Gen/Tcodec.v).

   Reading guide
     O : fops            the float lexer (repr, float(), '%.10f'), any that satisfies the contracts [fops_ok]
     d : dataset O       18 parts: 13 tables (sensors, rigs, trajectories, 9 record kinds, observations),
                         keypoints / descriptors / global_features, matches, points3d; each an [option]
     wf O d              boolean well-formedness (Model/MCodec.v): strings comma-free, newline-free, trimmed,
                         not starting with '#'; floats finite; keys unique; references resolved; pose groups
                         whole or absent; parts the format can represent (sensors present, ...);
                         AND the image paths of match pairs are in os.path.normpath form ([pair_normalised]).
                         That last condition is NOT implied by the property's quantifier: for match pairs on
                         other spellings (./a.jpg, a//b.jpg, x/../a.jpg) the code as it is loses the pair on
                         reload - a KNOWN FINDING of C01 (known_findings.txt), refuted below
                         ([C01_asis_matches_refuted]); [wf_loose] is [wf] without that condition.
     save / load         models of kapture_to_dir / kapture_from_dir, the code AS IT IS; [tree] = the files
                         ([load_ideal_matches]: the same with match pairs kept in their saved spelling)
     canon O d           d with (i) each table's rows in the order the writer sorts them, (ii) a missing
                         sensor name replaced by "", (iii) point coordinates passed through '%.10f'
     ds_equiv            tables and the point cloud equal; image sets and match sets have the same members *)
From Coq Require Import List Bool String Ascii ZArith Permutation.
From KV Require Import Eqb Str.
From KV.Gen Require Import Tcodec.
From KV.Model Require Import MCodecTxt MCodec.
From KV.Proofs Require Import PCodecTxt PCodec PCodecData PCodecObs PCodecToy.
Import ListNotations.
Local Open Scope list_scope.

(* --- facts about the header lines / paddings of the tree under test: finite, decided by computation *)
Lemma tables_ok_now : tables_ok = true.
Proof. vm_compute. reflexivity. Qed.

(* --- 1. load (save d) is the canonical form of d, for EVERY well-formed dataset and every presence pattern *)
Theorem C01_load_save : forall O, fops_ok O -> forall d : dataset O, wf O d = true ->
  exists d', load O (save O d) = Ok d' /\ ds_equiv O d' (canon O d).
Proof. intros O OK d W. exact (load_save O OK tables_ok_now d W). Qed.
Print Assumptions C01_load_save.

(* --- 2. what the canonical form may differ in, and nothing else:
       a cell is unchanged, or it is a missing sensor name that becomes "", or it is a point coordinate that
       becomes float('%.10f' % x), which is within 1e-10 of x; rows are only reordered *)
Theorem C01_canon_cell : forall O ty (c : cell O),
  canon_cell O ty c = c \/
  (ty = TName /\ c = CNone /\ canon_cell O ty c = CStr []) \/
  (ty = TF10 /\ exists f, c = CFlt f /\ canon_cell O ty c = CFlt (round10 O f)).
Proof.
  intros O ty c. destruct ty, c; cbn; auto.
  right; right. split; [reflexivity|]. exists f. auto.
Qed.
Print Assumptions C01_canon_cell.

Theorem C01_points_within_1e10 : forall O, fops_ok O -> forall f, fin O f = true -> close10 O (round10 O f) f = true.
Proof. intros O OK. exact (round10_close O OK). Qed.
Print Assumptions C01_points_within_1e10.

Theorem C01_canon_rows_permuted : forall O f (rows : table O),
  Permutation (canon_table O (fk_of f) rows) (map (canon_row O (fk_schema (fk_of f))) rows).
Proof. intros O f rows. unfold canon_table. apply Permutation_map, sort_rows_perm. Qed.
Print Assumptions C01_canon_rows_permuted.

(* --- 3. absent parts stay absent and present parts stay present *)
Theorem C01_presence_preserved : forall O, fops_ok O -> forall d d' : dataset O, wf O d = true ->
  load O (save O d) = Ok d' ->
  (forall f, is_some (d_tab O d' f) = is_some (d_tab O d f)) /\
  (forall k, is_some (d_feat O d' k) = is_some (d_feat O d k)) /\
  is_some (d_matches O d') = is_some (d_matches O d) /\
  is_some (d_p3d O d') = is_some (d_p3d O d).
Proof. intros O OK d d' W. exact (presence_preserved O OK tables_ok_now d W d'). Qed.
Print Assumptions C01_presence_preserved.

(* no file is written for an absent part *)
Theorem C01_absent_not_written : forall O (d : dataset O),
  (forall f, d_tab O d f = None -> t_tab (save O d) f = None) /\
  (d_p3d O d = None -> t_p3d (save O d) = None) /\
  (forall k, d_feat O d k = None -> t_cfg (save O d) k = []).
Proof.
  intros O d. repeat split.
  - intros f E. cbn. rewrite E. reflexivity.
  - intro E. cbn. rewrite E. reflexivity.
  - intros k E. cbn. rewrite E. reflexivity.
Qed.
Print Assumptions C01_absent_not_written.

(* --- 4. saving the reloaded dataset produces byte-identical text files *)
Theorem C01_resave_identical : forall O, fops_ok O -> forall d d' : dataset O, wf O d = true ->
  load O (save O d) = Ok d' ->
  (forall f, t_tab (save O d') f = t_tab (save O d) f) /\
  t_p3d (save O d') = t_p3d (save O d) /\
  (forall k, t_cfg (save O d') k = t_cfg (save O d) k).
Proof. intros O OK d d' W. exact (resave_identical O OK tables_ok_now d W d'). Qed.
Print Assumptions C01_resave_identical.

(* --- 5. nested rigs: a rig member is kept iff it is a sensor or the id of any rig of the file - whatever the
       order in which the rigs were inserted (parent first is what a top-down construction writes) *)
Theorem C01_nested_rigs_any_order : forall O, fops_ok O -> forall sids (rows : table O),
  table_wf O fk_rigs rows = true ->
  (forall r, In r rows -> ~ In (key1 O r) sids /\
                          (In (dev_of O fk_rigs r) sids \/ In (dev_of O fk_rigs r) (map (key1 O) rows))) ->
  read_rigs O sids (save_table O fk_rigs rows) = Ok (canon_table O fk_rigs rows, map (key1 O) rows).
Proof. intros O OK. exact (read_rigs_save O OK tables_ok_now). Qed.
Print Assumptions C01_nested_rigs_any_order.

(* --- 6. observations: observations.txt has one line per (point3d_id, keypoints_type).  Whatever number of lines share
       a point id (a 3-D point seen through several kinds of keypoints), the reloaded table is a permutation of the
       saved one, and for EVERY point id and EVERY keypoints type the recorded (image, feature) list is the same -
       in particular no kind of a point displaces another kind of the same point. *)
Theorem C01_observations_every_kind_kept : forall O, fops_ok O -> forall (d d' : dataset O) rows, wf O d = true ->
  load O (save O d) = Ok d' -> d_tab O d FObs = Some rows ->
  exists rows', d_tab O d' FObs = Some rows' /\ Permutation rows' rows /\
                forall pid kt, obs_of O pid kt rows' = obs_of O pid kt rows.
Proof. intros O OK d d' rows W. exact (observations_kept O OK tables_ok_now d W d' rows). Qed.
Print Assumptions C01_observations_every_kind_kept.

(* --- 7. why the key must be the pair: a reader that stores each line with  observations[point3d_id] = {kind: pairs}
       ([read_obs_point_keyed], NOT the code) returns strictly fewer rows than were saved for EVERY well-formed table
       in which two rows share a point id - the whole class of datasets with a point seen through two kinds *)
Theorem C01_obs_point_keyed_loses : forall O, fops_ok O -> forall rows : table O,
  table_wf O fk_obs rows = true -> keys_nodup O 1 rows = false ->
  exists rows', read_obs_point_keyed O (save_table O fk_obs rows) = Ok rows' /\ List.length rows' < List.length rows.
Proof.
  intros O OK rows W D. destruct (table_wf_inv O fk_obs rows W) as [HW _].
  exact (obs_point_keyed_loses O OK tables_ok_now rows HW D).
Qed.
Print Assumptions C01_obs_point_keyed_loses.

(* --- non-vacuity: the contracts are satisfiable ([toy]) and a dataset with all 18 parts is well formed *)
Definition S (s : string) : cell toy := CStr (t_of s).
Definition Fz (z : Z) : cell toy := @CFlt toy z.
Local Open Scope string_scope.
Local Open Scope Z_scope.
Definition ex_tabs (f : tfile) : option (table toy) :=
  match f with
  | FSensors => Some [[S "cam0"; CNone; S "camera"; S "UNKNOWN_CAMERA"; S "640"; S "480"];
                      [S "d0"; S "depth cam"; S "depth"; S "UNKNOWN_CAMERA"; S "640"; S "480"];
                      [S "lid"; S ""; S "lidar"]; [S "wf"; S ""; S "wifi"]; [S "bt"; S ""; S "bluetooth"];
                      [S "gps"; S "g"; S "gnss"; S "EPSG:4326"]; [S "acc"; S ""; S "accelerometer"];
                      [S "gyr"; S ""; S "gyroscope"]; [S "mag"; S ""; S "magnetic"]]
  | FRigs => Some [[S "car"; S "rig"; Fz 1; Fz 0; Fz 0; Fz 0; Fz 0; Fz 0; Fz 2];      (* parent rig first *)
                   [S "rig"; S "cam0"; Fz 1; Fz 0; Fz 0; Fz 0; CNone; CNone; CNone]]
  | FTraj => Some [[CInt 5; S "rig"; CNone; CNone; CNone; CNone; Fz 1; Fz 2; Fz 3];
                   [CInt (-3); S "cam0"; Fz 1; Fz 0; Fz 0; Fz 0; Fz (-7); Fz 8; Fz 9]]
  | FRec RCamera => Some [[CInt 5; S "cam0"; S "a b/img 1.jpg"]; [CInt 1; S "cam0"; S "img0.jpg"]]
  | FRec RDepth => Some [[CInt 5; S "d0"; S "d.depth"]]
  | FRec RLidar => Some [[CInt 5; S "lid"; S "p.pcd"]]
  | FRec RWifi => Some [[CInt 5; S "wf"; S "bssid1"; CInt 2400; Fz (-50); S "my net"; CInt 0; CInt 0]]
  | FRec RBluetooth => Some [[CInt 5; S "bt"; S "addr"; Fz (-40); S ""]]
  | FRec RGnss => Some [[CInt 5; S "gps"; Fz 1; Fz 2; Fz 3; CInt 99; Fz 0]]
  | FRec RAccel => Some [[CInt 5; S "acc"; Fz 1; Fz 2; Fz 3]]
  | FRec RGyro => Some [[CInt 5; S "gyr"; Fz 1; Fz 2; Fz 3]]
  | FRec RMag => Some [[CInt 5; S "mag"; Fz 1; Fz 2; Fz 3]]
  | FObs => Some [[CInt 0; S "kp2"; S "img0.jpg"; CInt 7; S "a b/img 1.jpg"; CInt 1];   (* point 0 through two kinds *)
                  [CInt 4; S "kp2"; S "img0.jpg"; CInt 0];
                  [CInt 0; S "kp"; S "img0.jpg"; CInt 7]]
  end.
Definition ex_data : dataset toy :=
  {| d_tab := ex_tabs;
     d_feat := fun k => match k with
                        | KKeypoints => Some [{| fs_key := t_of "kp"; fs_cfg := [S "sift"; S "float32"; CInt 4];
                                                 fs_images := [t_of "img0.jpg"] |};
                                              {| fs_key := t_of "kp2"; fs_cfg := [S "r2d2"; S "float32"; CInt 2];
                                                 fs_images := [t_of "a b/img 1.jpg"; t_of "img0.jpg"] |}]
                        | KDescriptors => Some [{| fs_key := t_of "desc"; fs_cfg := [S "sift"; S "uint8"; CInt 128; S "kp"; S "L2"];
                                                   fs_images := [t_of "img0.jpg"; t_of "a b/img 1.jpg"] |}]
                        | KGlobal => Some [{| fs_key := t_of "gf"; fs_cfg := [S "netvlad"; S "float32"; CInt 4096; S "L2"];
                                              fs_images := [] |}]
                        end;
     d_matches := Some [(t_of "kp", [(t_of "a b/img 1.jpg", t_of "img0.jpg")])];
     d_p3d := Some (3%nat, [[Fz 1; Fz 2; Fz 3]]) |}.

(* observations on a load result, computed entirely by vm_compute *)
Definition loaded_p3d {O} (r : result (dataset O)) : option (nat * table O) :=
  match r with Ok d' => d_p3d O d' | Err => None end.
Definition loaded_tab {O} (r : result (dataset O)) (f : tfile) : option (option (table O)) :=
  match r with Ok d' => Some (d_tab O d' f) | Err => None end.

Example C01_example : fops_ok toy /\ wf toy ex_data = true /\
  loaded_p3d (load toy (save toy ex_data)) = Some (3%nat, [[Fz 1; Fz 2; Fz 3]]) /\
  loaded_tab (load toy (save toy ex_data)) FTraj =
    Some (Some [[CInt (-3); S "cam0"; Fz 1; Fz 0; Fz 0; Fz 0; Fz (-7); Fz 8; Fz 9];
                [CInt 5; S "rig"; CNone; CNone; CNone; CNone; Fz 1; Fz 2; Fz 3]]) /\
  loaded_tab (load toy (save toy ex_data)) FRigs = Some (ex_tabs FRigs) /\
  loaded_tab (load toy (save toy ex_data)) FObs =
    Some (Some [[CInt 0; S "kp"; S "img0.jpg"; CInt 7];
                [CInt 0; S "kp2"; S "img0.jpg"; CInt 7; S "a b/img 1.jpg"; CInt 1];
                [CInt 4; S "kp2"; S "img0.jpg"; CInt 0]]).
Proof.      (* [vm_cast_no_check]: each equation is evaluated once, by the kernel's VM, at Qed *)
  split; [exact toy_ok|].
  split; [vm_cast_no_check (eq_refl true)|].
  split; [vm_cast_no_check (@eq_refl (option (nat * table toy)) (Some (3%nat, [[Fz 1; Fz 2; Fz 3]])))|].
  split; [vm_cast_no_check (@eq_refl (option (option (table toy)))
            (Some (Some [[CInt (-3); S "cam0"; Fz 1; Fz 0; Fz 0; Fz 0; Fz (-7); Fz 8; Fz 9];
                         [CInt 5; S "rig"; CNone; CNone; CNone; CNone; Fz 1; Fz 2; Fz 3]])))|].
  split; [vm_cast_no_check (@eq_refl (option (option (table toy))) (Some (ex_tabs FRigs)))|].
  vm_cast_no_check (@eq_refl (option (option (table toy)))
    (Some (Some [[CInt 0; S "kp"; S "img0.jpg"; CInt 7];
                 [CInt 0; S "kp2"; S "img0.jpg"; CInt 7; S "a b/img 1.jpg"; CInt 1];
                 [CInt 4; S "kp2"; S "img0.jpg"; CInt 0]]))).
Qed.

(* --- the behaviour before the repairs is refuted (fixes/C01-roundtrip-empty-parts.patch):
       (a) an empty XYZ-only point cloud came back with 6 columns (points3d_from_file tested the first line
           instead of the second);  (b) an empty records_gnss part came back absent when no gnss sensor is
           declared *)
Definition only_sensors_and (p3d : option (nat * table toy)) (gnss : option (table toy)) : dataset toy :=
  {| d_tab := fun f => match f with FSensors => Some [] | FRec RGnss => gnss | _ => None end;
     d_feat := fun _ => None; d_matches := None; d_p3d := p3d |}.

Lemma C01_legacy_refuted :
  (exists d, wf toy d = true /\ d_p3d toy d = Some (3%nat, []) /\
             loaded_p3d (load_legacy toy (save toy d)) = Some (6%nat, []) /\
             loaded_p3d (load toy (save toy d)) = Some (3%nat, [])) /\
  (exists d, wf toy d = true /\ d_tab toy d (FRec RGnss) = Some [] /\
             loaded_tab (load_legacy toy (save toy d)) (FRec RGnss) = Some None /\
             loaded_tab (load toy (save toy d)) (FRec RGnss) = Some (Some [])).
Proof.
  split.
  - exists (only_sensors_and (Some (3%nat, [])) None). repeat split; vm_compute; reflexivity.
  - exists (only_sensors_and None (Some [])). repeat split; vm_compute; reflexivity.
Qed.

(* --- KNOWN FINDING (not repaired): the code as it is re-derives match pair names from the normalised match file
       paths and filters them against the raw image names, so a pair on an image path that is not in normpath
       form is lost on reload.  Witness: two images "./a.jpg", "b.jpg" and one match pair between them; the
       dataset is [wf_loose] but not [wf]; [load] returns an empty match set, the ideal loader returns the pair. *)
Definition loaded_matches {O} (r : result (dataset O)) : option (option (list (txt * list (txt * txt)))) :=
  match r with Ok d' => Some (d_matches O d') | Err => None end.
Definition nonnorm_data : dataset toy :=
  {| d_tab := fun f => match f with
                       | FSensors => Some [[S "cam"; CNone; S "camera"; S "UNKNOWN_CAMERA"; S "640"; S "480"]]
                       | FRec RCamera => Some [[CInt 0; S "cam"; S "./a.jpg"]; [CInt 1; S "cam"; S "b.jpg"]]
                       | _ => None
                       end;
     d_feat := fun _ => None;
     d_matches := Some [(t_of "kp", [(t_of "./a.jpg", t_of "b.jpg")])];
     d_p3d := None |}.

Lemma C01_asis_matches_refuted :
  wf_loose toy nonnorm_data = true /\ wf toy nonnorm_data = false /\
  loaded_matches (load toy (save toy nonnorm_data)) = Some (Some [(t_of "kp", [])]) /\
  loaded_matches (load_ideal_matches toy (save toy nonnorm_data)) = Some (d_matches toy nonnorm_data) /\
  d_matches toy (canon_asis toy nonnorm_data) = Some [(t_of "kp", [])].
Proof. repeat split; vm_compute; reflexivity. Qed.

(* --- the key of an observation row is the PAIR (point3d_id, keypoints_type).  A reader keyed by the point id alone
       (each line stored with  observations[point3d_id] = {kind: pairs}) is NOT what the theorems above are about:
       on a well-formed table in which point 0 is seen through "r2d2" and "sift" it keeps only the line read last,
       while the reader of the code ([read_obs]) returns the three rows. *)
Definition obs_two_kinds : table toy :=
  [[CInt 0; S "sift"; S "a.jpg"; CInt 0; S "b.jpg"; CInt 1]; [CInt 0; S "r2d2"; S "a.jpg"; CInt 2; S "b.jpg"; CInt 0];
   [CInt 1; S "sift"; S "a.jpg"; CInt 1]].

Definition obs_two_kinds_point_keyed : table toy :=
  [[CInt 0; S "sift"; S "a.jpg"; CInt 0; S "b.jpg"; CInt 1]; [CInt 1; S "sift"; S "a.jpg"; CInt 1]].

Lemma C01_obs_point_keyed_refuted :
  table_wf toy fk_obs obs_two_kinds = true /\
  read_obs toy None (save_table toy fk_obs obs_two_kinds) =
    Ok [[CInt 0; S "r2d2"; S "a.jpg"; CInt 2; S "b.jpg"; CInt 0]; [CInt 0; S "sift"; S "a.jpg"; CInt 0; S "b.jpg"; CInt 1];
        [CInt 1; S "sift"; S "a.jpg"; CInt 1]] /\
  read_obs_point_keyed toy (save_table toy fk_obs obs_two_kinds) = Ok obs_two_kinds_point_keyed /\
  obs_of toy (CInt 0) (t_of "r2d2") obs_two_kinds = Some [S "a.jpg"; CInt 2; S "b.jpg"; CInt 0] /\
  obs_of toy (CInt 0) (t_of "r2d2") obs_two_kinds_point_keyed = None.
Proof.      (* [vm_cast_no_check]: each equation is evaluated once, by the kernel's VM, at Qed *)
  split; [vm_cast_no_check (eq_refl true)|].
  split; [vm_cast_no_check (@eq_refl (result (table toy))
            (Ok [[CInt 0; S "r2d2"; S "a.jpg"; CInt 2; S "b.jpg"; CInt 0]; [CInt 0; S "sift"; S "a.jpg"; CInt 0; S "b.jpg"; CInt 1];
                 [CInt 1; S "sift"; S "a.jpg"; CInt 1]]))|].
  split; [vm_cast_no_check (@eq_refl (result (table toy)) (Ok obs_two_kinds_point_keyed))|].
  split; [vm_cast_no_check (@eq_refl (option (row toy)) (Some [S "a.jpg"; CInt 2; S "b.jpg"; CInt 0]))|].
  vm_cast_no_check (@eq_refl (option (row toy)) None).
Qed.

Example C01_obs_two_kinds_share_a_point : keys_nodup toy 1 obs_two_kinds = false /\ keys_nodup toy 2 obs_two_kinds = true.
Proof. split; [vm_cast_no_check (eq_refl false)|vm_cast_no_check (eq_refl true)]. Qed.
