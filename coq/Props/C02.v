(* Props/C02.v — property C02: the text files the library writes follow the published kapture 1.1 format,
   and every specification-conformant file, however it is laid out, loads to the content the
   specification assigns to it.
   Only statements; proofs are lemmas of Proofs/PCodec*.v, instantiated with Gen/Tcodec.v (header lines
   of the writers, syntax lines of kapture_format.adoc, record dataclass fields: regenerated on every run).

   Reading guide
     spec_read O sch t     the reader written from the specification alone: first line is the version line;
                           lines starting with '#' and blank lines are ignored; every other line is split on
                           commas, fields trimmed, and must have exactly the typed columns [sch], in the
                           documented order; returns the rows in file order
     save_table fk rows    model of the library's writer for file kind fk (header, ', ' separator, rjust
                           padding, str(v) fields, rows sorted as the writer sorts them)
     read_table fk ids t   model of the library's reader (+ optional device id filter, dict insertion)
     render_items items    ANY layout: per row blanks before/after every field; comment lines and blank lines
                           anywhere; "\n" or "\r\n" per line                                            *)
From Coq Require Import List Bool String Ascii NArith ZArith Permutation.
From KV Require Import Eqb Str.
From KV.Gen Require Import Tcodec.
From KV.Model Require Import MCodecTxt MCodec.
From KV.Proofs Require Import PCodecTxt PCodec PCodecData PCodecToy.
Import ListNotations.
Local Open Scope list_scope.

Lemma tables_ok_now : tables_ok = true.
Proof. vm_compute. reflexivity. Qed.

(* ------------------------------------------------------------------------------------------------
   1. COLUMN ORDER: for every file the columns of the header line the writer emits, the columns of the
      syntax line of kapture_format.adoc and the columns of the model are the same names in the same
      order; the schema has one type per column; the record dataclasses declare exactly the data
      columns with the types of the schema.  Decided by computation over the generated tables: fails
      to compile the day a writer, the specification or a dataclass reorders / renames a column. *)
Definition file_names : list string :=
  ["sensors.txt"; "rigs.txt"; "trajectories.txt"; "records_camera.txt"; "records_depth.txt"; "records_lidar.txt";
   "records_wifi.txt"; "records_bluetooth.txt"; "records_gnss.txt"; "records_accelerometer.txt";
   "records_gyroscope.txt"; "records_magnetic.txt"; "observations.txt"; "keypoints.txt"; "descriptors.txt";
   "global_features.txt"]%string.
Definition strs_eqb (a b : list string) : bool := @eqb (list string) _ a b.
Definition opt_cols (o : option string) : list string := match o with Some l => line_cols l | None => [] end.

Definition schema_of_name (n : string) : schema :=
  let fks := map fk_of all_tfiles ++ map fk_feat all_featkinds in
  match List.filter (fun fk => String.eqb (fk_name fk) n) fks with
  | fk :: _ => fk_schema fk
  | [] => mk_schema [] []
  end.

Theorem C02_column_order :
  (* code = model = specification, for the 16 files written through table_to_file *)
  forallb (fun n => strs_eqb (opt_cols (sassoc n Tcodec.writer_headers)) (all_cols n) &&
                    strs_eqb (opt_cols (sassoc n Tcodec.adoc_syntax)) (all_cols n) &&
                    Nat.eqb (List.length (s_fixed (schema_of_name n))) (List.length (fst (fk_cols n))) &&
                    Nat.eqb (List.length (s_group (schema_of_name n))) (List.length (snd (fk_cols n))))
          file_names = true /\
  (* points3d.txt (written by numpy.savetxt) and the pairs file *)
  strs_eqb (line_cols (snd Tcodec.p3d_lines6)) (all_cols "points3d.txt") = true /\
  strs_eqb (line_cols (snd Tcodec.p3d_lines3)) (fst (fk_cols "points3d.txt")) = true /\
  strs_eqb (opt_cols (sassoc "points3d.txt"%string Tcodec.adoc_syntax)) (all_cols "points3d.txt") = true /\
  strs_eqb (opt_cols (sassoc "pairsfile"%string Tcodec.adoc_syntax)) (all_cols "pairsfile") = true /\
  (* the record dataclasses: field names = data columns, declared types = schema types *)
  forallb (fun e => let '(n, fields) := e in
                    let data := List.length (all_cols n) - List.length fields in
                    strs_eqb (map (fun f => col_alias (fst f)) fields) (skipn data (all_cols n)) &&
                    @eqb (list nat) _ (map (fun f => pytype_tag (snd f)) fields)
                                      (map cty_tag (skipn data (s_fixed (schema_of_name n)))))
          Tcodec.record_fields = true.
Proof. vm_compute. repeat split. Qed.
Print Assumptions C02_column_order.

(* ------------------------------------------------------------------------------------------------
   2. WRITER CONFORMS: what the library writes is a valid file of the format and an independent reader
      written from the specification recovers exactly the saved table (rows in the writer's order, a missing
      sensor name as "", point coordinates as '%.10f' prints them). *)
Theorem C02_writer_conforms : forall O, fops_ok O -> forall f (rows : table O),
  table_wf O (fk_of f) rows = true ->
  version_first (save_table O (fk_of f) rows) = true /\
  spec_read O (fk_schema (fk_of f)) (save_table O (fk_of f) rows) = Ok (canon_table O (fk_of f) rows).
Proof.
  intros O OK f rows W. destruct (table_wf_inv O _ rows W) as [HW _]. split.
  - apply (save_table_version_first O (fk_of f) (fk_of_ok tables_ok_now f)).
  - apply (writer_conforms O OK (fk_of f) (fk_of_ok tables_ok_now f) rows HW).
Qed.
Print Assumptions C02_writer_conforms.

Theorem C02_writer_conforms_descriptor_files : forall O, fops_ok O -> forall k (cfg : row O),
  row_wf O (fk_schema (fk_feat k)) cfg = true ->
  spec_read O (fk_schema (fk_feat k)) (save_table O (fk_feat k) [cfg]) = Ok [cfg].
Proof. intros O OK k cfg W. exact (cfg_writer_conforms O OK tables_ok_now k cfg W). Qed.
Print Assumptions C02_writer_conforms_descriptor_files.

Theorem C02_writer_conforms_points3d : forall O, fops_ok O -> forall p : nat * table O, p3d_wf O p = true ->
  spec_read O (p3d_schema (fst p)) (save_p3d O p) = Ok (map (canon_row O (p3d_schema (fst p))) (snd p)) /\
  p3d_expected false (save_p3d O p) = Some (fst p).      (* the second line announces 3 or 6 columns *)
Proof. intros O OK p W. exact (p3d_writer_conforms O OK tables_ok_now p W). Qed.
Print Assumptions C02_writer_conforms_points3d.

(* ------------------------------------------------------------------------------------------------
   3. EVERY LAYOUT: the lexer returns exactly the fields of the data rows, whatever blanks surround the
      fields, wherever comment and blank lines are put, whichever of \n and \r\n ends each line. *)
Theorem C02_lexer_all_layouts : forall items, forallb item_ok items = true ->
  table_of_text (render_items items) = items_rows items.
Proof. exact table_of_rendering. Qed.
Print Assumptions C02_lexer_all_layouts.

(* hence neither the library's readers nor the specification-level parser depend on the layout *)
Theorem C02_reader_layout_independent : forall O f ids items, forallb item_ok items = true ->
  read_table O (fk_of f) ids (render_items items) = read_fields O (fk_of f) ids (items_rows items).
Proof. intros O f ids items H. exact (read_table_layout O (fk_of f) ids items H). Qed.
Print Assumptions C02_reader_layout_independent.

Theorem C02_spec_layout_independent : forall O sch b e items,
  prefix_of version (HASH :: b) = true -> no_nl b = true -> forallb item_ok items = true ->
  spec_read O sch (render_items (IComment b e :: items)) = spec_rows O (spec_schema_of sch) (items_rows items).
Proof. exact spec_read_layout. Qed.
Print Assumptions C02_spec_layout_independent.

(* THE READER THEOREM: take any conformant file - a version comment, then any layout of rows to which the
   specification assigns the typed rows [rows] (integers with sign / leading zeros, floats in any spelling
   the float lexer accepts, empty optional fields) - the library's reader returns those rows, entered into a
   dict in file order: a later row replaces an earlier row with the same key (observations: appends its pairs) *)
Theorem C02_reader_accepts_all_layouts : forall O, fops_ok O -> forall f b e items (rows : table O),
  prefix_of version (HASH :: b) = true -> no_nl b = true -> forallb item_ok items = true ->
  spec_read O (fk_schema (fk_of f)) (render_items (IComment b e :: items)) = Ok rows ->
  Forall (fun r => post_ok O (fk_post (fk_of f)) r = true) rows ->
  read_table O (fk_of f) None (render_items (IComment b e :: items)) =
  Ok (of_rows O (fk_merge (fk_of f)) (fk_key (fk_of f)) rows).
Proof.
  intros O OK f b e items rows PV N H SR PO.
  rewrite (spec_read_layout O _ b e items PV N H) in SR.
  assert (OKI : forallb item_ok (IComment b e :: items) = true) by (cbn; rewrite N, H; reflexivity).
  rewrite (read_table_layout O (fk_of f) None _ OKI). unfold read_fields.
  change (items_rows (IComment b e :: items)) with (items_rows items).
  rewrite (read_rows_of_spec O OK (fk_of f) (items_rows items) rows SR PO). reflexivity.
Qed.
Print Assumptions C02_reader_accepts_all_layouts.

(* the duplicate-key rule, stated explicitly: the LAST row with a key wins *)
Theorem C02_last_row_wins : forall O, fops_ok O -> forall k key (rows : table O), k <> 0 ->
  find_key O k key (of_rows O false k rows) = find_key O k key (rev rows).
Proof. intros O OK. exact (of_rows_last_wins O OK). Qed.
Print Assumptions C02_last_row_wins.

(* and with pairwise different keys the order of the rows in the file is irrelevant *)
Theorem C02_row_order_irrelevant : forall O, fops_ok O -> forall k (rows rows' : table O),
  keys_nodup O k rows = true -> Permutation rows rows' ->
  forall key, find_key O k key (of_rows O false k rows) = find_key O k key (of_rows O false k rows').
Proof. intros O OK. exact (of_rows_order_irrelevant O OK). Qed.
Print Assumptions C02_row_order_irrelevant.

(* rigs.txt with the sensor-id filter: a member is kept iff it is a known sensor or the id of ANY rig of the
   file (nested rigs) - a condition on the set of rows, not on their order *)
Theorem C02_rigs_members_order_free : forall O sids t (rs : table O),
  read_rows O fk_rigs (table_of_text t) = Ok rs -> keys_nodup O 2 rs = true ->
  (forall r, In r rs -> ~ In (key1 O r) sids) ->
  exists tb, read_rigs O sids t = Ok (tb, map (key1 O) rs) /\
             forall r, In r tb <-> In r rs /\ (In (dev_of O fk_rigs r) sids \/ In (dev_of O fk_rigs r) (map (key1 O) rs)).
Proof. intro O. exact (read_rigs_members O). Qed.
Print Assumptions C02_rigs_members_order_free.

(* records files are maps keyed by (timestamp, device[, signal id]): the device cell (column 2) is part of the key
   of every records kind, so rows of two devices at one timestamp never replace each other - each row of a file
   with pairwise different keys is found in the loaded map under its own key *)
Theorem C02_records_keyed_by_timestamp_and_device : forall O, fops_ok O -> forall k (rows : table O) (r : row O),
  let n := fk_key (fk_rec k) in
  (2 <= n /\ fk_dev (fk_rec k) = 1) /\
  (keys_nodup O n rows = true -> In r rows -> find_key O n (firstn n r) (of_rows O false n rows) = Some r).
Proof.
  intros O OK k rows r n. split.
  - destruct k; cbn; auto.
  - exact (of_rows_keeps_all O OK n rows r).
Qed.
Print Assumptions C02_records_keyed_by_timestamp_and_device.

(* integers: sign and leading zeros *)
Theorem C02_leading_zeros : forall O k (n : N),
  read_cell O TInt (repeat "0"%char k ++ show_N n) = Some (CInt (Z.of_N n)) /\
  read_cell O TInt ("+"%char :: repeat "0"%char k ++ show_N n) = Some (CInt (Z.of_N n)) /\
  read_cell O TInt ("-"%char :: repeat "0"%char k ++ show_N n) = Some (CInt (- Z.of_N n)%Z).
Proof.
  intros O k n. destruct (parse_int_leading_zeros k n) as [A [B C]]. cbn [read_cell]. rewrite A, B, C. auto.
Qed.
Print Assumptions C02_leading_zeros.

(* points3d.txt: every conformant layout whose second line is the column comment loads with the announced
   width - in particular an EMPTY cloud with the "X, Y, Z" comment loads as 0 x 3 *)
Theorem C02_points3d_all_layouts : forall O, fops_ok O -> forall w b1 e1 b2 e2 items (rows : table O),
  w = 3 \/ w = 6 -> HASH :: b1 = p3d_line1 -> HASH :: b2 = p3d_line2 w ->
  forallb item_ok items = true ->
  spec_rows O (p3d_schema w) (items_rows items) = Ok rows ->
  read_p3d O (render_items (IComment b1 e1 :: IComment b2 e2 :: items)) = Ok (w, rows).
Proof. intros O _. exact (p3d_reader_layouts O tables_ok_now). Qed.
Print Assumptions C02_points3d_all_layouts.

(* ------------------------------------------------------------------------------------------------
   non-vacuity: a concrete table, a concrete free layout of it (blanks, comments, CRLF, permuted rows,
   leading zeros, a '+'), and what the reader makes of it *)
Definition S (s : string) : cell toy := CStr (t_of s).
Definition Fz (z : Z) : cell toy := @CFlt toy z.
Local Open Scope string_scope.
Definition ex_layout : list item :=
  [IComment (t_of " timestamp, device_id, qw, qx, qy, qz, tx, ty, tz") EolCRLF;
   IBlank (t_of "  ") EolLF;
   IRow [(t_of " ", t_of "0005", t_of ""); (t_of "", t_of "rig 1", t_of "  "); (t_of "", t_of "", t_of "");
         (t_of "", t_of "", t_of ""); (t_of "", t_of "", t_of ""); (t_of "", t_of "", t_of " ");
         (t_of "   ", t_of "+1", t_of ""); (t_of "", t_of "2", t_of ""); (t_of "", t_of "-03", t_of "")] EolCRLF;
   IComment (t_of "# a comment, with commas") EolLF;
   IRow [(t_of "", t_of "-3", t_of ""); (t_of "", t_of "cam0", t_of ""); (t_of "", t_of "1", t_of "");
         (t_of "", t_of "0", t_of ""); (t_of "", t_of "0", t_of ""); (t_of "", t_of "0", t_of "");
         (t_of "", t_of "7", t_of ""); (t_of "", t_of "8", t_of ""); (t_of "", t_of "9", t_of "")] EolLF].

Example C02_example :
  forallb item_ok ex_layout = true /\
  read_table toy fk_traj None (render_items (IComment (List.tl version) EolLF :: ex_layout)) =
    Ok [[CInt 5; S "rig 1"; CNone; CNone; CNone; CNone; Fz 1; Fz 2; Fz (-3)];
        [CInt (-3); S "cam0"; Fz 1; Fz 0; Fz 0; Fz 0; Fz 7; Fz 8; Fz 9]] /\
  table_wf toy fk_traj [[CInt 5; S "rig 1"; CNone; CNone; CNone; CNone; Fz 1; Fz 2; Fz (-3)]] = true.
Proof. repeat split; vm_compute; reflexivity. Qed.

(* ------------------------------------------------------------------------------------------------
   the reader before the repair (fixes/C02-points3d-blank-lines.patch) is refuted: numpy.loadtxt does not
   ignore a line that contains only blanks, which the specification says is ignored *)
Definition blank_line_file : txt :=
  (p3d_line1 ++ [LF] ++ p3d_line2 3 ++ [LF] ++ t_of "1,2,3" ++ [LF] ++ t_of "  " ++ [LF] ++ t_of "4,5,6" ++ [LF])%list.

Lemma C02_legacy_refuted :
  spec_read toy (p3d_schema 3) blank_line_file = Ok [[Fz 1; Fz 2; Fz 3]; [Fz 4; Fz 5; Fz 6]] /\
  read_p3d toy blank_line_file = Ok (3, [[Fz 1; Fz 2; Fz 3]; [Fz 4; Fz 5; Fz 6]]) /\
  read_p3d_legacy_blank toy blank_line_file = Err.
Proof. repeat split; vm_compute; reflexivity. Qed.
