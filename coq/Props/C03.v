(* Props/C03.v — property C03: feature, match and depth arrays persist bit-exactly as raw
   little-endian dumps, at the documented location.
   Only statements, each closed by a lemma of Proofs/PBinary.v, instantiated with the tables that
   harness/tables/binary.py read from the repository under test, numpy and kapture_format.adoc on
   this run (Gen/Tbinary.v).  Element values are bit patterns (N); bytes are N below 256. *)
From Coq Require Import List Bool String Ascii NArith ZArith Lia.
From KV Require Import Eqb Str.
From KV.Gen Require Import Tbinary.
From KV.Model Require Import MBinary.
From KV.Proofs Require Import PBinary PBinaryHist.
Import ListNotations.
Local Open Scope list_scope.

Notation bound w := (2 ^ (8 * N.of_nat w))%N.
Notation byte b := (b < 256)%N.

(* ================================================================== facts about the tables (finite, decided by computation) *)

(* the 11 element types and their item sizes are numpy's *)
Theorem C03_itemsizes_match_numpy :
  map (fun e => (fst (fst e), snd (fst e))) Tbinary.dtypes
  = map (fun d => (dtype_name d, N.of_nat (isz d))) all_dtypes.
Proof. vm_compute. reflexivity. Qed.
Print Assumptions C03_itemsizes_match_numpy.

(* what the readers of the tree under test use is what kapture_format.adoc specifies:
   matches are float64 x 3, depth maps float32, binary files are raw little-endian dumps,
   and every feature extension is one the specification lists *)
Theorem C03_formats_match_spec :
  matches_dt = F64 /\ matches_cols = 3%N /\ depth_dt = F32 /\
  Tbinary.spec_matches_dtype = dtype_name matches_dt /\ Tbinary.spec_matches_cols = matches_cols /\
  Tbinary.spec_depth_bits = (8 * N.of_nat (isz depth_dt))%N /\
  Tbinary.spec_little_endian = true /\ Tbinary.spec_raw_dump = true /\
  Tbinary.host_little_endian = true /\
  forallb (fun e => memb (snd e) Tbinary.spec_ext) Tbinary.feature_ext = true.
Proof. vm_compute. repeat split. Qed.
Print Assumptions C03_formats_match_spec.

Definition kinds : list string := map fst Tbinary.feature_dir.

Lemma tables_good :
  forallb (fun k => good_rel (dir_of k) && good_ext (ext_of k)) kinds = true /\
  good_ext Tbinary.pair_sep = true /\ good_rel Tbinary.records_dir = true /\ memb "Matches"%string kinds = true.
Proof. vm_compute. repeat split. Qed.

Lemma kind_good k : In k kinds -> good_rel (dir_of k) = true /\ good_ext (ext_of k) = true.
Proof.
  intros I. destruct tables_good as [H _]. rewrite forallb_forall in H. specialize (H k I).
  apply andb_true_iff in H. exact H.
Qed.

(* the directories of two different kinds are not nested in one another *)
Lemma tables_dirs_apart :
  forallb (fun k => forallb (fun k' => String.eqb k k' ||
     (negb (prefixb (dir_of k ++ "/") (dir_of k' ++ "/")) && negb (prefixb (dir_of k' ++ "/") (dir_of k ++ "/"))))
     kinds) kinds = true.
Proof. vm_compute. reflexivity. Qed.

(* ================================================================== 1. little-endian digits, every width *)
Theorem C03_le_digits_roundtrip : forall w n, (n < bound w)%N -> of_le (to_le w n) = n.
Proof. exact of_le_to_le. Qed.
Print Assumptions C03_le_digits_roundtrip.

Theorem C03_le_digits_injective : forall w n m,
  (n < bound w)%N -> (m < bound w)%N -> to_le w n = to_le w m -> n = m.
Proof. exact to_le_inj. Qed.
Print Assumptions C03_le_digits_injective.

(* every string of w bytes is the image of exactly one value below 2^(8w) *)
Theorem C03_le_digits_onto : forall bs,
  Forall (fun b => byte b) bs ->
  to_le (List.length bs) (of_le bs) = bs /\ (of_le bs < bound (List.length bs))%N.
Proof. intros bs H. split; [apply to_le_of_le | apply of_le_bound]; assumption. Qed.
Print Assumptions C03_le_digits_onto.

Theorem C03_le_digits_shape : forall w n,
  List.length (to_le w n) = w /\ Forall (fun b => byte b) (to_le w n) /\
  forall j, (j < w)%nat -> nth j (to_le w n) 0%N = ((n / 256 ^ N.of_nat j) mod 256)%N.
Proof. intros w n. repeat split; [apply to_le_length | apply to_le_bytes | intros; apply nth_to_le; assumption]. Qed.
Print Assumptions C03_le_digits_shape.

(* ================================================================== 2. the file *)
(* size = rows x columns x item size (any shape: product of the dimensions), no header *)
Theorem C03_file_size : forall m,
  wf_mem m = true -> lenN (dump m) = (prodN (m_shape m) * N.of_nat (isz (m_dtype m)))%N.
Proof. exact dump_size. Qed.
Print Assumptions C03_file_size.

(* byte k of the element at row-major index i (= row * columns + column) is at offset
   i * itemsize + k and is digit k of the element in base 256: row-major, little-endian, nothing else *)
Theorem C03_file_layout : forall m i k,
  (i < List.length (m_elems m))%nat -> (k < isz (m_dtype m))%nat ->
  nth (i * isz (m_dtype m) + k) (dump m) 0%N = ((nth i (m_elems m) 0%N / 256 ^ N.of_nat k) mod 256)%N.
Proof. intros m i k. apply encode_byte_layout. Qed.
Print Assumptions C03_file_layout.

(* the file does not depend on the byte order or the memory layout of the array handed to the writer *)
Theorem C03_file_independent_of_memory : forall m big lay,
  dump {| m_dtype := m_dtype m; m_shape := m_shape m; m_elems := m_elems m; m_big := big; m_layout := lay |}
  = dump m.
Proof. exact dump_memory_independent. Qed.
Print Assumptions C03_file_independent_of_memory.

(* ================================================================== 3. round trips *)
Definition plain (a : api) : Prop := a = AKeypoints \/ a = ADescriptors \/ a = AGlobalFeatures \/ a = ARaw.

(* keypoints, descriptors, global features and the raw array functions, file and tar stores, all 11 element
   types, every r x c shape including r = 0: what is read back is the array that was written *)
Theorem C03_roundtrip : forall cast a st m r c rd_w rd_h,
  plain a -> wf_mem m = true -> m_shape m = [r; c] -> (0 < c)%N ->
  write_api cast a m = Written (dump m) /\
  read_api a st (m_dtype m) (Z.of_N c) rd_w rd_h (dump m)
  = ROk {| a_dtype := m_dtype m; a_rows := r; a_cols := c; a_elems := m_elems m |}.
Proof.
  intros cast a st m r c rd_w rd_h P W S C.
  assert (E : read_api a st (m_dtype m) (Z.of_N c) rd_w rd_h (dump m)
              = read_bytes st (m_dtype m) (Z.of_N c) (dump m))
    by (destruct P as [->|[->|[->| ->]]]; reflexivity).
  split.
  - apply write_plain; destruct P as [->|[->|[->| ->]]]; discriminate.
  - rewrite E. apply roundtrip_2d; auto.
Qed.
Print Assumptions C03_roundtrip.

(* arrays of any dimension (1-D, 3-D, ...) are dumped flat in row-major order; the reader re-shapes to
   (-1, c) whenever c divides the element count.  The element type given to the reader only needs the
   same width: the bits are returned unchanged (e.g. int32 read as float32). *)
Theorem C03_roundtrip_any_shape : forall st m c d',
  wf_mem m = true -> (0 < c)%N -> (prodN (m_shape m) mod c = 0)%N -> isz d' = isz (m_dtype m) ->
  read_bytes st d' (Z.of_N c) (dump m)
  = ROk {| a_dtype := d'; a_rows := (prodN (m_shape m) / c)%N; a_cols := c; a_elems := m_elems m |}.
Proof. exact roundtrip_reshape. Qed.
Print Assumptions C03_roundtrip_any_shape.

(* exactly when a reader succeeds, and which exception it raises otherwise (TypeError / ValueError):
   n = number of whole items in the file *)
Theorem C03_reader_outcomes : forall st d dsize bs,
  let w := N.of_nat (isz d) in
  let n := (lenN bs / w)%N in
  match read_bytes st d dsize bs with
  | RErr ErrType => st = SFile /\ (dsize <= 0)%Z
  | RErr ErrValue =>
      (st = STar /\ (dsize <= 0)%Z) \/
      ((0 < dsize)%Z /\ ((st = STar /\ (lenN bs mod w <> 0)%N) \/ (n mod Z.to_N dsize <> 0)%N))
  | ROk a =>
      (0 < dsize)%Z /\ (st = STar -> (lenN bs mod w = 0)%N) /\ (n mod Z.to_N dsize = 0)%N /\
      a_dtype a = d /\ a_cols a = Z.to_N dsize /\ (a_rows a * a_cols a = n)%N /\
      List.length (a_elems a) = N.to_nat n
  end.
Proof. exact read_bytes_cases. Qed.
Print Assumptions C03_reader_outcomes.

(* any file made of whole items is read as the array it denotes: re-encoding gives the same bytes *)
Theorem C03_reader_onto : forall st d dsize bs a,
  Forall (fun b => byte b) bs -> (lenN bs mod N.of_nat (isz d) = 0)%N ->
  read_bytes st d dsize bs = ROk a -> encode d (a_elems a) = bs /\ a_dtype a = d.
Proof. exact read_bytes_onto. Qed.
Print Assumptions C03_reader_onto.

(* matches: the writer accepts exactly native float64 arrays whose second dimension is 3 ... *)
Theorem C03_matches_writer_gate : forall cast m bs,
  write_api cast AMatches m = Written bs ->
  m_dtype m = F64 /\ m_big m = false /\ bs = dump m /\ exists r rest, m_shape m = r :: 3%N :: rest.
Proof. exact matches_written. Qed.
Print Assumptions C03_matches_writer_gate.

(* ... and every r x 3 float64 array (r = 0 included) is read back unchanged by image_matches_from_file *)
Theorem C03_matches_roundtrip : forall cast st m r rd_d rd_dsize rd_w rd_h,
  wf_mem m = true -> m_dtype m = F64 -> m_big m = false -> m_shape m = [r; 3%N] ->
  write_api cast AMatches m = Written (dump m) /\
  read_api AMatches st rd_d rd_dsize rd_w rd_h (dump m)
  = ROk {| a_dtype := F64; a_rows := r; a_cols := 3%N; a_elems := m_elems m |}.
Proof.
  intros. apply matches_roundtrip; auto; vm_compute; reflexivity.
Qed.
Print Assumptions C03_matches_roundtrip.

Section DepthMaps.
  (* numpy's astype(float32) on bit patterns; only its range is assumed *)
  Variable cast : dtype -> N -> N.
  Hypothesis cast_range : forall d n, (cast d n < bound (isz depth_dt))%N.

  (* depth maps: an h x w array (h, w > 0) is stored as h*w float32 items (4 bytes each) and read back with
     shape (h, w); a float32 array, in either byte order, keeps its bits; other element types are
     converted by [cast] first *)
  Theorem C03_depth_roundtrip : forall m h w rd_d rd_dsize,
    wf_mem m = true -> m_shape m = [h; w] -> (0 < h)%N -> (0 < w)%N ->
    exists bs, write_api cast ADepth m = Written bs /\
      lenN bs = (h * w * 4)%N /\
      read_api ADepth SFile rd_d rd_dsize (Z.of_N w) (Z.of_N h) bs
      = ROk {| a_dtype := F32; a_rows := h; a_cols := w; a_elems := depth_elems cast m |} /\
      (m_dtype m = F32 -> depth_elems cast m = m_elems m).
  Proof.
    intros m h w rd_d rd_dsize W S Hh Hw.
    destruct (depth_roundtrip cast cast_range m h w rd_d rd_dsize W S Hh Hw) as [bs [E1 [E2 E3]]].
    exists bs. repeat split; auto. intros D. apply depth_elems_same. rewrite D. reflexivity.
  Qed.
End DepthMaps.
Print Assumptions C03_depth_roundtrip.

(* ================================================================== 4. locations *)
Local Open Scope string_scope.

(* the layout constants of the tree under test, as documented *)
Theorem C03_layout_constants :
  map (fun k => (k, dir_of k, ext_of k)) kinds
  = [("Keypoints", "reconstruction/keypoints", ".kpt"); ("Descriptors", "reconstruction/descriptors", ".desc");
     ("GlobalFeatures", "reconstruction/global_features", ".gfeat"); ("Matches", "reconstruction/matches", ".matches")]
  /\ Tbinary.pair_sep = ".overlapping" /\ Tbinary.records_dir = "sensors/records_data"
  /\ Tbinary.spec_match_pattern = (Tbinary.pair_sep ++ "/", ext_of "Matches")
  /\ Tbinary.spec_match_order_note = true.
Proof. vm_compute. repeat split. Qed.
Print Assumptions C03_layout_constants.

(* the model's path functions reproduce every example path printed in the specification *)
Theorem C03_spec_examples :
  forallb (fun e => match e with (kind, ftype, name, p) => String.eqb (feature_path kind "" ftype name) p end)
          Tbinary.spec_examples = true
  /\ forallb (fun k => existsb (fun e => String.eqb (fst (fst (fst e))) k) Tbinary.spec_examples)
             ["Keypoints"; "Descriptors"; "GlobalFeatures"] = true
  /\ forallb (fun e => String.eqb (matches_tar_member (fst e) (snd e))
                                  (fst e ++ fst Tbinary.spec_match_pattern ++ snd e ++ snd Tbinary.spec_match_pattern))
             Tbinary.spec_match_examples = true
  /\ Tbinary.spec_match_examples <> []
  /\ forallb (fun n => String.eqb (record_path "" n) (Tbinary.records_dir ++ "/" ++ n)) Tbinary.spec_depth_examples = true
  /\ Tbinary.spec_depth_examples <> [].
Proof. vm_compute. repeat split; discriminate. Qed.
Print Assumptions C03_spec_examples.

(* keypoints / descriptors / global features / matches: <root>/<dir>/<type>/<image><ext>, and <image><ext>
   inside a tar, for every normalised root, type and image name *)
Theorem C03_feature_path : forall kind root ftype name,
  In kind kinds -> good_root root = true -> good_rel ftype = true -> good_rel name = true ->
  feature_path kind root ftype name = root ++ "/" ++ dir_of kind ++ "/" ++ ftype ++ "/" ++ name ++ ext_of kind
  /\ tar_member kind name = name ++ ext_of kind.
Proof.
  intros kind root ftype name K R T Nm. destruct (kind_good kind K) as [Gd Ge]. split.
  - apply feature_path_gen_spec; assumption.
  - apply tar_member_gen_spec; assumption.
Qed.
Print Assumptions C03_feature_path.

(* distinct (type, image) give distinct files (types are single path components) *)
Theorem C03_feature_path_injective : forall kind root ftype ftype' name name',
  In kind kinds -> good_root root = true ->
  good_rel ftype = true -> good_rel ftype' = true -> no_slashb ftype = true -> no_slashb ftype' = true ->
  good_rel name = true -> good_rel name' = true ->
  feature_path kind root ftype name = feature_path kind root ftype' name' -> ftype = ftype' /\ name = name'.
Proof.
  intros kind root ftype ftype' name name' K R T T' S S' Nm Nm'. destruct (kind_good kind K) as [Gd Ge].
  apply feature_path_gen_inj; assumption.
Qed.
Print Assumptions C03_feature_path_injective.

(* files of different kinds never coincide *)
Theorem C03_kinds_disjoint : forall kind kind' root ftype ftype' name name',
  In kind kinds -> In kind' kinds -> kind <> kind' -> good_root root = true ->
  good_rel ftype = true -> good_rel ftype' = true -> good_rel name = true -> good_rel name' = true ->
  feature_path kind root ftype name <> feature_path kind' root ftype' name'.
Proof.
  intros kind kind' root ftype ftype' name name' K K' N R T T' Nm Nm'.
  destruct (kind_good kind K) as [Gd Ge]. destruct (kind_good kind' K') as [Gd' Ge'].
  pose proof tables_dirs_apart as A. rewrite forallb_forall in A. specialize (A kind K).
  rewrite forallb_forall in A. specialize (A kind' K').
  apply String.eqb_neq in N. rewrite N in A. cbn [orb] in A. apply andb_true_iff in A.
  destruct A as [A1 A2]. apply negb_true_iff in A1, A2.
  apply feature_path_gen_disjoint; assumption.
Qed.
Print Assumptions C03_kinds_disjoint.

(* matches: <root>/reconstruction/matches/<type>/<a>.overlapping/<b>.matches *)
Theorem C03_matches_path : forall root ftype a b,
  good_root root = true -> good_rel ftype = true -> good_rel a = true -> good_rel b = true ->
  matches_path root ftype a b
  = root ++ "/" ++ dir_of "Matches" ++ "/" ++ ftype ++ "/" ++ a ++ Tbinary.pair_sep ++ "/" ++ b ++ ext_of "Matches"
  /\ matches_tar_member a b = a ++ Tbinary.pair_sep ++ "/" ++ b ++ ext_of "Matches".
Proof.
  intros root ftype a b R T A B.
  destruct tables_good as [_ [Gs [_ KM]]]. apply memb_In in KM. destruct (kind_good _ KM) as [Gd Ge].
  destruct (matches_file_gen_spec Tbinary.pair_sep a b Gs A B) as [E G].
  unfold matches_path, matches_tar_member, matches_file. rewrite E. split.
  - rewrite (proj1 (C03_feature_path "Matches" root ftype _ KM R T G)). rewrite !sapp_assoc. reflexivity.
  - rewrite (proj2 (C03_feature_path "Matches" root ftype _ KM R T G)). rewrite !sapp_assoc. reflexivity.
Qed.
Print Assumptions C03_matches_path.

(* distinct (type, pair) give distinct files, provided no directory of the first image name ends with
   ".overlapping" (see C03_pair_collision for why the proviso is needed) *)
Theorem C03_matches_path_injective : forall root ftype ftype' a b a' b',
  good_root root = true ->
  good_rel ftype = true -> good_rel ftype' = true -> no_slashb ftype = true -> no_slashb ftype' = true ->
  good_rel a = true -> good_rel b = true -> good_rel a' = true -> good_rel b' = true ->
  dirs_free_of Tbinary.pair_sep a = true -> dirs_free_of Tbinary.pair_sep a' = true ->
  matches_path root ftype a b = matches_path root ftype' a' b' -> ftype = ftype' /\ a = a' /\ b = b'.
Proof.
  intros root ftype ftype' a b a' b' R T T' S S' A B A' B' D D' E.
  destruct tables_good as [_ [Gs [_ KM]]]. apply memb_In in KM.
  destruct (matches_file_gen_spec Tbinary.pair_sep a b Gs A B) as [E1 G1].
  destruct (matches_file_gen_spec Tbinary.pair_sep a' b' Gs A' B') as [E2 G2].
  unfold matches_path, matches_file in E. rewrite E1, E2 in E.
  apply (C03_feature_path_injective "Matches") in E; auto. destruct E as [-> E]. split; [reflexivity|].
  apply good_ext_inv in Gs. destruct Gs as [Gs _].
  apply (matches_rel_inj Tbinary.pair_sep "" a b a' b' Gs eq_refl D D').
  rewrite !sapp_nil_r. exact E.
Qed.
Print Assumptions C03_matches_path_injective.

(* the two orders of a pair name the same file once normalised by Matches.lexical_order, which returns
   the pair in lexicographic order (the convention image_path1 < image_path2 of the specification) *)
Theorem C03_matches_pair_order : forall root ftype a b,
  (let (x, y) := lexical_order a b in matches_path root ftype x y)
  = (let (x, y) := lexical_order b a in matches_path root ftype x y)
  /\ sleb (fst (lexical_order a b)) (snd (lexical_order a b)) = true
  /\ (lexical_order a b = (a, b) \/ lexical_order a b = (b, a)).
Proof.
  intros root ftype a b. rewrite (lexical_order_sym a b). split; [reflexivity|].
  rewrite <- (lexical_order_sym a b). apply lexical_order_sorted.
Qed.
Print Assumptions C03_matches_pair_order.

(* depth maps (all record files): <root>/sensors/records_data/<name> *)
Theorem C03_depth_map_path : forall root name name',
  good_root root = true -> good_rel name = true -> good_rel name' = true ->
  record_path root name = root ++ "/" ++ Tbinary.records_dir ++ "/" ++ name
  /\ (record_path root name = record_path root name' -> name = name').
Proof.
  intros root name name' R Nm Nm'. destruct tables_good as [_ [_ [Gr _]]]. split.
  - apply record_path_gen_spec; assumption.
  - apply record_path_gen_inj; assumption.
Qed.
Print Assumptions C03_depth_map_path.

(* ================================================================== 5. several writes, several images *)
(* writing the same array any number of times, through any front ends: every write behaves as the first one
   and the caller's array is left as it was.  In particular the k-th dump equals the first. *)
Theorem C03_repeated_writes : forall cast steps m,
  write_seq cast steps m = (map (fun a => write_api cast a m) steps, m).
Proof. exact write_seq_spec. Qed.
Print Assumptions C03_repeated_writes.

Theorem C03_kth_dump_is_first : forall cast steps m k a,
  nth_error steps k = Some a -> plain a ->
  nth_error (fst (write_seq cast steps m)) k = Some (Written (dump m)) /\ snd (write_seq cast steps m) = m.
Proof.
  intros cast steps m k a E P. rewrite write_seq_spec. cbn [fst snd]. split; [|reflexivity].
  rewrite nth_error_map, E. cbn. f_equal. apply write_plain; destruct P as [->|[->|[->| ->]]]; discriminate.
Qed.
Print Assumptions C03_kth_dump_is_first.

(* the image ids listed from a feature directory / tar are the names that were written *)
Theorem C03_listing_inverts_member : forall kind name,
  In kind kinds -> good_rel name = true ->
  id_of_member (ext_of kind) (tar_member kind name) = Some name.
Proof.
  intros kind name K G. destruct (kind_good kind K) as [_ Ge].
  unfold tar_member. rewrite tar_member_gen_spec by assumption. apply id_of_member_spec.
Qed.
Print Assumptions C03_listing_inverts_member.

(* a second image with a different (normalised) name never replaces the file of the first one,
   in a directory (full paths) as in a tar archive (member names) *)
Theorem C03_second_image_kept : forall kind root ftype n1 n2 b1 b2,
  In kind kinds -> good_root root = true -> good_rel ftype = true -> no_slashb ftype = true ->
  good_rel n1 = true -> good_rel n2 = true -> n1 <> n2 ->
  fs_read (feature_path kind root ftype n1)
          (fs_write (feature_path kind root ftype n2) b2 (fs_write (feature_path kind root ftype n1) b1 [])) = Some b1
  /\ fs_read (tar_member kind n1) (fs_write (tar_member kind n2) b2 (fs_write (tar_member kind n1) b1 [])) = Some b1.
Proof.
  intros kind root ftype n1 n2 b1 b2 K R T S G1 G2 N. destruct (kind_good kind K) as [Gd Ge]. split.
  - rewrite fs_read_other, fs_read_same; [reflexivity|].
    intros E. apply C03_feature_path_injective in E; auto. tauto.
  - rewrite fs_read_other, fs_read_same; [reflexivity|].
    unfold tar_member. rewrite !tar_member_gen_spec by assumption. intros E. apply sapp_inv_tail in E. auto.
Qed.
Print Assumptions C03_second_image_kept.

(* a write REPLACES the content of its destination: whatever the store held before (a longer file, a
   previous member of the same name in the tar), afterwards the destination holds exactly the dump of the
   array just written -- so its size is rows x columns x item size and it reads back as that array -- and
   every other path is unchanged *)
Theorem C03_write_replaces : forall cast a st (f : fstore) p m r c rd_w rd_h,
  plain a -> wf_mem m = true -> m_shape m = [r; c] -> (0 < c)%N ->
  exists bs, write_api cast a m = Written bs /\
    let f' := fs_write p bs f in
    fs_read p f' = Some (dump m) /\
    lenN (dump m) = (r * c * N.of_nat (isz (m_dtype m)))%N /\
    read_api a st (m_dtype m) (Z.of_N c) rd_w rd_h (dump m)
    = ROk {| a_dtype := m_dtype m; a_rows := r; a_cols := c; a_elems := m_elems m |} /\
    forall q, q <> p -> fs_read q f' = fs_read q f.
Proof.
  intros cast a st f p m r c rd_w rd_h P W S C.
  destruct (C03_roundtrip cast a st m r c rd_w rd_h P W S C) as [E1 E2].
  exists (dump m). split; [exact E1|]. cbv zeta. repeat split.
  - apply fs_read_same.
  - rewrite C03_file_size by assumption. rewrite S, prodN_2. reflexivity.
  - exact E2.
  - intros q N. apply fs_read_other; assumption.
Qed.
Print Assumptions C03_write_replaces.

(* ================================================================== 6. histories on one kapture root *)
(* ANY history of writes and location queries (any feature kinds, types, names, orientations of pairs, in a
   directory tree or in tar archives): afterwards every destination holds exactly the last array written to IT
   -- never the array of another destination -- and what was never written is as before.  The location of a
   step ([hist_loc]) has no store argument: it cannot depend on what was written earlier. *)
Theorem C03_history_last_write_wins : forall cast st root steps f k,
  fs_read k (hist_run cast st root steps f)
  = match hist_last cast st root k steps with Some bs => Some bs | None => fs_read k f end.
Proof. intros. apply hist_run_last. Qed.
Print Assumptions C03_history_last_write_wins.

(* a step that only asks for a location changes nothing *)
Theorem C03_history_query_is_pure : forall cast st root f s,
  h_write s = false -> hist_step cast st root f s = f.
Proof. exact hist_query_noop. Qed.
Print Assumptions C03_history_query_is_pure.

(* a step of a matches history on normalised names (with the proviso of C03_matches_path_injective) *)
Definition pair_step_ok (s : hstep) : Prop :=
  h_api s = AMatches /\ good_rel (h_ftype s) = true /\ no_slashb (h_ftype s) = true /\
  good_rel (h_a s) = true /\ good_rel (h_b s) = true /\ dirs_free_of Tbinary.pair_sep (h_a s) = true.

(* matches, whole histories: after any sequence of matches writes (both orientations of a pair, pairs sharing
   an image, repeated pairs, several feature types ...) the documented file <a>.overlapping/<b>.matches of the
   pair (a, b) holds the last array written for the pair (a, b) of that type -- selected by the NAMES -- and
   nothing if that ordered pair was never written; in particular writes of (b, a) never touch it. *)
Theorem C03_history_pairs : forall cast root steps ftype a b,
  good_root root = true -> Forall pair_step_ok steps ->
  good_rel ftype = true -> no_slashb ftype = true -> good_rel a = true -> good_rel b = true ->
  dirs_free_of Tbinary.pair_sep a = true ->
  fs_read (matches_path root ftype a b) (hist_run cast SFile root steps [])
  = hist_last_by cast (same_pair ftype a b) steps.
Proof.
  intros cast root steps ftype a b R F T S A B D.
  rewrite hist_run_last. unfold hist_last.
  rewrite (hist_last_by_ext cast _ (same_pair ftype a b)).
  - destruct (hist_last_by cast (same_pair ftype a b) steps); reflexivity.
  - intros s I. rewrite Forall_forall in F. destruct (F s I) as [Ea [T' [S' [A' [B' D']]]]].
    unfold hist_key, hist_loc. rewrite Ea. unfold same_pair.
    destruct (String.eqb_spec (matches_path root ftype a b) (matches_path root (h_ftype s) (h_a s) (h_b s))) as [E|N].
    + apply C03_matches_path_injective in E; auto. destruct E as [-> [-> ->]].
      rewrite !String.eqb_refl. reflexivity.
    + destruct (String.eqb_spec ftype (h_ftype s)) as [->|]; [|reflexivity].
      destruct (String.eqb_spec a (h_a s)) as [->|]; [|reflexivity].
      destruct (String.eqb_spec b (h_b s)) as [->|]; [|reflexivity].
      exfalso. apply N. reflexivity.
Qed.
Print Assumptions C03_history_pairs.

(* ... and end to end: whatever stands at the documented location of the pair (a, b) after ANY matches history is
   the dump of an array that a step of the history wrote for that very ordered pair and type (no later step wrote
   that pair again), and image_matches_from_file gives that array back: element type, shape and bits *)
Theorem C03_history_pairs_read_back : forall cast root steps ftype a b bs st rd_d rd_dsize rd_w rd_h,
  good_root root = true -> Forall pair_step_ok steps ->
  good_rel ftype = true -> no_slashb ftype = true -> good_rel a = true -> good_rel b = true ->
  dirs_free_of Tbinary.pair_sep a = true ->
  fs_read (matches_path root ftype a b) (hist_run cast SFile root steps []) = Some bs ->
  exists pre s post, steps = (pre ++ s :: post)%list /\ h_write s = true /\
    h_ftype s = ftype /\ h_a s = a /\ h_b s = b /\ bs = dump (h_mem s) /\
    hist_last_by cast (same_pair ftype a b) post = None /\
    forall r, wf_mem (h_mem s) = true -> m_shape (h_mem s) = [r; 3%N] ->
      read_api AMatches st rd_d rd_dsize rd_w rd_h bs
      = ROk {| a_dtype := F64; a_rows := r; a_cols := 3%N; a_elems := m_elems (h_mem s) |}.
Proof.
  intros cast root steps ftype a b bs st rd_d rd_dsize rd_w rd_h R F T S A B D H.
  rewrite C03_history_pairs in H by assumption.
  destruct (hist_last_by_some _ _ _ _ H) as [pre [s [post [E [W [P [Wr L]]]]]]].
  exists pre, s, post. split; [exact E|]. split; [exact W|].
  unfold same_pair in P. apply andb_true_iff in P. destruct P as [P P3]. apply andb_true_iff in P. destruct P as [P1 P2].
  apply String.eqb_eq in P1, P2, P3.
  rewrite Forall_forall in F. assert (I : In s steps) by (rewrite E; apply in_or_app; right; left; reflexivity).
  destruct (F s I) as [Ea _]. rewrite Ea in Wr.
  destruct (C03_matches_writer_gate _ _ _ Wr) as [Dt [Bg [Eb _]]].
  repeat split; auto.
  intros r Wf Sh. rewrite Eb. apply (C03_matches_roundtrip cast st (h_mem s) r); assumption.
Qed.
Print Assumptions C03_history_pairs_read_back.

(* the two orientations of a pair: whatever happened before, after writing (b, a) then (a, b) each pair has its
   own file holding its own array *)
Theorem C03_swapped_pair_own_files : forall cast root ftype a b m1 m2 pre f,
  good_root root = true -> good_rel ftype = true -> no_slashb ftype = true ->
  good_rel a = true -> good_rel b = true -> a <> b ->
  dirs_free_of Tbinary.pair_sep a = true -> dirs_free_of Tbinary.pair_sep b = true ->
  write_api cast AMatches m1 = Written (dump m1) -> write_api cast AMatches m2 = Written (dump m2) ->
  let w x y m := {| h_write := true; h_api := AMatches; h_ftype := ftype; h_a := x; h_b := y; h_mem := m |} in
  let f' := hist_run cast SFile root (pre ++ [w b a m1; w a b m2]) f in
  matches_path root ftype a b <> matches_path root ftype b a
  /\ fs_read (matches_path root ftype a b) f' = Some (dump m2)
  /\ fs_read (matches_path root ftype b a) f' = Some (dump m1).
Proof.
  intros cast root ftype a b m1 m2 pre f R T S A B N Da Db W1 W2 w f'.
  assert (NE : matches_path root ftype a b <> matches_path root ftype b a).
  { intros E. apply C03_matches_path_injective in E; auto. destruct E as [_ [E _]]. auto. }
  split; [exact NE|]. subst f'. rewrite hist_run_app.
  unfold hist_run. cbn [fold_left]. unfold hist_step, w. cbn [h_write h_api h_mem h_ftype h_a h_b].
  rewrite W1, W2. unfold hist_key, hist_loc. cbn [h_api h_ftype h_a h_b]. split.
  - apply fs_read_same.
  - rewrite fs_read_other by (intros E; apply NE; symmetry; exact E). apply fs_read_same.
Qed.
Print Assumptions C03_swapped_pair_own_files.

(* all four feature kinds together, whole histories on a directory tree: a step on normalised names *)
Definition step_ok (s : hstep) : Prop :=
  In (kind_of_api (h_api s)) kinds /\ good_rel (h_ftype s) = true /\ no_slashb (h_ftype s) = true /\
  good_rel (h_a s) = true /\
  (h_api s = AMatches -> good_rel (h_b s) = true /\ dirs_free_of Tbinary.pair_sep (h_a s) = true).
(* same destination, decided on the NAMES: kind, feature type, image (and second image for matches) *)
Definition same_dest (t s : hstep) : bool :=
  String.eqb (kind_of_api (h_api t)) (kind_of_api (h_api s)) && String.eqb (h_ftype t) (h_ftype s)
  && String.eqb (h_a t) (h_a s)
  && match h_api t with AMatches => String.eqb (h_b t) (h_b s) | _ => true end.

Lemma hist_loc_feature : forall root s, step_ok s ->
  exists rel, good_rel rel = true /\
    hist_loc SFile root s = feature_path (kind_of_api (h_api s)) root (h_ftype s) rel /\
    (h_api s <> AMatches -> rel = h_a s).
Proof.
  intros root s [K [T [S [A M]]]].
  destruct (h_api s) eqn:E; cbn in K;
    try (exists (h_a s); unfold hist_loc; rewrite E; repeat split; auto; fail).
  destruct (M eq_refl) as [B D]. destruct tables_good as [_ [Gs _]].
    destruct (matches_file_gen_spec Tbinary.pair_sep (h_a s) (h_b s) Gs A B) as [E1 G1].
    exists (matches_file (h_a s) (h_b s)). unfold hist_loc. rewrite E.
    split; [unfold matches_file; rewrite E1; exact G1|]. split; [reflexivity|]. intros N. exfalso. apply N. reflexivity.
Qed.

(* after ANY history of keypoints / descriptors / global-feature / matches writes on normalised names in one
   directory tree, the documented file of a destination holds the last array written for exactly that kind,
   type and image name(s) -- whatever else the tree holds *)
Theorem C03_history_features : forall cast root steps t,
  good_root root = true -> Forall step_ok steps -> step_ok t ->
  fs_read (hist_loc SFile root t) (hist_run cast SFile root steps [])
  = hist_last_by cast (same_dest t) steps.
Proof.
  intros cast root steps t R F Ht.
  rewrite hist_run_last. unfold hist_last.
  rewrite (hist_last_by_ext cast _ (same_dest t)).
  - destruct (hist_last_by cast (same_dest t) steps); reflexivity.
  - intros s I. rewrite Forall_forall in F. specialize (F s I).
    change (hist_key SFile root s) with (hist_loc SFile root s).
    destruct (hist_loc_feature root t Ht) as [rt [Grt [Et Pt]]].
    destruct (hist_loc_feature root s F) as [rs [Grs [Es Ps]]].
    destruct Ht as [Kt [Tt [St [At Mt]]]]. destruct F as [Ks [Ts [Ss [As Ms]]]].
    unfold same_dest.
    destruct (String.eqb_spec (kind_of_api (h_api t)) (kind_of_api (h_api s))) as [EK|NK].
    + (* same kind *)
      assert (EA : h_api t = h_api s).
      { destruct (h_api t), (h_api s); cbn in EK; try discriminate EK; reflexivity. }
      destruct (String.eqb_spec (hist_loc SFile root t) (hist_loc SFile root s)) as [E|N].
      * destruct (h_api t) eqn:At'; symmetry in EA.
        all: try (rewrite Et, Es, <- EK in E; apply C03_feature_path_injective in E; auto;
                  destruct E as [E1 E2]; rewrite Pt, Ps in E2 by (try rewrite EA; discriminate);
                  rewrite E1, E2, !String.eqb_refl; reflexivity).
        destruct (Mt eq_refl) as [Bt Dt]. destruct (Ms EA) as [Bs Ds].
        unfold hist_loc in E. rewrite At', EA in E.
        apply C03_matches_path_injective in E; auto. destruct E as [E1 [E2 E3]].
        rewrite E1, E2, E3, !String.eqb_refl. reflexivity.
      * cbn [andb].
        destruct (String.eqb_spec (h_ftype t) (h_ftype s)) as [E1|]; [|reflexivity].
        destruct (String.eqb_spec (h_a t) (h_a s)) as [E2|]; [|reflexivity]. cbn [andb].
        assert (P : forall x : bool, (x = true -> False) -> false = x) by (intros [|] Hx; [exfalso; auto | reflexivity]).
        apply P. intros Hm. apply N. unfold hist_loc. rewrite <- EA.
        destruct (h_api t); rewrite ?E1, ?E2; try reflexivity.
        apply String.eqb_eq in Hm. rewrite Hm. reflexivity.
    + cbn [andb]. apply String.eqb_neq. rewrite Et, Es. apply C03_kinds_disjoint; auto.
Qed.
Print Assumptions C03_history_features.

(* ================================================================== non-vacuity and the repaired defect *)
Local Open Scope N_scope.

(* a 2 x 2 float32 array [[1.0, NaN(payload 1)], [-0.0, 2.0]] held big-endian in a Fortran-ordered buffer:
   well-formed, written as 16 little-endian bytes, read back identically from a file and from a tar;
   an empty 0 x 5 float16 array reads back with shape (0, 5); normalised names give the documented paths *)
Example C03_example :
  let m := {| m_dtype := F32; m_shape := [2; 2]; m_elems := [1065353216; 2143289345; 2147483648; 1073741824];
              m_big := true; m_layout := LFortran |} in
  let z := {| m_dtype := F16; m_shape := [0; 5]; m_elems := []; m_big := false; m_layout := LContig |} in
  wf_mem m = true /\ wf_mem z = true
  /\ write_api (fun _ n => n) AKeypoints m = Written [0; 0; 128; 63; 1; 0; 192; 127; 0; 0; 0; 128; 0; 0; 0; 64]
  /\ read_api AKeypoints SFile F32 2 0 0 (dump m) = ROk {| a_dtype := F32; a_rows := 2; a_cols := 2; a_elems := m_elems m |}
  /\ read_api ADescriptors STar F32 2 0 0 (dump m) = ROk {| a_dtype := F32; a_rows := 2; a_cols := 2; a_elems := m_elems m |}
  /\ read_api AKeypoints SFile F16 5 0 0 (dump z) = ROk {| a_dtype := F16; a_rows := 0; a_cols := 5; a_elems := [] |}
  /\ read_api AKeypoints SFile F32 3 0 0 (dump m) = RErr ErrValue
  /\ good_root "/data/käpture" = true /\ good_rel "mapping/cam 01/im.age.jpg" = true
  /\ feature_path "Keypoints" "/data/k" "SIFT" "mapping/cam 01/im.age.jpg"
     = "/data/k/reconstruction/keypoints/SIFT/mapping/cam 01/im.age.jpg.kpt"%string
  /\ matches_path "/data/k" "SIFT" "a/1.jpg" "b/2.jpg"
     = "/data/k/reconstruction/matches/SIFT/a/1.jpg.overlapping/b/2.jpg.matches"%string
  /\ dirs_free_of Tbinary.pair_sep "a/1.jpg" = true.
Proof. vm_compute. repeat split. Qed.

(* the behaviour before the repair is refuted: a big-endian float32 array [[1.0, 2.0]] was dumped
   big-endian, so the file is not the specified little-endian dump and reads back as other numbers *)
Lemma C03_legacy_refuted :
  exists m bs,
    wf_mem m = true /\ m_shape m = [1; 2] /\
    write_api_legacy (fun _ n => n) AKeypoints m = Written bs /\ bs <> dump m /\
    read_api AKeypoints SFile (m_dtype m) 2 0 0 bs
    <> ROk {| a_dtype := m_dtype m; a_rows := 1; a_cols := 2; a_elems := m_elems m |}.
Proof.
  exists {| m_dtype := F32; m_shape := [1; 2]; m_elems := [1065353216; 1073741824]; m_big := true; m_layout := LContig |}.
  exists [63; 128; 0; 0; 64; 0; 0; 0].
  repeat split; try (vm_compute; reflexivity); vm_compute; discriminate.
Qed.

(* the proviso of C03_matches_path_injective is necessary: with a directory named "d.overlapping"
   two different pairs of normalised names share one matches file *)
Example C03_pair_collision :
  good_rel "d.overlapping/e" = true /\ good_rel "f" = true /\ good_rel "d" = true /\ good_rel "e.overlapping/f" = true
  /\ matches_path "r" "t" "d.overlapping/e" "f" = matches_path "r" "t" "d" "e.overlapping/f".
Proof. vm_compute. repeat split. Qed.

(* a writer that byte-swaps the caller's big-endian buffer in place is excluded by C03_repeated_writes:
   under that variant the second write of [[1.0, 2.0]] dumps other bytes and the caller's array is changed *)
Lemma C03_inplace_swap_refuted :
  exists m, wf_mem m = true /\
    let (rs, m') := run_seq (write_step_inplace (fun _ n => n) true) [AKeypoints; ADescriptors] m in
    nth_error rs 0%nat = Some (Written (dump m)) /\ nth_error rs 1%nat <> Some (Written (dump m)) /\
    snd (run_seq (write_step_inplace (fun _ n => n) true) [AKeypoints] m) <> m.
Proof.
  exists {| m_dtype := F32; m_shape := [1; 2]; m_elems := [1065353216; 1073741824]; m_big := true; m_layout := LContig |}.
  split; [vm_compute; reflexivity|]. vm_compute. repeat split; try reflexivity; intros E; discriminate E.
Qed.

(* a location that depends on the store ("a pair is not oriented": return the existing file of (b, a) when the
   file of (a, b) is missing) is excluded by C03_history_pairs / C03_swapped_pair_own_files: under that variant,
   after writing (b, a) then (a, b) nothing is at the documented location of (a, b), and the file of (b, a)
   holds the array of (a, b) *)
Lemma C03_store_dependent_location_refuted :
  exists m1 m2,
    let w x y m := {| h_write := true; h_api := AMatches; h_ftype := "SIFT"%string; h_a := x; h_b := y; h_mem := m |} in
    let steps := [w "b.jpg"%string "a.jpg"%string m1; w "a.jpg"%string "b.jpg"%string m2] in
    let f := fold_left (hist_step_fallback "R") steps [] in
    wf_mem m1 = true /\ wf_mem m2 = true /\ dump m1 <> dump m2 /\
    fs_read (matches_path "R" "SIFT" "a.jpg" "b.jpg") f = None /\
    fs_read (matches_path "R" "SIFT" "b.jpg" "a.jpg") f = Some (dump m2) /\
    fs_read (matches_path "R" "SIFT" "a.jpg" "b.jpg") (hist_run (fun _ n => n) SFile "R" steps []) = Some (dump m2) /\
    fs_read (matches_path "R" "SIFT" "b.jpg" "a.jpg") (hist_run (fun _ n => n) SFile "R" steps []) = Some (dump m1).
Proof.
  exists {| m_dtype := F64; m_shape := [1; 3]; m_elems := [0; 4607182418800017408; 4602678819172646912];
            m_big := false; m_layout := LContig |}.
  exists {| m_dtype := F64; m_shape := [0; 3]; m_elems := []; m_big := false; m_layout := LContig |}.
  vm_compute. repeat split; try reflexivity. intros E; discriminate E.
Qed.

(* the hypotheses of the history theorems are satisfiable: both orientations of a pair and a keypoints file *)
Example C03_history_example :
  let m := {| m_dtype := F64; m_shape := [1; 3]; m_elems := [0; 4607182418800017408; 4602678819172646912];
              m_big := false; m_layout := LContig |} in
  let w k x y := {| h_write := true; h_api := k; h_ftype := "SIFT"%string; h_a := x; h_b := y; h_mem := m |} in
  Forall step_ok [w AMatches "b.jpg" "a/1.jpg"; w AMatches "a/1.jpg" "b.jpg"; w AKeypoints "a/1.jpg" ""]%string
  /\ Forall pair_step_ok [w AMatches "b.jpg" "a/1.jpg"; w AMatches "a/1.jpg" "b.jpg"]%string
  /\ good_root "R" = true.
Proof.
  cbv zeta. split; [|split; [|reflexivity]].
  - repeat (apply Forall_cons || apply Forall_nil);
      (split; [apply memb_In; vm_compute; reflexivity|]);
      (split; [vm_compute; reflexivity|]); (split; [vm_compute; reflexivity|]); (split; [vm_compute; reflexivity|]);
      cbn [h_api]; intros E; try discriminate E; split; vm_compute; reflexivity.
  - repeat (apply Forall_cons || apply Forall_nil);
      (split; [reflexivity|]); repeat split; vm_compute; reflexivity.
Qed.
