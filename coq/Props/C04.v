(* Props/C04.v — property C04: a loaded dataset has no dangling references and loses nothing that resolves.
   Only statements, each closed by lemmas of Proofs/PLoad.v about the model Model/MLoad.v
   ([load_dir] = kapture.io.csv.kapture_from_dir on parsed tables), instantiated with the tables that
   harness/tables/load.py read from the repository under test on this run (Gen/Tload.v).
   Every theorem quantifies over ALL raw directories [r] (any rows, any sizes, any version text). *)
From Coq Require Import List Bool String ZArith NArith QArith Lia.
From KV Require Import Eqb AL Str.
From KV.Gen Require Import Tload.
From KV.Model Require Import MLoad.
From KV.Proofs Require Import PLoad.
Import ListNotations.
Local Open Scope string_scope.
Local Open Scope list_scope.

(* ---------------------------------------------------------------- the statement, clause by clause *)
(* "After loading a directory ..." : the seven reference kinds of the statement *)
Record closed (r : rawdir) (d : dataset) : Prop := {
  (* a sensor id is declared once, so "the kind of a sensor" is well defined *)
  cl_sensors_unique : NoDup (sensor_ids d);
  (* 1. every record refers to a declared sensor of the matching kind *)
  cl_records : forall k rows row, d_records d k = Some rows -> In row rows ->
                 In (rsensor row, sensor_kind_of k) (d_sensors d);
  (* 2. every trajectory entry to a declared sensor or rig *)
  cl_traj : forall rows p, d_traj d = Some rows -> In p rows ->
              In (snd p) (sensor_ids d) \/ In (snd p) (rig_ids d);
  (* 3. every rig member to a declared sensor or rig (and its rig is a loaded rig) *)
  cl_rigs : forall p, In p (rig_pairs d) ->
              In (fst p) (rig_ids d) /\ (In (snd p) (sensor_ids d) \/ In (snd p) (rig_ids d));
  (* 4. no loaded rig identifier is a sensor identifier *)
  cl_nocollision : forall x, In x (rig_ids d) -> ~ In x (sensor_ids d);
  (* 5. every feature entry to a known image with an existing data file *)
  cl_feat : forall fk t i, feat_loaded d fk t i -> In i (images_of d) /\ file_exists r fk t i;
  (* 6. every match entry to two known images with an existing matches file *)
  cl_matches : forall t p, match_loaded d t p ->
                 In (fst p) (images_of d) /\ In (snd p) (images_of d) /\ match_file_exists r t p;
  (* 7. every observation to a loaded keypoints type and image *)
  cl_obs : forall rows o, d_obs d = Some rows -> In o rows -> feat_loaded d FKeypoints (otype o) (oimage o);
}.

(* "Nothing whose references all resolve is dropped" — sensors side (every version that loads) *)
Record complete (r : rawdir) (d : dataset) : Prop := {
  co_sensors_sound : forall p, In p (d_sensors d) -> In p (r_sensors r);
  co_sensors : forall id, In id (map fst (r_sensors r)) -> In id (sensor_ids d);
  (* dict semantics: the last declaration of an id is the loaded one; with unique ids nothing changes *)
  co_sensors_last : forall l1 p l2, r_sensors r = l1 ++ p :: l2 -> (forall y, In y l2 -> fst y <> fst p) ->
                      In p (d_sensors d);
  co_sensors_exact : NoDup (map fst (r_sensors r)) -> d_sensors d = r_sensors r;
  (* rigs: no rig disappears (a rig whose members are all unknown stays, with no member: the expunge never
     removes a rig, so one pass is a fixpoint); a member row is kept IFF its member is a sensor or a rig *)
  co_rigs : forall rows, r_rigs r = Some rows ->
              exists g, d_rigs d = Some g /\
                (forall x, In x (fst g) <-> In x (map fst rows)) /\
                (forall p, In p (snd g) <-> In p rows /\ (In (snd p) (sensor_ids d) \/ In (snd p) (map fst rows))) /\
                NoDup (fst g);
  (* trajectories: kept IFF the device is a sensor or a rig *)
  co_traj : forall raw, r_traj r = Some raw ->
              exists rows, d_traj d = Some rows /\
                forall p, In p rows <-> In p raw /\ (In (snd p) (sensor_ids d) \/ In (snd p) (rig_ids d));
  (* records of each kind (all nine alike): the part is present; sound; every resolving row has its key loaded;
     the last resolving row of a key is loaded itself; keys are unique *)
  co_records : forall k raw, r_records r k = Some raw ->
    exists rows, d_records d k = Some rows /\
       (forall row, In row rows -> In row raw /\ resolves (d_sensors d) k row) /\
       (forall row, In row raw -> resolves (d_sensors d) k row ->
          exists row', In row' rows /\ rkey k row' = rkey k row /\ resolves (d_sensors d) k row') /\
       (forall l1 row l2, raw = l1 ++ row :: l2 -> resolves (d_sensors d) k row ->
          (forall y, In y l2 -> resolves (d_sensors d) k y -> rkey k y <> rkey k row) -> In row rows) /\
       NoDup (map (rkey k) rows);
  (* a file that does not exist gives an absent part *)
  co_absent : (r_rigs r = None -> d_rigs d = None) /\ (r_traj r = None -> d_traj d = None) /\
              (forall k, r_records r k = None -> d_records d k = None);
}.

(* — reconstruction side (current version) *)
Record complete_recon (r : rawdir) (d : dataset) : Prop := {
  cr_feat : forall fk t i, feat_loaded d fk t i <-> In i (images_of d) /\ file_exists r fk t i;
  cr_feat_types : forall fk l0 t files, r_feat r fk = Some l0 -> In (t, files) l0 ->
                    exists l imgs, d_feat d fk = Some l /\ In (t, imgs) l;
  cr_matches : forall t p, match_loaded d t p <->
                 match_file_exists r t p /\ In (fst p) (images_of d) /\ In (snd p) (images_of d)
                 /\ pair_allowed (r_pairs r) p = true;
  cr_points : d_points d = r_points r;
  (* observations: exactly the raw entries (with multiplicity, in order) that pass the keypoints test ... *)
  cr_obs : match r_obs r with
           | None => d_obs d = None
           | Some raw => exists kps, d_feat d FKeypoints = Some kps /\
                                     d_obs d = Some (List.filter (obs_ok kps) raw)
           end;
  (* ... and that test is "type and image are loaded keypoints" (type folders have distinct names) *)
  cr_obs_test : forall kps l0 o, d_feat d FKeypoints = Some kps -> r_feat r FKeypoints = Some l0 ->
                  NoDup (map fst l0) ->
                  (obs_ok kps o = true <-> feat_loaded d FKeypoints (otype o) (oimage o));
}.

(* ---------------------------------------------------------------- theorems *)
Theorem C04_closed : forall r d, load_dir r = Ok d -> closed r d.
Proof.
  intros r d H. destruct (load_ok_inv r d H) as [_ [S V]].
  assert (NR : no_recon d -> (forall fk t i, ~ feat_loaded d fk t i) /\ (forall t p, ~ match_loaded d t p)
                             /\ d_obs d = None).
  { intros [A [B [_ C]]]. repeat split; auto.
    - intros fk t i [l [imgs [E _]]]. rewrite A in E. discriminate.
    - intros t p [l [ps [E _]]]. rewrite B in E. discriminate. }
  constructor.
  - exact (sensors_NoDup r d S).
  - exact (closed_records r d S).
  - exact (closed_traj r d S).
  - exact (closed_rigs r d S).
  - exact (closed_nocollision r d S).
  - intros fk t i F. destruct V as [[_ R]|[_ N]]; [apply (feat_iff r d R); exact F|].
    exfalso. exact (proj1 (NR N) fk t i F).
  - intros t p M. destruct V as [[_ R]|[_ N]].
    + apply (matches_iff r d R) in M. tauto.
    + exfalso. exact (proj1 (proj2 (NR N)) t p M).
  - intros rows o E I. destruct V as [[_ R]|[_ N]]; [exact (closed_obs r d R rows o E I)|].
    rewrite (proj2 (proj2 (NR N))) in E. discriminate.
Qed.
Print Assumptions C04_closed.

Theorem C04_complete : forall r d, load_dir r = Ok d ->
  complete r d /\ (d_version d = Tload.current_version -> complete_recon r d).
Proof.
  intros r d H. destruct (load_ok_inv r d H) as [_ [S V]]. split.
  - constructor.
    + exact (sensors_sound r d S).
    + exact (sensors_ids_complete r d S).
    + exact (sensors_last r d S).
    + exact (sensors_exact r d S).
    + exact (complete_rigs r d S).
    + exact (complete_traj r d S).
    + exact (complete_records r d S).
    + exact (absent_parts_stay_absent r d S).
  - intros E. destruct V as [[_ R]|[N _]]; [|contradiction]. constructor.
    + exact (feat_iff r d R).
    + intros fk l0 t files A B. destruct (feat_types r d R fk l0 t files A B) as [l [C D]]. eauto.
    + exact (matches_iff r d R).
    + exact (rs_points r d R).
    + pose proof (obs_shape r d R) as O. destruct (r_obs r); [|exact O].
      destruct O as [kps [A [B _]]]. exists kps; auto.
    + intros kps l0 o A B N. split; [apply (obs_ok_loaded d kps o A)|].
      apply (loaded_obs_ok d kps o A). exact (feat_types_NoDup r d R FKeypoints l0 kps B N A).
Qed.
Print Assumptions C04_complete.

(* with unique keys in a records file (what every writer produces) the loaded part is EXACTLY the resolving rows *)
Theorem C04_records_exact : forall r d k raw rows, load_dir r = Ok d ->
  r_records r k = Some raw -> d_records d k = Some rows -> NoDup (map (rkey k) raw) ->
  forall row, In row rows <-> In row raw /\ In (rsensor row, sensor_kind_of k) (d_sensors d).
Proof.
  intros r d k raw rows H. destruct (load_ok_inv r d H) as [_ [S _]]. exact (complete_records_exact r d S k raw rows).
Qed.
Print Assumptions C04_records_exact.

(* the chain behind clause 7: a loaded observation is on an image recorded by a declared camera *)
Corollary C04_observation_chain : forall r d rows o, load_dir r = Ok d -> d_obs d = Some rows -> In o rows ->
  exists cam row, d_records d RCamera = Some cam /\ In row cam /\ rextra row = oimage o /\
                  In (rsensor row, "camera") (d_sensors d) /\ file_exists r FKeypoints (otype o) (oimage o).
Proof.
  intros r d rows o H E I. pose proof (C04_closed r d H) as C.
  pose proof (cl_obs r d C rows o E I) as F. apply (cl_feat r d C) in F. destruct F as [Im Fe].
  unfold images_of in Im. destruct (d_records d RCamera) as [cam|] eqn:DC; [|destruct Im].
  apply in_map_iff in Im. destruct Im as [row [Er Ir]].
  exists cam, row. repeat split; auto. exact (cl_records r d C RCamera cam row DC Ir).
Qed.
Print Assumptions C04_observation_chain.

(* "a rig identifier that collides with a sensor identifier is rejected" *)
Theorem C04_collision_rejected : forall r, collides r ->
  (forall d, load_dir r <> Ok d) /\
  (r_has_sensors r = true -> (exists v q, r_version r = Some v /\ ver_q v = Some q /\ newer q = false) ->
   load_dir r = Err ECollision).
Proof.
  intros r C. pose proof (load_outcome r) as O. split.
  - intros d E. rewrite E in O. tauto.
  - intros HS [v [q [HV [HQ HN]]]]. destruct (load_dir r) as [d|[]]; try tauto.
    + destruct O as [O|[v' [q' [_ [_ [_ [NC _]]]]]]]; [congruence | contradiction].
    + destruct O as [_ O]. congruence.
    + destruct O as [_ [v' [E [O|[q' [O1 O2]]]]]]; congruence.
Qed.
Print Assumptions C04_collision_rejected.

(* "A directory declaring a newer format version is refused" — newer as the loader compares: float(v) > float(current),
   here on the exact rational the text denotes *)
Theorem C04_newer_refused : forall r v q, r_version r = Some v -> ver_q v = Some q -> newer q = true ->
  (forall d, load_dir r <> Ok d) /\ (r_has_sensors r = true -> load_dir r = Err ENewer).
Proof.
  intros r v q HV HQ HN. pose proof (load_outcome r) as O. split.
  - intros d E. rewrite E in O. destruct O as [_ [[q' [A [B C]]] _]]. congruence.
  - intros HS. destruct (load_dir r) as [d|[]]; auto.
    + destruct O as [_ [[q' [A [B C]]] _]]. congruence.
    + destruct O as [O|[v' [q' [A [B [C _]]]]]]; congruence.
    + destruct O as [_ O]. congruence.
    + destruct O as [_ [[v' [q' [A [B C]]]] _]]. congruence.
Qed.
Print Assumptions C04_newer_refused.

(* what "newer" means in decimal terms, for the current version read from the tree (1.1):
   every version >= 1.1 + 1e-15 is refused, no version <= 1.1 is *)
Theorem C04_newer_decimal : forall q : Q,
  ((11 # 10) + (1 # 1000000000000000) <= q -> newer q = true)%Q /\ (q <= 11 # 10 -> newer q = false)%Q.
Proof.
  intros q. split; intros L.
  - apply newer_spec. change (if Tload.ver_thr_incl then _ else _) with (Tload.ver_thr < q)%Q.
    eapply Qlt_le_trans; [|exact L]. reflexivity.
  - destruct (newer q) eqn:E; [|reflexivity]. apply newer_spec in E.
    change (if Tload.ver_thr_incl then _ else _) with (Tload.ver_thr < q)%Q in E.
    exfalso. apply (Qlt_not_le _ _ E). eapply Qle_trans; [exact L|]. discriminate.
Qed.
Print Assumptions C04_newer_decimal.

(* "one declaring an older version loads its sensors-side files only, without the reconstruction":
   any version text other than the current one that is not refused gives no reconstruction part at all, while the
   sensors-side parts satisfy [closed] and [complete] exactly as for the current version (C04_closed, C04_complete) *)
Theorem C04_older_sensors_only : forall r d, load_dir r = Ok d -> d_version d <> Tload.current_version ->
  (forall fk, d_feat d fk = None) /\ d_matches d = None /\ d_points d = None /\ d_obs d = None.
Proof.
  intros r d H N. destruct (load_ok_inv r d H) as [_ [_ [[E _]|[_ NR]]]]; [contradiction | exact NR].
Qed.
Print Assumptions C04_older_sensors_only.

(* the version text is kept, and the sensors-side parts do not depend on it *)
Theorem C04_version_kept : forall r d, load_dir r = Ok d ->
  r_version r = Some (d_version d) /\ exists q, ver_q (d_version d) = Some q /\ newer q = false.
Proof. intros r d H. destruct (load_ok_inv r d H) as [[_ V] _]. exact V. Qed.
Print Assumptions C04_version_kept.

(* exact conditions of every outcome: the loader refuses ONLY for a missing sensors file / version line, a newer
   version, a collision, or one of its own assertions (feature folder without records_camera.txt, observations
   without loaded keypoints or without points3d.txt) — never because of a dangling entry *)
Theorem C04_outcomes_exactly : forall r,
  match load_dir r with
  | Err EAssert =>
      r_has_sensors r = false \/
      (exists v q, r_version r = Some v /\ ver_q v = Some q /\ newer q = false /\ ~ collides r
                   /\ v = Tload.current_version /\ ~ asserts_ok r)
  | Err ENoVersion => r_has_sensors r = true /\ r_version r = None
  | Err ENewer =>
      r_has_sensors r = true /\ exists v, r_version r = Some v /\
        (ver_q v = None \/ exists q, ver_q v = Some q /\ newer q = true)
  | Err ECollision =>
      r_has_sensors r = true /\ (exists v q, r_version r = Some v /\ ver_q v = Some q /\ newer q = false) /\ collides r
  | Ok d =>
      r_has_sensors r = true /\ (exists q, r_version r = Some (d_version d) /\ ver_q (d_version d) = Some q /\ newer q = false)
      /\ ~ collides r /\ (d_version d = Tload.current_version -> asserts_ok r)
  end.
Proof. exact load_outcome. Qed.
Print Assumptions C04_outcomes_exactly.

(* --- the model covers every records part of the tree under test, and the "matching kind" of each is a SensorType *)
Theorem C04_record_kinds_covered :
  map part_name all_rkinds = Tload.record_parts /\
  (forall k, In k all_rkinds) /\
  (forall k, part_name k = ("records_" ++ sensor_kind_of k)%string) /\
  (forall k, In (sensor_kind_of k) Tload.sensor_types).
Proof.
  split; [vm_compute; reflexivity|]. split; [intros []; cbn; tauto|].
  split; [intros []; reflexivity|]. intros []; vm_compute; tauto.
Qed.
Print Assumptions C04_record_kinds_covered.

(* ---------------------------------------------------------------- skip_list ("configurations" of the quantifier) *)
(* [load_dir_skip s r] = kapture_from_dir(dir, skip_list = s): by definition of the model, the load of the directory
   in which the skipped parts do not exist; the correspondence run checks that this is what the code does. *)

(* an empty skip list is the plain load *)
Theorem C04_skip_nothing : forall r, load_dir_skip skip_none r = load_dir r.
Proof. exact load_dir_skip_none. Qed.
Print Assumptions C04_skip_nothing.

(* whatever is skipped, a successful load is reference-closed with respect to the REAL directory [r] (data files
   exist in r, not merely in the reduced view), complete for everything that is not skipped, and the skipped
   parts are absent *)
Theorem C04_skip_closed : forall s r d, load_dir_skip s r = Ok d ->
  closed r d /\ skipped_absent s d /\
  complete (skip_raw s r) d /\ (d_version d = Tload.current_version -> complete_recon (skip_raw s r) d).
Proof.
  intros s r d H. pose proof (C04_closed _ _ H) as C. split; [|split; [exact (skip_absent s r d H) | exact (C04_complete _ _ H)]].
  constructor.
  - exact (cl_sensors_unique _ _ C).
  - exact (cl_records _ _ C).
  - exact (cl_traj _ _ C).
  - exact (cl_rigs _ _ C).
  - exact (cl_nocollision _ _ C).
  - intros fk t i F. destruct (cl_feat _ _ C fk t i F) as [A B]. split; [exact A | exact (file_exists_skip s r fk t i B)].
  - intros t p M. destruct (cl_matches _ _ C t p M) as [A [B E]].
    split; [exact A | split; [exact B | exact (match_file_exists_skip s r t p E)]].
  - exact (cl_obs _ _ C).
Qed.
Print Assumptions C04_skip_closed.

(* WHAT SKIPPING MUST NOT CHANGE: when both loads succeed, every part that is not skipped is exactly the part of
   the plain load (version and sensors always), with the one dependency the code has: when the rigs are skipped the
   trajectories are the plain ones minus the entries of rigs.  (Features, matches and observations are stated for
   records_camera not skipped: with it skipped the loader asserts as soon as one of their folders exists.) *)
Theorem C04_skip_frame : forall s r d d0, load_dir_skip s r = Ok d -> load_dir r = Ok d0 -> skip_frame s r d d0.
Proof. exact skip_frame_holds. Qed.
Print Assumptions C04_skip_frame.

(* skipping never turns a loadable directory into a refused one except through the loader's own assertions
   (features / matches with records_camera skipped, observations with keypoints or points3d skipped) *)
Theorem C04_skip_refuses_only_by_assertion : forall s r d0,
  load_dir r = Ok d0 -> (d_version d0 = Tload.current_version -> asserts_ok (skip_raw s r)) ->
  exists d, load_dir_skip s r = Ok d.
Proof. exact skip_ok. Qed.
Print Assumptions C04_skip_refuses_only_by_assertion.

(* the skippable parts of the model are the loadable types of the tree under test (all but Sensors, which the loader
   reads unconditionally) *)
Theorem C04_skippable_parts_covered :
  seteqb ("Sensors" :: skippable_classes) Tload.loadable_types = true /\
  List.length skippable_classes = 17%nat /\ NoDup skippable_classes.
Proof.
  split; [vm_compute; reflexivity|]. split; [reflexivity|].
  assert (E : dedup skippable_classes = skippable_classes) by (vm_compute; reflexivity).
  rewrite <- E. apply dedup_NoDup.
Qed.
Print Assumptions C04_skippable_parts_covered.

(* ---------------------------------------------------------------- non-vacuity *)
(* a directory with every part, and a dangling entry of every class of the quantifier *)
Definition ex_raw : rawdir := {|
  r_has_sensors := true; r_version := Some "1.1";
  r_sensors := [("cam0", "camera"); ("lid0", "lidar"); ("gnss0", "gnss")];
  r_rigs := Some [("rig0", "cam0"); ("rig0", "ghost"); ("rigE", "ghost2"); ("rigtop", "rigE"); ("rigtop", "rig0")];
  r_traj := Some [(0, "rigtop"); (1, "lid0"); (2, "ghost"); (3, "rigE")]%Z;
  r_records := fun k => match k with
    | RCamera => Some [(0, "cam0", "a.jpg"); (1, "cam0", "b.jpg"); (2, "lid0", "c.jpg"); (3, "ghost", "d.jpg")]%Z
    | RLidar => Some [(1, "lid0", "p.pcd"); (1, "cam0", "q.pcd")]%Z
    | RGnss => Some [(0, "gnss0", ""); (0, "cam0", "")]%Z
    | _ => None end;
  r_feat := fun fk => match fk with
    | FKeypoints => Some [("sift", ["a.jpg"; "c.jpg"; "zz.jpg"])]       (* b.jpg has no file; c.jpg, zz.jpg are not images *)
    | FDescriptors => Some [("sift", ["a.jpg"; "b.jpg"])]
    | FGlobal => None end;
  r_matches := Some [("sift", [("a.jpg", "b.jpg"); ("a.jpg", "zz.jpg")])];
  r_pairs := None;
  r_points := Some 2%N;
  r_obs := Some [(0, "sift", "a.jpg", 1); (0, "sift", "b.jpg", 2); (1, "surf", "a.jpg", 0); (1, "sift", "zz.jpg", 3)]%Z;
|}.

Example C04_example :
  exists d, load_dir ex_raw = Ok d /\
    d_rigs d = Some (["rig0"; "rigE"; "rigtop"], [("rig0", "cam0"); ("rigtop", "rigE"); ("rigtop", "rig0")]) /\
    d_traj d = Some [(0, "rigtop"); (1, "lid0"); (3, "rigE")]%Z /\
    d_records d RCamera = Some [(0, "cam0", "a.jpg"); (1, "cam0", "b.jpg")]%Z /\
    d_records d RLidar = Some [(1, "lid0", "p.pcd")]%Z /\
    d_records d RGnss = Some [(0, "gnss0", "")]%Z /\
    d_feat d FKeypoints = Some [("sift", ["a.jpg"])] /\
    d_feat d FDescriptors = Some [("sift", ["a.jpg"; "b.jpg"])] /\
    d_matches d = Some [("sift", [("a.jpg", "b.jpg")])] /\
    d_obs d = Some [(0, "sift", "a.jpg", 1)]%Z.
Proof. eexists. split; [vm_compute; reflexivity|]. cbn. repeat split. Qed.

(* the same directory: declared older -> sensors side only; declared newer -> refused; with a rig named like a
   sensor -> rejected; "1.10" is read as older (observation: the float comparison makes it equal to 1.1, the
   text comparison then fails) *)
Definition with_version (v : string) (r : rawdir) : rawdir :=
  {| r_has_sensors := r_has_sensors r; r_version := Some v; r_sensors := r_sensors r; r_rigs := r_rigs r;
     r_traj := r_traj r; r_records := r_records r; r_feat := r_feat r; r_matches := r_matches r;
     r_pairs := r_pairs r; r_points := r_points r; r_obs := r_obs r |}.
Definition with_rigs (g : list (string * string)) (r : rawdir) : rawdir :=
  {| r_has_sensors := r_has_sensors r; r_version := r_version r; r_sensors := r_sensors r; r_rigs := Some g;
     r_traj := r_traj r; r_records := r_records r; r_feat := r_feat r; r_matches := r_matches r;
     r_pairs := r_pairs r; r_points := r_points r; r_obs := r_obs r |}.

Example C04_example_versions :
  (exists d, load_dir (with_version "1.0" ex_raw) = Ok d /\ d_feat d FKeypoints = None /\ d_obs d = None /\
             d_traj d = Some [(0, "rigtop"); (1, "lid0"); (3, "rigE")]%Z) /\
  load_dir (with_version "1.2" ex_raw) = Err ENewer /\
  load_dir (with_version "2.0" ex_raw) = Err ENewer /\
  (exists d, load_dir (with_version "1.10" ex_raw) = Ok d /\ d_points d = None) /\
  load_dir (with_rigs [("rig0", "cam0"); ("lid0", "cam0")] ex_raw) = Err ECollision.
Proof.
  split; [eexists; split; [vm_compute; reflexivity | cbn; repeat split]|].
  split; [vm_compute; reflexivity|]. split; [vm_compute; reflexivity|].
  split; [eexists; split; [vm_compute; reflexivity | reflexivity]|]. vm_compute; reflexivity.
Qed.

(* skip lists on the same directory: rigs skipped -> the entries of rigs leave the trajectories, the rest stays;
   a collision is not seen when the rigs are skipped; records_camera skipped alone -> the loader asserts; skipped
   together with everything that depends on it -> loads, without them *)
Definition sk_only_rigs : skipset :=
  {| sk_rigs := true; sk_traj := false; sk_rec := fun _ => false; sk_feat := fun _ => false;
     sk_matches := false; sk_points := false; sk_obs := false |}.
Definition sk_only_camera : skipset :=
  {| sk_rigs := false; sk_traj := false; sk_rec := fun k => match k with RCamera => true | _ => false end;
     sk_feat := fun _ => false; sk_matches := false; sk_points := false; sk_obs := false |}.
Definition sk_camera_and_dependents : skipset :=
  {| sk_rigs := false; sk_traj := false; sk_rec := fun k => match k with RCamera => true | _ => false end;
     sk_feat := fun _ => true; sk_matches := true; sk_points := false; sk_obs := true |}.

Example C04_example_skip :
  (exists d, load_dir_skip sk_only_rigs ex_raw = Ok d /\ d_rigs d = None /\ d_traj d = Some [(1, "lid0")]%Z /\
  d_records d RLidar = Some [(1, "lid0", "p.pcd")]%Z /\ d_obs d = Some [(0, "sift", "a.jpg", 1)]%Z) /\
  (exists d, load_dir_skip sk_only_rigs (with_rigs [("rig0", "cam0"); ("lid0", "cam0")] ex_raw) = Ok d) /\
  load_dir_skip sk_only_camera ex_raw = Err EAssert /\
  (exists d, load_dir_skip sk_camera_and_dependents ex_raw = Ok d /\ d_records d RCamera = None /\
  d_feat d FKeypoints = None /\ d_points d = Some 2%N /\ d_records d RGnss = Some [(0, "gnss0", "")]%Z).
Proof.
  split; [eexists; split; [vm_compute; reflexivity | cbn; repeat split]|].
  split; [eexists; vm_compute; reflexivity|]. split; [vm_compute; reflexivity|].
  eexists; split; [vm_compute; reflexivity | cbn; repeat split].
Qed.
