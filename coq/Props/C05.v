(* Props/C05.v — property C05: poses form a rigid-transform group; compose, inverse and point
   transform agree.  Only statements; every proof is a lemma of Proofs/PPose.v or Proofs/PQV.v.

   Poses are (q, t) with rational components (every IEEE double is one); `valid p` is n2 (pr p) <> 0,
   i.e. the quaternion is not zero — no unit-norm assumption anywhere.  `=p=` `=v=` `=m=` are
   component-wise equality of rationals.  All statements are for ALL valid poses, ALL points and chains
   of ANY length.  compose2 / compose_from / inverse / transform are the operations of
   kapture.core.PoseTransform with the rotation matrix of the normalising branch (MQV.rot);
   the *_impl versions use the matrix the code really computes (MQV.rot_impl, with the
   `abs(q_norm-1) < 1e-14` shortcut) and *_api are the calls with None parts and exceptions modelled. *)
From Coq Require Import String QArith Qabs List.
From KV.Model Require Import MQV MPose MPoseMemo.
From KV.Proofs Require Import PQV PPose PPoseMemo.
From KV.Gen Require Tpose.
Import ListNotations.
Local Open Scope Q_scope.

(* --- 1. composing is associative; for chains: cutting a chain anywhere and composing the two parts
        gives the pose that compose() builds by folding from the left *)
Theorem C05_compose_assoc : forall a b c, valid a -> valid b ->
  compose2 (compose2 a b) c =p= compose2 a (compose2 b c).
Proof. exact compose2_assoc. Qed.
Print Assumptions C05_compose_assoc.

Theorem C05_chain_any_bracketing : forall p ps q qs, Forall valid (p :: ps) -> Forall valid (q :: qs) ->
  compose_from p (ps ++ q :: qs) =p= compose2 (compose_from p ps) (compose_from q qs).
Proof. exact compose_from_app. Qed.
Print Assumptions C05_chain_any_bracketing.

(* --- 2. a pose composed with its inverse, on either side, is the identity pose (quaternion (1,0,0,0) and
        zero translation exactly, because inverse() divides by the squared norm) *)
Theorem C05_inverse_right : forall p, valid p -> compose2 p (inverse p) =p= pid.
Proof. exact compose2_inverse_r. Qed.
Print Assumptions C05_inverse_right.
Theorem C05_inverse_left : forall p, valid p -> compose2 (inverse p) p =p= pid.
Proof. exact compose2_inverse_l. Qed.
Print Assumptions C05_inverse_left.

(* --- 3. inverting twice returns the pose: same quaternion (not only same rotation) and same translation *)
Theorem C05_inverse_involutive : forall p, valid p -> inverse (inverse p) =p= p.
Proof. exact inverse_involutive. Qed.
Print Assumptions C05_inverse_involutive.

Theorem C05_inverse_of_chain : forall ps p, valid p -> Forall valid ps ->
  inverse (compose_from p ps) =p= compose_all (rev (map inverse (p :: ps))).
Proof. exact inverse_compose_from. Qed.
Print Assumptions C05_inverse_of_chain.

(* --- 4. transforming points by a composition = transforming successively, right-most pose first *)
Theorem C05_transform_chain : forall ps p x, valid p -> Forall valid ps ->
  transform (compose_from p ps) x =v= fold_right transform x (p :: ps).
Proof. exact transform_compose_from. Qed.
Print Assumptions C05_transform_chain.

Theorem C05_transform_points_chain : forall ps p xs, valid p -> Forall valid ps ->
  Forall2 veq (transform_points (compose_from p ps) xs) (fold_right transform_points xs (p :: ps)).
Proof. intros; apply transform_points_compose_from; assumption. Qed.
Print Assumptions C05_transform_points_chain.

Theorem C05_transform_inverse : forall p x, valid p ->
  transform (inverse p) (transform p x) =v= x /\ transform p (transform (inverse p) x) =v= x.
Proof. intros p x V. split; [apply transform_inverse_l | apply transform_inverse_r]; assumption. Qed.
Print Assumptions C05_transform_inverse.

(* --- 5. point transforms preserve (squared) distances; the matrix is a proper rotation *)
Theorem C05_distance_preserved : forall p x y, valid p ->
  vn2 (vsub (transform p x) (transform p y)) == vn2 (vsub x y).
Proof. exact transform_isometry. Qed.
Print Assumptions C05_distance_preserved.

Theorem C05_rotation_matrix_proper : forall q, ~ n2 q == 0 ->
  mmul (rot q) (mtrans (rot q)) =m= mid /\ mmul (mtrans (rot q)) (rot q) =m= mid /\ mdet (rot q) == 1.
Proof. intros q NZ. split; [|split]; [apply rot_orth_r | apply rot_orth_l | apply rot_det]; assumption. Qed.
Print Assumptions C05_rotation_matrix_proper.

(* --- 6. non-unit quaternions: the rotation is that of the normalised quaternion — scaling q by any k <> 0
        (k = 1/|q| is one such scaling, up to the irrational root; k = -1 is the sign ambiguity) changes
        neither the matrix nor the action, and for n2 q == 1 the matrix is the textbook unit formula *)
Theorem C05_scale_invariance : forall k q t x, ~ k == 0 ->
  rot (qscale k q) =m= rot q /\ transform (mkP (qscale k q) t) x =v= transform (mkP q t) x.
Proof.
  intros k q t x Hk. split; [apply rot_scale; assumption|].
  apply transform_same_motion. apply same_motion_scale; assumption.
Qed.
Print Assumptions C05_scale_invariance.

Theorem C05_unit_formula : forall q, n2 q == 1 -> rot q =m= rot_unit q /\ rot_impl q =m= rot q.
Proof. intros q H. split; [symmetry; apply rot_unit_exact; assumption | apply rot_impl_exact; left; assumption]. Qed.
Print Assumptions C05_unit_formula.

Theorem C05_homomorphism : forall a b, ~ n2 a == 0 -> ~ n2 b == 0 ->
  rot (qmul a b) =m= mmul (rot a) (rot b) /\ n2 (qmul a b) == n2 a * n2 b.
Proof. intros a b Ha Hb. split; [apply rot_mul; assumption | apply n2_mul]. Qed.
Print Assumptions C05_homomorphism.

(* --- 7. the domain is closed: chains and inverses of valid poses are valid, so the laws iterate *)
Theorem C05_domain_closed : forall p ps, valid p -> Forall valid ps ->
  valid (compose_from p ps) /\ valid (inverse p).
Proof. intros p ps Vp F. split; [apply valid_compose_from | apply valid_inverse]; assumption. Qed.
Print Assumptions C05_domain_closed.

(* --- 8. what the code computes (rot_impl) versus the exact rotation:
        (a) identical whenever every quaternion whose matrix is taken is exactly unit or at least 1e-14 away
            from unit norm — in particular for chains of exactly-unit quaternions of any length;
        (b) otherwise (squared norm within 1e-14 of 1, but not 1) the code skips the normalisation and each
            coordinate of the resulting translation / point deviates by at most 6e-14 * |t|_inf. *)
Theorem C05_code_exact_on_chain : forall ps p, chain_exact p ps -> compose_from_impl p ps =p= compose_from p ps.
Proof. exact compose_from_impl_exact. Qed.
Print Assumptions C05_code_exact_on_chain.

Theorem C05_code_exact_unit_chain : forall ps p, n2 (pr p) == 1 -> Forall (fun q => n2 (pr q) == 1) ps ->
  compose_from_impl p ps =p= compose_from p ps.
Proof. intros ps p Hp F. apply compose_from_impl_exact. apply chain_exact_unit; assumption. Qed.
Print Assumptions C05_code_exact_unit_chain.

Theorem C05_code_deviation_bounded : forall a b x, valid a ->
  (pr (compose2_impl a b) = pr (compose2 a b) /\
   vdist_le (6 * band * vmaxabs (pt b)) (pt (compose2_impl a b)) (pt (compose2 a b))) /\
  (pr (inverse_impl a) = pr (inverse a) /\
   vdist_le (6 * band * vmaxabs (pt a)) (pt (inverse_impl a)) (pt (inverse a))) /\
  vdist_le (6 * band * vmaxabs x) (transform_impl a x) (transform a x).
Proof.
  intros a b x Va. split; [|split];
    [apply (compose2_impl_close a b Va) | apply (inverse_impl_close a Va) | apply (transform_impl_close a x Va)].
Qed.
Print Assumptions C05_code_deviation_bounded.

Theorem C05_matrix_error_in_band : forall q, ~ n2 q == 0 -> mdist_le (2 * Qabs (n2 q - 1)) (rot_impl q) (rot q).
Proof. exact rot_impl_error. Qed.
Print Assumptions C05_matrix_error_in_band.

(* --- 9. the calls never fail on the property's domain and return the code-layer value: for complete poses
        with non-zero quaternion, compose (any non-empty chain), inverse and transform_points (Nx3 or Nx6)
        return Ok; the executable API model (the one the correspondence evaluates) refines layer 2 *)
Theorem C05_compose_total : forall p ps, Forall valid (p :: ps) ->
  exists m, compose_api (map lift (p :: ps)) = Ok m /\ oeq m (lift (compose_from_impl p ps)).
Proof. exact compose_api_refines. Qed.
Print Assumptions C05_compose_total.

Theorem C05_inverse_total : forall p, valid p ->
  exists m, inverse_api (lift p) = Ok m /\ oeq m (lift (inverse_impl p)).
Proof. exact inverse_api_refines. Qed.
Print Assumptions C05_inverse_total.

Theorem C05_transform_total : forall p xs, valid p ->
  (exists ms, transform_api (lift p) (map row3 xs) = Ok ms /\ Forall2 veq ms (map (transform_impl p) xs)).
Proof. intros p xs Vp. apply transform_api_refines; [assumption | apply rows_xyz_row3]. Qed.
Print Assumptions C05_transform_total.

Theorem C05_transform_total_rgb : forall p xcs, valid p ->
  (exists ms, transform_api (lift p) (map row6 xcs) = Ok ms /\ Forall2 veq ms (map (transform_impl p) (map fst xcs))).
Proof. intros p xcs Vp. apply transform_api_refines; [assumption | apply rows_xyz_row6]. Qed.
Print Assumptions C05_transform_total_rgb.

(* --- 10. rescale (t := s*t, the only in-place method) commutes with every operation, so the laws hold for the
         pose as it is NOW after any rescaling: the inverse of the rescaled pose is the rescaled inverse, etc. *)
Theorem C05_rescale_commutes : forall s p ps x,
  inverse (rescale s p) =p= rescale s (inverse p) /\
  compose_from (rescale s p) (map (rescale s) ps) =p= rescale s (compose_from p ps) /\
  transform (rescale s p) (vscale s x) =v= vscale s (transform p x).
Proof. intros. split; [|split]; [apply inverse_rescale | apply compose_from_rescale | apply transform_rescale]. Qed.
Print Assumptions C05_rescale_commutes.

Theorem C05_rescale_keeps_laws : forall s p, valid p ->
  compose2 (rescale s p) (inverse (rescale s p)) =p= pid /\
  compose2 (inverse (rescale s p)) (rescale s p) =p= pid /\
  inverse (inverse (rescale s p)) =p= rescale s p.
Proof. exact rescale_keeps_laws. Qed.
Print Assumptions C05_rescale_keeps_laws.

(* --- 11. objects hold nothing but their current (r, t), and results are fresh objects.  The store gives every
         handle (initial pose or call result) its object identity and value.  After ANY program of inverse / compose /
         rescale steps: inverting handle i creates a fresh object equal to the inverse of what i holds now (no memory
         of earlier calls); inverse / compose never change an existing handle; compose of two or more poses creates a
         fresh object whatever the operands (identity poses included) while compose([p]) is p itself (as the code
         does); rescale changes exactly the handles of its target object; hence rescaling the result of inverse /
         compose(>=2) leaves every operand as it was.  MPose.CHistory checks the real objects against this. *)
Theorem C05_history_inverse_current : forall st ops st1 i c p st2,
  hrun st ops = Some st1 -> nth_error st1 i = Some (c, lift p) -> valid p ->
  hstep st1 (HInverse i) = Some st2 ->
  exists m, st2 = st1 ++ [(length st1, m)] /\ oeq m (lift (inverse_impl p)).
Proof. exact history_inverse_current. Qed.
Print Assumptions C05_history_inverse_current.

Theorem C05_history_objects_unchanged : forall st op st' j x, (forall i s, op <> HRescale i s) ->
  hstep st op = Some st' -> nth_error st j = Some x -> nth_error st' j = Some x.
Proof. exact hstep_keeps_objects. Qed.
Print Assumptions C05_history_objects_unchanged.

Theorem C05_compose_result_fresh : forall st ids st', (2 <= length ids)%nat -> hstep st (HCompose ids) = Some st' ->
  exists es m, nths st ids = Some es /\ compose_api (map snd es) = Ok m /\ st' = st ++ [(length st, m)].
Proof. exact hstep_compose_fresh. Qed.
Print Assumptions C05_compose_result_fresh.

Theorem C05_history_rescale_only_target : forall st i s st', hstep st (HRescale i s) = Some st' ->
  exists c p, nth_error st i = Some (c, p) /\ length st' = length st /\
    forall j cj pj, nth_error st j = Some (cj, pj) ->
      nth_error st' j = Some (cj, if Nat.eqb cj c then rescale_api s pj else pj).
Proof. exact hstep_rescale. Qed.
Print Assumptions C05_history_rescale_only_target.

Theorem C05_rescaling_a_result_keeps_operands : forall st op st1 s st2, wf_store st ->
  (exists i, op = HInverse i) \/ (exists ids, op = HCompose ids /\ (2 <= length ids)%nat) ->
  hstep st op = Some st1 -> hstep st1 (HRescale (length st) s) = Some st2 ->
  forall k x, nth_error st k = Some x -> nth_error st2 k = Some x.
Proof. exact rescale_result_keeps_operands. Qed.
Print Assumptions C05_rescaling_a_result_keeps_operands.

Theorem C05_store_wellformed : forall st op st', wf_store st -> hstep st op = Some st' -> wf_store st'.
Proof. exact wf_store_hstep. Qed.
Print Assumptions C05_store_wellformed.

(* --- non-vacuity: concrete non-unit, non-commuting poses in the domain; every clause bites *)
Definition ex_a : pose := mkP (mkQ 1 2 3 4) (mkV 1 0 (-2)).
Definition ex_b : pose := mkP (mkQ 0 (1 # 2) (1 # 2) 0) (mkV 5 (-7 # 3) 1000000).
Definition ex_c : pose := mkP (mkQ (-3) 0 0 1) (mkV 0 (1 # 1000) 0).

Example C05_example :
  valid ex_a /\ valid ex_b /\ valid ex_c /\
  ~ (compose2 ex_a ex_b =p= compose2 ex_b ex_a) /\            (* the group is not commutative here *)
  ~ (rot (pr ex_a) =m= mid) /\ ~ (n2 (pr ex_a) == 1) /\       (* a genuine, non-unit rotation *)
  compose_list [ex_a; ex_b; ex_c] = Some (compose2 (compose2 ex_a ex_b) ex_c) /\
  compose_api (map lift [ex_a; ex_b; ex_c]) <> Raises.
Proof.
  unfold valid. split; [|split; [|split; [|split; [|split; [|split; [|split]]]]]]; try (vm_compute; discriminate).
  - intros [H _]. vm_compute in H. destruct H as [_ [H _]]. discriminate.
  - intros H. vm_compute in H. destruct H as [_ [H _]]. discriminate.
  - vm_compute. reflexivity.
Qed.

(* histories: invert, rescale the pose, invert again: the second inverse is NOT the first one; composing with an
   exact identity pose gives a fresh object, so rescaling the result leaves the operand alone — whereas the
   one-element compose returns the operand itself (handle 4 is an alias of handle 0), as the code does *)
Definition ex_id : opose := lift pid.
Example C05_example_history :
  match hrun [(0%nat, lift ex_a)] [HInverse 0; HRescale 0 (5 # 2); HInverse 0] with
  | Some [(_, a); (_, i1); (_, i2)] => opose_eqb a (lift (rescale (5 # 2) ex_a)) = true /\ opose_eqb i1 i2 = false
  | _ => False
  end /\
  match hrun [(0%nat, lift ex_a); (1%nat, ex_id)] [HCompose [0%nat; 1%nat]; HCompose [1%nat; 0%nat; 1%nat]; HRescale 2 10; HCompose [0%nat]; HRescale 4 10] with
  | Some [(0%nat, a); (1%nat, i); (2%nat, c1); (3%nat, c2); (0%nat, a')] =>
      opose_eqb a (lift (rescale 10 ex_a)) = true /\ opose_eqb a a' = true /\
      opose_eqb c1 (lift (rescale 10 ex_a)) = true /\ opose_eqb c2 (lift ex_a) = true
  | _ => False
  end.
Proof. vm_compute. repeat split. Qed.

(* outcomes outside the quantifier are modelled, not hidden *)
Example C05_example_outside :
  compose_api [] = Raises /\
  compose_api [mkO None None] = Ok (mkO None None) /\
  compose_api [lift ex_a; mkO None (Some vzero)] = Raises /\
  inverse_api (mkO (Some qzero) (Some vzero)) = NonFinite /\
  compose_api [mkO (Some qzero) (Some vzero); lift ex_a] = Raises /\
  transform_api (lift ex_a) [[1; 2; 3; 4]] = Raises.
Proof. vm_compute. repeat split. Qed.

(* the exactness hypothesis of 8(a) is necessary: a quaternion whose squared norm is 1 + 1e-16 takes the
   unit branch of the code, and its matrix is then not exactly the rotation (8(b) bounds the gap) *)
Example C05_band_is_not_exact :
  let q := mkQ 1 (1 # 100000000) 0 0 in
  unit_band q = true /\ ~ (n2 q == 1) /\ ~ (rot_impl q =m= rot q).
Proof.
  cbv zeta. split; [|split].
  - vm_compute. reflexivity.
  - vm_compute. discriminate.
  - intros H. vm_compute in H. destruct H as (_ & _ & _ & _ & H & _). discriminate.
Qed.

(* --- 12. every call is a function of ITS OWN arguments, over a whole process history (Model/MPoseMemo.v).
        The three operations may share a remembered quaternion->matrix conversion; `run_m hit m cs` runs the calls cs
        in order from the remembered state m, reusing the remembered matrix for q when `hit last q`.  `run_pure` is the
        stateless code layer (inverse_impl / compose_from_impl / transform_impl), which the laws above are about.
        (a) for ALL histories and all consistent start states the results are the stateless ones as soon as the
            criterion only identifies quaternions with the same matrix; (b) and only then: a criterion that
            identifies two quaternions with different matrices is visible on a two-call history;
        (c) HEAD (no reuse) and reuse for the identical quaternion are transparent; numpy.allclose is not. *)
Theorem C05_history_calls_stateless : forall hit, sound_criterion hit ->
  forall m cs, memo_ok m -> Forall2 res_eq (run_m hit m cs) (run_pure cs).
Proof. exact memo_sound. Qed.
Print Assumptions C05_history_calls_stateless.
Theorem C05_reuse_visible_unless_same_matrix : forall hit a b, hit a b = true -> ~ rot_impl a =m= rot_impl b ->
  ~ Forall2 res_eq (run_m hit None (probe a b)) (run_pure (probe a b)).
Proof. exact memo_complete. Qed.
Print Assumptions C05_reuse_visible_unless_same_matrix.
Theorem C05_reuse_transparent_iff : forall hit, transparent hit <-> sound_criterion hit.
Proof. exact transparent_iff. Qed.
Print Assumptions C05_reuse_transparent_iff.
Theorem C05_head_is_stateless : transparent hit_never /\ transparent hit_same.
Proof. split; [ exact hit_never_transparent | exact hit_same_transparent ]. Qed.
Print Assumptions C05_head_is_stateless.
Theorem C05_allclose_reuse_refuted :
  ~ Forall2 res_eq (run_m hit_allclose None witness_history) (run_pure witness_history) /\ ~ transparent hit_allclose.
Proof. split; [ exact hit_allclose_refuted | exact hit_allclose_not_transparent ]. Qed.
Print Assumptions C05_allclose_reuse_refuted.
(* the witness is inside the property's domain: both quaternions are valid, np.allclose holds between them, and the
   second call of the history returns the point rotated by the FIRST quaternion *)
Example C05_example_nearby :
  let q0 := mkQ 1 1 1 1 in let q1 := mkQ 1 1 1 (200001 # 200000) in
  (hit_allclose q0 q1 = true) /\ (~ n2 q0 == 0) /\ (~ n2 q1 == 0) /\
  Forall2 res_eq (run_m hit_allclose None witness_history) [RPoints [mkV 0 1 0]; RPoints [mkV 0 1 0]] /\
  (run_m hit_never None witness_history = run_pure witness_history).
Proof.
  cbv zeta. split; [ vm_compute; reflexivity | ]. split; [ vm_compute; discriminate | ].
  split; [ vm_compute; discriminate | ]. split; [ | vm_compute; reflexivity ].
  repeat constructor; vm_compute; reflexivity.
Qed.

(* --- 13. the two facts about the SOURCE on which the history models rest, re-read from kapture/core/PoseTransform.py
        of the tree under test on every check (harness/tables/pose.py, ast): an instance stores nothing but _r and _t
        (MPose: an object holds only its current (r, t)), and no function of the module can change a module-level or
        class-level name, nor carries a caching decorator (MPoseMemo: hit_never, no remembered conversion). *)
Theorem C05_source_keeps_no_state :
  Tpose.instance_fields = ["_r"%string; "_t"%string] /\ Tpose.module_state = [].
Proof. split; reflexivity. Qed.
Print Assumptions C05_source_keeps_no_state.
