(* Props/C06.v — property C06: switching between rig poses and per-sensor poses never moves a sensor.
   Only statements; every proof is a lemma of Proofs/PRigs.v about the model Model/MRigs.v instantiated with the
   rigid-transform algebra over Q of Model/MPose.v (compose2 = PoseTransform.compose([a, b]), inverse,
   =p= component-wise equality of quaternion and translation, valid = non-zero quaternion).

   Vocabulary (Model/MRigs.v):
     member R r d g      rigs[r][d] = g                      is_rig R r      r is a key of rigs
     path_up R d l top   d in r1 in r2 ... in top, l = [(r1,g0); (r2,g1); ...] the rigs and mounting poses upwards
     anc R a d           a is a proper ancestor of d         mounted R d     d is a member of some rig
     depth_le R n        at most n rigs nested in one another (depth 1 = rigs of sensors only)
     one_parent R        each device is mounted on at most one rig
     single_source R T   no posed device has a posed proper ancestor at the same timestamp
     wf2                 keys unique at both levels (true of every Python dict)
     consistent R world T   world : timestamp -> device -> pose respects the rig geometry
                            (world t d =p= rigs[r][d] o world t r) and every entry of T is the world pose of
                            its device: "member poses derived from one consistent rig pose per rig tree and
                            timestamp" of the property's quantifier
     remove_spec_inplace fuel R T / recover_spec_inplace fuel R masters T   the model of rigs_remove_inplace /
                            rigs_recover_inplace (the copying variants are the same pure functions),
                            fuel = max_depth = 10 *)
From Coq Require Import List Bool String ZArith QArith Lia.
From KV Require Import Eqb AL Str.
From KV.Model Require Import MQV MPose MRigs.
From KV.Proofs Require Import PQV PRigs PRigsExt.
Import ListNotations.
Local Open Scope string_scope.
Local Open Scope list_scope.

(* --- 1. rigs_remove: for every rig forest of nesting depth <= 10 and every trajectories with a single pose source
        per device and timestamp, the call returns normally and
        (i) no rig identifier remains, (ii) entries of devices that are not rigs are untouched,
        (iii) each device that is not a rig, below a posed rig, gets PoseTransform.compose(path poses leaf->root
        ++ [rig pose]), (iv) nothing else appears; no timestamp is emptied. *)
Theorem C06_remove_spec : forall (R : rigsQ) (T : trajQ) n,
  wf2 R -> wf2 T -> one_parent R -> depth_le R n -> (n <= max_depth)%nat -> rigs_nonempty R ->
  no_empty_timestamp T -> single_source R T ->
  exists T', remove_spec_inplace max_depth R T = Done T' /\
    (forall t r, is_rig R r = true -> lookup2 t r T' = None) /\
    (forall t d, is_rig R d = false -> posed T t d -> lookup2 t d T' = lookup2 t d T) /\
    (forall t d l top w, is_rig R d = false -> path_up R d l top -> lookup2 t top T = Some w ->
       rigs_validQ R -> MPose.valid w ->
       exists p c, lookup2 t d T' = Some p /\ compose_list (map snd l ++ [w]) = Some c /\ p =p= c) /\
    (forall t d, posed T' t d -> is_rig R d = false /\ (posed T t d \/ exists a, anc R a d /\ posed T t a)) /\
    wf2 T' /\ no_empty_timestamp T'.
Proof. exact remove_spec_pose. Qed.
Print Assumptions C06_remove_spec.

(* --- 2. recover after remove, master sensors unspecified, any nesting depth <= 10:
        every top-level rig that was replaced gets back (=p=) its pose; every sensor posed after the replacement
        lies below (or is) a posed top-level device y and the pose implied by y's recovered entry and the rig
        geometry, compose(path poses s->y ++ [entry of y]), is the sensor's pose: no sensor moved; no mounted device
        stays posed; both results still agree with the world assignment. *)
Theorem C06_recover_remove : forall (R : rigsQ) (T : trajQ) n world,
  wf2 R -> wf2 T -> one_parent R -> depth_le R n -> (n <= max_depth)%nat -> rigs_nonempty R -> rigs_validQ R ->
  no_empty_timestamp T -> consistent R world T ->
  exists T1 T2,
    remove_spec_inplace max_depth R T = Done T1 /\ recover_spec_inplace max_depth R None T1 = Done T2 /\
    (forall t r p, is_rig R r = true -> mounted R r = false -> lookup2 t r T = Some p ->
                   exists p2, lookup2 t r T2 = Some p2 /\ p2 =p= p) /\
    (forall t s p1, lookup2 t s T1 = Some p1 ->
                    exists y l p2 c, path_up R s l y /\ mounted R y = false /\ lookup2 t y T2 = Some p2 /\
                                     compose_list (map snd l ++ [p2]) = Some c /\ p1 =p= c) /\
    (forall t y, mounted R y = true -> lookup2 t y T2 = None) /\
    consistent R world T1 /\ consistent R world T2.
Proof. exact recover_remove_pose. Qed.
Print Assumptions C06_recover_remove.

(* --- 3. the same with a master list, nesting depth 1 (every rig is top-level): a rig that was replaced is
        recovered as soon as one of its members posed after the replacement is named as master. *)
Theorem C06_recover_remove_masters_depth1 : forall (R : rigsQ) (T : trajQ) masters world,
  wf2 R -> wf2 T -> one_parent R -> depth_le R 1 -> rigs_nonempty R -> rigs_validQ R ->
  no_empty_timestamp T -> consistent R world T ->
  exists T1 T2,
    remove_spec_inplace max_depth R T = Done T1 /\ recover_spec_inplace max_depth R masters T1 = Done T2 /\
    (forall t r p, is_rig R r = true -> lookup2 t r T = Some p ->
                   (exists m g, member R r m g /\ is_master masters m = true /\ posed T1 t m) ->
                   exists p2, lookup2 t r T2 = Some p2 /\ p2 =p= p) /\
    (forall t y, mounted R y = true -> lookup2 t y T2 = None) /\
    consistent R world T1 /\ consistent R world T2.
Proof. exact recover_remove_masters_depth1. Qed.
Print Assumptions C06_recover_remove_masters_depth1.

(* --- 2b. the classic input -- only top-level rigs and free sensors are posed -- needs no world hypothesis:
         the consistent world exists (PRigs.roots_consistent).  Free sensors come back literally unchanged. *)
Theorem C06_recover_remove_roots : forall (R : rigsQ) (T : trajQ) n,
  wf2 R -> wf2 T -> one_parent R -> depth_le R n -> (n <= max_depth)%nat -> rigs_nonempty R -> rigs_validQ R ->
  no_empty_timestamp T -> traj_validQ T -> (forall t d, posed T t d -> mounted R d = false) ->
  exists T1 T2,
    remove_spec_inplace max_depth R T = Done T1 /\ recover_spec_inplace max_depth R None T1 = Done T2 /\
    (forall t r p, is_rig R r = true -> lookup2 t r T = Some p -> exists p2, lookup2 t r T2 = Some p2 /\ p2 =p= p) /\
    (forall t d p, is_rig R d = false -> lookup2 t d T = Some p -> lookup2 t d T2 = Some p) /\
    (forall t s p1, lookup2 t s T1 = Some p1 ->
                    exists y l p2 c, path_up R s l y /\ mounted R y = false /\ lookup2 t y T2 = Some p2 /\
                                     compose_list (map snd l ++ [p2]) = Some c /\ p1 =p= c) /\
    (forall t y, mounted R y = true -> lookup2 t y T2 = None).
Proof. exact recover_remove_roots. Qed.
Print Assumptions C06_recover_remove_roots.

(* --- 4. a master list with nested rigs, any depth <= 10: if the master list names a chain from a posed device s
        up to a top-level rig (s itself and every rig strictly between s and top), then top is recovered with its
        world pose, every entry of the result is the world pose of its device, and every device of that tree
        posed before keeps the pose implied by top's entry: no sensor moved.
        (Theorem 4a derives the chain from the quantifier's "one live master member per rig and timestamp".) *)
Theorem C06_recover_masters_chain : forall (R : rigsQ) (T : trajQ) masters world t s l top,
  wf2 R -> wf2 T -> one_parent R -> rigs_validQ R -> consistent R world T ->
  path_up R s l top -> mounted R top = false -> (List.length l <= max_depth)%nat ->
  (forall x, In x (nodes_below pose s l) -> is_master masters x = true) -> posed T t s ->
  exists T2 p2, recover_spec_inplace max_depth R masters T = Done T2 /\ consistent R world T2 /\
    lookup2 t top T2 = Some p2 /\ p2 =p= world t top /\
    (forall s' l' p1, path_up R s' l' top -> lookup2 t s' T = Some p1 ->
                      exists c, compose_list (map snd l' ++ [p2]) = Some c /\ p1 =p= c).
Proof. exact recover_masters_chain_pose. Qed.
Print Assumptions C06_recover_masters_chain.

(* --- 4a. the quantifier's own formulation, any depth <= 10: at timestamp t the master list names, for every rig that
         has something posed below it, a member that is posed or has something posed below it (masters_cover).
         Then every top-level rig with something posed below it is recovered with its world pose and no posed
         device of its tree moves.  (PRigs.master_chain_exists descends from the rig to a posed device.) *)
Theorem C06_recover_masters_cover : forall (R : rigsQ) (T : trajQ) masters world t top n,
  wf2 R -> wf2 T -> one_parent R -> depth_le R n -> (n <= max_depth)%nat -> rigs_validQ R -> consistent R world T ->
  masters_cover R T t masters -> mounted R top = false -> (exists d, anc R top d /\ posed T t d) ->
  exists T2 p2, recover_spec_inplace max_depth R masters T = Done T2 /\ consistent R world T2 /\
    lookup2 t top T2 = Some p2 /\ p2 =p= world t top /\
    (forall s' l' p1, path_up R s' l' top -> lookup2 t s' T = Some p1 ->
                      exists c, compose_list (map snd l' ++ [p2]) = Some c /\ p1 =p= c).
Proof. exact recover_masters_cover_pose. Qed.
Print Assumptions C06_recover_masters_cover.

(* --- 4b. the copying variants rigs_remove / rigs_recover run the same function on copy.deepcopy(trajectories); the
         copy is the trajectories itself whenever no timestamp is empty (all of the quantifier), so theorems 1-4 hold
         for both variants; purity of the model is by construction, that of the code is checked by snapshots *)
Theorem C06_copy_variants : forall (T : trajQ), wf T -> no_empty_timestamp T -> deepcopy_traj T = T.
Proof. exact (@deepcopy_traj_id pose). Qed.
Print Assumptions C06_copy_variants.

(* --- 4c. the property is about the rigs AS THEY ARE AT THE CALL.  A history = calls of the four functions on one
         Rigs and one Trajectories object interleaved with edits of the rigs through any dict path (MRigs.edit:
         rigs[r, d] = p, rigs[r][d] = p, del rigs[r][d], update, clear, pop, setdefault, ...) and refills of the
         trajectories.  Whatever came before, a call returns what the function returns on the current (rigs,
         trajectories): in the model this is by construction (no hidden state); the correspondence check runs such
         histories on the real objects and compares every call with [call] on the current arguments. *)
Theorem C06_history_call_depends_on_current_arguments : forall (h : list (step pose)) st k masters,
  hrun_spec (h ++ [SCall k masters]) st =
  hrun_spec h st ++ [call_spec k masters (fst (hstate_spec h st)) (snd (hstate_spec h st))].
Proof. exact (hrun_snoc_call pose compose2 inverse max_depth). Qed.
Print Assumptions C06_history_call_depends_on_current_arguments.

Theorem C06_history_same_state_same_outcome : forall (h1 h2 : list (step pose)) st1 st2 k masters,
  hstate_spec h1 st1 = hstate_spec h2 st2 ->
  last (hrun_spec (h1 ++ [SCall k masters]) st1) KeyErr = last (hrun_spec (h2 ++ [SCall k masters]) st2) KeyErr.
Proof. exact (hrun_same_state pose compose2 inverse max_depth). Qed.
Print Assumptions C06_history_same_state_same_outcome.

(* theorem 2 at the end of any history: if the objects now hold (R, T) satisfying its hypotheses, rigs_remove_inplace
   then the copying rigs_recover give back every top-level rig pose and move no sensor -- for the geometry R of now *)
Theorem C06_history_recover_remove : forall (h : list (step pose)) st (R : rigsQ) (T : trajQ) n world,
  hstate_spec h st = (R, T) ->
  wf2 R -> wf2 T -> one_parent R -> depth_le R n -> (n <= max_depth)%nat -> rigs_nonempty R -> rigs_validQ R ->
  no_empty_timestamp T -> consistent R world T ->
  exists T1 T2,
    hrun_spec (h ++ [SCall KRemoveIp None; SCall KRecover None]) st = hrun_spec h st ++ [Done T1; Done T2] /\
    hstate_spec (h ++ [SCall KRemoveIp None; SCall KRecover None]) st = (R, T1) /\
    remove_spec_inplace max_depth R T = Done T1 /\ recover_spec_inplace max_depth R None T1 = Done T2 /\
    (forall t r p, is_rig R r = true -> mounted R r = false -> lookup2 t r T = Some p ->
                   exists p2, lookup2 t r T2 = Some p2 /\ p2 =p= p) /\
    (forall t s p1, lookup2 t s T1 = Some p1 ->
                    exists y l p2 c, path_up R s l y /\ mounted R y = false /\ lookup2 t y T2 = Some p2 /\
                                     compose_list (map snd l ++ [p2]) = Some c /\ p1 =p= c).
Proof. exact history_recover_remove. Qed.
Print Assumptions C06_history_recover_remove.

(* --- 4d. the max_depth argument of rigs_remove_inplace / rigs_recover_inplace (the copying variants always use 10).
         Theorems 1 and 2 hold for EVERY max_depth that is at least the nesting depth, not only for the default ... *)
Theorem C06_remove_spec_any_max_depth : forall (R : rigsQ) (T : trajQ) n k,
  wf2 R -> wf2 T -> one_parent R -> depth_le R n -> (n <= k)%nat -> rigs_nonempty R ->
  no_empty_timestamp T -> single_source R T ->
  exists T', remove_spec_inplace k R T = Done T' /\
    (forall t r, is_rig R r = true -> lookup2 t r T' = None) /\
    (forall t d, is_rig R d = false -> posed T t d -> lookup2 t d T' = lookup2 t d T) /\
    (forall t d l top w, is_rig R d = false -> path_up R d l top -> lookup2 t top T = Some w ->
       lookup2 t d T' = Some (comp_path pose compose2 l w)) /\
    (forall t d, posed T' t d -> is_rig R d = false /\ (posed T t d \/ exists a, anc R a d /\ posed T t a)) /\
    wf2 T' /\ no_empty_timestamp T'.
Proof. exact (remove_spec_gen pose compose2). Qed.
Print Assumptions C06_remove_spec_any_max_depth.

(* ... and the outcome (result or exception, literally) does not depend on max_depth once it reaches the nesting depth:
   on every well-formed input, inside the quantifier or not (no one_parent, no single_source, any master list). *)
Theorem C06_max_depth_irrelevant : forall (R : rigsQ) (T : trajQ) masters n k,
  wf2 R -> wf2 T -> depth_le R n -> (n <= k)%nat ->
  remove_spec_inplace k R T = remove_spec_inplace n R T /\
  recover_spec_inplace k R masters T = recover_spec_inplace n R masters T.
Proof.
  intros R T masters n k WR WT DL Le. split;
    [apply (remove_fuel_irrelevant pose compose2) | apply (recover_fuel_irrelevant pose compose2 inverse)]; assumption.
Qed.
Print Assumptions C06_max_depth_irrelevant.

(* --- 4e. what must NOT change.  Trajectories in which no rig is posed are returned literally unchanged by rigs_remove;
         trajectories in which no mounted device is posed are returned literally unchanged by rigs_recover, whatever the
         master list; for every max_depth.  With an empty timestamp instead (outside the quantifier) rigs_remove_inplace
         raises RuntimeError after deleting the first one. *)
Theorem C06_nothing_to_do_is_identity : forall (R : rigsQ) (T : trajQ) masters k,
  wf2 T ->
  (no_empty_timestamp T -> (forall t r, is_rig R r = true -> lookup2 t r T = None) -> remove_spec_inplace k R T = Done T) /\
  ((forall t y, mounted R y = true -> lookup2 t y T = None) -> recover_spec_inplace k R masters T = Done T) /\
  (forall t0, (forall t r, is_rig R r = true -> lookup2 t r T = None) -> first_empty pose T = Some t0 ->
              remove_spec_inplace k R T = RuntimeErr (AL.remove t0 T)).
Proof.
  intros R T masters k WT. split; [|split].
  - intros NE N. apply (remove_noop pose compose2); assumption.
  - intros N. apply (recover_noop pose compose2 inverse); assumption.
  - intros t0 N F. apply (remove_empty_timestamp_raises pose compose2); assumption.
Qed.
Print Assumptions C06_nothing_to_do_is_identity.

(* --- 4f. idempotence.  Whenever one of the two functions returns normally with max_depth >= nesting depth (any input,
         any master list), applying it again -- with any max_depth and any master list -- returns literally the same
         trajectories: a second rigs_remove / rigs_recover never moves, adds or drops anything. *)
Theorem C06_idempotent : forall (R : rigsQ) (T T' : trajQ) masters masters' n k k',
  wf2 R -> wf2 T -> depth_le R n -> (n <= k)%nat ->
  (remove_spec_inplace k R T = Done T' -> remove_spec_inplace k' R T' = Done T') /\
  (recover_spec_inplace k R masters T = Done T' -> recover_spec_inplace k' R masters' T' = Done T').
Proof.
  intros R T T' masters masters' n k k' WR WT DL Le. split.
  - apply (remove_idempotent pose compose2 R n k k' T T'); assumption.
  - apply (recover_idempotent pose compose2 inverse R n k k' masters masters' T T'); assumption.
Qed.
Print Assumptions C06_idempotent.

(* --- 4g. the round trip in the other direction (hypotheses of theorem 2): T1 = remove T, T2 = recover T1, T3 = remove T2.
         Every sensor posed after the first replacement is posed after the third step with the same pose (=p=), T3 holds
         no rig identifier and still agrees with the world assignment.  (T3 may pose more sensors than T1: a rig
         recovered from one posed member is replaced by all its members, each at its world pose.) *)
Theorem C06_remove_recover_remove : forall (R : rigsQ) (T : trajQ) n world,
  wf2 R -> wf2 T -> one_parent R -> depth_le R n -> (n <= max_depth)%nat -> rigs_nonempty R -> rigs_validQ R ->
  no_empty_timestamp T -> consistent R world T ->
  exists T1 T2 T3,
    remove_spec_inplace max_depth R T = Done T1 /\ recover_spec_inplace max_depth R None T1 = Done T2 /\
    remove_spec_inplace max_depth R T2 = Done T3 /\
    (forall t s p1, lookup2 t s T1 = Some p1 -> exists p3, lookup2 t s T3 = Some p3 /\ p3 =p= p1) /\
    (forall t r, is_rig R r = true -> lookup2 t r T3 = None) /\
    consistent R world T3.
Proof. exact remove_recover_remove_pose. Qed.
Print Assumptions C06_remove_recover_remove.

(* --- 5. the modelled KeyError outcomes (a job whose entry has vanished) never happen on real dicts *)
Theorem C06_no_keyerror : forall (R : rigsQ) (T : trajQ) masters fuel,
  wf2 R -> wf2 T -> remove_spec_inplace fuel R T <> KeyErr /\ recover_spec_inplace fuel R masters T <> KeyErr.
Proof. intros R T masters fuel WR WT. split; [apply remove_never_keyerror | apply recover_never_keyerror]; assumption. Qed.
Print Assumptions C06_no_keyerror.

(* --- 6. what the shards execute (comp_x / inv_x, fractions kept reduced) is the code-level arithmetic of
        MPose (compose2_impl / inverse_impl: the matrix with the 1e-14 unit branch), up to == *)
Theorem C06_executable_ops : forall a b, comp_x a b =p= compose2_impl a b /\ inv_x a =p= inverse_impl a.
Proof. intros a b. split; [apply comp_x_impl | apply inv_x_impl]. Qed.
Print Assumptions C06_executable_ops.

(* --- 7. the bound max_depth = 10 is real: a chain of 11 nested rigs (depth_le 11, not depth_le 10) whose outermost
        rig is posed keeps a rig identifier after rigs_remove; every other hypothesis of theorem 1 holds. *)
Definition chain_names : list string :=
  ["r00"; "r01"; "r02"; "r03"; "r04"; "r05"; "r06"; "r07"; "r08"; "r09"; "r10"].
Fixpoint chain_rigs (below : string) (names : list string) : rigsQ :=
  match names with
  | [] => []
  | r :: rest => (r, [(below, pid)]) :: chain_rigs r rest
  end.
Definition R11 : rigsQ := chain_rigs "leaf" chain_names.
Definition T11 : trajQ := [(1%Z, [("r10", pid)])].
Definition rank11 (d : string) : nat :=
  match lookup d (combine (rev chain_names) (seq 0 11)) with Some k => k | None => 11 end.

Theorem C06_fuel_needed :
  wf2 R11 /\ wf2 T11 /\ one_parent R11 /\ rigs_nonempty R11 /\ no_empty_timestamp T11 /\ single_source R11 T11 /\
  depth_le R11 11 /\ ~ depth_le R11 10 /\
  exists T', remove_spec_inplace max_depth R11 T11 = Done T' /\ is_rig R11 "r00" = true /\ posed T' 1%Z "r00".
Proof.
  assert (WR : wf2 R11) by (apply wf2b_sound; vm_compute; reflexivity).
  assert (WT : wf2 T11) by (apply wf2b_sound; vm_compute; reflexivity).
  split; [exact WR|]. split; [exact WT|].
  split; [apply one_parent_check; [exact WR | vm_compute; reflexivity]|].
  split; [apply rigs_nonempty_check; vm_compute; reflexivity|].
  split; [apply no_empty_check; vm_compute; reflexivity|].
  split; [apply single_source_unmounted; [exact WR | exact WT | vm_compute; reflexivity]|].
  split; [apply (depth_le_rank R11 rank11 11 WR); vm_compute; reflexivity|].
  split.
  - intros DL.
    assert (PU : path_up R11 "r00" (map (fun r => (r, pid)) (tl chain_names)) "r10").
    { cbn. repeat (eapply path_cons; [vm_compute; reflexivity|]). apply path_nil. }
    specialize (DL "r00" _ "r10" eq_refl PU). cbn in DL. lia.
  - eexists. split; [vm_compute; reflexivity|]. split; [reflexivity|]. vm_compute. discriminate.
Qed.
Print Assumptions C06_fuel_needed.

(* --- non-vacuity: a nested forest (depth 2), a top-level rig and a free sensor posed, general (non-unit,
       non-axis) poses: every hypothesis of theorems 1 and 2 holds, and the model's result for cam "s1" is the pose
       the real rigs_remove returns on these numbers ([4, 3, -2, -1], [-2, -2, 4]). *)
Definition P7 (w x y z a b c : Z) : pose := mkP (mkQ (inject_Z w) (inject_Z x) (inject_Z y) (inject_Z z))
                                                (mkV (inject_Z a) (inject_Z b) (inject_Z c)).
Definition gA := P7 0 1 0 0  1 0 0.
Definition g3 := P7 1 0 0 0  0 1 0.
Definition g1 := P7 0 0 1 0  0 0 1.
Definition g2 := P7 1 1 0 0  2 0 0.
Definition W0 := P7 1 2 3 4  1 2 3.
Definition F0 := P7 1 0 0 0  9 9 9.
Definition Rex : rigsQ := [("R", [("A", gA); ("s3", g3)]); ("A", [("s1", g1); ("s2", g2)])].
Definition Tex : trajQ := [(1%Z, [("R", W0); ("free", F0)]); (2%Z, [("free", F0)])].
Definition world_ex (t : Z) (d : string) : pose :=
  if eqb d "R" then W0 else if eqb d "A" then compose2 gA W0 else if eqb d "s3" then compose2 g3 W0
  else if eqb d "s1" then compose2 g1 (compose2 gA W0) else if eqb d "s2" then compose2 g2 (compose2 gA W0) else F0.
Definition rank_ex (d : string) : nat := if eqb d "R" then 0 else if eqb d "A" then 1 else 2.

Ltac qeq_compute := vm_compute; repeat split; reflexivity.

Example C06_example :
  wf2 Rex /\ wf2 Tex /\ one_parent Rex /\ depth_le Rex 2 /\ rigs_nonempty Rex /\ rigs_validQ Rex /\
  no_empty_timestamp Tex /\ single_source Rex Tex /\ consistent Rex world_ex Tex /\
  exists T1 T2, remove_spec_inplace max_depth Rex Tex = Done T1 /\
    map (fun tm => (fst tm, keys (snd tm))) T1 = [(1%Z, ["free"; "s3"; "s1"; "s2"]); (2%Z, ["free"])] /\
    (exists p, lookup2 1%Z "s1" T1 = Some p /\ p =p= P7 4 3 (-2) (-1)  (-2) (-2) 4) /\
    recover_spec_inplace max_depth Rex None T1 = Done T2 /\
    map (fun tm => (fst tm, keys (snd tm))) T2 = [(1%Z, ["free"; "R"]); (2%Z, ["free"])] /\
    (exists p, lookup2 1%Z "R" T2 = Some p /\ p =p= W0).
Proof.
  assert (WR : wf2 Rex) by (apply wf2b_sound; vm_compute; reflexivity).
  assert (WT : wf2 Tex) by (apply wf2b_sound; vm_compute; reflexivity).
  split; [exact WR|]. split; [exact WT|].
  split; [apply one_parent_check; [exact WR | vm_compute; reflexivity]|].
  split; [apply (depth_le_rank Rex rank_ex 2 WR); vm_compute; reflexivity|].
  split; [apply rigs_nonempty_check; vm_compute; reflexivity|].
  split; [apply rigs_valid_check; [exact WR | vm_compute; reflexivity]|].
  split; [apply no_empty_check; vm_compute; reflexivity|].
  split; [apply single_source_unmounted; [exact WR | exact WT | vm_compute; reflexivity]|].
  split.
  - split; [|split].
    + intros t d. unfold world_ex, MPose.valid.
      repeat (match goal with |- context [if eqb d ?s then _ else _] => destruct (eqb d s) end);
        intros H; vm_compute in H; discriminate.
    + intros t r d g M. apply (flat2_lookup2 _ _ _ _ WR) in M. cbn in M.
      repeat (destruct M as [M|M]; [inversion M; subst; qeq_compute|]). destruct M.
    + intros t d p L. apply (flat2_lookup2 _ _ _ _ WT) in L. cbn in L.
      repeat (destruct L as [L|L]; [inversion L; subst; qeq_compute|]). destruct L.
  - eexists. eexists. split; [vm_compute; reflexivity|]. split; [vm_compute; reflexivity|].
    split; [eexists; split; [vm_compute; reflexivity | qeq_compute]|].
    split; [vm_compute; reflexivity|]. split; [vm_compute; reflexivity|].
    eexists; split; [vm_compute; reflexivity | qeq_compute].
Qed.

(* --- observation outside the quantifier ("1..4 members"): a rig without members empties its timestamp and the
       final clean-up loop of rigs_remove_inplace raises RuntimeError (dictionary changed size during iteration);
       the model has that outcome too, with the state the code leaves behind. *)
Example C06_empty_rig_raises :
  remove_spec_inplace max_depth [("R", [])] [(1%Z, [("R", W0)]); (2%Z, [("x", F0)])] = RuntimeErr [(2%Z, [("x", F0)])].
Proof. vm_compute. reflexivity. Qed.

(* --- a history satisfying the hypotheses of C06_history_recover_remove: a first recover (nothing to do), the geometry
       re-calibrated through the inner dict and a member unmounted, then remove + recover: the calls see the edited rigs
       (s2 is no longer replaced, s1 gets the new mounting pose) and the rig pose comes back. *)
Definition g1' := P7 1 0 (-1) 2  0 3 0.
Definition Hex : list (step pose) :=
  [SCall KRecover None; SEdit (ESetInner "A" "s1" g1'); SEdit (EDelInner "A" "s2")].
Example C06_history_example :
  hstate_spec Hex (Rex, Tex) = ([("R", [("A", gA); ("s3", g3)]); ("A", [("s1", g1')])], Tex) /\
  exists T1 T2,
    hrun_spec (Hex ++ [SCall KRemoveIp None; SCall KRecover None]) (Rex, Tex) = [Done Tex; Done T1; Done T2] /\
    map (fun tm => (fst tm, keys (snd tm))) T1 = [(1%Z, ["free"; "s3"; "s1"]); (2%Z, ["free"])] /\
    (exists p, lookup2 1%Z "s1" T1 = Some p /\ p =p= compose2 g1' (compose2 gA W0)) /\
    (exists p, lookup2 1%Z "R" T2 = Some p /\ p =p= W0).
Proof.
  split; [vm_compute; reflexivity|].
  eexists. eexists. split; [vm_compute; reflexivity|]. split; [vm_compute; reflexivity|].
  split; eexists; (split; [vm_compute; reflexivity | qeq_compute]).
Qed.

(* --- the new theorems on the example forest Rex (depth 2): max_depth = 2 gives what max_depth = 10 gives, max_depth = 1
       does not (rig "A" is still posed: the bound n <= k of 4d is needed); the result of remove is a fixed point of remove,
       that of recover a fixed point of recover; remove o recover o remove poses s1 where the first remove did. *)
Example C06_max_depth_example :
  remove_spec_inplace 2 Rex Tex = remove_spec_inplace max_depth Rex Tex /\
  remove_spec_inplace 1 Rex Tex <> remove_spec_inplace max_depth Rex Tex /\
  (exists T1, remove_spec_inplace 1 Rex Tex = Done T1 /\ posed T1 1%Z "A") /\
  exists T1 T2 T3, remove_spec_inplace max_depth Rex Tex = Done T1 /\ remove_spec_inplace 0 Rex T1 = Done T1 /\
    recover_spec_inplace 3 Rex None T1 = Done T2 /\ recover_spec_inplace 7 Rex (Some ["s1"]) T2 = Done T2 /\
    remove_spec_inplace max_depth Rex T2 = Done T3 /\
    map (fun tm => (fst tm, keys (snd tm))) T3 = [(1%Z, ["free"; "s3"; "s1"; "s2"]); (2%Z, ["free"])] /\
    (exists p, lookup2 1%Z "s1" T3 = Some p /\ p =p= P7 4 3 (-2) (-1)  (-2) (-2) 4).
Proof.
  split; [vm_compute; reflexivity|]. split; [vm_compute; discriminate|].
  split; [eexists; split; [vm_compute; reflexivity | vm_compute; discriminate]|].
  eexists. eexists. eexists. split; [vm_compute; reflexivity|]. split; [vm_compute; reflexivity|].
  split; [vm_compute; reflexivity|]. split; [vm_compute; reflexivity|]. split; [vm_compute; reflexivity|].
  split; [vm_compute; reflexivity|]. eexists; split; [vm_compute; reflexivity | qeq_compute].
Qed.
