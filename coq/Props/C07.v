(* Props/C07.v — property C07: trajectory and record containers act as plain maps whatever the edit
   history.  Only statements; each is closed by a lemma of Proofs/PRec.v / Proofs/PTraj.v.

   Every theorem quantifies over arbitrary device and payload types (with decidable equality), an
   arbitrary interpolation function [interp] (compute_intermediate_pose: slerp of the quaternion
   library + linear translation), an arbitrary digit counter [nd] (computation.num_digits), an arbitrary
   initial upper bound [maxsize] (sys.maxsize), and operation sequences of any length.

   Vocabulary (Model/MRec.v, Model/MTraj.v):
     m_run / t_run     the Records / Trajectories state machine mirroring the classes (dict of dicts;
                       cached sorted timestamps and cached first/last bounds for Trajectories)
     s_run / s_trun    the same operations on a plain map keyed by (timestamp, device)
     out_equiv         equality of answers (the two set-valued answers, c[t] and key_pairs, as sets)
     Rel / TRel        "same entries" + well-formedness (+ the cache invariant for Trajectories)
     lookup2 t d x     the entry stored for (t, d) in the dict of dicts x *)
From Coq Require Import List Bool ZArith String Permutation.
From KV Require Import Eqb AL.
From KV.Model Require Import MRec MTraj.
From KV.Proofs Require Import PRec PTraj.
Import ListNotations.
Local Open Scope Z_scope.

(* --- 1. RecordsBase: for every operation sequence, every answer (value or exception) equals the plain
        map's, and afterwards the container holds exactly the plain map's entries *)
Theorem C07_records_refine_plain_map :
  forall (D P : Type) (ED : EqDec D) (EP : EqDec P) (ops : list (mop D P)),
    Forall2 out_equiv (fst (m_run [] ops)) (fst (s_run [] ops)) /\
    Rel (snd (m_run [] ops)) (snd (s_run [] ops)).
Proof. intros. apply rec_refines, Rel_nil. Qed.
Print Assumptions C07_records_refine_plain_map.

(* --- 2. Trajectories: the same, including the cached sorted list, timestamp_length and
        intermediate_pose; the abstraction commutes (TRel carries the cache invariant) *)
Theorem C07_trajectories_refine_plain_map :
  forall (D P : Type) (ED : EqDec D) (EP : EqDec P)
         (interp : Z -> Z -> P -> Z -> P -> P) (nd : Z -> Z) (maxsize : Z) (ops : list (top D P)),
    Forall2 out_equiv (fst (t_run interp nd (init maxsize) ops)) (fst (s_trun interp nd [] ops)) /\
    TRel (snd (t_run interp nd (init maxsize) ops)) (snd (s_trun interp nd [] ops)).
Proof. intros. apply traj_refines, TRel_init. Qed.
Print Assumptions C07_trajectories_refine_plain_map.

(* the simulation step, from any related pair of states (not only from the empty container) *)
Theorem C07_trajectories_simulation :
  forall (D P : Type) (ED : EqDec D) (EP : EqDec P)
         (interp : Z -> Z -> P -> Z -> P -> P) (nd : Z -> Z) (ops : list (top D P)) c a,
    TRel c a ->
    Forall2 out_equiv (fst (t_run interp nd c ops)) (fst (s_trun interp nd a ops)) /\
    TRel (snd (t_run interp nd c ops)) (snd (s_trun interp nd a ops)).
Proof. intros. apply traj_refines. assumption. Qed.
Print Assumptions C07_trajectories_simulation.

(* --- 3. answers depend on the content only: two histories (any edits, any interleaved queries, any
        cache states) that end with the same entries answer every further operation alike *)
Theorem C07_trajectories_history_independent :
  forall (D P : Type) (ED : EqDec D) (EP : EqDec P)
         (interp : Z -> Z -> P -> Z -> P -> P) (nd : Z -> Z) (maxsize : Z) (ops1 ops2 : list (top D P)),
    (forall t d, lookup2 t d (data (snd (t_run interp nd (init maxsize) ops1))) =
                 lookup2 t d (data (snd (t_run interp nd (init maxsize) ops2)))) ->
    forall o, out_equiv (fst (t_step interp nd (snd (t_run interp nd (init maxsize) ops1)) o))
                        (fst (t_step interp nd (snd (t_run interp nd (init maxsize) ops2)) o)).
Proof. intros D P ED EP interp nd maxsize. exact (traj_history_independent interp nd maxsize). Qed.
Print Assumptions C07_trajectories_history_independent.

Theorem C07_records_history_independent :
  forall (D P : Type) (ED : EqDec D) (EP : EqDec P) (ops1 ops2 : list (mop D P)),
    (forall t d, lookup2 t d (snd (m_run [] ops1)) = lookup2 t d (snd (m_run [] ops2))) ->
    forall o, out_equiv (fst (m_step (snd (m_run [] ops1)) o)) (fst (m_step (snd (m_run [] ops2)) o)).
Proof. intros D P ED EP. exact rec_history_independent. Qed.
Print Assumptions C07_records_history_independent.

(* and earlier queries leave the entries alone (they may only rebuild the cache) *)
Theorem C07_queries_keep_content :
  forall (D P : Type) (ED : EqDec D) (EP : EqDec P)
         (interp : Z -> Z -> P -> Z -> P -> P) (nd : Z -> Z) (c : cstate D P) (o : top D P),
    is_query o = true -> data (snd (t_step interp nd c o)) = data c.
Proof. intros D P ED EP interp nd. exact (query_keeps_content interp nd). Qed.
Print Assumptions C07_queries_keep_content.

(* --- 3b. membership ignores the payloads: relabel every stored record / pose of a history by any function f
        (for instance a constant one: all payloads equal, or "falsy") and both membership answers
        - (t, d) in c  [has_pair]  and  t in c  [has_ts] - stay what they were.  Which keys are present is
        decided by the keys assigned and deleted, never by the values. *)
Theorem C07_records_membership_ignores_payload :
  forall (D P Q : Type) (ED : EqDec D) (f : P -> Q) (ops : list (mop D P)) t d,
    has_pair (snd (m_run [] (map (mop_map f) ops))) t d = has_pair (snd (m_run [] ops)) t d /\
    has_ts (snd (m_run [] (map (mop_map f) ops))) t = has_ts (snd (m_run [] ops)) t.
Proof. intros. apply rec_membership_ignores_payload. Qed.
Print Assumptions C07_records_membership_ignores_payload.

Theorem C07_trajectories_membership_ignores_payload :
  forall (D P Q : Type) (ED : EqDec D) (f : P -> Q)
         (interp : Z -> Z -> P -> Z -> P -> P) (interp' : Z -> Z -> Q -> Z -> Q -> Q)
         (nd nd' : Z -> Z) (maxsize maxsize' : Z) (ops : list (top D P)) t d,
    has_pair (data (snd (t_run interp' nd' (init maxsize') (map (top_map f) ops)))) t d =
    has_pair (data (snd (t_run interp nd (init maxsize) ops))) t d /\
    has_ts (data (snd (t_run interp' nd' (init maxsize') (map (top_map f) ops)))) t =
    has_ts (data (snd (t_run interp nd (init maxsize) ops))) t.
Proof. intros. apply traj_membership_ignores_payload. Qed.
Print Assumptions C07_trajectories_membership_ignores_payload.

(* has_pair / has_ts are, by definition, what the machines answer to HasPair / HasTs *)
Lemma C07_membership_answers :
  forall (D P : Type) (ED : EqDec D) (x : nested D P) t d,
    fst (m_step x (HasPair t d)) = OBool (has_pair x t d) /\ fst (m_step x (HasTs t)) = OBool (has_ts x t).
Proof. intros. split; reflexivity. Qed.

(* --- 4. intermediate_pose on every reachable state (empty, single timestamp, after deletions, with a
        stale or fresh cache ...):  it never fails, *)
Theorem C07_interpolation_never_fails :
  forall (D P : Type) (ED : EqDec D) (EP : EqDec P)
         (interp : Z -> Z -> P -> Z -> P -> P) (nd : Z -> Z) (maxsize : Z) (ops : list (top D P)) t d mi,
    let c := snd (t_run interp nd (init maxsize) ops) in
    fst (t_step interp nd c (Interp t d mi)) = ONone \/
    exists p, fst (t_step interp nd c (Interp t d mi)) = OVal p.
Proof. intros. eapply interp_total. apply reachable_TRel. Qed.
Print Assumptions C07_interpolation_never_fails.

(*      returns the stored pose when there is one, *)
Theorem C07_interpolation_returns_stored_pose :
  forall (D P : Type) (ED : EqDec D) (EP : EqDec P)
         (interp : Z -> Z -> P -> Z -> P -> P) (nd : Z -> Z) (maxsize : Z) (ops : list (top D P)) t d mi p,
    let c := snd (t_run interp nd (init maxsize) ops) in
    lookup2 t d (data c) = Some p ->
    fst (t_step interp nd c (Interp t d mi)) = OVal p.
Proof. intros. eapply interp_stored; [apply reachable_TRel | assumption]. Qed.
Print Assumptions C07_interpolation_returns_stored_pose.

(*      otherwise interpolates between the nearest earlier and the nearest later pose OF THAT DEVICE
        (is_lo / is_hi: greatest timestamp < t, least timestamp > t, among those where the device has
        a pose) exactly when both are within max_interval, *)
Theorem C07_interpolation_between_nearest :
  forall (D P : Type) (ED : EqDec D) (EP : EqDec P)
         (interp : Z -> Z -> P -> Z -> P -> P) (nd : Z -> Z) (maxsize : Z) (ops : list (top D P))
         t d mi lo hi pl ph,
    let c := snd (t_run interp nd (init maxsize) ops) in
    lookup2 t d (data c) = None ->
    is_lo (data c) t d lo -> is_hi (data c) t d hi ->
    lookup2 lo d (data c) = Some pl -> lookup2 hi d (data c) = Some ph ->
    fst (t_step interp nd c (Interp t d mi)) =
    if (t - lo <=? mi) && (hi - t <=? mi) then OVal (interp t lo pl hi ph) else ONone.
Proof. intros. eapply interp_between; try eassumption. apply reachable_TRel. Qed.
Print Assumptions C07_interpolation_between_nearest.

(*      and returns nothing when the device has no earlier or no later pose. *)
Theorem C07_interpolation_none_without_bracket :
  forall (D P : Type) (ED : EqDec D) (EP : EqDec P)
         (interp : Z -> Z -> P -> Z -> P -> P) (nd : Z -> Z) (maxsize : Z) (ops : list (top D P)) t d mi,
    let c := snd (t_run interp nd (init maxsize) ops) in
    lookup2 t d (data c) = None ->
    no_lo (data c) t d \/ no_hi (data c) t d ->
    fst (t_step interp nd c (Interp t d mi)) = ONone.
Proof. intros. eapply interp_no_bracket; try eassumption. apply reachable_TRel. Qed.
Print Assumptions C07_interpolation_none_without_bracket.

(* --- non-vacuity: a concrete history (strings as devices, symbolic poses) where the clauses bite:
       interpolation skips a timestamp that only the other device has, honours the interval, survives
       deletions down to one and zero timestamps, and assigning an empty dict removes the timestamp *)
Local Open Scope string_scope.
Example C07_example :
  let ops : list (top string spose) :=
    [ Interp 15 "a" 100;                                   (* empty container *)
      M (SetPair 10 "a" (PId 1)); Interp 15 "a" 100;       (* single timestamp *)
      M (SetPair 30 "a" (PId 2)); M (SetPair 20 "b" (PId 3));
      Interp 20 "a" 10; Interp 20 "a" 9; Interp 20 "b" 10; (* skips 20 (device b only); interval; stored *)
      Sorted; TsLen;
      M (DelTs 30); M (DelPair 20 "b"); Interp 15 "a" 100; (* bounds would be stale *)
      M (SetTs 10 []); M (HasTs 10); Sorted; Interp 15 "a" 100 ] in
  fst (t_run interp_sym nd_float (init 9223372036854775807) ops) =
    [ ONone; ONone; ONone; ONone; ONone;
      OVal (PMix 20 10 1 30 2); ONone; OVal (PId 3);
      OList [10; 20; 30]; OInt 2;
      ONone; ONone; ONone;
      ONone; OBool false; OList []; ONone ].
Proof. vm_compute. reflexivity. Qed.

(* --- the behaviour before the repair is refuted *)
(* intermediate_pose raised IndexError on an empty container, on a single timestamp queried above it,
   and when deletions left the cached upper bound stale *)
Lemma C07_legacy_refuted :
  fst (t_run_legacy interp_sym nd_float (init 9223372036854775807)
         [Interp 15 "a" 100]) = [OIndexErr]
  /\ fst (t_run_legacy interp_sym nd_float (init 9223372036854775807)
         [M (SetPair 10 "a" (PId 1)); Interp 15 "a" 100]) = [ONone; OIndexErr]
  /\ fst (t_run_legacy interp_sym nd_float (init 9223372036854775807)
         [M (SetPair 10 "a" (PId 1)); M (SetPair 20 "a" (PId 2)); M (SetPair 30 "a" (PId 3));
          Interp 15 "a" 100; M (DelTs 30); M (DelTs 20); Interp 15 "a" 100])
     = [ONone; ONone; ONone; OVal (PMix 15 10 1 20 2); ONone; ONone; OIndexErr].
Proof. vm_compute. repeat split. Qed.

(* c[t] = {} left a timestamp without any entry: membership and the sorted list differed from those of
   the empty container although both hold the same (no) entries *)
Lemma C07_legacy_refuted_empty_timestamp :
  fst (t_run_legacy interp_sym nd_float (init 9223372036854775807)
         [M (SetTs 5 []); M Pairs; M (HasTs 5); Sorted])
  = [ONone; OPairs []; OBool true; OList [5]]
  /\ fst (m_run_legacy (D := string) (P := spose) [] [SetTs 5 []; Pairs; HasTs 5; Len])
  = [ONone; OPairs []; OBool true; OInt 1]
  /\ fst (s_trun interp_sym nd_float [] [M (SetTs 5 []); M Pairs; M (HasTs 5); Sorted])
  = [ONone; OPairs []; OBool false; OList []].
Proof. vm_compute. repeat split. Qed.

(* observation (not a violation: any function of the content satisfies the statement): the float-based
   digit counter over-counts just below some powers of ten *)
Example C07_num_digits_observation :
  nd_float 99999999999999999 = 18 /\ nd_exact 99999999999999999 = 17 /\ nd_float 999999999999999 = 15.
Proof. vm_compute. repeat split. Qed.
