(* Props/C07.v — property C07: trajectory and record containers act as plain maps whatever the edit
   history.  Only statements; each is closed by a lemma of Proofs/PRec.v / Proofs/PTraj.v.

   Every theorem quantifies over arbitrary device and payload types (with decidable equality), an
   arbitrary interpolation function [interp] (compute_intermediate_pose: slerp of the quaternion
   library + linear translation), an arbitrary digit counter [nd] (computation.num_digits), an arbitrary
   initial upper bound [maxsize] (sys.maxsize), and operation sequences of any length.

   Vocabulary (Model/MRec.v, Model/MTraj.v):
     m_run / t_run     the Records / Trajectories state machine mirroring the classes (dict of dicts;
                       cached sorted timestamps and cached first/last bounds for Trajectories)
     s_run / s_trun    the same operations on a plain map keyed by (timestamp, device)
     out_equiv         equality of answers (the two set-valued answers, c[t] and key_pairs, as sets)
     Rel / TRel        "same entries" + well-formedness (+ the cache invariant for Trajectories)
     lookup2 t d x     the entry stored for (t, d) in the dict of dicts x *)
From Coq Require Import List Bool ZArith String Permutation.
From KV Require Import Eqb AL.
From KV.Model Require Import MRec MTraj.
From KV.Proofs Require Import PRec PTraj PTrajX.
Import ListNotations.
Local Open Scope Z_scope.

(* --- 1. RecordsBase: for every operation sequence, every answer (value or exception) equals the plain
        map's, and afterwards the container holds exactly the plain map's entries *)
Theorem C07_records_refine_plain_map :
  forall (D P : Type) (ED : EqDec D) (EP : EqDec P) (ops : list (mop D P)),
    Forall2 out_equiv (fst (m_run [] ops)) (fst (s_run [] ops)) /\
    Rel (snd (m_run [] ops)) (snd (s_run [] ops)).
Proof. intros. apply rec_refines, Rel_nil. Qed.
Print Assumptions C07_records_refine_plain_map.

(* --- 2. Trajectories: the same, including the cached sorted list, timestamp_length and
        intermediate_pose; the abstraction commutes (TRel carries the cache invariant) *)
Theorem C07_trajectories_refine_plain_map :
  forall (D P : Type) (ED : EqDec D) (EP : EqDec P)
         (interp : Z -> Z -> P -> Z -> P -> P) (nd : Z -> Z) (maxsize : Z) (ops : list (top D P)),
    Forall2 out_equiv (fst (t_run interp nd (init maxsize) ops)) (fst (s_trun interp nd [] ops)) /\
    TRel (snd (t_run interp nd (init maxsize) ops)) (snd (s_trun interp nd [] ops)).
Proof. intros. apply traj_refines, TRel_init. Qed.
Print Assumptions C07_trajectories_refine_plain_map.

(* the simulation step, from any related pair of states (not only from the empty container) *)
Theorem C07_trajectories_simulation :
  forall (D P : Type) (ED : EqDec D) (EP : EqDec P)
         (interp : Z -> Z -> P -> Z -> P -> P) (nd : Z -> Z) (ops : list (top D P)) c a,
    TRel c a ->
    Forall2 out_equiv (fst (t_run interp nd c ops)) (fst (s_trun interp nd a ops)) /\
    TRel (snd (t_run interp nd c ops)) (snd (s_trun interp nd a ops)).
Proof. intros. apply traj_refines. assumption. Qed.
Print Assumptions C07_trajectories_simulation.

(* --- 3. answers depend on the content only: two histories (any edits, any interleaved queries, any
        cache states) that end with the same entries answer every further operation alike *)
Theorem C07_trajectories_history_independent :
  forall (D P : Type) (ED : EqDec D) (EP : EqDec P)
         (interp : Z -> Z -> P -> Z -> P -> P) (nd : Z -> Z) (maxsize : Z) (ops1 ops2 : list (top D P)),
    (forall t d, lookup2 t d (data (snd (t_run interp nd (init maxsize) ops1))) =
                 lookup2 t d (data (snd (t_run interp nd (init maxsize) ops2)))) ->
    forall o, out_equiv (fst (t_step interp nd (snd (t_run interp nd (init maxsize) ops1)) o))
                        (fst (t_step interp nd (snd (t_run interp nd (init maxsize) ops2)) o)).
Proof. intros D P ED EP interp nd maxsize. exact (traj_history_independent interp nd maxsize). Qed.
Print Assumptions C07_trajectories_history_independent.

Theorem C07_records_history_independent :
  forall (D P : Type) (ED : EqDec D) (EP : EqDec P) (ops1 ops2 : list (mop D P)),
    (forall t d, lookup2 t d (snd (m_run [] ops1)) = lookup2 t d (snd (m_run [] ops2))) ->
    forall o, out_equiv (fst (m_step (snd (m_run [] ops1)) o)) (fst (m_step (snd (m_run [] ops2)) o)).
Proof. intros D P ED EP. exact rec_history_independent. Qed.
Print Assumptions C07_records_history_independent.

(* and earlier queries leave the entries alone (they may only rebuild the cache) *)
Theorem C07_queries_keep_content :
  forall (D P : Type) (ED : EqDec D) (EP : EqDec P)
         (interp : Z -> Z -> P -> Z -> P -> P) (nd : Z -> Z) (c : cstate D P) (o : top D P),
    is_query o = true -> data (snd (t_step interp nd c o)) = data c.
Proof. intros D P ED EP interp nd. exact (query_keeps_content interp nd). Qed.
Print Assumptions C07_queries_keep_content.

(* --- 3b. membership ignores the payloads: relabel every stored record / pose of a history by any function f
        (for instance a constant one: all payloads equal, or "falsy") and both membership answers
        - (t, d) in c  [has_pair]  and  t in c  [has_ts] - stay what they were.  Which keys are present is
        decided by the keys assigned and deleted, never by the values. *)
Theorem C07_records_membership_ignores_payload :
  forall (D P Q : Type) (ED : EqDec D) (f : P -> Q) (ops : list (mop D P)) t d,
    has_pair (snd (m_run [] (map (mop_map f) ops))) t d = has_pair (snd (m_run [] ops)) t d /\
    has_ts (snd (m_run [] (map (mop_map f) ops))) t = has_ts (snd (m_run [] ops)) t.
Proof. intros. apply rec_membership_ignores_payload. Qed.
Print Assumptions C07_records_membership_ignores_payload.

Theorem C07_trajectories_membership_ignores_payload :
  forall (D P Q : Type) (ED : EqDec D) (f : P -> Q)
         (interp : Z -> Z -> P -> Z -> P -> P) (interp' : Z -> Z -> Q -> Z -> Q -> Q)
         (nd nd' : Z -> Z) (maxsize maxsize' : Z) (ops : list (top D P)) t d,
    has_pair (data (snd (t_run interp' nd' (init maxsize') (map (top_map f) ops)))) t d =
    has_pair (data (snd (t_run interp nd (init maxsize) ops))) t d /\
    has_ts (data (snd (t_run interp' nd' (init maxsize') (map (top_map f) ops)))) t =
    has_ts (data (snd (t_run interp nd (init maxsize) ops))) t.
Proof. intros. apply traj_membership_ignores_payload. Qed.
Print Assumptions C07_trajectories_membership_ignores_payload.

(* has_pair / has_ts are, by definition, what the machines answer to HasPair / HasTs *)
Lemma C07_membership_answers :
  forall (D P : Type) (ED : EqDec D) (x : nested D P) t d,
    fst (m_step x (HasPair t d)) = OBool (has_pair x t d) /\ fst (m_step x (HasTs t)) = OBool (has_ts x t).
Proof. intros. split; reflexivity. Qed.

(* --- 4. intermediate_pose on every reachable state (empty, single timestamp, after deletions, with a
        stale or fresh cache ...):  it never fails, *)
Theorem C07_interpolation_never_fails :
  forall (D P : Type) (ED : EqDec D) (EP : EqDec P)
         (interp : Z -> Z -> P -> Z -> P -> P) (nd : Z -> Z) (maxsize : Z) (ops : list (top D P)) t d mi,
    let c := snd (t_run interp nd (init maxsize) ops) in
    fst (t_step interp nd c (Interp t d mi)) = ONone \/
    exists p, fst (t_step interp nd c (Interp t d mi)) = OVal p.
Proof. intros. eapply interp_total. apply reachable_TRel. Qed.
Print Assumptions C07_interpolation_never_fails.

(*      returns the stored pose when there is one, *)
Theorem C07_interpolation_returns_stored_pose :
  forall (D P : Type) (ED : EqDec D) (EP : EqDec P)
         (interp : Z -> Z -> P -> Z -> P -> P) (nd : Z -> Z) (maxsize : Z) (ops : list (top D P)) t d mi p,
    let c := snd (t_run interp nd (init maxsize) ops) in
    lookup2 t d (data c) = Some p ->
    fst (t_step interp nd c (Interp t d mi)) = OVal p.
Proof. intros. eapply interp_stored; [apply reachable_TRel | assumption]. Qed.
Print Assumptions C07_interpolation_returns_stored_pose.

(*      otherwise interpolates between the nearest earlier and the nearest later pose OF THAT DEVICE
        (is_lo / is_hi: greatest timestamp < t, least timestamp > t, among those where the device has
        a pose) exactly when both are within max_interval, *)
Theorem C07_interpolation_between_nearest :
  forall (D P : Type) (ED : EqDec D) (EP : EqDec P)
         (interp : Z -> Z -> P -> Z -> P -> P) (nd : Z -> Z) (maxsize : Z) (ops : list (top D P))
         t d mi lo hi pl ph,
    let c := snd (t_run interp nd (init maxsize) ops) in
    lookup2 t d (data c) = None ->
    is_lo (data c) t d lo -> is_hi (data c) t d hi ->
    lookup2 lo d (data c) = Some pl -> lookup2 hi d (data c) = Some ph ->
    fst (t_step interp nd c (Interp t d mi)) =
    if (t - lo <=? mi) && (hi - t <=? mi) then OVal (interp t lo pl hi ph) else ONone.
Proof. intros. eapply interp_between; try eassumption. apply reachable_TRel. Qed.
Print Assumptions C07_interpolation_between_nearest.

(*      and returns nothing when the device has no earlier or no later pose. *)
Theorem C07_interpolation_none_without_bracket :
  forall (D P : Type) (ED : EqDec D) (EP : EqDec P)
         (interp : Z -> Z -> P -> Z -> P -> P) (nd : Z -> Z) (maxsize : Z) (ops : list (top D P)) t d mi,
    let c := snd (t_run interp nd (init maxsize) ops) in
    lookup2 t d (data c) = None ->
    no_lo (data c) t d \/ no_hi (data c) t d ->
    fst (t_step interp nd c (Interp t d mi)) = ONone.
Proof. intros. eapply interp_no_bracket; try eassumption. apply reachable_TRel. Qed.
Print Assumptions C07_interpolation_none_without_bracket.

(* --- 5. Trajectories.inverse() (a new container filled through c[t, d] = pose.inverse()), on every reachable
        state and for every function [pinv]: exactly the same keys with the inverted poses, hence the same
        membership answers, sorted timestamp list and timestamp_length, *)
Theorem C07_inverse_same_keys_inverted_poses :
  forall (D P : Type) (ED : EqDec D) (EP : EqDec P)
         (interp : Z -> Z -> P -> Z -> P -> P) (nd : Z -> Z) (maxsize : Z) (pinv : P -> P) (ops : list (top D P)),
    let c := snd (t_run interp nd (init maxsize) ops) in
    let c' := inverse_c interp nd maxsize pinv c in
    (forall t d, lookup2 t d (data c') = option_map pinv (lookup2 t d (data c))) /\
    (forall t d, has_pair (data c') t d = has_pair (data c) t d) /\
    (forall t, has_ts (data c') t = has_ts (data c) t) /\
    fst (t_step interp nd c' Sorted) = fst (t_step interp nd c Sorted) /\
    fst (t_step interp nd c' TsLen) = fst (t_step interp nd c TsLen).
Proof.
  intros. pose proof (reachable_TRel interp nd maxsize ops) as TR. split.
  - apply (inverse_lookup interp nd maxsize pinv _ _ (proj1 TR)).
  - apply (inverse_keeps_keys interp nd maxsize pinv _ _ TR).
Qed.
Print Assumptions C07_inverse_same_keys_inverted_poses.

(*      and the inverted container is again a plain map (of the relabelled entries) under every further
        operation sequence: TRel holds for it, so theorems 2-4 apply to it verbatim. *)
Theorem C07_inverse_refines_plain_map :
  forall (D P : Type) (ED : EqDec D) (EP : EqDec P)
         (interp : Z -> Z -> P -> Z -> P -> P) (nd : Z -> Z) (maxsize : Z) (pinv : P -> P)
         (ops more : list (top D P)),
    let c' := inverse_c interp nd maxsize pinv (snd (t_run interp nd (init maxsize) ops)) in
    let a' := vmap pinv (snd (s_trun interp nd [] ops)) in
    TRel c' a' /\
    Forall2 out_equiv (fst (t_run interp nd c' more)) (fst (s_trun interp nd a' more)) /\
    TRel (snd (t_run interp nd c' more)) (snd (s_trun interp nd a' more)).
Proof.
  intros. pose proof (reachable_TRel interp nd maxsize ops) as [Rl _].
  pose proof (inverse_TRel interp nd maxsize pinv _ _ Rl) as TR'.
  split; [exact TR' | apply traj_refines; exact TR'].
Qed.
Print Assumptions C07_inverse_refines_plain_map.

(* --- 6. sensors_ids and data_list() are functions of the entries: a device is listed (once) iff it has an
        entry at some timestamp; data_list() holds one value per entry of the plain map *)
Theorem C07_sensors_ids_are_the_devices_with_an_entry :
  forall (D P : Type) (ED : EqDec D) (EP : EqDec P) (ops : list (mop D P)) d,
    let x := snd (m_run [] ops) in
    (In d (sensors_of x) <-> exists t, has_pair x t d = true) /\ NoDup (sensors_of x).
Proof.
  intros. split; [|apply dedup_NoDup]. apply sensors_spec. apply (reachable_Rel ops).
Qed.
Print Assumptions C07_sensors_ids_are_the_devices_with_an_entry.

Theorem C07_trajectories_sensors_ids :
  forall (D P : Type) (ED : EqDec D) (EP : EqDec P)
         (interp : Z -> Z -> P -> Z -> P -> P) (nd : Z -> Z) (maxsize : Z) (ops : list (top D P)) d,
    let x := data (snd (t_run interp nd (init maxsize) ops)) in
    In d (sensors_of x) <-> exists t, has_pair x t d = true.
Proof. intros. apply sensors_spec. apply (reachable_TRel interp nd maxsize ops). Qed.
Print Assumptions C07_trajectories_sensors_ids.

Theorem C07_data_list_one_value_per_entry :
  forall (D P : Type) (ED : EqDec D) (EP : EqDec P) (ops : list (mop D P)),
    Permutation (data_list_of (snd (m_run [] ops))) (map snd (snd (s_run [] ops))).
Proof. intros. apply data_list_perm. apply (reachable_Rel ops). Qed.
Print Assumptions C07_data_list_one_value_per_entry.

(* --- 7. what an operation must NOT change.  From ANY state (reachable or not): c[t,d] = p and del c[t,d]
        leave every other pair alone, c[t] = {..} and del c[t] leave every other timestamp alone, queries
        leave everything alone ([other_pair o t' d'] says (t', d') is not the pair / timestamp o writes) *)
Theorem C07_edit_leaves_other_entries :
  forall (D P : Type) (ED : EqDec D) (EP : EqDec P) (x : nested D P) (o : mop D P) t' d',
    other_pair o t' d' -> lookup2 t' d' (snd (m_step x o)) = lookup2 t' d' x.
Proof. intros. apply edit_frame. assumption. Qed.
Print Assumptions C07_edit_leaves_other_entries.

(*      an operation that raises (KeyError on a missing key, TypeError on an ill-typed call) leaves the
        entries AND the cached list and bounds exactly as they were *)
Theorem C07_failed_operation_changes_nothing :
  forall (D P : Type) (ED : EqDec D) (EP : EqDec P)
         (interp : Z -> Z -> P -> Z -> P -> P) (nd : Z -> Z) (c : cstate D P) (mo : mop D P),
    is_err (fst (t_step interp nd c (M mo))) = true -> snd (t_step interp nd c (M mo)) = c.
Proof. intros D P ED EP interp nd. exact (failed_map_op_changes_nothing interp nd). Qed.
Print Assumptions C07_failed_operation_changes_nothing.

(*      asking for the sorted list again gives the same list and changes nothing more (from any state) *)
Theorem C07_sorted_list_idempotent :
  forall (D P : Type) (ED : EqDec D) (EP : EqDec P)
         (interp : Z -> Z -> P -> Z -> P -> P) (nd : Z -> Z) (c : cstate D P),
    let c1 := snd (t_step interp nd c Sorted) in
    fst (t_step interp nd c1 Sorted) = fst (t_step interp nd c Sorted) /\ snd (t_step interp nd c1 Sorted) = c1 /\
    fst (t_step interp nd c1 TsLen) = fst (t_step interp nd c TsLen) /\ snd (t_step interp nd c1 TsLen) = c1.
Proof. intros D P ED EP interp nd. exact (sorted_idempotent interp nd). Qed.
Print Assumptions C07_sorted_list_idempotent.

(* --- 8. the algebra of pair edits, from ANY state (reachable or not): the exact content after c[t,d] = p and after
        del c[t,d] (whether it succeeds or raises KeyError), hence: assignments to different pairs commute (order of
        edits is irrelevant to the content), the later assignment to a pair wins (and assigning twice = once), and
        deleting a pair that was absent before it was assigned restores the former content *)
Theorem C07_pair_edit_content :
  forall (D P : Type) (ED : EqDec D) (EP : EqDec P) (x : nested D P) t d p t' d',
    lookup2 t' d' (snd (m_step x (SetPair t d p))) = (if eqb t' t && eqb d' d then Some p else lookup2 t' d' x) /\
    lookup2 t' d' (snd (m_step x (DelPair t d))) = (if eqb t' t && eqb d' d then None else lookup2 t' d' x).
Proof. intros. split; [apply set_pair_spec | apply del_pair_spec]. Qed.
Print Assumptions C07_pair_edit_content.

Theorem C07_pair_edits_commute_overwrite_undo :
  forall (D P : Type) (ED : EqDec D) (EP : EqDec P) (x : nested D P) t1 d1 p1 t2 d2 p2 t d,
    ((t1, d1) <> (t2, d2) ->
     lookup2 t d (snd (m_step (snd (m_step x (SetPair t1 d1 p1))) (SetPair t2 d2 p2))) =
     lookup2 t d (snd (m_step (snd (m_step x (SetPair t2 d2 p2))) (SetPair t1 d1 p1)))) /\
    lookup2 t d (snd (m_step (snd (m_step x (SetPair t1 d1 p1))) (SetPair t1 d1 p2))) =
    lookup2 t d (snd (m_step x (SetPair t1 d1 p2))) /\
    (lookup2 t1 d1 x = None ->
     lookup2 t d (snd (m_step (snd (m_step x (SetPair t1 d1 p1))) (DelPair t1 d1))) = lookup2 t d x).
Proof.
  intros. split; [|split].
  - intros N. apply set_pairs_commute. exact N.
  - apply set_pair_overwrites.
  - intros E. apply set_then_delete_restores. exact E.
Qed.
Print Assumptions C07_pair_edits_commute_overwrite_undo.

(* --- non-vacuity: a concrete history (strings as devices, symbolic poses) where the clauses bite:
       interpolation skips a timestamp that only the other device has, honours the interval, survives
       deletions down to one and zero timestamps, and assigning an empty dict removes the timestamp *)
Local Open Scope string_scope.
Example C07_example :
  let ops : list (top string spose) :=
    [ Interp 15 "a" 100;                                   (* empty container *)
      M (SetPair 10 "a" (PId 1)); Interp 15 "a" 100;       (* single timestamp *)
      M (SetPair 30 "a" (PId 2)); M (SetPair 20 "b" (PId 3));
      Interp 20 "a" 10; Interp 20 "a" 9; Interp 20 "b" 10; (* skips 20 (device b only); interval; stored *)
      Sorted; TsLen;
      M (DelTs 30); M (DelPair 20 "b"); Interp 15 "a" 100; (* bounds would be stale *)
      M (SetTs 10 []); M (HasTs 10); Sorted; Interp 15 "a" 100 ] in
  fst (t_run interp_sym nd_float (init 9223372036854775807) ops) =
    [ ONone; ONone; ONone; ONone; ONone;
      OVal (PMix 20 10 1 30 2); ONone; OVal (PId 3);
      OList [10; 20; 30]; OInt 2;
      ONone; ONone; ONone;
      ONone; OBool false; OList []; ONone ].
Proof. vm_compute. reflexivity. Qed.

(* --- the behaviour before the repair is refuted *)
(* intermediate_pose raised IndexError on an empty container, on a single timestamp queried above it,
   and when deletions left the cached upper bound stale *)
Lemma C07_legacy_refuted :
  fst (t_run_legacy interp_sym nd_float (init 9223372036854775807)
         [Interp 15 "a" 100]) = [OIndexErr]
  /\ fst (t_run_legacy interp_sym nd_float (init 9223372036854775807)
         [M (SetPair 10 "a" (PId 1)); Interp 15 "a" 100]) = [ONone; OIndexErr]
  /\ fst (t_run_legacy interp_sym nd_float (init 9223372036854775807)
         [M (SetPair 10 "a" (PId 1)); M (SetPair 20 "a" (PId 2)); M (SetPair 30 "a" (PId 3));
          Interp 15 "a" 100; M (DelTs 30); M (DelTs 20); Interp 15 "a" 100])
     = [ONone; ONone; ONone; OVal (PMix 15 10 1 20 2); ONone; ONone; OIndexErr].
Proof. vm_compute. repeat split. Qed.

(* c[t] = {} left a timestamp without any entry: membership and the sorted list differed from those of
   the empty container although both hold the same (no) entries *)
Lemma C07_legacy_refuted_empty_timestamp :
  fst (t_run_legacy interp_sym nd_float (init 9223372036854775807)
         [M (SetTs 5 []); M Pairs; M (HasTs 5); Sorted])
  = [ONone; OPairs []; OBool true; OList [5]]
  /\ fst (m_run_legacy (D := string) (P := spose) [] [SetTs 5 []; Pairs; HasTs 5; Len])
  = [ONone; OPairs []; OBool true; OInt 1]
  /\ fst (s_trun interp_sym nd_float [] [M (SetTs 5 []); M Pairs; M (HasTs 5); Sorted])
  = [ONone; OPairs []; OBool false; OList []].
Proof. vm_compute. repeat split. Qed.

(* observation (not a violation: any function of the content satisfies the statement): the float-based
   digit counter over-counts just below some powers of ten *)
Example C07_num_digits_observation :
  nd_float 99999999999999999 = 18 /\ nd_exact 99999999999999999 = 17 /\ nd_float 999999999999999 = 15.
Proof. vm_compute. repeat split. Qed.

(* --- non-vacuity of 5-7: a history with a filled cache, then inverse(): the new container lists the same
       timestamps, interpolates between the inverted poses (ids + inv_offset) and has its own fresh bounds;
       sensors_ids after a deletion; a failing delete *)
Example C07_example_inverse :
  xt_run 9223372036854775807 (init 9223372036854775807)
    [ SP 10 "a" 1; SP 30 "a" 2; SP 20 "b" 3; SO; SI; IV; SO; IP 20 "a" 10; IP 35 "a" 10; GP 20 "b";
      DP 20 "b"; SI; DP 20 "b"; SO ]
  = [ ON; ON; ON; OL [10; 20; 30]; OS ["a"; "b"]; ON; OL [10; 20; 30]; OM 20 10 1000001 30 1000002; ON; OV 1000003;
      ON; OS ["a"]; EK; OL [10; 30] ].
Proof. vm_compute. reflexivity. Qed.
