(* Props/C08.v — property C08: dataset comparison is a true equality: symmetric and sensitive to every part.
   Only statements, each closed by a lemma of Proofs/PCompare.v.  [equal] is the model of
   kapture.algo.compare.equal_kapture (Model/MCompare.v), tied to the code on every run by the
   correspondence check; Gen/Tcompare.v and Gen/Tables.v are regenerated from the tree under test. *)
From Coq Require Import List Bool String ZArith QArith Qabs Permutation.
From KV Require Import Eqb AL Str.
From KV.Gen Require Import Tables Tcompare.
From KV.Model Require Import MCompare.
From KV.Proofs Require Import PCompare.
Import ListNotations.
Local Open Scope string_scope.
Local Open Scope list_scope.

(* vocabulary (Proofs/PCompare.v):
   wf_ds d        every nested-dict part of d has unique keys (the Python dict invariant)
   orel P x y     x, y both absent, or both present and related by P
   map_rel m m'   forall key k, orel (leaf relation) (lookup k m) (lookup k m')  — same key set, related leaves
   part_rel x y   map_rel for dict-like parts; same column count and pairwise-close rows for 3-D points
   ds_rel a b     forall part p (all 18 constructors of part_id), orel part_rel (get p a) (get p b) *)

(* --- 1. the characterisation, for ANY leaf closeness relations (pose_close, num_close) and any
          set comparison that decides set equality: no hypothesis of reflexivity or symmetry is needed *)
Theorem C08_equal_iff_generic :
  forall (pose_close : pose -> pose -> bool) (num_close : Q -> Q -> bool) (seteq : list key -> list key -> bool),
  (forall a b, seteq a b = true <-> (forall x, In x a <-> In x b)) ->
  forall a b, wf_ds a -> wf_ds b ->
  (equal_with pose_close num_close seteq walk a b = true <-> ds_rel pose_close num_close seteq a b).
Proof. exact equal_walk_iff. Qed.
Print Assumptions C08_equal_iff_generic.

(* reflexive as soon as the leaf relations are; symmetric as soon as they are *)
Theorem C08_equal_refl_generic :
  forall pose_close num_close seteq,
  (forall a b, seteq a b = true <-> (forall x, In x a <-> In x b)) ->
  (forall p, pose_close p p = true) -> (forall x, num_close x x = true) ->
  forall a, wf_ds a -> equal_with pose_close num_close seteq walk a a = true.
Proof. exact equal_walk_refl. Qed.
Print Assumptions C08_equal_refl_generic.

Theorem C08_equal_sym_generic :
  forall pose_close num_close seteq,
  (forall a b, seteq a b = true <-> (forall x, In x a <-> In x b)) ->
  (forall p q, pose_close p q = pose_close q p) -> (forall x y, num_close x y = num_close y x) ->
  forall a b, wf_ds a -> wf_ds b ->
  equal_with pose_close num_close seteq walk a b = equal_with pose_close num_close seteq walk b a.
Proof. exact equal_walk_sym. Qed.
Print Assumptions C08_equal_sym_generic.

(* --- 2. the comparison of the tree under test: pose_close_q (1e-5 on translation and rotation),
          isclose_sym (np.isclose in both directions), set_equal (symmetric difference empty) *)
Theorem C08_equal_iff : forall a b, wf_ds a -> wf_ds b ->
  (equal a b = true <-> ds_rel pose_close_q isclose_sym set_equal a b).
Proof. exact equal_iff. Qed.
Print Assumptions C08_equal_iff.

Theorem C08_equal_refl : forall a, wf_ds a -> equal a a = true.
Proof. exact equal_refl. Qed.
Print Assumptions C08_equal_refl.

Theorem C08_equal_sym : forall a b, wf_ds a -> wf_ds b -> equal a b = equal b a.
Proof. exact equal_sym. Qed.
Print Assumptions C08_equal_sym.

(* the answer depends ONLY on the current content of the two arguments: two pairs of datasets with the same
   parts present, the same lookups in every dict-like part (whatever the insertion order, i.e. whatever sequence
   of typed or inherited-dict operations produced the objects) and the same point arrays get the same answer.
   No cache, no trace of earlier comparisons or queries, exists in the model; the correspondence over comparison
   HISTORIES (harness/props/c08.py) is what ties the implementation to this statement. *)
Theorem C08_equal_depends_on_content_only : forall a a' b b',
  wf_ds a -> wf_ds a' -> wf_ds b -> wf_ds b' -> ds_same a a' -> ds_same b b' -> equal a b = equal a' b'.
Proof. exact equal_content_only. Qed.
Print Assumptions C08_equal_depends_on_content_only.

(* any difference in any one part — present on one side only, a key on one side only, a leaf not related —
   makes the answer false in BOTH argument orders, whatever the other 17 parts are *)
Theorem C08_equal_detects : forall a b p, wf_ds a -> wf_ds b ->
  ~ orel (part_rel pose_close_q isclose_sym set_equal) (get p a) (get p b) ->
  equal a b = false /\ equal b a = false.
Proof. exact equal_detects. Qed.
Print Assumptions C08_equal_detects.

(* --- 3. single mutations, on the dataset operations (b is a with one change; both argument orders) *)
Notation eqs := (set_equal_spec).
Notation cs := pose_close_q_sym.
Notation ns := isclose_sym_sym.

Theorem C08_detects_part_removed : forall a p x, wf_ds a -> get p a = Some x ->
  equal a (remove p a) = false /\ equal (remove p a) a = false.
Proof. exact (detects_part_removed _ _ _ eqs cs ns). Qed.
Print Assumptions C08_detects_part_removed.

Theorem C08_detects_part_added : forall a p x, wf_ds a -> wf_part x -> get p a = None ->
  equal a (insert p x a) = false /\ equal (insert p x a) a = false.
Proof. exact (detects_part_added _ _ _ eqs cs ns). Qed.
Print Assumptions C08_detects_part_added.

Theorem C08_detects_entry_added : forall a p m k v, wf_ds a -> get p a = Some (PMap m) -> lookup k m = None ->
  let b := insert p (PMap (insert k v m)) a in equal a b = false /\ equal b a = false.
Proof. exact (detects_entry_added _ _ _ eqs cs ns). Qed.
Print Assumptions C08_detects_entry_added.

Theorem C08_detects_entry_removed : forall a p m k v, wf_ds a -> get p a = Some (PMap m) -> lookup k m = Some v ->
  let b := insert p (PMap (remove k m)) a in equal a b = false /\ equal b a = false.
Proof. exact (detects_entry_removed _ _ _ eqs cs ns). Qed.
Print Assumptions C08_detects_entry_removed.

Theorem C08_detects_entry_altered : forall a p m k v v', wf_ds a -> get p a = Some (PMap m) -> lookup k m = Some v ->
  val_rel pose_close_q isclose_sym set_equal v v' = false ->
  let b := insert p (PMap (insert k v' m)) a in equal a b = false /\ equal b a = false.
Proof. exact (detects_entry_altered _ _ _ eqs cs ns). Qed.
Print Assumptions C08_detects_entry_altered.

(* what "altered" means, kind of leaf by kind of leaf: when val_rel is false *)
Theorem C08_leaf_relations :
  (forall p q, val_rel pose_close_q isclose_sym set_equal (VPose p) (VPose q) = pose_close_q p q) /\
  (forall a b, val_rel pose_close_q isclose_sym set_equal (VLeaf a) (VLeaf b) = true <-> a = b) /\
  (forall f m f' m', val_rel pose_close_q isclose_sym set_equal (VFeat f m) (VFeat f' m') = true
                     <-> f = f' /\ (forall x, In x m <-> In x m')) /\
  (forall m m', val_rel pose_close_q isclose_sym set_equal (VSet m) (VSet m') = true <-> (forall x, In x m <-> In x m')) /\
  (forall r r', val_rel pose_close_q isclose_sym set_equal (VBag r) (VBag r') = true <-> Permutation r r') /\
  (forall a b, val_rel pose_close_q isclose_sym set_equal (VSensor a) (VSensor b) = true <->
     ((name_empty (s_name a) = true /\ name_empty (s_name b) = true) \/ s_name a = s_name b)
     /\ s_type a = s_type b
     /\ (if memb (s_type a) MCompare.camera_sensor_types
         then s_model a = s_model b /\ Forall2 (fun x y => isclose_sym x y = true) (s_cparams a) (s_cparams b)
         else s_params a = s_params b)).
Proof.
  split; [intros; reflexivity|].
  split; [intros; apply val_rel_leaf|].
  split; [intros; apply (val_rel_feat _ _ _ eqs)|].
  split; [intros; apply (val_rel_set _ _ _ eqs)|].
  split; [intros; apply val_rel_bag|].
  intros; apply val_rel_sensor.
Qed.
Print Assumptions C08_leaf_relations.

(* 3-D points: a point added or removed anywhere, a coordinate or colour altered beyond tolerance, colours dropped *)
Theorem C08_detects_point_count : forall a p c r r', wf_ds a -> get p a = Some (PPts c r) ->
  List.length r <> List.length r' ->
  let b := insert p (PPts c r') a in equal a b = false /\ equal b a = false.
Proof. exact (detects_point_count _ _ _ eqs cs ns). Qed.
Print Assumptions C08_detects_point_count.

Theorem C08_detects_point_altered : forall a p c r1 r2 c1 c2 x x', wf_ds a ->
  get p a = Some (PPts c (r1 ++ (c1 ++ x :: c2) :: r2)) -> isclose_sym x x' = false ->
  let b := insert p (PPts c (r1 ++ (c1 ++ x' :: c2) :: r2)) a in equal a b = false /\ equal b a = false.
Proof. exact (detects_point_altered _ _ _ eqs cs ns). Qed.
Print Assumptions C08_detects_point_altered.

Theorem C08_detects_point_columns : forall a p c c' r r', wf_ds a -> get p a = Some (PPts c r) -> c <> c' ->
  let b := insert p (PPts c' r') a in equal a b = false /\ equal b a = false.
Proof. exact (detects_point_columns _ _ _ eqs cs ns). Qed.
Print Assumptions C08_detects_point_columns.

(* --- 4. every part is visited: by the model's walk, and by the implementation as observed on this run.
          (finite; decided by computation over the regenerated tables.)  These statements stop compiling
          the day a part is dropped from the walk of equal_kapture or added to Kapture.__init__ only. *)
Theorem C08_walk_covers_all_parts : forall p : part_id, In p walk.
Proof. exact all_in_walk. Qed.
Print Assumptions C08_walk_covers_all_parts.

Theorem C08_visits_all_parts :
  (* the model's part names are exactly the parameters of Kapture.__init__ *)
  (forall n, In n Tables.parts <-> In n (map part_name walk)) /\
  (* the implementation reports a part present on one side only, one added entry, one removed entry,
     in both argument orders, for every part of Kapture.__init__ *)
  (forall n, In n Tables.parts -> In n Tcompare.visits /\ In n Tcompare.detects_add /\ In n Tcompare.detects_remove).
Proof.
  split.
  - intros n. rewrite <- !memb_In.
    assert (H : forallb (fun n => memb n (map part_name walk)) Tables.parts = true /\
                forallb (fun n => memb n Tables.parts) (map part_name walk) = true) by (split; vm_compute; reflexivity).
    destruct H as [H1 H2]. rewrite forallb_forall in H1, H2. split; intros I; apply memb_In in I.
    + apply H1; assumption.
    + apply H2; assumption.
  - assert (H : forallb (fun n => memb n Tcompare.visits && memb n Tcompare.detects_add && memb n Tcompare.detects_remove)
                        Tables.parts = true) by (vm_compute; reflexivity).
    rewrite forallb_forall in H. intros n I. specialize (H n I).
    rewrite !andb_true_iff, !memb_In in H. tauto.
Qed.
Print Assumptions C08_visits_all_parts.

(* the constants of the model are those of the code (numpy.isclose defaults, pose thresholds, camera sensor types);
   the floats 1e-05 / 1e-08 differ from the decimals by less than 1e-20 *)
Theorem C08_constants_as_in_code :
  Tcompare.camera_sensor_types = MCompare.camera_sensor_types /\
  Qle_bool (Qabs (Tcompare.isclose_rtol - rtol)) (1 # 100000000000000000000) = true /\
  Qle_bool (Qabs (Tcompare.isclose_atol - atol)) (1 # 100000000000000000000) = true /\
  forallb (fun t => Qle_bool (Qabs (t - pose_thr)) (1 # 100000000000000000000)) Tcompare.pose_thresholds = true /\
  List.length Tcompare.pose_thresholds = 3%nat.
Proof. repeat split; vm_compute; reflexivity. Qed.
Print Assumptions C08_constants_as_in_code.

(* --- 5. the closeness relations *)
Theorem C08_closeness_reflexive_symmetric :
  (forall p, pose_close_q p p = true) /\ (forall p q, pose_close_q p q = pose_close_q q p) /\
  (forall x, isclose_sym x x = true) /\ (forall x y, isclose_sym x y = isclose_sym y x) /\
  (forall a b, set_equal a b = true <-> (forall x, In x a <-> In x b)).
Proof.
  split; [exact pose_close_q_refl|]. split; [exact pose_close_q_sym|].
  split; [exact isclose_sym_refl|]. split; [exact isclose_sym_sym | exact set_equal_spec].
Qed.
Print Assumptions C08_closeness_reflexive_symmetric.

(* numpy.isclose(a, b) = |a-b| <= atol + rtol*|b| is NOT symmetric: the reason for the repair *)
Theorem C08_np_isclose_asym : exists a b : Q, np_isclose a b = true /\ np_isclose b a = false.
Proof. exact np_isclose_asym. Qed.
Print Assumptions C08_np_isclose_asym.

(* --- 6. the 18 helpers one by one (observed one by one by the correspondence, both argument orders) *)
(* equal_kapture is the conjunction of the answers of its 18 helpers; each helper decides exactly the relation of
   its own part, is symmetric, and looks at nothing but its own part *)
Theorem C08_equal_is_conjunction_of_helpers :
  (forall a b, equal a b = forallb (fun x => x) (answers a b)) /\
  (forall a b, List.length (answers a b) = 18%nat) /\
  (forall p a b, wf_ds a -> wf_ds b ->
     (answer p a b = true <-> orel (part_rel pose_close_q isclose_sym set_equal) (get p a) (get p b))) /\
  (forall p a b, wf_ds a -> wf_ds b -> answer p a b = answer p b a) /\
  (forall p a a' b b', get p a = get p a' -> get p b = get p b' -> answer p a b = answer p a' b').
Proof.
  split; [exact equal_is_conjunction|]. split; [exact answers_length|]. split; [exact answer_iff|].
  split; [exact answer_sym | exact answer_local].
Qed.
Print Assumptions C08_equal_is_conjunction_of_helpers.

(* the order in which the parts are visited (and visiting a part twice) does not change the answer, whatever the
   leaf relations: a refactoring of the walk that still visits every part is harmless *)
Theorem C08_walk_order_irrelevant : forall pose_close num_close seteq (w : list part_id) a b, (forall p, In p w) ->
  equal_with pose_close num_close seteq w a b = equal_with pose_close num_close seteq walk a b.
Proof. exact walk_order_irrelevant. Qed.
Print Assumptions C08_walk_order_irrelevant.

(* --- 7. the error branch (equal_nested_dict_or_set with an expected class: nine record kinds, observations) *)
(* a typed helper raises TypeError exactly when an argument is an object (not None) of another class, whichever
   side it is on; it never answers (True or False) then; on its own class it answers what the part comparison says *)
Theorem C08_helper_error_branch :
  (forall h x y, helper_call h x y = TypeErr <-> typed_helper h = true /\ (foreign h x = true \/ foreign h y = true)) /\
  (forall h x y, helper_call h x y = TypeErr <-> helper_call h y x = TypeErr) /\
  (forall h x y b, typed_helper h = true -> foreign h x = true \/ foreign h y = true -> helper_call h x y <> Ans b) /\
  (forall h (x y : option part), helper_call h (option_map (fun v => (h, v)) x) (option_map (fun v => (h, v)) y)
                                 = Ans (opt_equal (part_equal pose_close_q isclose_sym set_equal h) x y)) /\
  (forall h x y, helper_call h x y <> OtherErr).
Proof.
  split; [exact helper_call_typeerr|]. split; [exact helper_call_typeerr_sym|]. split; [exact helper_call_foreign|].
  split; [exact helper_call_own | exact helper_call_never_other].
Qed.
Print Assumptions C08_helper_error_branch.

(* equal_kapture as the code runs it (helpers in sequence, first answer that is not True wins): on two datasets whose
   attributes hold objects of their own class it NEVER raises and its outcome is the boolean [equal]; when an
   attribute of a typed helper was forced to another class it never answers True *)
Theorem C08_equal_kapture_never_raises_on_typed_datasets : forall a b, own_class a -> own_class b ->
  equal_outcome a b = Ans (equal (untag a) (untag b)).
Proof. exact equal_outcome_typed. Qed.
Print Assumptions C08_equal_kapture_never_raises_on_typed_datasets.

Theorem C08_foreign_class_never_equal : forall a b p, typed_helper p = true ->
  foreign p (lookup p a) = true \/ foreign p (lookup p b) = true -> equal_outcome a b <> Ans true.
Proof. intros a b p. apply walk_outcome_foreign. apply all_in_walk. Qed.
Print Assumptions C08_foreign_class_never_equal.

(* the code was observed on this run (regenerated table): each of the ten typed helpers raises TypeError on the object
   of exactly the 17 other parts of a full dataset, and the setter of that attribute of kapture.Kapture refuses
   exactly those: [own_class] is what the setters enforce *)
Theorem C08_error_branch_as_in_code :
  forallb (fun h => negb (typed_helper h) ||
     forallb (fun q => Bool.eqb (memb (part_name h, part_name q) Tcompare.helper_rejects) (negb (eqb q h))
                       && Bool.eqb (memb (part_name h, part_name q) Tcompare.setter_rejects) (negb (eqb q h))) walk) walk = true /\
  List.length (List.filter typed_helper walk) = 10%nat.
Proof. split; vm_compute; reflexivity. Qed.
Print Assumptions C08_error_branch_as_in_code.

(* --- 8. composition with the container operations *)
(* the same entry written (added or overwritten) / removed on both sides of two equal datasets leaves them equal *)
Theorem C08_same_change_on_both_sides_keeps_equal : forall a b p m m' k, wf_ds a -> wf_ds b ->
  get p a = Some (PMap m) -> get p b = Some (PMap m') -> equal a b = true ->
  (forall v, equal (insert p (PMap (insert k v m)) a) (insert p (PMap (insert k v m')) b) = true) /\
  equal (insert p (PMap (remove k m)) a) (insert p (PMap (remove k m')) b) = true.
Proof.
  intros a b p m m' k Wa Wb Ga Gb E. split.
  - intros v. apply same_entry_written_both_sides; assumption.
  - apply same_entry_removed_both_sides; assumption.
Qed.
Print Assumptions C08_same_change_on_both_sides_keeps_equal.

(* an entry added and taken away again: equal to the original, in both orders *)
Theorem C08_add_then_remove_restores : forall a p m k v, wf_ds a -> get p a = Some (PMap m) -> lookup k m = None ->
  let a' := insert p (PMap (remove k (insert k v m))) a in equal a a' = true /\ equal a' a = true.
Proof. exact add_then_remove_restores. Qed.
Print Assumptions C08_add_then_remove_restores.

(* a comparison up to a tolerance cannot be transitive: a computed witness on 3-D points (8e-6 apart twice) *)
Theorem C08_not_transitive :
  exists a b c, equal a b = true /\ equal b c = true /\ equal a c = false /\ equal c a = false.
Proof. exact equal_not_transitive. Qed.
Print Assumptions C08_not_transitive.

(* --- non-vacuity: a concrete well-formed dataset with several parts; equal to a reordered copy, and every kind
       of single change is detected in both orders *)
Definition ex_pose (x : Q) : val := VPose {| p_r := Some (1, 0, 0, 0); p_t := Some (x, 0, 0) |}.
Definition ex_a : dataset :=
  [(Sensors, PMap [([AS "cam0"], VSensor {| s_name := None; s_type := "camera"; s_model := "PINHOLE";
                                            s_cparams := [640; 480; 500; 500; 320; 240]; s_params := [] |});
                   ([AS "gps"], VSensor {| s_name := Some "g"; s_type := "gnss"; s_model := ""; s_cparams := [];
                                           s_params := ["EPSG:4326"] |})]);
   (Trajectories, PMap [([AZ 2; AS "cam0"], ex_pose 1); ([AZ 1; AS "cam0"], ex_pose 0)]);
   (RecordsDepth, PMap [([AZ 1; AS "d"], VLeaf [AS "d/1.depth"])]);
   (Keypoints, PMap [([AS "sift"], VFeat [AS "SIFT"; AS "float32"; AZ 128] [[AS "a.jpg"]; [AS "b.jpg"]])]);
   (Observations, PMap [([AZ 0; AS "sift"], VBag [[AS "a.jpg"; AZ 3]; [AS "b.jpg"; AZ 1]])]);
   (Points3d, PPts 3 [[1; 2; 3]; [4; 5; 6]])].
Definition ex_reordered : dataset :=
  [(Points3d, PPts 3 [[1; 2; 3]; [4; 5; 6]]);
   (Observations, PMap [([AZ 0; AS "sift"], VBag [[AS "b.jpg"; AZ 1]; [AS "a.jpg"; AZ 3]])]);
   (Keypoints, PMap [([AS "sift"], VFeat [AS "SIFT"; AS "float32"; AZ 128] [[AS "b.jpg"]; [AS "a.jpg"]])]);
   (RecordsDepth, PMap [([AZ 1; AS "d"], VLeaf [AS "d/1.depth"])]);
   (Trajectories, PMap [([AZ 1; AS "cam0"], ex_pose (1 # 1000000)); ([AZ 2; AS "cam0"], ex_pose 1)]);
   (Sensors, PMap [([AS "gps"], VSensor {| s_name := Some "g"; s_type := "gnss"; s_model := ""; s_cparams := [];
                                           s_params := ["EPSG:4326"] |});
                   ([AS "cam0"], VSensor {| s_name := Some ""; s_type := "camera"; s_model := "PINHOLE";
                                            s_cparams := [640; 480; 500; 500; 320; 240]; s_params := [] |})])].

Fixpoint nodup_keys (l : list key) : bool :=
  match l with [] => true | x :: l' => negb (memb x l') && nodup_keys l' end.
Lemma nodup_keys_NoDup l : nodup_keys l = true -> NoDup l.
Proof.
  induction l as [|x l IH]; cbn; [constructor|]. rewrite andb_true_iff, negb_true_iff, memb_not_In.
  intros [N R]. constructor; auto.
Qed.
Definition wf_dsb (d : dataset) : bool :=
  forallb (fun e => match snd e with PMap m => nodup_keys (map fst m) | PPts _ _ => true end) d.
Lemma wf_dsb_wf d : wf_dsb d = true -> wf_ds d.
Proof.
  unfold wf_dsb, wf_ds, get. rewrite forallb_forall. intros H p x L.
  assert (I : In (p, x) d).
  { clear H. induction d as [|[q y] d IH]; cbn in L; [discriminate|].
    destruct (eqb p q) eqn:E; [apply eqb_true in E; injection L as <-; subst; left; reflexivity | right; auto]. }
  specialize (H _ I). cbn in H. destruct x; cbn; [apply nodup_keys_NoDup; assumption | exact Logic.I].
Qed.

Example C08_example :
  wf_ds ex_a /\ wf_ds ex_reordered /\
  equal ex_a ex_reordered = true /\ equal ex_reordered ex_a = true /\
  (* a part absent, a depth record altered, an image added to a feature set, an observation duplicated,
     a pose moved by 1e-4, a point coordinate changed: false in both orders *)
  (forall b, In b [remove RecordsDepth ex_a;
                   insert RecordsDepth (PMap [([AZ 1; AS "d"], VLeaf [AS "d/2.depth"])]) ex_a;
                   insert Keypoints (PMap [([AS "sift"], VFeat [AS "SIFT"; AS "float32"; AZ 128]
                                                               [[AS "a.jpg"]; [AS "b.jpg"]; [AS "c.jpg"]])]) ex_a;
                   insert Observations (PMap [([AZ 0; AS "sift"], VBag [[AS "a.jpg"; AZ 3]; [AS "b.jpg"; AZ 1]; [AS "b.jpg"; AZ 1]])]) ex_a;
                   insert Trajectories (PMap [([AZ 2; AS "cam0"], ex_pose 1); ([AZ 1; AS "cam0"], ex_pose (1 # 10000))]) ex_a;
                   insert Points3d (PPts 3 [[1; 2; 3]; [4; 5; 6 + (1 # 1000)]]) ex_a] ->
             equal ex_a b = false /\ equal b ex_a = false).
Proof.
  split; [apply wf_dsb_wf; vm_compute; reflexivity|].
  split; [apply wf_dsb_wf; vm_compute; reflexivity|].
  split; [vm_compute; reflexivity|]. split; [vm_compute; reflexivity|].
  intros b I. cbn [In] in I.
  repeat (destruct I as [<-|I]; [split; vm_compute; reflexivity|]). contradiction.
Qed.

(* --- the behaviour before the repairs is refuted (fixes/C08-*.patch):
       one-sided equal_sets, depth records never compared, np.isclose used in one direction *)
Lemma C08_legacy_refuted :
  (exists a b, equal_legacy a b = true /\ equal_legacy b a = false /\
               get Keypoints a <> get Keypoints b /\ equal a b = false /\ equal b a = false) /\
  (exists a b, equal_legacy a b = true /\ equal_legacy b a = true /\
               get RecordsDepth a <> get RecordsDepth b /\ equal a b = false /\ equal b a = false) /\
  (exists a b, equal_legacy a b = true /\ equal_legacy b a = false /\ equal a b = false /\ equal b a = false).
Proof.
  split; [|split].
  - exists (kp [[AS "a.jpg"]]), (kp [[AS "a.jpg"]; [AS "b.jpg"]]).
    repeat split; try (vm_compute; reflexivity). vm_compute. discriminate.
  - exists depth1, []. repeat split; try (vm_compute; reflexivity). vm_compute. discriminate.
  - exists (pts1 1), (pts1 qband). repeat split; vm_compute; reflexivity.
Qed.

(* non-vacuity of section 7: a dataset with its own classes, one with a lidar object forced into records_camera *)
Definition ex_tag (d : dataset) : tdataset := map (fun e => (fst e, (fst e, snd e))) d.
Definition ex_forced : tdataset := (RecordsCamera, (RecordsLidar, PMap [])) :: ex_tag ex_a.
Example C08_example_error_branch :
  own_class (ex_tag ex_a) /\ untag (ex_tag ex_a) = ex_a /\
  equal_outcome (ex_tag ex_a) (ex_tag ex_reordered) = Ans true /\
  equal_outcome ex_forced (ex_tag ex_a) = TypeErr /\ equal_outcome (ex_tag ex_a) ex_forced = TypeErr /\
  (* a False found earlier in the walk hides the error *)
  equal_outcome ex_forced (ex_tag (remove Sensors ex_a)) = Ans false /\
  helper_call RecordsCamera (Some (RecordsLidar, PMap [])) None = TypeErr /\
  helper_call RecordsCamera (Some (RecordsCamera, PMap [])) None = Ans false.
Proof.
  split.
  - intros p c x. destruct p; vm_compute; intros E; try discriminate; injection E as <- _; reflexivity.
  - repeat split; vm_compute; reflexivity.
Qed.
