(* Props/C09.v — property C09: merging with kept identifiers is a first-wins union that loses nothing.
   Only statements, each closed by a lemma of Proofs/PMergeKeep.v.  Every theorem is about
       merge_keep skip st has_out ins        (Model/MMergeKeep.v, the model of merge_keep_ids)
   for an ARBITRARY list of inputs [ins], arbitrary skip list, strategy and pattern of missing parts; values
   are opaque tokens, so "the entry kept" is literally the entry of that input.
   [first_some (map (fun i => lookup k (part i)) ins)] reads: the entry of the earliest input that defines k. *)
From Coq Require Import List Bool String ZArith.
From KV Require Import Eqb AL Str.
From KV.Gen Require Import Tables.
From KV.Model Require Import MMergeKeep MMergeKeepPts.
From KV.Proofs Require Import PMergeKeep PMergeKeepPts.
Import ListNotations.
Local Open Scope string_scope.
Local Open Scope list_scope.

Notation merged skip st ho ins d f := (merge_keep skip st ho ins = Ok (d, f)).

(* ------------------------------------------------------------------ 0. the model covers every part of a dataset
   Tables.parts / Tables.csv_files are read from the tree under test on every run (Kapture.__init__ parameters,
   CSV_FILENAMES with "is a RecordsFilePath"): a new dataset part, or a new kind of record stored in files, that the
   model (hence the merge it mirrors) does not know makes these two statements fail to compile. *)
Definition part_name (p : part) : string :=
  match p with
  | PSensors => "sensors" | PRigs => "rigs" | PTraj => "trajectories" | PRCam => "records_camera"
  | PRDepth => "records_depth" | PRLidar => "records_lidar" | PWifi => "records_wifi" | PBt => "records_bluetooth"
  | PGnss => "records_gnss" | PAccel => "records_accelerometer" | PGyro => "records_gyroscope" | PMag => "records_magnetic"
  | PKp => "keypoints" | PDesc => "descriptors" | PGf => "global_features" | PMatches => "matches"
  | PObs => "observations" | PPoints => "points3d"
  end.
Definition modelled_parts : list part :=
  [PSensors; PRigs] ++ map part_of_t [TTraj] ++ map part_of_r [RCam; RDepth; RLidar] ++ map part_of_n [NWifi; NBt]
  ++ map part_of_t [TGnss; TAccel; TGyro; TMag] ++ map part_of_i [IKp; IDesc; IGf] ++ [PMatches]
  ++ [PObs; PPoints] (* the last two: Model/MMergeKeepPts.v, section 9 below *).
Definition rec_class (r : rpart) : string :=
  match r with RCam => "RecordsCamera" | RDepth => "RecordsDepth" | RLidar => "RecordsLidar" end.

Theorem C09_every_part_is_modelled : map part_name modelled_parts = Tables.parts.
Proof. vm_compute. reflexivity. Qed.
Print Assumptions C09_every_part_is_modelled.

Theorem C09_every_file_record_kind_is_transferred :
  map (fun e => fst (fst e)) (List.filter (fun e => snd e) Tables.csv_files) = map rec_class [RCam; RDepth; RLidar].
Proof. vm_compute. reflexivity. Qed.
Print Assumptions C09_every_file_record_kind_is_transferred.

(* ------------------------------------------------------------------ 1. first wins, per key arity *)
(* one key: sensors (never skipped) *)
Theorem C09_sensors_first_wins : forall skip st ho ins d f, merged skip st ho ins d f ->
  forall k, lookup_o k (k_sensors d) = first_some (map (fun i => lookup_o k (k_sensors (fst i))) ins).
Proof. exact sensors_first_wins. Qed.
Print Assumptions C09_sensors_first_wins.

(* two keys (rig, member): rigs (never skipped) — the clause the unrepaired code violated *)
Theorem C09_rigs_first_wins : forall skip st ho ins d f, merged skip st ho ins d f ->
  forall k, lookup_o k (k_rigs d) = first_some (map (fun i => lookup_o k (k_rigs (fst i))) ins).
Proof. exact rigs_first_wins. Qed.
Print Assumptions C09_rigs_first_wins.

(* nested rigs: a member may itself be a rig id (car -> stereo, stereo -> cam0).  The rigs table is keyed by the PAIR
   (rig, member): whether the merge holds (r, m) depends on the inputs' entries for that very pair only, NOT on m being
   mounted on r through a sub-rig in some input — a direct entry (car, cam0) is never dropped because cam0 is already
   reachable through car -> stereo -> cam0, in another input or in the same one, whatever the insertion order. *)
Theorem C09_rig_entry_depends_on_its_pair_only : forall skip st ho ins d f, merged skip st ho ins d f ->
  forall r m, lookup_o (r, m) (k_rigs d) = None <-> forall i, In i ins -> lookup_o (r, m) (k_rigs (fst i)) = None.
Proof. exact rigs_entry_absent_iff. Qed.
Print Assumptions C09_rig_entry_depends_on_its_pair_only.

(* two keys (timestamp, device): trajectories, gnss, accelerometer, gyroscope, magnetic *)
Theorem C09_tables_first_wins : forall skip st ho ins d f, merged skip st ho ins d f ->
  forall p k, skipped skip (part_of_t p) = false ->
  lookup_o k (k_tab d p) = first_some (map (fun i => lookup_o k (k_tab (fst i) p)) ins).
Proof. exact tab_first_wins. Qed.
Print Assumptions C09_tables_first_wins.

(* two keys (timestamp, device): camera, depth and lidar records (value = file name) *)
Theorem C09_records_first_wins : forall skip st ho ins d f, merged skip st ho ins d f ->
  forall p k, skipped skip (part_of_r p) = false ->
  lookup_o k (k_rec d p) = first_some (map (fun i => lookup_o k (k_rec (fst i) p)) ins).
Proof. exact rec_first_wins. Qed.
Print Assumptions C09_records_first_wins.

(* three keys (timestamp, device, signal id): wifi and bluetooth.  [in_sig_ok]: the inputs are dicts
   (no timestamp/device pair listed twice in one input) *)
Theorem C09_signals_first_wins : forall skip st ho ins d f, merged skip st ho ins d f -> in_sig_ok ins ->
  forall p td sg, skipped skip (part_of_n p) = false ->
  lookup3_o td sg (k_sig d p) = first_some (map (fun i => lookup3_o td sg (k_sig (fst i) p)) ins).
Proof. intros. apply (sig_first_wins skip st ho ins d f); assumption. Qed.
Print Assumptions C09_signals_first_wins.

(* image key, per feature type: the merged set of a type is the union of the inputs' sets of that type *)
Theorem C09_feature_sets_union : forall skip st ho ins d f, merged skip st ho ins d f ->
  forall p ty img, skipped skip (part_of_i p) = false ->
  ((exists m imgs, lookup_gc ty (k_feat d p) = Some (m, imgs) /\ In img imgs) <->
   (exists i m imgs, In i ins /\ lookup_gc ty (k_feat (fst i) p) = Some (m, imgs) /\ In img imgs)).
Proof. exact feat_members. Qed.
Print Assumptions C09_feature_sets_union.

(* ... its metadata are those of the earliest input holding the type, every holder has the same metadata
   (otherwise the merge fails, see C09_merge_succeeds), no image is listed twice *)
Theorem C09_feature_metadata_first : forall skip st ho ins d f, merged skip st ho ins d f ->
  forall p ty m imgs, skipped skip (part_of_i p) = false -> lookup_gc ty (k_feat d p) = Some (m, imgs) ->
  first_some (map (fun i => option_map fst (lookup_gc ty (k_feat (fst i) p))) ins) = Some m /\ NoDup imgs /\
  forall i v, In i ins -> lookup_gc ty (k_feat (fst i) p) = Some v -> fst v = m.
Proof. exact feat_meta. Qed.
Print Assumptions C09_feature_metadata_first.

(* ... and the feature types of the merge are exactly the types of the inputs *)
Theorem C09_feature_types_union : forall skip st ho ins d f, merged skip st ho ins d f ->
  forall p ty, skipped skip (part_of_i p) = false ->
  (lookup_gc ty (k_feat d p) = None <-> forall i, In i ins -> lookup_gc ty (k_feat (fst i) p) = None).
Proof. exact feat_type_absent. Qed.
Print Assumptions C09_feature_types_union.

(* image-pair key, per keypoints type: matches (pairs are ordered as stored: (a,b) and (b,a) are two keys) *)
Theorem C09_matches_union : forall skip st ho ins d f, merged skip st ho ins d f ->
  forall ty pr, skipped skip PMatches = false ->
  ((exists prs, lookup_o ty (k_matches d) = Some prs /\ In pr prs) <->
   (exists i prs, In i ins /\ lookup_o ty (k_matches (fst i)) = Some prs /\ In pr prs)).
Proof. exact matches_members. Qed.
Print Assumptions C09_matches_union.

Theorem C09_matches_types_union : forall skip st ho ins d f, merged skip st ho ins d f ->
  forall ty, skipped skip PMatches = false ->
  (lookup_o ty (k_matches d) = None <-> forall i, In i ins -> lookup_o ty (k_matches (fst i)) = None).
Proof. exact matches_type_absent. Qed.
Print Assumptions C09_matches_types_union.

(* ------------------------------------------------------------------ 2. key set = union; each key once *)
Theorem C09_key_sets_are_unions : forall skip st ho ins d f, merged skip st ho ins d f ->
  (forall k, In k (keys_o (k_sensors d)) <-> exists i, In i ins /\ In k (keys_o (k_sensors (fst i)))) /\
  (forall k, In k (keys_o (k_rigs d)) <-> exists i, In i ins /\ In k (keys_o (k_rigs (fst i)))) /\
  (forall p k, skipped skip (part_of_t p) = false ->
     (In k (keys_o (k_tab d p)) <-> exists i, In i ins /\ In k (keys_o (k_tab (fst i) p)))) /\
  (forall p k, skipped skip (part_of_r p) = false ->
     (In k (keys_o (k_rec d p)) <-> exists i, In i ins /\ In k (keys_o (k_rec (fst i) p)))).
Proof.
  intros skip st ho ins d f M. repeat split.
  - apply (first_wins_keys ins (fun i => k_sensors (fst i))). exact (sensors_first_wins _ _ _ _ _ _ M).
  - apply (first_wins_keys ins (fun i => k_sensors (fst i))). exact (sensors_first_wins _ _ _ _ _ _ M).
  - apply (first_wins_keys ins (fun i => k_rigs (fst i))). exact (rigs_first_wins _ _ _ _ _ _ M).
  - apply (first_wins_keys ins (fun i => k_rigs (fst i))). exact (rigs_first_wins _ _ _ _ _ _ M).
  - apply (first_wins_keys ins (fun i => k_tab (fst i) p)). intros k'. apply (tab_first_wins _ _ _ _ _ _ M). assumption.
  - apply (first_wins_keys ins (fun i => k_tab (fst i) p)). intros k'. apply (tab_first_wins _ _ _ _ _ _ M). assumption.
  - apply (first_wins_keys ins (fun i => k_rec (fst i) p)). intros k'. apply (rec_first_wins _ _ _ _ _ _ M). assumption.
  - apply (first_wins_keys ins (fun i => k_rec (fst i) p)). intros k'. apply (rec_first_wins _ _ _ _ _ _ M). assumption.
Qed.
Print Assumptions C09_key_sets_are_unions.

Theorem C09_each_key_once : forall skip st ho ins d f, merged skip st ho ins d f ->
  NoDup (keys_o (k_sensors d)) /\ NoDup (keys_o (k_rigs d)) /\
  (forall p, NoDup (keys_o (k_tab d p))) /\ (forall p, NoDup (keys_o (k_rec d p))).
Proof. exact merged_tables_wf. Qed.
Print Assumptions C09_each_key_once.

(* ------------------------------------------------------------------ 3. skipped parts are absent *)
Theorem C09_skipped_absent : forall skip st ho ins d f, merged skip st ho ins d f ->
  (forall p, skipped skip (part_of_t p) = true -> k_tab d p = None) /\
  (forall p, skipped skip (part_of_r p) = true -> k_rec d p = None) /\
  (forall p, skipped skip (part_of_n p) = true -> k_sig d p = None) /\
  (forall p, skipped skip (part_of_i p) = true -> k_feat d p = None /\ o_feat f p = []) /\
  (skipped skip PMatches = true -> k_matches d = None /\ o_match f = []).
Proof.
  intros skip st ho ins d f M. repeat split.
  - exact (tab_skipped _ _ _ _ _ _ M).
  - exact (rec_skipped _ _ _ _ _ _ M).
  - exact (sig_skipped _ _ _ _ _ _ M).
  - apply (feat_skipped _ _ _ _ _ _ M p); assumption.
  - apply (feat_skipped _ _ _ _ _ _ M p); assumption.
  - apply (matches_skipped _ _ _ _ _ _ M); assumption.
  - apply (matches_skipped _ _ _ _ _ _ M); assumption.
Qed.
Print Assumptions C09_skipped_absent.

(* ------------------------------------------------------------------ 4. absent everywhere <-> absent in the merge
   (a part that is present but empty counts as absent: get_new_if_not_empty) *)
Theorem C09_absent_iff_absent_everywhere : forall skip st ho ins d f, merged skip st ho ins d f ->
  (k_sensors d = None <-> forall i k, In i ins -> lookup_o k (k_sensors (fst i)) = None) /\
  (k_rigs d = None <-> forall i k, In i ins -> lookup_o k (k_rigs (fst i)) = None) /\
  (forall p, skipped skip (part_of_t p) = false ->
     (k_tab d p = None <-> forall i k, In i ins -> lookup_o k (k_tab (fst i) p) = None)) /\
  (forall p, skipped skip (part_of_r p) = false ->
     (k_rec d p = None <-> forall i k, In i ins -> lookup_o k (k_rec (fst i) p) = None)) /\
  (in_sig_ok ins -> forall p, skipped skip (part_of_n p) = false ->
     (k_sig d p = None <-> forall i td sg, In i ins -> lookup3_o td sg (k_sig (fst i) p) = None)) /\
  (forall p, skipped skip (part_of_i p) = false ->
     (k_feat d p = None <-> forall ty i, In i ins -> lookup_gc ty (k_feat (fst i) p) = None)) /\
  (skipped skip PMatches = false ->
     (k_matches d = None <-> forall ty i, In i ins -> lookup_o ty (k_matches (fst i)) = None)).
Proof.
  intros skip st ho ins d f M.
  split; [exact (sensors_none _ _ _ _ _ _ M)|]. split; [exact (rigs_none _ _ _ _ _ _ M)|].
  split; [exact (tab_none _ _ _ _ _ _ M)|]. split; [exact (rec_none _ _ _ _ _ _ M)|].
  split; [intros W p; exact (sig_none _ _ _ _ _ _ M p W)|].
  split; [exact (feat_none _ _ _ _ _ _ M) | exact (matches_none _ _ _ _ _ _ M)].
Qed.
Print Assumptions C09_absent_iff_absent_everywhere.

(* ------------------------------------------------------------------ 5. files: first lister wins, same bytes *)
(* [lister_content n (listers r ins)] = what the records_data folder of the earliest input whose records of kind r
   list the name n holds under n.  The output holds, under every listed name, exactly that content (the kinds are
   served in the order camera, depth, lidar into one folder; a later kind overwrites a name of an earlier one). *)
Theorem C09_record_files_exact : forall skip st ho ins d f, merged skip st ho ins d f ->
  forall n, transfers st = true ->
  lookup n (o_rec f) =
  pick (kind_content skip ins RLidar n) (pick (kind_content skip ins RDepth n) (pick (kind_content skip ins RCam n) None)).
Proof. exact rec_files_exact. Qed.
Print Assumptions C09_record_files_exact.

(* every record of the merge has its file, with the bytes of the earliest input listing that name
   (a name is listed by one record kind only); with copy / move the file really exists *)
Theorem C09_merged_record_has_file : forall skip st ho ins d f, merged skip st ho ins d f ->
  forall r k name, transfers st = true -> skipped skip (part_of_r r) = false ->
  lookup_o k (k_rec d r) = Some name ->
  (forall r', r' <> r -> kind_content skip ins r' name = None) ->
  exists c, lister_content name (listers r ins) = Some c /\ lookup name (o_rec f) = Some c /\
            ((st = SCopy \/ st = SMove) -> c <> None).
Proof. exact merged_record_has_file. Qed.
Print Assumptions C09_merged_record_has_file.

(* nothing else is written into records_data; nothing at all with the strategy skip *)
Theorem C09_no_foreign_record_file : forall skip st ho ins d f, merged skip st ho ins d f ->
  forall n c, lookup n (o_rec f) = Some c ->
  exists r, skipped skip (part_of_r r) = false /\ lister_content n (listers r ins) = Some c.
Proof. exact no_foreign_record_file. Qed.
Print Assumptions C09_no_foreign_record_file.

Theorem C09_no_transfer_no_record_file : forall skip st ho ins d f, merged skip st ho ins d f ->
  transfers st = false -> o_rec f = [].
Proof. exact rec_files_none. Qed.
Print Assumptions C09_no_transfer_no_record_file.

(* feature files: for every (type, image) the output file is the file of the earliest input whose set of that type
   contains the image (folder or tar: a store is a map name -> bytes), it exists, and nothing else is written *)
Theorem C09_feature_files : forall skip st ho ins d f, merged skip st ho ins d f ->
  forall p ty img, skipped skip (part_of_i p) = false -> ho = true ->
  feat_owner ins p ty img <> Some None /\
  lookup (ty, img) (o_feat f p) = match feat_owner ins p ty img with Some c => c | None => None end.
Proof. exact feat_files. Qed.
Print Assumptions C09_feature_files.

Theorem C09_matches_files : forall skip st ho ins d f, merged skip st ho ins d f ->
  forall ty pr, skipped skip PMatches = false -> ho = true ->
  match_owner ins ty pr <> Some None /\
  lookup (ty, pr) (o_match f) = match match_owner ins ty pr with Some c => c | None => None end.
Proof. exact matches_files. Qed.
Print Assumptions C09_matches_files.

Theorem C09_no_output_no_feature_file : forall skip st ho ins d f, merged skip st ho ins d f ->
  ho = false -> (forall p, o_feat f p = []) /\ o_match f = [].
Proof.
  intros skip st ho ins d f M H. split; [intros p; exact (feat_files_nocopy _ _ _ _ _ _ M p H) | exact (matches_files_nocopy _ _ _ _ _ _ M H)].
Qed.
Print Assumptions C09_no_output_no_feature_file.

(* ------------------------------------------------------------------ 6. the merge loses nothing by failing *)
Theorem C09_merge_succeeds : forall skip st ho ins,
  ins <> [] ->
  (st = SSkip \/ ((st = SCopy \/ st = SMove) /\ forall r n, kind_content skip ins r n <> Some None)) ->
  (forall p ty, skipped skip (part_of_i p) = false -> meta_agree ty (fcs ins p)) ->
  (ho = true -> forall p ty n, skipped skip (part_of_i p) = false -> cs_owner ty n (fcs ins p) <> Some None) ->
  (ho = true -> skipped skip PMatches = false -> forall ty pr, match_owner ins ty pr <> Some None) ->
  exists r, merge_keep skip st ho ins = Ok r.
Proof. exact merge_keep_ok. Qed.
Print Assumptions C09_merge_succeeds.

(* ------------------------------------------------------------------ non-vacuity: a concrete merge where each clause bites *)
Definition ex_data (sens : option (al string string)) (rigs : option (al (string * string) string))
           (traj : option (al (Z * string) string)) (cam lid : option (al (Z * string) string))
           (wifi : option (al (Z * string) (al string string))) (kp : option fcoll) (m : option mcoll) : kdata :=
  {| k_sensors := sens; k_rigs := rigs;
     k_tab := fun p => match p with TTraj => traj | _ => None end;
     k_rec := fun p => match p with RCam => cam | RLidar => lid | RDepth => None end;
     k_sig := fun p => match p with NWifi => wifi | NBt => None end;
     k_feat := fun p => match p with IKp => kp | _ => None end;
     k_matches := m |}.
Definition ex_store (rec : al string string) (kp : al (string * string) string)
           (m : al (string * (string * string)) string) : store :=
  {| s_rec := rec; s_feat := fun p => match p with IKp => kp | _ => [] end; s_match := m |}.

Definition exA : input :=
  (ex_data (Some [("cam0", "camA")]) (Some [(("rig", "cam0"), "poseA")]) None
           (Some [((0%Z, "cam0"), "a.jpg"); ((1%Z, "cam0"), "s.jpg")]) (Some [((0%Z, "lid0"), "a.pcd")])
           (Some [((0%Z, "w"), [("aa", "sigA")])]) (Some [("sift", ("meta", ["a.jpg"]))]) None,
   ex_store [("a.jpg", "bytesA-a"); ("s.jpg", "bytesA-s"); ("a.pcd", "bytesA-pcd")] [(("sift", "a.jpg"), "kptA")] []).
Definition exB : input :=
  (ex_data (Some [("cam0", "camB"); ("cam1", "camB1")]) (Some [(("rig", "cam0"), "poseB"); (("rig", "cam1"), "poseB1")])
           (Some [((0%Z, "cam0"), "trajB")])
           (Some [((1%Z, "cam0"), "other.jpg"); ((2%Z, "cam0"), "s.jpg")]) None
           (Some [((0%Z, "w"), [("aa", "sigB"); ("bb", "sigB2")])])
           (Some [("sift", ("meta", ["a.jpg"; "s.jpg"]))]) (Some [("sift", [("a.jpg", "s.jpg")])]),
   ex_store [("other.jpg", "bytesB-o"); ("s.jpg", "bytesB-s")] [(("sift", "a.jpg"), "kptB-a"); (("sift", "s.jpg"), "kptB-s")]
            [(("sift", ("a.jpg", "s.jpg")), "matchB")]).

Example C09_example :
  exists d f, merge_keep [PRDepth; PGnss] SCopy true [exA; exB] = Ok (d, f) /\
    k_sensors d = Some [("cam0", "camA"); ("cam1", "camB1")] /\
    k_rigs d = Some [(("rig", "cam0"), "poseA"); (("rig", "cam1"), "poseB1")] /\
    k_tab d TTraj = Some [((0%Z, "cam0"), "trajB")] /\                    (* absent from the first input *)
    k_rec d RCam = Some [((0%Z, "cam0"), "a.jpg"); ((1%Z, "cam0"), "s.jpg"); ((2%Z, "cam0"), "s.jpg")] /\
    k_sig d NWifi = Some [((0%Z, "w"), [("aa", "sigA"); ("bb", "sigB2")])] /\
    k_feat d IKp = Some [("sift", ("meta", ["a.jpg"; "s.jpg"]))] /\
    k_matches d = Some [("sift", [("a.jpg", "s.jpg")])] /\
    k_tab d TGnss = None /\ k_rec d RDepth = None /\
    lookup "s.jpg" (o_rec f) = Some (Some "bytesA-s") /\ lookup "a.pcd" (o_rec f) = Some (Some "bytesA-pcd") /\
    lookup ("sift", "a.jpg") (o_feat f IKp) = Some "kptA" /\ lookup ("sift", "s.jpg") (o_feat f IKp) = Some "kptB-s".
Proof. eexists. eexists. split; [vm_compute; reflexivity|]. vm_compute. repeat split. Qed.

(* nested rigs: the sub-rig route (car -> stereo -> cam0) of the first input does not hide the direct entry of the second,
   nor does a sub-rig listed before its parent inside one input *)
Example C09_example_nested_rigs :
  let none_data rigs := ex_data None rigs None None None None None None in
  let A := (none_data (Some [(("stereo", "cam0"), "s-c0"); (("car", "stereo"), "c-s")]), ex_store [] [] []) in
  let B := (none_data (Some [(("car", "cam0"), "c-c0"); (("stereo", "cam0"), "other")]), ex_store [] [] []) in
  let C := (none_data (Some [(("stereo", "cam0"), "s-c0"); (("car", "stereo"), "c-s"); (("car", "cam0"), "c-c0")]), ex_store [] [] []) in
  (exists d f, merge_keep [] SSkip true [A; B] = Ok (d, f) /\
     k_rigs d = Some [(("stereo", "cam0"), "s-c0"); (("car", "stereo"), "c-s"); (("car", "cam0"), "c-c0")]) /\
  (exists d f, merge_keep [] SSkip true [C] = Ok (d, f) /\ k_rigs d = k_rigs (fst C)).
Proof. split; eexists; eexists; (split; [vm_compute; reflexivity|]); vm_compute; reflexivity. Qed.

(* the outcomes that are not successes are reachable too *)
Example C09_failures_reachable :
  merge_keep [] SSkip true [] = Err EAssert /\
  merge_keep [] SRootLink true [exA] = Err ERootLink /\
  merge_keep [] SCopy true [(fst exA, ex_store [] [] [])] = Err EMissing /\
  merge_keep [] SSkip false
    [exA; (ex_data None None None None None None (Some [("sift", ("other-meta", ["b.jpg"]))]) None, ex_store [] [] [])]
  = Err EAssert.
Proof. vm_compute. repeat split. Qed.

(* ------------------------------------------------------------------ the behaviour before the repairs is refuted *)
(* (1) merge_rigs was last-wins: Rigs had no membership test for (rig, sensor) pairs *)
Lemma C09_rigs_legacy_refuted :
  exists skip st ho ins d f k,
    merge_keep_legacy skip st ho ins = Ok (d, f) /\
    lookup_o k (k_rigs d) <> first_some (map (fun i => lookup_o k (k_rigs (fst i))) ins).
Proof.
  exists [], SSkip, false, [exA; exB]. eexists. eexists. exists ("rig", "cam0").
  split; [vm_compute; reflexivity|]. vm_compute. discriminate.
Qed.

(* (2) lidar record files were never transferred *)
Lemma C09_lidar_files_legacy_refuted :
  exists skip st ho ins d f k name,
    merge_keep_legacy skip st ho ins = Ok (d, f) /\ transfers st = true /\ skipped skip (part_of_r RLidar) = false /\
    lookup_o k (k_rec d RLidar) = Some name /\ lookup name (o_rec f) = None.
Proof.
  exists [], SCopy, true, [exA; exB]. eexists. eexists. exists (0%Z, "lid0"), "a.pcd".
  split; [vm_compute; reflexivity|]. vm_compute. repeat split.
Qed.

(* (3) _merge_image_features merged into the first holder's own set: after the call the first input's
   keypoints contained the union *)
Lemma C09_features_alias_legacy_refuted :
  exists skip st ho ins d f,
    merge_keep skip st ho ins = Ok (d, f) /\
    inputs_after_legacy (k_feat d IKp) (map (fun i => k_feat (fst i) IKp) ins) <> map (fun i => k_feat (fst i) IKp) ins.
Proof.
  exists [], SSkip, false, [exA; exB]. eexists. eexists. split; [vm_compute; reflexivity|]. vm_compute. discriminate.
Qed.

(* ------------------------------------------------------------------ 9. 3-D points and observations (the last block of
   merge_keep_ids; Model/MMergeKeepPts.v).  [merge_keep_x] is the whole function: [merge_keep], then [pdriver]. *)
Local Open Scope Z_scope.

(* every theorem above applies unchanged to the whole function, and its last block equals a closed form *)
Theorem C09_whole_merge_refines : forall skip st ho ins pins d f pc po,
  merge_keep_x skip st ho ins pins = XOk d f pc po ->
  merge_keep skip st ho ins = Ok (d, f)
  /\ spec_driver (skipped skip PPoints) (skipped skip PObs) pins = POk (pc, po).
Proof. exact x_refines. Qed.
Print Assumptions C09_whole_merge_refines.

(* the closed form, for every list of inputs: points3d in the skip list -> no points and no observations; otherwise the
   merged points are ALL the rows of the inputs in input order (absent when there is none), with the column count of the
   inputs' non-empty clouds, which must agree (ValueError otherwise); empty clouds, of whatever column count and at
   whatever position, take no part in that test.  Observations (unless skipped): those of the inputs that have points,
   point numbers shifted by the number of points of the earlier inputs; absent when there is none. *)
Theorem C09_points_and_observations_closed_form : forall sp so ins,
  pdriver sp so ins =
  if sp then POk (None, None) else
  match (match nonempty_clouds ins with
         | [] => POk None
         | c0 :: cs => if forallb (fun c => width c =? width c0) cs
                       then POk (Some (mkCloud (width c0) (all_rows ins))) else PErrShape
         end) with
  | POk pc => POk (pc, if so then None else some_if_obs (spec_obs 0 ins))
  | PErrShape => PErrShape
  end.
Proof. exact pdriver_spec. Qed.
Print Assumptions C09_points_and_observations_closed_form.

(* a points3d part that is present but empty contributes nothing and imposes nothing, wherever it stands *)
Theorem C09_empty_points_contribute_nothing : forall sp so w l1 l2,
  pdriver sp so (l1 ++ empty_input w :: l2) = pdriver sp so (l1 ++ l2).
Proof. exact empty_contributes_nothing. Qed.
Print Assumptions C09_empty_points_contribute_nothing.

(* the points merge succeeds exactly when the non-empty clouds agree on their number of columns *)
Theorem C09_points_merge_succeeds_iff : forall so ins,
  (exists r, pdriver false so ins = POk r) <-> exists w, forall c, In c (nonempty_clouds ins) -> width c = w.
Proof. exact ok_iff. Qed.
Print Assumptions C09_points_merge_succeeds_iff.

(* the only new failure of the whole function: the rest succeeded, points3d is not skipped, column counts disagree *)
Theorem C09_shape_error_iff : forall skip st ho ins pins,
  merge_keep_x skip st ho ins pins = XErr XShape <->
  (exists d f, merge_keep skip st ho ins = Ok (d, f)) /\ skipped skip PPoints = false
  /\ ~ exists w, forall c, In c (nonempty_clouds pins) -> width c = w.
Proof. exact x_shape_iff. Qed.
Print Assumptions C09_shape_error_iff.

Example C09_example_points :
  let A := (Some (mkCloud 3 ["a0"; "a1"]), Some [(1, "sift", "a.jpg", 7)]) : pinput in
  let E := empty_input 6 in
  let N := (None, Some [(0, "sift", "n.jpg", 1)]) : pinput in
  let B := (Some (mkCloud 3 ["b0"]), Some [(0, "sift", "b.jpg", 2); (0, "sift", "b.jpg", 2)]) : pinput in
  pdriver false false [A; E; N; B]
  = POk (Some (mkCloud 3 ["a0"; "a1"; "b0"]), Some [(1, "sift", "a.jpg", 7); (2, "sift", "b.jpg", 2); (2, "sift", "b.jpg", 2)])
  /\ pdriver false true [A; E; N; B] = POk (Some (mkCloud 3 ["a0"; "a1"; "b0"]), None)
  /\ pdriver true false [A; E; N; B] = POk (None, None)
  /\ pdriver false false [E; empty_input 3] = POk (None, None)
  /\ pdriver false false [A; (Some (mkCloud 6 ["c0"]), None)] = PErrShape.
Proof. vm_compute. repeat split. Qed.

(* without the shortcut for an empty cloud in _append_points3d the property fails *)
Lemma C09_append_without_empty_shortcut_refuted :
  pdriver_strict false false [(Some (mkCloud 3 ["a"%string]), None); empty_input 6] = PErrShape
  /\ pdriver false false [(Some (mkCloud 3 ["a"%string]), None); empty_input 6] = POk (Some (mkCloud 3 ["a"%string]), None).
Proof. exact strict_refuted. Qed.
