(* Props/C10.v — property C10: merging with renamed identifiers is a disjoint union, consistently renamed.
   Only statements; each is closed by a lemma of Proofs/PMergeRemap.v about the model
   Model/MMergeRemap.v (kapture.algo.merge_remap as repaired).

   Vocabulary: [ids_of ds] is the list, one per input, of (rig mapping, sensor mapping) computed by
   _compute_new_ids; [ren_tabs rn tabs maps] is the specification "concatenate, over the inputs in order,
   the entries of the input's table with its key renamed by [rn] under the mapping at THE SAME position"
   (None when some identifier has no new name: KeyError); missing tables (None) contribute nothing but
   keep their position.  [wf_inputs]: the tables are Python dicts (unique keys). *)
From Coq Require Import List Bool String ZArith NArith Lia.
From KV Require Import Eqb AL Str.
From KV.Model Require Import MMergeRemap.
From KV.Proofs Require Import PMergeRemap.
Import ListNotations.
Local Open Scope string_scope.
Local Open Scope list_scope.

(* --- 1. fresh identifiers: each renaming is injective; the ranges of different inputs are disjoint;
        sensor identifiers and rig identifiers never coincide (within an input or across inputs) *)
Theorem C10_fresh_injective : forall ds, wf_sensors ds ->
  (forall i m, nth_error (ids_of ds) i = Some m ->
     inj (fst m) /\ inj (snd m) /\ (forall x, in_range x (fst m) -> ~ in_range x (snd m))) /\
  (forall i j mi mj, i <> j -> nth_error (ids_of ds) i = Some mi -> nth_error (ids_of ds) j = Some mj ->
     forall x, in_rng x mi -> ~ in_rng x mj).
Proof.
  intros ds W. pose proof (good_new_ids ds 0 0 W) as G. split.
  - intros i m E. exact (good_nth_pair _ i m G E).
  - intros i j mi mj N Ei Ej. destruct (Nat.lt_total i j) as [L|[L|L]]; [|contradiction|].
    + exact (good_nth _ i j mi mj G L Ei Ej).
    + apply disjoint_rng_sym. exact (good_nth _ j i mj mi G L Ej Ei).
Qed.
Print Assumptions C10_fresh_injective.

(* the numbering itself: input i maps its p-th sensor (dict order) to sensor<N>, N = number of sensors of the
   inputs before i, plus p; likewise rig<N>; inputs without sensors / rigs get the empty mapping and do not
   advance the counter; every sensor and rig of the input has a new identifier *)
Theorem C10_identifiers : forall ds i d p k,
  NoDup (skeys d) -> nth_error ds i = Some d ->
  exists rm sm, nth_error (ids_of ds) i = Some (rm, sm) /\ keys sm = skeys d /\ keys rm = rkeys d /\
    (nth_error (skeys d) p = Some k -> lookup k sm = Some (fresh "sensor" (soffset ds i + N.of_nat p))) /\
    (nth_error (rkeys d) p = Some k -> lookup k rm = Some (fresh "rig" (roffset ds i + N.of_nat p))).
Proof.
  intros ds i d p k ND E. eexists _, _. split; [apply (ids_of_nth ds i d E)|].
  rewrite !mk_mapping_keys. repeat split.
  - intros Ek. apply mk_mapping_lookup_nth; assumption.
  - intros Ek. apply mk_mapping_lookup_nth; [apply rkeys_NoDup|assumption].
Qed.
Print Assumptions C10_identifiers.

(* --- 2. exactness, part by part: the merged table IS the disjoint union of the renamed input tables
        (list equality: nothing lost, nothing duplicated, nothing overwritten), each input with its own mapping,
        for any number of inputs and any pattern of missing parts; timestamps, addresses and values untouched *)
Theorem C10_sensors_exact : forall ds out, wf_inputs ds ->
  merge_sensors ds = Ok out -> ren_tabs rn1 (map d_sensors ds) (ids_of ds) = Some out.
Proof. exact merge_sensors_exact. Qed.
Print Assumptions C10_sensors_exact.

Theorem C10_sensors_never_fail : forall ds, exists out, merge_sensors ds = Ok out.
Proof. exact merge_sensors_total. Qed.
Print Assumptions C10_sensors_never_fail.

Theorem C10_rigs_exact : forall ds out, wf_inputs ds ->
  merge_rigs ds = Ok out -> ren_tabs rn_rig (map d_rigs ds) (ids_of ds) = Some out.
Proof. exact merge_rigs_exact. Qed.
Print Assumptions C10_rigs_exact.

Theorem C10_trajectories_exact : forall ds out, wf_inputs ds ->
  merge_traj ds = Ok out -> ren_tabs rn_traj (map d_traj ds) (ids_of ds) = Some out.
Proof. exact merge_traj_exact. Qed.
Print Assumptions C10_trajectories_exact.

Theorem C10_records_exact : forall k ds out, wf_inputs ds ->
  merge_rec2 k ds = Ok out -> ren_tabs rn2 (map (fun d => d_rec2 d k) ds) (ids_of ds) = Some out.
Proof. exact merge_rec2_exact. Qed.
Print Assumptions C10_records_exact.

Theorem C10_signal_records_exact : forall k ds out, wf_inputs ds ->
  merge_rec3 k ds = Ok out -> ren_tabs rn3 (map (fun d => d_rec3 d k) ds) (ids_of ds) = Some out.
Proof. exact merge_rec3_exact. Qed.
Print Assumptions C10_signal_records_exact.

(* what the specification means, entry by entry (records of kind k; the other parts are alike): an entry is in
   the output iff it is an entry of some input i whose sensor identifier is replaced by input i's OWN new
   identifier — never another input's — with the same timestamp and value; and counts add up *)
Theorem C10_records_entrywise : forall k ds out, wf_inputs ds -> merge_rec2 k ds = Ok out ->
  (forall ts s' v, In ((ts, s'), v) out <->
     exists i d t s rm sm, nth_error ds i = Some d /\ d_rec2 d k = Some t /\ In ((ts, s), v) t /\
                           nth_error (ids_of ds) i = Some (rm, sm) /\ lookup s sm = Some s') /\
  List.length out = total_entries (map (fun d => d_rec2 d k) ds) (ids_of ds) /\
  NoDup (keys out).
Proof.
  intros k ds out W E. pose proof (merge_rec2_exact k ds out W E) as S. split; [|split].
  - intros ts s' v. rewrite (ren_tabs_In rn2 _ _ _ S). split.
    + intros (i & t & m & [ts0 s] & E1 & E2 & I & R). rewrite nth_error_map in E1.
      destruct (nth_error ds i) as [d|] eqn:Ed; [|discriminate]. cbn in E1. injection E1 as E1.
      unfold rn2 in R. cbn in R. destruct (lookup s (snd m)) as [x|] eqn:L; [|discriminate]. injection R as -> ->.
      exists i, d, t, s, (fst m), (snd m). destruct m; cbn in *. auto.
    + intros (i & d & t & s & rm & sm & Ed & Et & I & Em & L).
      exists i, t, (rm, sm), (ts, s). rewrite nth_error_map, Ed. cbn. rewrite Et. repeat split; auto.
      unfold rn2. cbn. rewrite L. reflexivity.
  - apply (ren_tabs_length rn2 _ _ _ S).
  - apply (ren_tabs_NoDup rn2 dev2 rn2_dev rn2_inj (map (fun d => d_rec2 d k) ds) (ids_of ds) out
             (good_new_ids ds 0 0 (wf_inputs_sensors ds W))); [|exact S].
    apply wf_tabs. intros d t I Et. destruct (W d I) as (_ & _ & _ & X & _). apply (X k t Et).
Qed.
Print Assumptions C10_records_entrywise.

(* trajectories: a device that is a rig of its input follows the rig renaming, otherwise the sensor renaming *)
Theorem C10_trajectories_entrywise : forall ds out, wf_inputs ds -> merge_traj ds = Ok out ->
  forall ts x v, In ((ts, x), v) out <->
    exists i d t s rm sm, nth_error ds i = Some d /\ d_traj d = Some t /\ In ((ts, s), v) t /\
                          nth_error (ids_of ds) i = Some (rm, sm) /\
                          (lookup s rm = Some x \/ (lookup s rm = None /\ lookup s sm = Some x)).
Proof.
  intros ds out W E ts x v. pose proof (merge_traj_exact ds out W E) as S.
  rewrite (ren_tabs_In rn_traj _ _ _ S). split.
  - intros (i & t & m & [ts0 s] & E1 & E2 & I & R). rewrite nth_error_map in E1.
    destruct (nth_error ds i) as [d|] eqn:Ed; [|discriminate]. cbn in E1. injection E1 as E1.
    exists i, d, t, s, (fst m), (snd m). destruct m as [rm sm]; cbn in *. unfold rn_traj in R; cbn in R.
    destruct (lookup s rm) as [r'|] eqn:Lr.
    + injection R as -> ->. repeat split; auto.
    + destruct (lookup s sm) as [s'|] eqn:Ls; [|discriminate]. injection R as -> ->. repeat split; auto.
  - intros (i & d & t & s & rm & sm & Ed & Et & I & Em & L).
    exists i, t, (rm, sm), (ts, s). rewrite nth_error_map, Ed. cbn. rewrite Et. repeat split; auto.
    unfold rn_traj. cbn. destruct L as [L|[L1 L2]]; [rewrite L|rewrite L1, L2]; reflexivity.
Qed.
Print Assumptions C10_trajectories_entrywise.

(* the only way a table merge fails is an entry that refers to an identifier its own input does not define *)
Theorem C10_records_keyerror_iff : forall k ds,
  merge_rec2 k ds = ErrKey <->
  exists i t m key v, nth_error (map (fun d => d_rec2 d k) ds) i = Some (Some t) /\ nth_error (ids_of ds) i = Some m /\
                      In (key, v) t /\ lookup (snd key) (snd m) = None.
Proof.
  intros k ds. unfold merge_rec2. rewrite (merge_tab_err_iff rn2 insert insert_absent), ren_tabs_None.
  split; intros (i & t & m & key & v & E1 & E2 & I & R); exists i, t, m, key, v; repeat split; auto.
  - unfold rn2 in R. destruct (lookup (snd key) (snd m)); [discriminate|reflexivity].
  - unfold rn2. rewrite R. reflexivity.
Qed.
Print Assumptions C10_records_keyerror_iff.

(* --- 3. the driver: sensors and rigs are always merged; every other part is merged unless skipped; a part
        that is empty after the merge (missing everywhere, or skipped) is left at None *)
Theorem C10_remap_exact : forall skip ds m, wf_inputs ds -> merge_remap skip ds = Ok m ->
  (exists r, ren_tabs rn1 (map d_sensors ds) (ids_of ds) = Some r /\ m_sensors m = none_if_empty r) /\
  (exists r, ren_tabs rn_rig (map d_rigs ds) (ids_of ds) = Some r /\ m_rigs m = none_if_empty r) /\
  (if sk_traj skip then m_traj m = None
   else exists r, ren_tabs rn_traj (map d_traj ds) (ids_of ds) = Some r /\ m_traj m = none_if_empty r) /\
  (forall k, if sk_rec2 skip k then m_rec2 m k = None
             else exists r, ren_tabs rn2 (map (fun d => d_rec2 d k) ds) (ids_of ds) = Some r /\ m_rec2 m k = none_if_empty r) /\
  (forall k, if sk_rec3 skip k then m_rec3 m k = None
             else exists r, ren_tabs rn3 (map (fun d => d_rec3 d k) ds) (ids_of ds) = Some r /\ m_rec3 m k = none_if_empty r).
Proof.
  intros skip ds m W E. apply merge_remap_inv in E. destruct E as (A & B & C & D & F & ->). cbn.
  split; [|split; [|split; [|split]]].
  - apply is_ok_true in A. destruct A as [r A]. exists r. rewrite A. split; [apply merge_sensors_exact; auto|reflexivity].
  - apply is_ok_true in B. destruct B as [r B]. exists r. rewrite B. split; [apply merge_rigs_exact; auto|reflexivity].
  - destruct (sk_traj skip); [reflexivity|]. destruct (is_ok_true _ (C eq_refl)) as [r X]. exists r. rewrite X.
    split; [apply merge_traj_exact; auto|reflexivity].
  - intros k. destruct (sk_rec2 skip k) eqn:S; [reflexivity|]. destruct (is_ok_true _ (D k S)) as [r X]. exists r. rewrite X.
    split; [apply merge_rec2_exact; auto|reflexivity].
  - intros k. destruct (sk_rec3 skip k) eqn:S; [reflexivity|]. destruct (is_ok_true _ (F k S)) as [r X]. exists r. rewrite X.
    split; [apply merge_rec3_exact; auto|reflexivity].
Qed.
Print Assumptions C10_remap_exact.

Theorem C10_remap_fails_iff : forall skip ds, merge_remap skip ds = ErrKey <->
  merge_sensors ds = ErrKey \/ merge_rigs ds = ErrKey \/ (sk_traj skip = false /\ merge_traj ds = ErrKey) \/
  (exists k, sk_rec2 skip k = false /\ merge_rec2 k ds = ErrKey) \/
  (exists k, sk_rec3 skip k = false /\ merge_rec3 k ds = ErrKey).
Proof. exact merge_remap_err_iff. Qed.
Print Assumptions C10_remap_fails_iff.

(* --- non-vacuity: three inputs with the same identifiers; input 0 has no camera records and no rigs, input 1
       has no sensors-independent parts missing, input 2 has no sensors at all *)
Definition ex_no2 : kind2 -> option tab2 := fun _ => None.
Definition ex_no3 : kind3 -> option tab3 := fun _ => None.
Definition ex_d0 := mkD (Some [("cam", 100%Z); ("lidar", 101%Z)]) None (Some [((5%Z, "cam"), 300%Z)]) ex_no2 ex_no3.
Definition ex_d1 := mkD (Some [("cam", 110%Z)]) (Some [(("rig", "cam"), 210%Z)]) (Some [((5%Z, "rig"), 310%Z)])
                        (fun k => match k with KCamera => Some [((5%Z, "cam"), 410%Z); ((6%Z, "cam"), 411%Z)] | _ => None end)
                        (fun k => match k with KWifi => Some [((7%Z, "cam", "aa:bb"), 510%Z)] | _ => None end).
Definition ex_d2 := mkD None None None ex_no2 ex_no3.
Definition ex_skip := mkSkip false (fun k => match k with KLidar => true | _ => false end) (fun _ => false).

Ltac solve_nodup := repeat constructor; cbn; intuition discriminate.
Ltac solve_tab := cbn; intros E; try discriminate E; injection E as <-; solve_nodup.

Example C10_example :
  wf_inputs [ex_d0; ex_d1; ex_d2] /\
  ids_of [ex_d0; ex_d1; ex_d2] =
    [([], [("cam", "sensor0"); ("lidar", "sensor1")]); ([("rig", "rig0")], [("cam", "sensor2")]); ([], [])] /\
  exists m, merge_remap ex_skip [ex_d0; ex_d1; ex_d2] = Ok m /\
    m_sensors m = Some [("sensor0", 100%Z); ("sensor1", 101%Z); ("sensor2", 110%Z)] /\
    m_rigs m = Some [(("rig0", "sensor2"), 210%Z)] /\
    m_traj m = Some [((5%Z, "sensor0"), 300%Z); ((5%Z, "rig0"), 310%Z)] /\
    m_rec2 m KCamera = Some [((5%Z, "sensor2"), 410%Z); ((6%Z, "sensor2"), 411%Z)] /\
    m_rec2 m KGnss = None /\
    m_rec3 m KWifi = Some [((7%Z, "sensor2", "aa:bb"), 510%Z)].
Proof.
  split; [|split].
  - intros d [<-|[<-|[<-|[]]]]; unfold wf_dataset; (split; [cbn; solve_nodup|]);
      (split; [intros r; solve_tab|]); (split; [intros t; solve_tab|]);
      (split; [intros k t; destruct k; solve_tab|intros k t; destruct k; solve_tab]).
  - vm_compute. reflexivity.
  - eexists. split; [vm_compute; reflexivity|]. cbn. repeat split.
Qed.

(* --- the code before the repair is refuted: the missing tables were dropped before pairing tables with
       mappings.  Input 0 has a camera but no camera records, input 1 has both: the records of input 1 were
       filed under sensor0, which is input 0's camera; and when input 0 has no sensors at all the sensors merge
       raised KeyError.  The repaired merge files them under sensor1 / succeeds. *)
Lemma C10_legacy_refuted :
  let d0 := mkD (Some [("cam", 100%Z)]) None None ex_no2 ex_no3 in
  let d1 := mkD (Some [("cam", 110%Z)]) None None
                (fun k => match k with KCamera => Some [((5%Z, "cam"), 410%Z)] | _ => None end) ex_no3 in
  merge_rec2_legacy KCamera [d0; d1] = Ok [((5%Z, "sensor0"), 410%Z)] /\
  merge_rec2 KCamera [d0; d1] = Ok [((5%Z, "sensor1"), 410%Z)] /\
  merge_sensors_legacy [ex_d2; d1] = ErrKey /\
  merge_sensors [ex_d2; d1] = Ok [("sensor0", 110%Z)].
Proof. vm_compute. repeat split. Qed.
