(* Props/C10.v — property C10: merging with renamed identifiers is a disjoint union, consistently renamed.
   Only statements; each is closed by a lemma of Proofs/PMergeRemap.v about the model
   Model/MMergeRemap.v (kapture.algo.merge_remap as repaired).

   Vocabulary: [ids_of ds] is the list, one per input, of (rig mapping, sensor mapping) computed by
   _compute_new_ids; [ren_tabs rn tabs maps] is the specification "concatenate, over the inputs in order,
   the entries of the input's table with its key renamed by [rn] under the mapping at THE SAME position"
   (None when some identifier has no new name: KeyError); missing tables (None) contribute nothing but
   keep their position.  [wf_inputs]: the tables are Python dicts (unique keys). *)
From Coq Require Import List Bool String ZArith NArith Lia.
From KV Require Import Eqb AL Str.
From KV.Model Require Import MMergeRemap.
From KV.Proofs Require Import PMergeRemap PMergeRemapSession.
Import ListNotations.
Local Open Scope string_scope.
Local Open Scope list_scope.

(* --- 1. fresh identifiers: each renaming is injective; the ranges of different inputs are disjoint;
        sensor identifiers and rig identifiers never coincide (within an input or across inputs) *)
Theorem C10_fresh_injective : forall ds, wf_sensors ds ->
  (forall i m, nth_error (ids_of ds) i = Some m ->
     inj (fst m) /\ inj (snd m) /\ (forall x, in_range x (fst m) -> ~ in_range x (snd m))) /\
  (forall i j mi mj, i <> j -> nth_error (ids_of ds) i = Some mi -> nth_error (ids_of ds) j = Some mj ->
     forall x, in_rng x mi -> ~ in_rng x mj).
Proof.
  intros ds W. pose proof (good_new_ids ds 0 0 W) as G. split.
  - intros i m E. exact (good_nth_pair _ i m G E).
  - intros i j mi mj N Ei Ej. destruct (Nat.lt_total i j) as [L|[L|L]]; [|contradiction|].
    + exact (good_nth _ i j mi mj G L Ei Ej).
    + apply disjoint_rng_sym. exact (good_nth _ j i mj mi G L Ej Ei).
Qed.
Print Assumptions C10_fresh_injective.

(* the numbering itself: input i maps its p-th sensor (dict order) to sensor<N>, N = number of sensors of the
   inputs before i, plus p; likewise rig<N>; inputs without sensors / rigs get the empty mapping and do not
   advance the counter; every sensor and rig of the input has a new identifier *)
Theorem C10_identifiers : forall ds i d p k,
  NoDup (skeys d) -> nth_error ds i = Some d ->
  exists rm sm, nth_error (ids_of ds) i = Some (rm, sm) /\ keys sm = skeys d /\ keys rm = rkeys d /\
    (nth_error (skeys d) p = Some k -> lookup k sm = Some (fresh "sensor" (soffset ds i + N.of_nat p))) /\
    (nth_error (rkeys d) p = Some k -> lookup k rm = Some (fresh "rig" (roffset ds i + N.of_nat p))).
Proof.
  intros ds i d p k ND E. eexists _, _. split; [apply (ids_of_nth ds i d E)|].
  rewrite !mk_mapping_keys. repeat split.
  - intros Ek. apply mk_mapping_lookup_nth; assumption.
  - intros Ek. apply mk_mapping_lookup_nth; [apply rkeys_NoDup|assumption].
Qed.
Print Assumptions C10_identifiers.

(* --- 2. exactness, part by part: the merged table IS the disjoint union of the renamed input tables
        (list equality: nothing lost, nothing duplicated, nothing overwritten), each input with its own mapping,
        for any number of inputs and any pattern of missing parts; timestamps, addresses and values untouched *)
Theorem C10_sensors_exact : forall ds out, wf_inputs ds ->
  merge_sensors ds = Ok out -> ren_tabs rn1 (map d_sensors ds) (ids_of ds) = Some out.
Proof. exact merge_sensors_exact. Qed.
Print Assumptions C10_sensors_exact.

Theorem C10_sensors_never_fail : forall ds, exists out, merge_sensors ds = Ok out.
Proof. exact merge_sensors_total. Qed.
Print Assumptions C10_sensors_never_fail.

Theorem C10_rigs_exact : forall ds out, wf_inputs ds ->
  merge_rigs ds = Ok out -> ren_tabs rn_rig (map d_rigs ds) (ids_of ds) = Some out.
Proof. exact merge_rigs_exact. Qed.
Print Assumptions C10_rigs_exact.

Theorem C10_trajectories_exact : forall ds out, wf_inputs ds ->
  merge_traj ds = Ok out -> ren_tabs rn_traj (map d_traj ds) (ids_of ds) = Some out.
Proof. exact merge_traj_exact. Qed.
Print Assumptions C10_trajectories_exact.

Theorem C10_records_exact : forall k ds out, wf_inputs ds ->
  merge_rec2 k ds = Ok out -> ren_tabs rn2 (map (fun d => d_rec2 d k) ds) (ids_of ds) = Some out.
Proof. exact merge_rec2_exact. Qed.
Print Assumptions C10_records_exact.

Theorem C10_signal_records_exact : forall k ds out, wf_inputs ds ->
  merge_rec3 k ds = Ok out -> ren_tabs rn3 (map (fun d => d_rec3 d k) ds) (ids_of ds) = Some out.
Proof. exact merge_rec3_exact. Qed.
Print Assumptions C10_signal_records_exact.

(* what the specification means, entry by entry (records of kind k; the other parts are alike): an entry is in
   the output iff it is an entry of some input i whose sensor identifier is replaced by input i's OWN new
   identifier — never another input's — with the same timestamp and value; and counts add up *)
Theorem C10_records_entrywise : forall k ds out, wf_inputs ds -> merge_rec2 k ds = Ok out ->
  (forall ts s' v, In ((ts, s'), v) out <->
     exists i d t s rm sm, nth_error ds i = Some d /\ d_rec2 d k = Some t /\ In ((ts, s), v) t /\
                           nth_error (ids_of ds) i = Some (rm, sm) /\ lookup s sm = Some s') /\
  List.length out = total_entries (map (fun d => d_rec2 d k) ds) (ids_of ds) /\
  NoDup (keys out).
Proof.
  intros k ds out W E. pose proof (merge_rec2_exact k ds out W E) as S. split; [|split].
  - intros ts s' v. rewrite (ren_tabs_In rn2 _ _ _ S). split.
    + intros (i & t & m & [ts0 s] & E1 & E2 & I & R). rewrite nth_error_map in E1.
      destruct (nth_error ds i) as [d|] eqn:Ed; [|discriminate]. cbn in E1. injection E1 as E1.
      unfold rn2 in R. cbn in R. destruct (lookup s (snd m)) as [x|] eqn:L; [|discriminate]. injection R as -> ->.
      exists i, d, t, s, (fst m), (snd m). destruct m; cbn in *. auto.
    + intros (i & d & t & s & rm & sm & Ed & Et & I & Em & L).
      exists i, t, (rm, sm), (ts, s). rewrite nth_error_map, Ed. cbn. rewrite Et. repeat split; auto.
      unfold rn2. cbn. rewrite L. reflexivity.
  - apply (ren_tabs_length rn2 _ _ _ S).
  - apply (ren_tabs_NoDup rn2 dev2 rn2_dev rn2_inj (map (fun d => d_rec2 d k) ds) (ids_of ds) out
             (good_new_ids ds 0 0 (wf_inputs_sensors ds W))); [|exact S].
    apply wf_tabs. intros d t I Et. destruct (W d I) as (_ & _ & _ & X & _). apply (X k t Et).
Qed.
Print Assumptions C10_records_entrywise.

(* trajectories: a device that is a rig of its input follows the rig renaming, otherwise the sensor renaming *)
Theorem C10_trajectories_entrywise : forall ds out, wf_inputs ds -> merge_traj ds = Ok out ->
  forall ts x v, In ((ts, x), v) out <->
    exists i d t s rm sm, nth_error ds i = Some d /\ d_traj d = Some t /\ In ((ts, s), v) t /\
                          nth_error (ids_of ds) i = Some (rm, sm) /\
                          (lookup s rm = Some x \/ (lookup s rm = None /\ lookup s sm = Some x)).
Proof.
  intros ds out W E ts x v. pose proof (merge_traj_exact ds out W E) as S.
  rewrite (ren_tabs_In rn_traj _ _ _ S). split.
  - intros (i & t & m & [ts0 s] & E1 & E2 & I & R). rewrite nth_error_map in E1.
    destruct (nth_error ds i) as [d|] eqn:Ed; [|discriminate]. cbn in E1. injection E1 as E1.
    exists i, d, t, s, (fst m), (snd m). destruct m as [rm sm]; cbn in *. unfold rn_traj in R; cbn in R.
    destruct (lookup s rm) as [r'|] eqn:Lr.
    + injection R as -> ->. repeat split; auto.
    + destruct (lookup s sm) as [s'|] eqn:Ls; [|discriminate]. injection R as -> ->. repeat split; auto.
  - intros (i & d & t & s & rm & sm & Ed & Et & I & Em & L).
    exists i, t, (rm, sm), (ts, s). rewrite nth_error_map, Ed. cbn. rewrite Et. repeat split; auto.
    unfold rn_traj. cbn. destruct L as [L|[L1 L2]]; [rewrite L|rewrite L1, L2]; reflexivity.
Qed.
Print Assumptions C10_trajectories_entrywise.

(* the only way a table merge fails is an entry that refers to an identifier its own input does not define *)
Theorem C10_records_keyerror_iff : forall k ds,
  merge_rec2 k ds = ErrKey <->
  exists i t m key v, nth_error (map (fun d => d_rec2 d k) ds) i = Some (Some t) /\ nth_error (ids_of ds) i = Some m /\
                      In (key, v) t /\ lookup (snd key) (snd m) = None.
Proof.
  intros k ds. unfold merge_rec2. rewrite (merge_tab_err_iff rn2 insert insert_absent), ren_tabs_None.
  split; intros (i & t & m & key & v & E1 & E2 & I & R); exists i, t, m, key, v; repeat split; auto.
  - unfold rn2 in R. destruct (lookup (snd key) (snd m)); [discriminate|reflexivity].
  - unfold rn2. rewrite R. reflexivity.
Qed.
Print Assumptions C10_records_keyerror_iff.

(* --- 3. the driver: sensors and rigs are always merged; every other part is merged unless skipped; a part
        that is empty after the merge (missing everywhere, or skipped) is left at None *)
Theorem C10_remap_exact : forall skip ds m, wf_inputs ds -> merge_remap skip ds = Ok m ->
  (exists r, ren_tabs rn1 (map d_sensors ds) (ids_of ds) = Some r /\ m_sensors m = none_if_empty r) /\
  (exists r, ren_tabs rn_rig (map d_rigs ds) (ids_of ds) = Some r /\ m_rigs m = none_if_empty r) /\
  (if sk_traj skip then m_traj m = None
   else exists r, ren_tabs rn_traj (map d_traj ds) (ids_of ds) = Some r /\ m_traj m = none_if_empty r) /\
  (forall k, if sk_rec2 skip k then m_rec2 m k = None
             else exists r, ren_tabs rn2 (map (fun d => d_rec2 d k) ds) (ids_of ds) = Some r /\ m_rec2 m k = none_if_empty r) /\
  (forall k, if sk_rec3 skip k then m_rec3 m k = None
             else exists r, ren_tabs rn3 (map (fun d => d_rec3 d k) ds) (ids_of ds) = Some r /\ m_rec3 m k = none_if_empty r).
Proof.
  intros skip ds m W E. apply merge_remap_inv in E. destruct E as (A & B & C & D & F & ->). cbn.
  split; [|split; [|split; [|split]]].
  - apply is_ok_true in A. destruct A as [r A]. exists r. rewrite A. split; [apply merge_sensors_exact; auto|reflexivity].
  - apply is_ok_true in B. destruct B as [r B]. exists r. rewrite B. split; [apply merge_rigs_exact; auto|reflexivity].
  - destruct (sk_traj skip); [reflexivity|]. destruct (is_ok_true _ (C eq_refl)) as [r X]. exists r. rewrite X.
    split; [apply merge_traj_exact; auto|reflexivity].
  - intros k. destruct (sk_rec2 skip k) eqn:S; [reflexivity|]. destruct (is_ok_true _ (D k S)) as [r X]. exists r. rewrite X.
    split; [apply merge_rec2_exact; auto|reflexivity].
  - intros k. destruct (sk_rec3 skip k) eqn:S; [reflexivity|]. destruct (is_ok_true _ (F k S)) as [r X]. exists r. rewrite X.
    split; [apply merge_rec3_exact; auto|reflexivity].
Qed.
Print Assumptions C10_remap_exact.

Theorem C10_remap_fails_iff : forall skip ds, merge_remap skip ds = ErrKey <->
  merge_sensors ds = ErrKey \/ merge_rigs ds = ErrKey \/ (sk_traj skip = false /\ merge_traj ds = ErrKey) \/
  (exists k, sk_rec2 skip k = false /\ merge_rec2 k ds = ErrKey) \/
  (exists k, sk_rec3 skip k = false /\ merge_rec3 k ds = ErrKey).
Proof. exact merge_remap_err_iff. Qed.
Print Assumptions C10_remap_fails_iff.

(* --- non-vacuity: three inputs with the same identifiers; input 0 has no camera records and no rigs, input 1
       has no sensors-independent parts missing, input 2 has no sensors at all *)
Definition ex_no2 : kind2 -> option tab2 := fun _ => None.
Definition ex_no3 : kind3 -> option tab3 := fun _ => None.
Definition ex_d0 := mkD (Some [("cam", 100%Z); ("lidar", 101%Z)]) None (Some [((5%Z, "cam"), 300%Z)]) ex_no2 ex_no3.
Definition ex_d1 := mkD (Some [("cam", 110%Z)]) (Some [(("rig", "cam"), 210%Z)]) (Some [((5%Z, "rig"), 310%Z)])
                        (fun k => match k with KCamera => Some [((5%Z, "cam"), 410%Z); ((6%Z, "cam"), 411%Z)] | _ => None end)
                        (fun k => match k with KWifi => Some [((7%Z, "cam", "aa:bb"), 510%Z)] | _ => None end).
Definition ex_d2 := mkD None None None ex_no2 ex_no3.
Definition ex_skip := mkSkip false (fun k => match k with KLidar => true | _ => false end) (fun _ => false).

Ltac solve_nodup := repeat constructor; cbn; intuition discriminate.
Ltac solve_tab := cbn; intros E; try discriminate E; injection E as <-; solve_nodup.

Example C10_example :
  wf_inputs [ex_d0; ex_d1; ex_d2] /\
  ids_of [ex_d0; ex_d1; ex_d2] =
    [([], [("cam", "sensor0"); ("lidar", "sensor1")]); ([("rig", "rig0")], [("cam", "sensor2")]); ([], [])] /\
  exists m, merge_remap ex_skip [ex_d0; ex_d1; ex_d2] = Ok m /\
    m_sensors m = Some [("sensor0", 100%Z); ("sensor1", 101%Z); ("sensor2", 110%Z)] /\
    m_rigs m = Some [(("rig0", "sensor2"), 210%Z)] /\
    m_traj m = Some [((5%Z, "sensor0"), 300%Z); ((5%Z, "rig0"), 310%Z)] /\
    m_rec2 m KCamera = Some [((5%Z, "sensor2"), 410%Z); ((6%Z, "sensor2"), 411%Z)] /\
    m_rec2 m KGnss = None /\
    m_rec3 m KWifi = Some [((7%Z, "sensor2", "aa:bb"), 510%Z)].
Proof.
  split; [|split].
  - intros d [<-|[<-|[<-|[]]]]; unfold wf_dataset; (split; [cbn; solve_nodup|]);
      (split; [intros r; solve_tab|]); (split; [intros t; solve_tab|]);
      (split; [intros k t; destruct k; solve_tab|intros k t; destruct k; solve_tab]).
  - vm_compute. reflexivity.
  - eexists. split; [vm_compute; reflexivity|]. cbn. repeat split.
Qed.

(* --- 4. histories: successive merges of one process that are handed the SAME skip list object (a Python list).
        [session sl steps] threads the list through the calls, each call returning the list as it leaves it.
        Every merge of every session is the merge of its own inputs under the list the caller built, whatever was
        merged before, and the list is never altered. *)
Theorem C10_session_exact : forall sl steps,
  session sl steps = map (fun ds => (merge_remap (skipset_of sl) ds, sl)) steps.
Proof. exact session_exact. Qed.
Print Assumptions C10_session_exact.

Theorem C10_session_history_independent : forall sl pre ds post,
  nth_error (session sl (pre ++ ds :: post)) (List.length pre) = Some (merge_remap (skipset_of sl) ds, sl).
Proof. exact session_nth. Qed.
Print Assumptions C10_session_history_independent.

Theorem C10_skip_list_read_only : forall sl steps r, In r (session sl steps) -> snd r = sl.
Proof. exact session_skip_unchanged. Qed.
Print Assumptions C10_skip_list_read_only.

(* hence, in any session, a part the caller did not list is the disjoint union of the renamed tables of THAT merge's
   inputs (records of kind k and trajectories shown; the other parts follow from C10_remap_exact alike) *)
Theorem C10_session_parts_exact : forall sl pre ds post r sl' m, wf_inputs ds ->
  nth_error (session sl (pre ++ ds :: post)) (List.length pre) = Some (r, sl') -> r = Ok m ->
  sl' = sl /\
  (~ In SkTraj sl -> exists t, ren_tabs rn_traj (map d_traj ds) (ids_of ds) = Some t /\ m_traj m = none_if_empty t) /\
  (forall k, ~ In (SkRec2 k) sl ->
     exists t, ren_tabs rn2 (map (fun d => d_rec2 d k) ds) (ids_of ds) = Some t /\ m_rec2 m k = none_if_empty t) /\
  (forall k, ~ In (SkRec3 k) sl ->
     exists t, ren_tabs rn3 (map (fun d => d_rec3 d k) ds) (ids_of ds) = Some t /\ m_rec3 m k = none_if_empty t).
Proof.
  intros sl pre ds post r sl' m W E ->. rewrite session_nth in E. injection E as E <-.
  destruct (C10_remap_exact _ _ _ W E) as (_ & _ & T & R2 & R3). cbn in T, R2, R3.
  split; [reflexivity|]. split; [|split].
  - intros N. destruct (sl_has SkTraj sl) eqn:H; [apply sl_has_In in H; contradiction|exact T].
  - intros k N. specialize (R2 k). destruct (sl_has (SkRec2 k) sl) eqn:H; [apply sl_has_In in H; contradiction|exact R2].
  - intros k N. specialize (R3 k). destruct (sl_has (SkRec3 k) sl) eqn:H; [apply sl_has_In in H; contradiction|exact R3].
Qed.
Print Assumptions C10_session_parts_exact.

(* the list is consulted by membership only: order and repetitions are irrelevant, and naming one more part removes
   exactly that part from the result (None), every other part and the success of the merge being untouched *)
Theorem C10_skip_list_as_set : forall sl sl' ds, (forall y, In y sl <-> In y sl') ->
  result_ext (merge_remap (skipset_of sl) ds) (merge_remap (skipset_of sl') ds).
Proof. exact skip_list_as_set. Qed.
Print Assumptions C10_skip_list_as_set.

Theorem C10_skipping_touches_only_that_part : forall sl x ds m, merge_remap (skipset_of sl) ds = Ok m ->
  exists m', merge_remap (skipset_of (x :: sl)) ds = Ok m' /\
    m_sensors m' = m_sensors m /\ m_rigs m' = m_rigs m /\
    m_traj m' = (if skipname_eqb SkTraj x then None else m_traj m) /\
    (forall k, m_rec2 m' k = if skipname_eqb (SkRec2 k) x then None else m_rec2 m k) /\
    (forall k, m_rec3 m' k = if skipname_eqb (SkRec3 k) x then None else m_rec3 m k).
Proof. exact skip_one_more. Qed.
Print Assumptions C10_skipping_touches_only_that_part.

(* why these histories have to be RUN: within one call, treating the parts that no input has as skipped
   ([mark_absent]: their types appended to the list) changes nothing — same failure, same merged parts — so no
   single merge can tell a merge_remap that appends to its caller's list from one that does not ... *)
Theorem C10_absent_parts_as_good_as_skipped : forall sl ds,
  result_ext (merge_remap (skipset_of (mark_absent sl ds)) ds) (merge_remap (skipset_of sl) ds).
Proof. exact mark_absent_one_call. Qed.
Print Assumptions C10_absent_parts_as_good_as_skipped.

(* ... while in a session it loses data: first a merge of a dataset without trajectories, then, with the same
   (empty) list, a merge of a dataset that has them.  The modelled code keeps the pose; the marking variant has put
   Trajectories into the caller's list during the first call and drops it. *)
Lemma C10_marking_variant_refuted :
  let d0 := mkD (Some [("cam", 100%Z)]) None None ex_no2 ex_no3 in
  let d1 := mkD (Some [("cam", 110%Z)]) None (Some [((5%Z, "cam"), 310%Z)]) ex_no2 ex_no3 in
  (exists m, nth_error (session [] [[d0]; [d1]]) 1 = Some (Ok m, []) /\ m_traj m = Some [((5%Z, "sensor0"), 310%Z)]) /\
  (exists m sl, nth_error (session_marking [] [[d0]; [d1]]) 1 = Some (Ok m, sl) /\ m_traj m = None /\ In SkTraj sl) /\
  (exists m, fst (merge_remap_call_marking [] [d1]) = Ok m /\ m_traj m = Some [((5%Z, "sensor0"), 310%Z)]).
Proof.
  cbv zeta. split; [|split].
  - eexists. split; [vm_compute; reflexivity|reflexivity].
  - eexists _, _. split; [vm_compute; reflexivity|]. split; [reflexivity|]. cbn. auto.
  - eexists. split; [vm_compute; reflexivity|reflexivity].
Qed.

(* --- the code before the repair is refuted: the missing tables were dropped before pairing tables with
       mappings.  Input 0 has a camera but no camera records, input 1 has both: the records of input 1 were
       filed under sensor0, which is input 0's camera; and when input 0 has no sensors at all the sensors merge
       raised KeyError.  The repaired merge files them under sensor1 / succeeds. *)
Lemma C10_legacy_refuted :
  let d0 := mkD (Some [("cam", 100%Z)]) None None ex_no2 ex_no3 in
  let d1 := mkD (Some [("cam", 110%Z)]) None None
                (fun k => match k with KCamera => Some [((5%Z, "cam"), 410%Z)] | _ => None end) ex_no3 in
  merge_rec2_legacy KCamera [d0; d1] = Ok [((5%Z, "sensor0"), 410%Z)] /\
  merge_rec2 KCamera [d0; d1] = Ok [((5%Z, "sensor1"), 410%Z)] /\
  merge_sensors_legacy [ex_d2; d1] = ErrKey /\
  merge_sensors [ex_d2; d1] = Ok [("sensor0", 110%Z)].
Proof. vm_compute. repeat split. Qed.
