(* Props/C11.v — property C11: merged reconstructions keep each observation on the same 3-D point
   and feature.  Only statements; each is closed by a lemma of Proofs/PMergeRecon.v about the model
   Model/MMergeRecon.v (merge_points3d_and_observations, merge_points3d, file transfer).

   Vocabulary: an input is (option cloud, option observations); [offset ins i] is the number of points
   of the inputs before position i (inputs without points count for 0); [flatten o] lists the
   observations (point, keypoints type, image, feature) of o as kapture.flatten does; [shift off]
   adds off to the point index and leaves type, image and feature index alone. *)
From Coq Require Import List Bool String ZArith Lia Permutation.
From KV Require Import Eqb AL Str.
From KV.Model Require Import MMergeRecon.
From KV.Proofs Require Import PMergeRecon.
Import ListNotations.
Local Open Scope Z_scope.

(* --- 1. the merged cloud is the concatenation of the inputs' points, in input order,
        for any number of inputs and whatever the column count *)
Theorem C11_points_concatenated : forall ins c o,
  merge_po ins = Ok (c, o) -> rows c = all_rows ins.
Proof. exact merge_points_concat. Qed.
Print Assumptions C11_points_concatenated.

(* point j of input i is point (offset i + j) of the result, bit for bit; nothing is added *)
Theorem C11_point_kept : forall ins c o i ci oi j,
  merge_po ins = Ok (c, o) -> nth_error ins i = Some (Some ci, oi) -> (j < List.length (rows ci))%nat ->
  nth_error (rows c) (offset ins i + j) = nth_error (rows ci) j.
Proof. intros ins c o i ci oi j E N L. rewrite (merge_points_concat _ _ _ E). exact (nth_all_rows ins i ci oi j N L). Qed.
Print Assumptions C11_point_kept.

Theorem C11_point_count : forall ins c o,
  merge_po ins = Ok (c, o) -> List.length (rows c) = offset ins (List.length ins).
Proof. intros ins c o E. rewrite (merge_points_concat _ _ _ E). apply all_rows_length. Qed.
Print Assumptions C11_point_count.

(* --- 2. the merged observations are exactly (as a multiset: multiplicities included) the observations
        of the inputs that have points, each re-indexed by the offset of its own input *)
Theorem C11_observations_exact : forall ins c o,
  merge_po ins = Ok (c, o) -> Permutation (flatten o) (spec_obs 0 ins).
Proof. exact merge_obs_perm. Qed.
Print Assumptions C11_observations_exact.

(* the same, spelled out: an observation is in the result iff it is (offset i + j, type, image, feature)
   for an observation (j, type, image, feature) of some input i that has points — nothing else appears *)
Theorem C11_observations_iff : forall ins c o x,
  merge_po ins = Ok (c, o) ->
  (In x (flatten o) <->
   exists i ci oi y, nth_error ins i = Some (Some ci, Some oi) /\ In y (flatten oi) /\
                     x = shift (Z.of_nat (offset ins i)) y).
Proof. exact merge_obs_In. Qed.
Print Assumptions C11_observations_iff.

(* --- 3. every observation still designates the same coordinates, type, image and feature index *)
Theorem C11_observation_same_point : forall ins c o i ci oi j t img f,
  merge_po ins = Ok (c, o) -> nth_error ins i = Some (Some ci, Some oi) ->
  In (Z.of_nat j, t, img, f) (flatten oi) -> (j < List.length (rows ci))%nat ->
  In (Z.of_nat (offset ins i + j), t, img, f) (flatten o) /\
  nth_error (rows c) (offset ins i + j) = nth_error (rows ci) j.
Proof.
  intros ins c o i ci oi j t img f E N I L. split.
  - apply (merge_obs_In _ _ _ _ E). exists i, ci, oi, (Z.of_nat j, t, img, f). repeat split; auto.
    cbn. do 3 f_equal. lia.
  - rewrite (merge_points_concat _ _ _ E). exact (nth_all_rows ins i ci (Some oi) j N L).
Qed.
Print Assumptions C11_observation_same_point.

(* when every observation of every input designates a point of its own input, the observation list of
   merged point (offset i + j), for each keypoints type, is exactly (order included) the observation
   list of point j of input i — observations of different inputs never mix, even for equal image names *)
Theorem C11_observations_of_a_point : forall ins c o i ci oi j t,
  Forall valid_input ins ->
  merge_po ins = Ok (c, o) -> nth_error ins i = Some (Some ci, Some oi) -> (j < List.length (rows ci))%nat ->
  get (Z.of_nat (offset ins i + j)) t o = obs_at (Z.of_nat j) t (flatten oi).
Proof.
  intros ins c o i ci oi j t V E N L. rewrite (merge_obs_get _ _ _ _ _ E).
  exact (obs_at_spec_valid ins 0 i ci oi j t V N L).
Qed.
Print Assumptions C11_observations_of_a_point.

(* without the validity hypothesis: the list kept for (k, t) is the concatenation, in input order, of the
   inputs' lists for (k - offset, t) *)
Theorem C11_observations_per_point_general : forall ins c o k t,
  merge_po ins = Ok (c, o) -> get k t o = obs_at k t (spec_obs 0 ins).
Proof. intros; apply (merge_obs_get ins c o k t); assumption. Qed.
Print Assumptions C11_observations_per_point_general.

(* --- 4. coloured and colour-less clouds: the merge succeeds iff the non-empty clouds all have the same
        column count; the result then has that column count, and rows keep their length *)
Theorem C11_succeeds_iff_same_columns : forall ins,
  (exists r, merge_po ins = Ok r) <-> uniform (in_widths ins).
Proof. exact merge_po_ok_iff. Qed.
Print Assumptions C11_succeeds_iff_same_columns.

Theorem C11_columns_kept : forall ins c o m,
  merge_po ins = Ok (c, o) -> In m (nonempty_clouds ins) -> width m = width c /\ rows c <> [].
Proof. exact merge_width. Qed.
Print Assumptions C11_columns_kept.

Theorem C11_rows_well_formed : forall ins c o,
  Forall (fun x => match fst x with Some c => wf_cloud c | None => True end) ins ->
  merge_po ins = Ok (c, o) -> wf_cloud c.
Proof. exact merge_po_wf. Qed.
Print Assumptions C11_rows_well_formed.

(* --- 5. inputs without points contribute no offset (and their observations, which designate nothing,
        are not carried over); inputs without observations only shift the later ones *)
Theorem C11_input_without_points_is_neutral : forall l1 oo l2,
  merge_po (l1 ++ (None, oo) :: l2) = merge_po (l1 ++ l2).
Proof. exact merge_po_skip_none. Qed.
Print Assumptions C11_input_without_points_is_neutral.

(* merge_points3d is the first component of merge_points3d_and_observations *)
Theorem C11_points_only_agrees : forall ins,
  merge_p (map fst ins) = match merge_po ins with Ok (c, _) => Ok c | ErrShape => ErrShape end.
Proof. exact merge_p_proj. Qed.
Print Assumptions C11_points_only_agrees.

(* --- 6. feature and match files: every file of the output is byte-identical to the file of the same
        name in the first input that has it, whether that input keeps it in a directory or in a tar
        archive; every file of every input is present; the transfer cannot fail when tar members hold
        whole rows *)
Theorem C11_files_identical : forall ins out p b,
  merge_files ins = Some out ->
  (lookup p out = Some b <->
   exists i es e, nth_error ins i = Some es /\ In e es /\ f_path e = p /\ find_entry p es = Some e /\
                  f_data e = b /\
                  forall i' es', (i' < i)%nat -> nth_error ins i' = Some es' -> ~ In p (map f_path es')).
Proof.
  intros ins out p b E. rewrite (merge_files_lookup _ _ p E), first_in_char. split.
  - intros (i & es & e & N & F & D & Min). exists i, es, e. destruct (find_entry_Some _ _ _ F) as [I P].
    repeat split; auto. intros i' es' L N'. apply find_entry_None. apply (Min i' es' L N').
  - intros (i & es & e & N & _ & _ & F & D & Min). exists i, es, e. repeat split; auto.
    intros i' es' L N'. apply find_entry_None. apply (Min i' es' L N').
Qed.
Print Assumptions C11_files_identical.

Theorem C11_files_all_present : forall ins out es e,
  merge_files ins = Some out -> In es ins -> In e es -> exists b, lookup (f_path e) out = Some b.
Proof.
  intros ins out es e E Ies Ie. rewrite (merge_files_lookup _ _ _ E).
  clear E. induction ins as [|es0 ins IH]; [destruct Ies|]. cbn.
  destruct (find_entry (f_path e) es0) as [e0|] eqn:F; [eauto|].
  destruct Ies as [->|Ies]; [|apply IH; exact Ies].
  exfalso. apply find_entry_None in F. apply F. apply in_map. exact Ie.
Qed.
Print Assumptions C11_files_all_present.

Theorem C11_files_transfer_total : forall ins,
  Forall (Forall whole_rows) ins -> exists out, merge_files ins = Some out.
Proof. intros ins W. exact (merge_files_from_total ins [] W). Qed.
Print Assumptions C11_files_transfer_total.

(* --- 7. the merged tree does not depend on what the destination held before: a merge into a directory that
        already contains files (an earlier merge, an interrupted copy, stale files of the same or another size)
        fails exactly when the merge into an empty directory fails, and otherwise leaves, under every merged name,
        the bytes that the merge into an empty directory produces (the transfer overwrites), and every other file
        of the destination as it was *)
Theorem C11_files_overwrite_destination : forall dest ins,
  (merge_files_onto dest ins = None <-> merge_files ins = None) /\
  (forall out fs, merge_files ins = Some out -> merge_files_onto dest ins = Some fs ->
     forall p, lookup p fs = match lookup p out with Some b => Some b | None => lookup p dest end).
Proof.
  intros dest ins. pose proof (merge_files_onto_spec dest ins) as S.
  destruct (merge_files ins) as [out|], (merge_files_onto dest ins) as [fs|]; try contradiction.
  - split; [split; discriminate|]. intros out' fs' [= <-] [= <-] p. apply S.
  - split; [tauto|]. intros out fs E; discriminate.
Qed.
Print Assumptions C11_files_overwrite_destination.

Corollary C11_files_independent_of_destination : forall dest1 dest2 ins out fs1 fs2 p b,
  merge_files ins = Some out -> lookup p out = Some b ->
  merge_files_onto dest1 ins = Some fs1 -> merge_files_onto dest2 ins = Some fs2 ->
  lookup p fs1 = Some b /\ lookup p fs2 = Some b.
Proof.
  intros dest1 dest2 ins out fs1 fs2 p b E L E1 E2.
  rewrite (proj2 (C11_files_overwrite_destination dest1 ins) out fs1 E E1 p),
          (proj2 (C11_files_overwrite_destination dest2 ins) out fs2 E E2 p), L. split; reflexivity.
Qed.
Print Assumptions C11_files_independent_of_destination.

(* --- 8. tar archives with a history.  kapture archives are append-only: features computed again are written again
        under the same name.  What is read for a name is the bytes of the LAST member of that name (a regular file),
        whatever earlier members of that name hold *)
Theorem C11_tar_last_entry_wins : forall a n b,
  tar_read a n = Some b <-> exists l1 l2, a = l1 ++ (n, Some b) :: l2 /\ ~ In n (map fst l2).
Proof. exact tar_read_char. Qed.
Print Assumptions C11_tar_last_entry_wins.

(* for every archive, writing a name again (add_array_to_tar) makes the new bytes its content and changes no other name *)
Theorem C11_tar_rewrite_supersedes : forall a n d n',
  tar_read (tar_append a n d) n' = if eqb n' n then Some d else tar_read a n'.
Proof. exact tar_read_append. Qed.
Print Assumptions C11_tar_rewrite_supersedes.

(* the names listed for an archive are its member names, each once, however many times a name was written *)
Theorem C11_tar_names : forall a, NoDup (tar_names a) /\ forall n, In n (tar_names a) <-> In n (map fst a).
Proof. intros a. split; [apply tar_names_NoDup|intros n; apply tar_names_In]. Qed.
Print Assumptions C11_tar_names.

(* the merged file of path p holds exactly the CURRENT content of its source in the first input that has p:
   the content of the file for a directory source, the bytes of the last member of that name for an archive *)
Theorem C11_merged_file_is_current_source : forall archs srcs out p b,
  merge_sources archs srcs = Some out ->
  (lookup p out = Some b <->
   exists i ar ss s, nth_error archs i = Some ar /\ nth_error srcs i = Some ss /\ find_src p ss = Some s /\
     (forall i' ss', (i' < i)%nat -> nth_error srcs i' = Some ss' -> find_src p ss' = None) /\
     src_current ar s b).
Proof. exact merge_sources_lookup. Qed.
Print Assumptions C11_merged_file_is_current_source.

(* a member that was re-written last in its archive: the merge transfers the re-written bytes *)
Corollary C11_rewritten_member_is_merged : forall archs srcs out i ar ss a p u k m d,
  merge_sources archs srcs = Some out ->
  nth_error archs i = Some ar -> nth_error srcs i = Some ss -> nth_error ar k = Some (tar_append a m d) ->
  find_src p ss = Some (InTar p u k m) ->
  (forall i' ss', (i' < i)%nat -> nth_error srcs i' = Some ss' -> find_src p ss' = None) ->
  lookup p out = Some d.
Proof.
  intros archs srcs out i ar ss a p u k m d E Na Ns Nk F Min.
  apply (proj2 (merge_sources_lookup _ _ _ p d E)). exists i, ar, ss, (InTar p u k m). repeat split; auto.
  cbn. exists (tar_append a m d), a, []. repeat split; auto.
Qed.
Print Assumptions C11_rewritten_member_is_merged.

(* what a reader lists for an archive (the regular entries of the index, compared with kapture's own listing on every run):
   exactly the names with their current bytes *)
Theorem C11_tar_listing : forall a n d, In (n, d) (regular (tar_index a)) <-> tar_read a n = Some d.
Proof. exact tar_listing_char. Qed.
Print Assumptions C11_tar_listing.

(* for EVERY history of appends ws (any length, any interleaving of names) applied to any archive: a name that was written
   reads as its last write, a name that was not written reads as before *)
Theorem C11_tar_history : forall a ws n,
  tar_read (tar_history a ws) n = match last_write n ws with Some d => Some d | None => tar_read a n end.
Proof. exact tar_read_history. Qed.
Print Assumptions C11_tar_history.

(* the transfer from directories and archives cannot fail when every archive source names a member whose last entry is a
   regular file holding whole rows *)
Theorem C11_sources_transfer_total : forall archs srcs,
  Forall2 (fun ar ss => Forall (src_ok ar) ss) archs srcs -> exists out, merge_sources archs srcs = Some out.
Proof. exact merge_sources_total. Qed.
Print Assumptions C11_sources_transfer_total.

(* and the same holds when the destination is not empty (theorem 7 on archive sources) *)
Theorem C11_sources_overwrite_destination : forall dest archs srcs,
  (merge_sources_onto dest archs srcs = None <-> merge_sources archs srcs = None) /\
  (forall out fs, merge_sources archs srcs = Some out -> merge_sources_onto dest archs srcs = Some fs ->
     forall p, lookup p fs = match lookup p out with Some b => Some b | None => lookup p dest end).
Proof.
  intros dest archs srcs. pose proof (merge_sources_onto_spec dest archs srcs) as S.
  destruct (merge_sources archs srcs) as [out|], (merge_sources_onto dest archs srcs) as [fs|]; try contradiction.
  - split; [split; discriminate|]. intros out' fs' [= <-] [= <-] p. apply S.
  - split; [tauto|]. intros out fs E; discriminate.
Qed.
Print Assumptions C11_sources_overwrite_destination.

(* an index that keeps the FIRST member of a name (the seeded change "skip a name already seen") is refuted: it
   returns the superseded bytes; the archive below is what `tar -cf x.tar .` then two kapture append sessions leave *)
Lemma C11_tar_first_wins_refuted :
  let a : archive := [("."%string, None); ("a.jpg.kpt"%string, Some "old-a"%string); ("dir"%string, None);
                      ("dir/c.jpg.kpt"%string, Some "c"%string); ("a.jpg.kpt"%string, Some "newer-a"%string);
                      ("a.jpg.kpt"%string, Some "current"%string)] in
  tar_read_first a "a.jpg.kpt" = Some "old-a"%string /\ tar_read a "a.jpg.kpt" = Some "current"%string /\
  tar_read a "dir" = None /\ tar_names a = ["."; "a.jpg.kpt"; "dir"; "dir/c.jpg.kpt"]%string /\
  merge_sources [[a]; []] [[InTar "k/a.jpg.kpt" 1 0 "a.jpg.kpt"]; [InDir "k/a.jpg.kpt" 1 "other input"; InDir "k/b.jpg.kpt" 1 "b"]]
    = Some [("k/a.jpg.kpt"%string, "current"%string); ("k/b.jpg.kpt"%string, "b"%string)].
Proof. vm_compute. repeat split. Qed.

(* --- non-vacuity: three inputs, colour-less clouds of different sizes, an input without points whose
       observations are dropped, an empty coloured cloud that does not impose its column count, the same
       image name in two inputs, two observations of the same (point, type, image) *)
Example C11_example :
  let o0 : obs := [(0, [("kp"%string, [("a.jpg"%string, 3); ("a.jpg"%string, 3)])]); (1, [("kq"%string, [("b.jpg"%string, 0)])])] in
  let o1 : obs := [(0, [("kp"%string, [("zz.jpg"%string, 9)])])] in
  let o2 : obs := [(0, [("kp"%string, [("a.jpg"%string, 5)])])] in
  let ins : list input :=
    [ (Some (mkCloud 3 [[10;11;12]; [13;14;15]]), Some o0);
      (None, Some o1);
      (Some (mkCloud 6 []), None);
      (Some (mkCloud 3 [[20;21;22]]), Some o2) ] in
  merge_po ins =
    Ok (mkCloud 3 [[10;11;12]; [13;14;15]; [20;21;22]],
        [(0, [("kp"%string, [("a.jpg"%string, 3); ("a.jpg"%string, 3)])]);
         (1, [("kq"%string, [("b.jpg"%string, 0)])]);
         (2, [("kp"%string, [("a.jpg"%string, 5)])])])
  /\ Forall valid_input ins /\ offset ins 3 = 2%nat
  /\ merge_po [(Some (mkCloud 3 [[1;2;3]]), None); (Some (mkCloud 6 [[1;2;3;4;5;6]]), None)] = ErrShape
  /\ merge_files [[mkF "k/a.kpt" false 8 "abc"]; [mkF "k/a.kpt" true 8 "zzzzzzzz"; mkF "k/b.kpt" true 4 "12345678"]]
     = Some [("k/a.kpt"%string, "abc"%string); ("k/b.kpt"%string, "12345678"%string)]
  /\ merge_files [[mkF "k/b.kpt" true 8 "123"]] = None
  /\ merge_files_onto [("k/a.kpt"%string, "old"%string); ("k/zz.kpt"%string, "keep"%string)]
                      [[mkF "k/a.kpt" false 8 "abc"]; [mkF "k/b.kpt" true 4 "12345678"]]
     = Some [("k/a.kpt"%string, "abc"%string); ("k/zz.kpt"%string, "keep"%string); ("k/b.kpt"%string, "12345678"%string)].
Proof.
  cbv zeta. split; [vm_compute; reflexivity|]. split.
  - repeat constructor; cbn; lia.
  - repeat split; vm_compute; reflexivity.
Qed.

(* --- the code before the repair is refuted: the accumulator started as an empty 0x6 cloud, so a single
       colour-less cloud (even an empty one) made both functions raise; the repaired code returns it *)
Lemma C11_legacy_refuted :
  let xyz := mkCloud 3 [[1; 2; 3]] in
  merge_p_legacy [Some xyz] = ErrShape /\ merge_po_legacy [(Some xyz, None)] = ErrShape /\
  merge_p_legacy [Some (mkCloud 3 [])] = ErrShape /\
  merge_p [Some xyz] = Ok xyz /\ merge_po [(Some xyz, None)] = Ok (xyz, []).
Proof. vm_compute. repeat split. Qed.
