(* Props/C12.v — property C12: a tar-packed feature store equals its directory form; appends are durable.
   Only statements, each closed by a lemma of Proofs/PTar.v.

   [norm] stands for kapture.utils.paths.path_secure; every theorem holds for EVERY [norm], those about
   appending for every idempotent one (the correspondence run checks idempotence on all names it uses).  All theorems quantify over all
   folders, archives, member orders / spellings, append histories and crash points.

   Durability is "proof (partial)": the model says that a completed append has handed all its bytes to the
   operating system (tar.py flushes the file object after every addfile) and that nothing else ever changes
   an archive.  NOT in the model, hence not proved: (a) that bytes handed to the OS survive — true for a
   killed process (page cache), not guaranteed on power loss / OS crash since no fsync is issued;
   (b) a writer killed INSIDE add_array_to_tar (a torn member) — outside the property's quantifier;
   (c) two writers on one archive. *)
From Coq Require Import List Bool String Ascii NArith ZArith Arith Permutation Lia.
From KV Require Import Eqb AL Str.
From KV.Gen Require Import Ttar.
From KV.Model Require Import MTar.
From KV.Proofs Require Import PTar.
Import ListNotations.
Local Open Scope string_scope.
Local Open Scope list_scope.

Definition idem (norm : name -> name) : Prop := forall n, norm (norm n) = norm n.

(* a folder [dir] (relative path -> bytes, no path twice) packed into [members]: one member per file, in any
   order, each under any spelling that path_secure maps to the file's relative path *)
Definition packs (norm : name -> name) (members : log) (dir : index) : Prop :=
  wf dir /\ Permutation (map (nentry norm) members) dir.

Definition packed_store (members : log) (rest : index) : store := {| s_files := rest; s_tar := Some members |}.
Definition dir_store (dir : index) : store := {| s_files := dir; s_tar := None |}.

(* ------------------------------------------------------------------ 1. packed = directory *)
(* 1a. the reader's index of the archive is the folder: same content under every name, same set of names *)
Theorem C12_pack_view : forall norm dir members, packs norm members dir ->
  (forall n, lookup n (view norm members) = lookup n dir) /\ Permutation (keys (view norm members)) (keys dir).
Proof.
  intros norm dir members [W P]. split.
  - intro n. exact (packed_view norm dir members W P n).
  - exact (packed_keys_perm norm dir members W P).
Qed.
Print Assumptions C12_pack_view.

(* the plainest packing does pack *)
Theorem C12_pack_packs : forall norm dir, wf dir -> (forall n, In n (keys dir) -> norm n = n) ->
  packs norm (pack dir) dir.
Proof.
  intros norm dir W N. split; [assumption|]. unfold pack.
  replace (map (nentry norm) dir) with dir; [apply Permutation_refl|].
  clear W. induction dir as [|[k v] d IH]; [reflexivity|]. cbn [map]. unfold nentry at 1. cbn [fst snd].
  rewrite (N k) by (left; reflexivity). f_equal. apply IH. intros n I. apply N. right. exact I.
Qed.
Print Assumptions C12_pack_packs.

(* 1b. every array reads back identical through the packed store (handlers given) and through the folder,
       including "missing" and "does not fit dsize"; whatever loose files [rest] remain next to the archive.
       Hypothesis: the file holds whole elements (else np.fromfile truncates while np.frombuffer raises,
       see C12_partial_element_diverges). *)
Theorem C12_read_packed : forall norm dir members rest, packs norm members dir ->
  forall n isz dsz,
  (forall b, lookup (norm n) dir = Some b -> N.modulo (blen b) isz = 0%N) ->
  read norm true (packed_store members rest) n isz dsz = read norm false (dir_store dir) n isz dsz.
Proof. intros norm dir members rest [W P]. exact (packed_read norm dir members W P rest). Qed.
Print Assumptions C12_read_packed.

(* 1c. the set of images listed for a feature type is the same: listing everything ... *)
Theorem C12_images_packed_all : forall norm dir members rest, packs norm members dir ->
  forall ext i,
  In i (images norm ext true None (packed_store members rest)) <-> In i (images norm ext false None (dir_store dir)).
Proof. intros norm dir members rest [W P]. exact (packed_images_all norm dir members P rest). Qed.
Print Assumptions C12_images_packed_all.

(* ... and restricted to the images of records_camera (what kapture_from_dir does; the two routes use
   different algorithms: list-the-archive-then-filter versus test-each-known-image-for-a-file).
   Hypotheses: folder paths are in path_secure form; files with the feature extension carry it in the
   exact case; every known image name is in path_secure form and has a proper basename. *)
Theorem C12_images_packed_known : forall norm dir members rest, packs norm members dir ->
  forall ext kn i,
  (forall n, In n (keys dir) -> norm n = n) ->
  (forall n, In n (keys dir) -> has_ext ext n = true -> n = (strip_ext ext n ++ ext)%string) ->
  (forall j, In j kn -> norm (j ++ ext)%string = (j ++ ext)%string /\ has_ext ext (j ++ ext)%string = true) ->
  In i (images norm ext true (Some kn) (packed_store members rest)) <->
  In i (images norm ext false (Some kn) (dir_store dir)).
Proof. intros norm dir members rest [W P] ext kn i. exact (packed_images_known norm dir members P rest ext kn i). Qed.
Print Assumptions C12_images_packed_known.

(* 1d. the same for image pairs (matches), with or without the known-images filter *)
Theorem C12_pairs_packed : forall norm dir members rest, packs norm members dir ->
  forall ext sep known p,
  In p (match_pairs norm ext sep true known None (packed_store members rest)) <->
  In p (match_pairs norm ext sep false known None (dir_store dir)).
Proof. intros norm dir members rest [W P]. exact (packed_pairs norm dir members P rest). Qed.
Print Assumptions C12_pairs_packed.

(* 1d'. a load restricted by a pairs file (lines in any order of the two names, repeated, naming strangers): the file
        denotes a set of unordered pairs; both storages load exactly the stored pairs that are in (smaller, larger) name
        order and belong to that set.  Hypotheses: every stored matches file is named canonically for the pair it denotes;
        the names in the pairs file give proper, normalised file names. *)
Theorem C12_pairs_packed_pairsfile : forall norm dir members rest, packs norm members dir ->
  forall ext sep known lines p,
  (forall n q, In n (keys dir) -> has_ext ext n = true -> In q (pair_of ext sep n) -> norm (pair_fname ext sep q) = n) ->
  (forall q, In q (map ordered lines) ->
     norm (pair_fname ext sep q) = pair_fname ext sep q /\ has_ext ext (pair_fname ext sep q) = true /\
     pair_of ext sep (pair_fname ext sep q) = [q]) ->
  In p (match_pairs norm ext sep true known (Some lines) (packed_store members rest)) <->
  In p (match_pairs norm ext sep false known (Some lines) (dir_store dir)).
Proof.
  intros norm dir members rest [W P] ext sep known lines p.
  exact (packed_pairs_pairsfile norm dir members P rest ext sep known lines p).
Qed.
Print Assumptions C12_pairs_packed_pairsfile.

(* the order of the two names on a line, and repeating a line, do not matter *)
Theorem C12_pairsfile_unordered : forall a b, ordered (a, b) = ordered (b, a).
Proof.
  intros a b. unfold ordered, sltb, sleb. cbn [fst snd].
  destruct (lleb (bytes_of b) (bytes_of a)) eqn:E1, (lleb (bytes_of a) (bytes_of b)) eqn:E2; cbn; try reflexivity.
  - assert (bytes_of a = bytes_of b) by (apply lleb_antisym; assumption).
    assert (a = b) by (rewrite <- (of_bytes_bytes_of a), <- (of_bytes_bytes_of b); congruence). subst. reflexivity.
  - destruct (lleb_total (bytes_of a) (bytes_of b)); congruence.
Qed.
Print Assumptions C12_pairsfile_unordered.

(* 1e. which one wins (as the code does): archive + handlers => the archive, loose files are not looked at;
       no handlers, or no archive => the loose files *)
Theorem C12_resolution : forall norm l files h,
  content norm true {| s_files := files; s_tar := Some l |} = view norm l /\
  content norm false {| s_files := files; s_tar := Some l |} = files /\
  content norm h {| s_files := files; s_tar := None |} = files.
Proof. intros. repeat split. Qed.
Print Assumptions C12_resolution.

(* ------------------------------------------------------------------ 2. appends *)
(* 2a. after append of (n, b): n reads b, every other name is unchanged, no name disappears *)
Theorem C12_append_visible : forall norm, idem norm -> forall l n b,
  lookup (norm n) (view norm (append norm l n b)) = Some b /\
  (forall m, m <> norm n -> lookup m (view norm (append norm l n b)) = lookup m (view norm l)) /\
  (forall m, In m (keys (view norm l)) -> In m (keys (view norm (append norm l n b)))).
Proof.
  intros norm I l n b. destruct (append_visible norm I l n b) as [A B]. repeat split; [exact A | exact B |].
  intro m. apply append_keeps_names.
Qed.
Print Assumptions C12_append_visible.

(* 2a'. header fields play no role.  Rewriting the headers of the members (mtime, mode, owner, pax records) in any
        way leaves the reader's index unchanged; in particular an array appended by kapture (TarInfo defaults,
        mtime 0) supersedes a member of the same name packed from a real file, whatever that file's mtime and
        whether it was a regular member or a hard link.  (With a symlink in the archive the "others unchanged"
        clause would not hold: a symlink follows its target, exactly as it does in the directory form.) *)
Definition nosym (ms : list member) : Prop := forallb (fun m => negb (is_sym m)) ms = true.

Theorem C12_view_ignores_headers : forall norm (f : member -> hdr) ms,
  mview norm (map (fun m => (m_name m, f m, m_pay m)) ms) = mview norm ms.
Proof. intros norm f ms. unfold mview. exact (f_equal (view norm) (flatten_rehdr norm f ms)). Qed.
Print Assumptions C12_view_ignores_headers.

Theorem C12_append_supersedes_packed : forall norm, idem norm -> forall ms n b, nosym ms ->
  lookup (norm n) (mview norm (mappend norm ms n b)) = Some b /\
  (forall m, m <> norm n -> lookup m (mview norm (mappend norm ms n b)) = lookup m (mview norm ms)).
Proof. intros norm I ms n b NS. apply mappend_visible; assumption. Qed.
Print Assumptions C12_append_supersedes_packed.

(* resolving duplicate names by modification time instead (ties: later member) breaks exactly that: *)
Lemma C12_mtime_resolution_refuted :
  exists norm, idem norm /\ exists ms n b,
    lookup (norm n) (view_by_mtime norm (ms ++ [(norm n, hdr0, b)])) <> Some b.
Proof.
  exists (fun n => n). split; [intro; reflexivity|].
  exists [("a.jpg.kpt", {| h_mtime := 1700000000%Z; h_mode := 420%N; h_uid := 1000%N; h_pax := [] |}, "packed")],
         "a.jpg.kpt", "appended".
  vm_compute. discriminate.
Qed.

(* 2a''. links.  What a reader gets from an archive with hard-link and symlink members is [flatten] of it (extractfile
         follows links).  Packing a folder in which several paths share an inode the way tar / tarfile.add do — first
         path regular, later paths hard links to it — gives back the folder path by path; hence (1a-1d applied to
         [flatten ms]) index, reads and listings of such an archive equal the directory form. *)
Theorem C12_pack_hardlinks : forall norm (ld : ldir),
  (forall x, In x ld -> norm (fst (fst x)) = fst (fst x)) ->
  NoDup (map (fun x => fst (fst x)) ld) ->
  (forall x y, In x ld -> In y ld -> snd (fst x) = snd (fst y) -> snd x = snd y) ->
  flatten norm (pack_hl ld) = ldir_entries ld /\
  (forall n, lookup n (mview norm (pack_hl ld)) = lookup n (ldir_entries ld)) /\
  (forall rest n isz dsz,
     (forall b, lookup (norm n) (ldir_entries ld) = Some b -> N.modulo (blen b) isz = 0%N) ->
     read norm true (packed_store (flatten norm (pack_hl ld)) rest) n isz dsz =
     read norm false (dir_store (ldir_entries ld)) n isz dsz).
Proof.
  intros norm ld NN ND IOK.
  assert (F : flatten norm (pack_hl ld) = ldir_entries ld) by (apply flatten_pack_hl; assumption).
  assert (W : wf (ldir_entries ld)).
  { unfold wf, keys, ldir_entries. rewrite map_map. exact ND. }
  assert (P : packs norm (ldir_entries ld) (ldir_entries ld)).
  { apply C12_pack_packs; [exact W|]. intros n I. unfold keys, ldir_entries in I. rewrite map_map in I.
    apply in_map_iff in I. destruct I as [x [<- Ix]]. apply NN. exact Ix. }
  split; [exact F|]. split.
  - intro n. unfold mview. rewrite F. apply (C12_pack_view norm _ _ P).
  - intros rest n isz dsz H. rewrite F. apply C12_read_packed; assumption.
Qed.
Print Assumptions C12_pack_hardlinks.

(* 2b. overwrites: under every name the LATEST version wins, for every history *)
Theorem C12_latest_wins : forall norm base ops n,
  lookup n (apply_ops norm (view norm base) ops) =
  match last_write norm n ops with Some b => Some b | None => lookup n (view norm base) end.
Proof. intros norm base ops n. apply lookup_apply_ops. Qed.
Print Assumptions C12_latest_wins.

(* 2c. the crash-point statement: for every archive, every sequence of appends and every k, a reader that
       opens the file after the k-th append has returned — the writer being killed, or alive and never
       closed — sees exactly the first k appends applied to what was there.  (A file that did not exist
       cannot be opened before the first append: tarfile has written nothing yet.) *)
Theorem C12_prefix_view : forall norm, idem norm -> forall base ops k,
  reader norm (kill (run_appends norm true (open_append base) (firstn k ops))) =
  match base, firstn k ops with
  | None, [] => OpenFails
  | _, _ => Opened (apply_ops norm (view norm (odflt [] base)) (firstn k ops))
  end.
Proof. intros norm I base ops k. apply reader_after_kill. exact I. Qed.
Print Assumptions C12_prefix_view.

(* the same on an archive given with its headers and hard links (what is really on disk) *)
Theorem C12_prefix_view_members : forall norm, idem norm -> forall (base : option (list member)) ops k,
  nosym (odflt [] base) ->
  reader norm (kill (run_appends norm true (open_append (option_map (flatten norm) base)) (firstn k ops))) =
  match disk_members norm base (firstn k ops) with None => OpenFails | Some ms => Opened (mview norm ms) end.
Proof. intros norm I base ops k NS. apply reader_after_kill_members; assumption. Qed.
Print Assumptions C12_prefix_view_members.

(* closing adds nothing that a reader can see: not closing loses nothing *)
Theorem C12_close_adds_nothing : forall norm, idem norm -> forall base ops,
  reader norm (close (run_appends norm true (open_append base) ops)) =
    Opened (apply_ops norm (view norm (odflt [] base)) ops) /\
  ((base <> None \/ ops <> []) ->
   close (run_appends norm true (open_append base) ops) = kill (run_appends norm true (open_append base) ops)).
Proof. intros norm I base ops. split; [apply close_view; exact I | apply close_adds_nothing]. Qed.
Print Assumptions C12_close_adds_nothing.

(* the appending handler's own index (tar.py keeps self.content up to date) is what a fresh reader computes *)
Theorem C12_writer_index : forall norm, idem norm -> forall base ops,
  apply_ops norm (view norm base) ops = view norm (base ++ map (nentry norm) ops).
Proof. intros norm I base ops. rewrite view_app, apply_ops_nentry; [reflexivity | exact I]. Qed.
Print Assumptions C12_writer_index.

(* 2d. monotonicity between crash points k <= k': names keep their position and none disappears; a name
       not appended in between keeps its content; a name appended in between shows its latest version *)
Theorem C12_monotone : forall norm base ops k k', k <= k' ->
  let v := apply_ops norm (view norm base) (firstn k ops) in
  let v' := apply_ops norm (view norm base) (firstn k' ops) in
  (exists t, keys v' = keys v ++ t) /\
  (exists between, firstn k' ops = firstn k ops ++ between /\
     forall n, lookup n v' = match last_write norm n between with Some b => Some b | None => lookup n v end).
Proof.
  intros norm base ops k k' L. destruct (firstn_le_app ops k k' L) as [r E]. cbv zeta. rewrite E. split.
  - rewrite apply_ops_app. apply keys_apply_ops_prefix.
  - exists r. split; [reflexivity|]. intro n. rewrite apply_ops_app. apply lookup_apply_ops.
Qed.
Print Assumptions C12_monotone.

(* 2e. why the flush matters: a writer that does not flush after each append (the realistic mutant) can
       lose completed appends when killed; with the flush nothing is ever left in the process buffer *)
Theorem C12_flush_leaves_no_buffer : forall norm base ops,
  w_buf (run_appends norm true (open_append base) ops) = [].
Proof. intros. apply flush_leaves_no_buffer. reflexivity. Qed.
Print Assumptions C12_flush_leaves_no_buffer.

Lemma C12_without_flush_refuted :
  exists norm, idem norm /\ exists base ops,
    reader norm (kill (run_appends norm false (open_append (Some base)) ops)) <>
    Opened (apply_ops norm (view norm base) ops).
Proof.
  exists (fun n => n). split; [intro; reflexivity|]. exists [], [("a.kpt", "1234")]. vm_compute. discriminate.
Qed.

(* 2f. several writer handles on one archive, some never closed.  A history of opens / appends / closes / un-closed
       handles being reclaimed (del, scope exit, gc, interpreter exit) / process kills that the model accepts (= at most one
       handle is USED at a time; older un-closed handles may linger and be reclaimed at ANY later moment) leaves on disk
       exactly the base followed by every completed append, in order: reclaiming or killing writes nothing, whenever it
       happens.  Stated for any member type; then for a fresh kapture reader at every point k of the history. *)
Theorem C12_abandoned_writers_harmless : forall (A : Type) (evs : list (event A)) base s,
  run false (hinit base) evs = Some s ->
  odflt [] (hs_disk s) = odflt [] base ++ appended evs /\
  (base <> None -> hs_disk s <> None) /\ (appended evs <> [] -> hs_disk s <> None).
Proof. intros A evs base s H. exact (run_false_disk A evs (hinit base) s H). Qed.
Print Assumptions C12_abandoned_writers_harmless.

Theorem C12_history_reader : forall norm base (evs : list hev) k s,
  run false (hinit base) (map (hev_event norm) (firstn k evs)) = Some s ->
  (base <> None \/ happended (firstn k evs) <> []) ->
  hreader norm s =
    Opened (mview norm (odflt [] base ++ map (fun e => mk_member norm (fst e) (snd e)) (happended (firstn k evs)))).
Proof. intros norm base evs k s R N. apply history_reader; assumption. Qed.
Print Assumptions C12_history_reader.

(* an accepted history is accepted at every earlier point (so the statement above applies to all k) *)
Theorem C12_history_prefixes : forall (A : Type) fin (evs : list (event A)) s s' k,
  run fin s evs = Some s' -> exists s1, run fin s (firstn k evs) = Some s1.
Proof. intros A fin evs s s' k H. exact (run_prefix A fin evs s s' k H). Qed.
Print Assumptions C12_history_prefixes.

(* exactly when a closing finaliser would bite: the reclaimed handle no longer stands at the end of the archive *)
Theorem C12_closing_finalizer_harmless_iff_current : forall (A : Type) (s : hstate A) id p,
  lookup id (hs_handles s) = Some p -> p <= dlen (hs_disk s) ->
  exists s', step true s (EvDrop id) = Some s' /\
             (odflt [] (hs_disk s') = odflt [] (hs_disk s) <-> p = dlen (hs_disk s)).
Proof. intros A s id p L LE. exact (drop_closing_iff_current A s id p L LE). Qed.
Print Assumptions C12_closing_finalizer_harmless_iff_current.

(* a finaliser that closes the handle (writes the end-of-archive blocks at the handle's own, stale position) loses the
   appends a later writer completed meanwhile: writer 1 appends and is left un-closed, writer 2 appends and closes,
   writer 1 is reclaimed.  Without a finaliser the same history keeps everything. *)
Lemma C12_finalizer_closing_refuted :
  let evs := [EvOpen 1; EvAppend 1 "a"; EvOpen 2; EvAppend 2 "b"; EvAppend 2 "a'"; EvClose 2; EvDrop 1] in
  (exists s, run true (hinit (Some ["z"])) evs = Some s /\ hs_disk s = Some ["z"; "a"]) /\
  (exists s, run false (hinit (Some ["z"])) evs = Some s /\ hs_disk s = Some ("z" :: appended evs)).
Proof. split; eexists; split; vm_compute; reflexivity. Qed.

(* ------------------------------------------------------------------ 3. boundary, stated not hidden *)
(* a file with a trailing partial element reads differently through the two routes (np.fromfile drops it,
   np.frombuffer raises); such a file is not the dump of an array, so it is outside the property *)
Lemma C12_partial_element_diverges :
  decode_tar 4 1 "12345" = RBad /\ decode_dir 4 1 "12345" = RArr 1 "1234".
Proof. split; vm_compute; reflexivity. Qed.

(* ------------------------------------------------------------------ 4. the tables of the tree under test *)
(* the archive of each kind is where the published format says: <feature folder>/<type>/<folder name>.tar,
   for exactly the four kinds; extensions are pairwise different "."-words without '.' or '/' inside *)
Definition last_component (p : string) : string := last (split_on "/" p) "".
Definition ext_wf (e : string) : bool :=
  match e with
  | String c r => Ascii.eqb c "."%char && negb (String.eqb r "") && String.eqb (lower r) r &&
                    match split_on "." r, split_on "/" r with [_], [_] => true | _, _ => false end
  | _ => false
  end.
Theorem C12_tables_follow_spec :
  map fst Ttar.feat_dir = ["Keypoints"; "Descriptors"; "GlobalFeatures"; "Matches"] /\
  set_eqb Ttar.tarable (map fst Ttar.feat_dir) = true /\
  map (fun kd => (last_component (snd kd), (snd kd ++ "/TYPE/" ++ last_component (snd kd) ++ ".tar")%string)) Ttar.feat_dir
    = map (fun st => (fst (fst st), snd (snd st))) (combine Ttar.spec_tar Ttar.tar_path) /\
  map (fun st => (fst st, (fst st ++ ".tar")%string)) Ttar.spec_tar = Ttar.spec_tar /\
  Ttar.tar_fullpath = Ttar.tar_path /\
  map fst Ttar.feat_ext = map fst Ttar.feat_dir /\
  forallb ext_wf (map snd Ttar.feat_ext) = true /\
  NoDup (map snd Ttar.feat_ext) /\
  ext_wf Ttar.pair_sep = true.
Proof.
  repeat split; try (vm_compute; reflexivity).
  vm_compute. repeat constructor; cbn; intuition discriminate.
Qed.
Print Assumptions C12_tables_follow_spec.

(* ------------------------------------------------------------------ non-vacuity *)
(* a concrete store: unicode / nested names, "./" spellings, shuffled order; a stale loose file next to the
   archive; an overwrite; every hypothesis above holds and every clause bites *)
Definition ex_norm : name -> name := tnorm [("./a.jpg.kpt", "a.jpg.kpt"); ("./sub dir/b c.jpg.kpt", "sub dir/b c.jpg.kpt")].
Lemma ex_norm_idem : idem ex_norm.
Proof.
  intro n. unfold ex_norm, tnorm. cbn [lookup].
  destruct (eqb_spec n "./a.jpg.kpt") as [->|N1]; [vm_compute; reflexivity|].
  destruct (eqb_spec n "./sub dir/b c.jpg.kpt") as [->|N2]; [vm_compute; reflexivity|].
  apply neq_eqb in N1, N2. rewrite N1, N2. reflexivity.
Qed.
Definition ex_dir : index := [("a.jpg.kpt", "AAAAAAAA"); ("sub dir/b c.jpg.kpt", ""); ("notes.md", "x")].
Definition ex_members : log := [("./sub dir/b c.jpg.kpt", ""); ("notes.md", "x"); ("./a.jpg.kpt", "AAAAAAAA")].
Example C12_example :
  packs ex_norm ex_members ex_dir /\
  images ex_norm ".kpt" true (Some ["a.jpg"; "sub dir/b c.jpg"; "c.jpg"]) (packed_store ex_members [("c.jpg.kpt", "stale")])
    = ["sub dir/b c.jpg"; "a.jpg"] /\
  images ex_norm ".kpt" false (Some ["a.jpg"; "sub dir/b c.jpg"; "c.jpg"]) (dir_store ex_dir) = ["a.jpg"; "sub dir/b c.jpg"] /\
  read ex_norm true (packed_store ex_members []) "a.jpg.kpt" 4 2 = RArr 1 "AAAAAAAA" /\
  read ex_norm true (packed_store ex_members []) "sub dir/b c.jpg.kpt" 4 2 = RArr 0 "" /\
  read ex_norm true (packed_store ex_members []) "a.jpg.kpt" 4 3 = RBad /\
  read ex_norm true (packed_store ex_members []) "zz.kpt" 4 2 = RMissing /\
  reader ex_norm (kill (run_appends ex_norm true (open_append (Some ex_members))
                          (firstn 2 [("./a.jpg.kpt", "BBBB"); ("d.kpt", "D"); ("a.jpg.kpt", "CCCC")])))
    = Opened [("sub dir/b c.jpg.kpt", ""); ("notes.md", "x"); ("a.jpg.kpt", "BBBB"); ("d.kpt", "D")] /\
  reader ex_norm (kill (run_appends ex_norm true (open_append None) (firstn 0 [("d.kpt", "D")]))) = OpenFails /\
  mview ex_norm [("./a.jpg.kpt", hdr0, PBytes "AAAA"); ("dup/b.jpg.kpt", hdr0, PHard "./a.jpg.kpt");
                 ("dup/s.jpg.kpt", hdr0, PSym "a.jpg.kpt"); ("a.jpg.kpt", hdr0, PBytes "BBBB")]
    = [("a.jpg.kpt", "BBBB"); ("dup/b.jpg.kpt", "AAAA"); ("dup/s.jpg.kpt", "BBBB")] /\
  images ex_norm ".kpt" true (Some []) (packed_store ex_members []) = [] /\
  match_pairs ex_norm ".matches" ".overlapping" true (Some ["a.jpg"; "b/c.jpg"]) None
    (packed_store [("a.jpg.overlapping/b/c.jpg.matches", "m"); ("a.jpg.overlapping/zz.jpg.matches", "m")] [])
    = [("a.jpg", "b/c.jpg")] /\
  match_pairs ex_norm ".matches" ".overlapping" true None (Some [("zz.jpg", "a.jpg"); ("q.jpg", "a.jpg"); ("zz.jpg", "a.jpg")])
    (packed_store [("a.jpg.overlapping/b/c.jpg.matches", "m"); ("a.jpg.overlapping/zz.jpg.matches", "m")] [])
    = [("a.jpg", "zz.jpg")] /\
  match_pairs ex_norm ".matches" ".overlapping" false None (Some [("zz.jpg", "a.jpg"); ("q.jpg", "a.jpg"); ("zz.jpg", "a.jpg")])
    (dir_store [("a.jpg.overlapping/b/c.jpg.matches", "m"); ("a.jpg.overlapping/zz.jpg.matches", "m")])
    = [("a.jpg", "zz.jpg"); ("a.jpg", "zz.jpg")].
Proof.
  split.
  - split.
    + unfold wf. vm_compute. repeat constructor; cbn; intuition discriminate.
    + vm_compute.
      apply (perm_trans (l' := [("notes.md", "x"); ("sub dir/b c.jpg.kpt", ""); ("a.jpg.kpt", "AAAAAAAA")])).
      * apply perm_swap.
      * apply (perm_trans (l' := [("notes.md", "x"); ("a.jpg.kpt", "AAAAAAAA"); ("sub dir/b c.jpg.kpt", "")])).
        -- apply perm_skip. apply perm_swap.
        -- apply (perm_trans (l' := [("a.jpg.kpt", "AAAAAAAA"); ("notes.md", "x"); ("sub dir/b c.jpg.kpt", "")])).
           ++ apply perm_swap.
           ++ apply perm_skip. apply perm_swap.
  - vm_compute. repeat split.
Qed.

(* non-vacuity at the level of kapture readers: the same history through the API, observed after every event *)
Example C12_history_example :
  let evs := [HOpen 0; HAppend 0 "./a.jpg.kpt" "A1"; HOpen 1; HAppend 1 "b.kpt" "B"; HAppend 1 "a.jpg.kpt" "A2"; HClose 1; HDrop 0] in
  let base := Some [("z.kpt", hdr0, PBytes "Z")] in
  map (fun k => option_map (hreader ex_norm) (run false (hinit base) (map (hev_event ex_norm) (firstn k evs)))) [0; 2; 5; 7] =
  [Some (Opened [("z.kpt", "Z")]); Some (Opened [("z.kpt", "Z"); ("a.jpg.kpt", "A1")]);
   Some (Opened [("z.kpt", "Z"); ("a.jpg.kpt", "A2"); ("b.kpt", "B")]);
   Some (Opened [("z.kpt", "Z"); ("a.jpg.kpt", "A2"); ("b.kpt", "B")])] /\
  (* a stale handle that is used again is outside the model *)
  run false (hinit base) (map (hev_event ex_norm) (firstn 4 evs ++ [HAppend 0 "c.kpt" "C"])) = None.
Proof. split; vm_compute; reflexivity. Qed.
