(* Props/C13.v — property C13: COLMAP export then import preserves cameras, poses, features and structure.
   Only statements, each closed by lemmas of Proofs/PColmap.v, instantiated with the tables that
   harness/tables/colmap.py read from the repository under test on this run (Gen/Tcolmap.v).

   THE FULL STATEMENT.  For every dataset d inside COLMAP's range ([in_range d = true]: real dicts, unique image
   names, fewer than MAX_IMAGE_ID - 1 images, every image taken by a camera of a model COLMAP knows with an integral
   image size, rigs that flatten within max_depth, one keypoints type on 2 / 4 / 6 columns, descriptors, matches stored
   once per pair in lexical order between known images, points on 3 or 6 columns, observations of existing points in
   known images), for every text printer / parser of floats with read (show x) = x and every injective naming of
   COLMAP camera ids:  export then import does not raise, and the dataset that comes back has
     - the same image names, in the same order                                    (C13_images)
     - for every image name the same camera model and the same parameter list     (C13_cameras)
     - for every image name exactly the pose its (timestamp, camera) has in the rig-flattened trajectories, and no
       pose when it has none there                                               (C13_poses, _without_rigs, _with_rigs)
     - for EVERY name the same keypoint rows and the same descriptor rows         (C13_features)
     - for EVERY pair of names the same match rows (so: no pair added, none lost)  (C13_matches)
     - the same point coordinates in the same order, the same observation list for EVERY point index
                                                                                  (C13_structure)
   "Rig-mounted cameras come out at the world poses the rig implied": C13_poses_with_rigs says the pose that comes
   back is the one rigs_remove_inplace computed (Model/MRigs.remove_inplace, with the code's max_depth), and that no
   rig id is left; C13_rig_mounted_world_pose composes it with property C06's theorem (Proofs/PRigs.remove_spec_gen:
   rigs_remove_inplace computes the composition along the rig chain, any nesting depth <= max_depth). *)
From Coq Require Import List Bool String Ascii ZArith QArith Lia.
From KV Require Import Eqb AL Str.
From KV.Gen Require Import Tcolmap.
From KV.Model Require Import MQV MPose MRigs MColmap.
From KV.Proofs Require Import PColmap PColmapTxt PRigs.
Import ListNotations.
Local Open Scope string_scope.
Local Open Scope list_scope.

Notation ids := Tcolmap.camera_model_ids.
Notation names := Tcolmap.camera_model_names.
Notation MAXID := Tcolmap.max_image_id.

(* ------------------------------------------------------------------ finite facts about the generated tables *)
(* the camera model table is a bijection between names and ids, the two dicts derived from it agree with it, kapture
   counts 2 parameters (width, height) more than COLMAP for every model, every kapture camera type except
   UNKNOWN_CAMERA is a COLMAP model, and UNKNOWN_CAMERA is exported as a 6-parameter kapture model *)
Definition camera_tables_ok : bool :=
  nodupb (map fst Tcolmap.camera_model_name_id) && nodupb (map snd Tcolmap.camera_model_name_id)
  && forallb (fun ni => eqb (lookup (fst ni) ids) (Some (snd ni)) && eqb (lookup (snd ni) names) (Some (fst ni)))
             Tcolmap.camera_model_name_id
  && eqb (List.length ids) (List.length Tcolmap.camera_model_name_id)
  && eqb (List.length names) (List.length Tcolmap.camera_model_name_id)
  && nodupb (keys ids) && nodupb (keys names)
  && forallb (fun ni => match lookup (fst ni) Tcolmap.kapture_camera_params_count, lookup (fst ni) Tcolmap.colmap_num_params with
                        | Some k, Some c => (k =? c + 2)%Z
                        | _, _ => false
                        end) Tcolmap.camera_model_name_id
  && forallb (fun kc => eqb (fst kc) Tcolmap.unknown_camera || mem (fst kc) ids) Tcolmap.kapture_camera_params_count
  && negb (mem Tcolmap.unknown_camera ids) && mem Tcolmap.unknown_camera_exported_as ids
  && eqb (lookup Tcolmap.unknown_camera_exported_as Tcolmap.kapture_camera_params_count) (Some 6%Z)
  && eqb (lookup Tcolmap.unknown_camera Tcolmap.kapture_camera_params_count) (Some 2%Z).

Theorem C13_camera_tables : camera_tables_ok = true.
Proof. vm_compute. reflexivity. Qed.
Print Assumptions C13_camera_tables.

Theorem C13_camera_model_bijection : forall n i, lookup n ids = Some i <-> lookup i names = Some n.
Proof.
  assert (H1 : forallb (fun mi => eqb (lookup (snd mi) names) (Some (fst mi))) ids = true) by (vm_compute; reflexivity).
  assert (H2 : forallb (fun im => eqb (lookup (snd im) ids) (Some (fst im))) names = true) by (vm_compute; reflexivity).
  rewrite forallb_forall in H1, H2. intros n i. split; intros L; apply lookup_In in L.
  - specialize (H1 _ L). apply eqb_true in H1. exact H1.
  - specialize (H2 _ L). apply eqb_true in H2. exact H2.
Qed.
Print Assumptions C13_camera_model_bijection.

(* the pair-id functions of the tree, on boundary ids, compute what the model computes; MAX_IMAGE_ID^2 fits the
   signed 64-bit key of the matches table; the camera naming has no collision on the sampled ids *)
Theorem C13_table_samples :
  forallb (fun t => match t with (a, b, p, x, y) => eqb (pair_id MAXID a b) p && eqb (pair_ids MAXID p) (x, y) end)
          Tcolmap.pair_id_samples = true
  /\ (0 < MAXID)%Z /\ (MAXID * MAXID < 2 ^ 63)%Z
  /\ nodupb (map snd Tcolmap.cam_name_samples) = true.
Proof. repeat split; vm_compute; reflexivity. Qed.
Print Assumptions C13_table_samples.

(* ------------------------------------------------------------------ pair ids and the column swap, for all values *)
Theorem C13_pair_id_roundtrip : forall a b, (0 <= a < MAXID)%Z -> (0 <= b < MAXID)%Z ->
  pair_ids MAXID (pair_id MAXID a b) = (Z.min a b, Z.max a b).
Proof. exact (pair_id_roundtrip MAXID). Qed.
Print Assumptions C13_pair_id_roundtrip.

Theorem C13_pair_id_injective : forall a b c d,
  (0 <= a < MAXID)%Z -> (0 <= b < MAXID)%Z -> (0 <= c < MAXID)%Z -> (0 <= d < MAXID)%Z ->
  pair_id MAXID a b = pair_id MAXID c d -> (a = c /\ b = d) \/ (a = d /\ b = c).
Proof. exact (pair_id_inj MAXID). Qed.
Print Assumptions C13_pair_id_injective.

Theorem C13_match_swap_involutive : forall m, swap (swap m) = m.
Proof. exact swap_involutive. Qed.
Print Assumptions C13_match_swap_involutive.

Section C13.
  Variable comp : pose -> pose -> pose.          (* PoseTransform.compose([a, b]) *)
  Variable tok : Type.
  Variable show : Q -> tok.
  Variable read : tok -> Q.
  Variable cam_name : Z -> string.
  Hypothesis read_show : forall x, read (show x) = x.
  Hypothesis cam_name_inj : forall a b, cam_name a = cam_name b -> a = b.

  Let RT := roundtrip comp tok show read cam_name ids names Tcolmap.unknown_camera Tcolmap.unknown_camera_exported_as
                      Tcolmap.default_focal_length_factor MAXID false.
  Let IR := in_range comp ids Tcolmap.unknown_camera Tcolmap.unknown_camera_exported_as
                     Tcolmap.default_focal_length_factor MAXID false.
  Let WT := wtraj comp false.
  Let names_of_ids : forall m i, lookup m ids = Some i -> lookup i names = Some m :=
    fun m i => proj1 (C13_camera_model_bijection m i).

  (* both directions of the swap: whatever the order of the two image ids, an exported pair comes back under the same
     (lexically ordered) key with the same rows *)
  Theorem C13_match_swap_roundtrip : forall d n1 n2 rows, IR d = true ->
    In n1 (image_names d) -> In n2 (image_names d) -> sleb n1 n2 = true ->
    import_match MAXID (import_records_db cam_name (export_db comp ids Tcolmap.unknown_camera Tcolmap.unknown_camera_exported_as
                                                             Tcolmap.default_focal_length_factor MAXID false d))
                 (export_match MAXID d ((n1, n2), rows)) = [((n1, n2), rows)].
  Proof. intros. apply import_export_match; assumption. Qed.

  Theorem C13_roundtrip_never_raises : forall d, IR d = true -> exists d', RT d = ROk d'.
  Proof. intros d H. eexists. apply (roundtrip_ok comp tok show read cam_name ids names); exact H. Qed.

  Lemma back_of d d' : IR d = true -> RT d = ROk d' ->
    d' = back comp tok show read cam_name ids names Tcolmap.unknown_camera Tcolmap.unknown_camera_exported_as
              Tcolmap.default_focal_length_factor MAXID d.
  Proof. intros H E. unfold RT in E. rewrite (roundtrip_ok comp tok show read cam_name ids names) in E by exact H. congruence. Qed.

  Theorem C13_images : forall d d', IR d = true -> RT d = ROk d' -> image_names d' = image_names d.
  Proof. intros d d' H E. rewrite (back_of d d' H E). apply names_back. Qed.

  Theorem C13_cameras : forall d d' name, IR d = true -> RT d = ROk d' -> In name (image_names d) ->
    camera_of d' name = camera_of d name.
  Proof.
    intros d d' name H E I. rewrite (back_of d d' H E). unfold image_names in I. apply in_map_iff in I.
    destruct I as [e [<- I]]. apply camera_back; assumption.
  Qed.

  Theorem C13_poses : forall d d' name, IR d = true -> RT d = ROk d' -> In name (image_names d) ->
    pose_of d' name = pose_in (WT d) d name.
  Proof.
    intros d d' name H E I. rewrite (back_of d d' H E). unfold image_names in I. apply in_map_iff in I.
    destruct I as [e [<- I]]. apply pose_back; assumption.
  Qed.

  Corollary C13_poses_without_rigs : forall d d' name, IR d = true -> RT d = ROk d' -> d_rigs d = None ->
    In name (image_names d) -> pose_of d' name = pose_of d name.
  Proof.
    intros d d' name H E NR I. rewrite (C13_poses d d' name H E I). unfold WT. rewrite wtraj_no_rigs by exact NR. reflexivity.
  Qed.

  Corollary C13_poses_with_rigs : forall d d' R T, IR d = true -> RT d = ROk d' -> d_rigs d = Some R -> d_traj d = Some T ->
    exists T', remove_inplace pose comp max_depth R T = Done T'
               /\ (forall t dev p, lookup2 t dev T' = Some p -> is_rig R dev = false)
               /\ forall name, In name (image_names d) -> pose_of d' name = pose_in (Some T') d name.
  Proof.
    intros d d' R T H E ER ET. destruct (in_range_rigs_done comp ids _ _ _ MAXID d R T H ER ET) as [T' [Rm W]].
    exists T'. split; [exact Rm|]. split.
    - exact (in_range_flat comp ids _ _ _ MAXID d R T' H ER W).
    - intros name I. rewrite (C13_poses d d' name H E I). unfold WT. rewrite W. reflexivity.
  Qed.

  Corollary C13_poses_rigs_without_trajectories : forall d d' R name, IR d = true -> RT d = ROk d' ->
    d_rigs d = Some R -> d_traj d = None -> In name (image_names d) -> pose_of d' name = None /\ pose_of d name = None.
  Proof.
    intros d d' R name H E ER ET I. rewrite (C13_poses d d' name H E I). unfold WT. rewrite (wtraj_rigs_no_traj comp d R ER ET).
    unfold pose_of, pose_in. rewrite ET. split; destruct (entry_of d name); reflexivity.
  Qed.

  (* rig-mounted cameras come out at the world poses the rig implied: for a camera below a posed rig [top] along the
     path l = [(r1, g0); (r2, g1); ...] (camera in r1 with pose g0, r1 in r2 with pose g1, ..., the last one is top), the
     pose that comes back is g0 o (g1 o (... o (pose of top))) -- any nesting depth up to max_depth.  The rig
     hypotheses are those of property C06's theorem (Proofs/PRigs.remove_spec_gen), which this corollary composes with
     C13_poses_with_rigs. *)
  Corollary C13_rig_mounted_world_pose : forall d d' R T n, IR d = true -> RT d = ROk d' ->
    d_rigs d = Some R -> d_traj d = Some T ->
    wf2 R -> wf2 T -> one_parent R -> depth_le R n -> (n <= max_depth)%nat -> rigs_nonempty R ->
    no_empty_timestamp T -> single_source R T ->
    forall e l top w, In e (images_of d) -> is_rig R (icam e) = false -> path_up R (icam e) l top ->
      lookup2 (its e) top T = Some w -> pose_of d' (iname e) = Some (comp_path pose comp l w).
  Proof.
    intros d d' R T n H E ER ET WfR WfT OP DL Le RN NE SS e l top w I NR PU Lw.
    destruct (C13_poses_with_rigs d d' R T H E ER ET) as (T' & Rm & _ & HP).
    destruct (remove_spec_gen pose comp R T n max_depth WfR WfT OP DL Le RN NE SS) as (T'' & Rm' & _ & _ & H3 & _).
    rewrite Rm in Rm'. inversion Rm'; subst T''.
    rewrite (HP (iname e) (in_map iname _ _ I)). unfold pose_in.
    rewrite (entry_src d e (in_range_names comp ids _ _ _ MAXID d H) I). apply (H3 _ _ l top w); assumption.
  Qed.

  Theorem C13_features : forall d d' name, IR d = true -> RT d = ROk d' ->
    feats_of (d_kp d') name = feats_of (d_kp d) name /\ feats_of (d_desc d') name = feats_of (d_desc d) name.
  Proof.
    intros d d' name H E. rewrite (back_of d d' H E). split; [apply kp_back | apply desc_back]; assumption.
  Qed.

  Theorem C13_matches : forall d d' p, IR d = true -> RT d = ROk d' -> matches_of d' p = matches_of d p.
  Proof. intros d d' p H E. rewrite (back_of d d' H E). apply matches_of_back; assumption. Qed.

  Theorem C13_structure : forall d d', IR d = true -> RT d = ROk d' ->
    xyz_of d' = xyz_of d /\ forall i, obs_of d' i = obs_of d i.
  Proof.
    intros d d' H E. rewrite (back_of d d' H E). split; [apply xyz_back; assumption | intros i; apply obs_back; assumption].
  Qed.

  (* import_colmap has no memory: the model of a call is a function of the exported artefacts and the options of
     THAT call, so in any history of calls made in one process (other datasets, database only, text only,
     skip_reconstruction, no_geometric_filtering, in any order) each call returns what it returns alone; and the
     call with database + reconstruction and nothing skipped is the round trip all the theorems above are about.
     (The correspondence runs such histories in one interpreter and compares every step with its own model.) *)
  Theorem C13_history_independent : forall (h1 h2 : list (iopts * dataset)) o d,
    nth_error (run_history comp tok show read cam_name ids names Tcolmap.unknown_camera Tcolmap.unknown_camera_exported_as
                           Tcolmap.default_focal_length_factor MAXID false (h1 ++ (o, d) :: h2)) (List.length h1)
    = Some (roundtrip_mode comp tok show read cam_name ids names Tcolmap.unknown_camera Tcolmap.unknown_camera_exported_as
                           Tcolmap.default_focal_length_factor MAXID false o d).
  Proof. intros. apply run_history_nth. Qed.

  Theorem C13_full_import_in_any_history : forall (h1 h2 : list (iopts * dataset)) g d, IR d = true ->
    exists d', nth_error (run_history comp tok show read cam_name ids names Tcolmap.unknown_camera
                                      Tcolmap.unknown_camera_exported_as Tcolmap.default_focal_length_factor MAXID false
                                      (h1 ++ (mkIO SBoth false g, d) :: h2)) (List.length h1) = Some (ROk d')
               /\ RT d = ROk d'.
  Proof.
    intros h1 h2 g d H. destruct (C13_roundtrip_never_raises d H) as [d' E]. exists d'. split; [|exact E].
    rewrite run_history_nth, roundtrip_mode_full. f_equal. exact E.
  Qed.

  (* the export target as a store: an export REPLACES what the database path and the reconstruction directory held, so
     the artefacts after an export are a function of the exported dataset only, and a sequence of round trips that re-use
     one target (force_overwrite_existing), starting from ANY previous content, gives call by call what each round trip
     gives alone -- nothing of an earlier dataset (points3D.txt, images.txt, ...) is attributed to a later one. *)
  Theorem C13_export_replaces_target : forall (s s' : store tok) d,
    export_to comp tok show ids names Tcolmap.unknown_camera Tcolmap.unknown_camera_exported_as
              Tcolmap.default_focal_length_factor MAXID false s d
    = export_to comp tok show ids names Tcolmap.unknown_camera Tcolmap.unknown_camera_exported_as
                Tcolmap.default_focal_length_factor MAXID false s' d.
  Proof. reflexivity. Qed.

  Theorem C13_reused_target_history : forall (s : store tok) (h : list (iopts * dataset)),
    run_on comp tok show read cam_name ids names Tcolmap.unknown_camera Tcolmap.unknown_camera_exported_as
           Tcolmap.default_focal_length_factor MAXID false s h
    = run_history comp tok show read cam_name ids names Tcolmap.unknown_camera Tcolmap.unknown_camera_exported_as
                  Tcolmap.default_focal_length_factor MAXID false h.
  Proof. intros. apply run_on_history. Qed.

  (* colours come back too when they are integers (COLMAP stores bytes) *)
  Theorem C13_points_with_integer_colours : forall d d', IR d = true -> RT d = ROk d' ->
    (forall r, In r (d_points d) -> List.length r = 6%nat /\ forallb is_int (skipn 3 r) = true) ->
    d_points d' = d_points d.
  Proof. intros d d' H E C. rewrite (back_of d d' H E). apply points_back_exact; assumption. Qed.
End C13.
Print Assumptions C13_match_swap_roundtrip.
Print Assumptions C13_roundtrip_never_raises.
Print Assumptions C13_images.
Print Assumptions C13_cameras.
Print Assumptions C13_poses.
Print Assumptions C13_poses_without_rigs.
Print Assumptions C13_poses_with_rigs.
Print Assumptions C13_poses_rigs_without_trajectories.
Print Assumptions C13_rig_mounted_world_pose.
Print Assumptions C13_features.
Print Assumptions C13_matches.
Print Assumptions C13_structure.
Print Assumptions C13_history_independent.
Print Assumptions C13_full_import_in_any_history.
Print Assumptions C13_export_replaces_target.
Print Assumptions C13_reused_target_history.
Print Assumptions C13_points_with_integer_colours.

(* ------------------------------------------------------------------ the TEXT of images.txt, character level
   (split_colmap_image_line / export_to_colmap_images_txt).  A line is ' '.join of nine fields and the image name; a
   field is not empty and free of blanks and commas ([field_ok]: what '{}'.format gives for a number); a name is any
   string kapture's csv files can hold ([name_ok]: it does not begin with a blank or a comma and does not end with
   a blank) -- so: several blanks in a row, tabs, commas INSIDE the name are all covered. *)
(* the line written for an image is read back as exactly the nine fields and exactly the name *)
Theorem C13_image_line_roundtrip : forall fields name,
  List.length fields = 9%nat -> Forall (fun t => field_ok t = true) fields -> name_ok name = true ->
  parse_image_line (emit_image_line fields name) = Some (fields, name).
Proof. exact parse_emit_image_line. Qed.
Print Assumptions C13_image_line_roundtrip.

(* the whole file: any header of comment lines, then two lines per image (the second one, the 2-D points, may be
   empty but is there): the importer reads back the records in order -- none lost, none shifted onto a second line *)
Theorem C13_images_txt_roundtrip : forall header recs,
  Forall (fun h => is_comment h = true) header -> Forall rec_ok recs ->
  parse_images_txt (emit_images_txt header recs) = Some (map fst recs).
Proof. exact parse_emit_images_txt. Qed.
Print Assumptions C13_images_txt_roundtrip.

(* tie with the dataset level: for EVERY dataset (in range or not) for which export writes an images.txt, every number
   printer giving clean tokens and every image names kapture can hold, the text re-read is the list of records the
   model of export produced (ids, the seven pose tokens, camera id, name) *)
Theorem C13_exported_images_txt_parses :
  forall comp (show : Q -> string) (show_z : Z -> string) legacy,
  (forall x, field_ok (show x) = true /\ is_comment (show x) = false) ->
  (forall z, field_ok (show_z z) = true /\ is_comment (show_z z) = false) ->
  forall d header is,
  export_timages comp string show legacy d = Some is ->
  (forall n, In n (image_names d) -> name_ok n = true) ->
  Forall (fun h => is_comment h = true) header ->
  parse_images_txt (images_txt_of show_z header is) = Some (map (fun ti => (fields_of_timage show_z ti, ti_name string ti)) is).
Proof. exact exported_images_txt_parses. Qed.
Print Assumptions C13_exported_images_txt_parses.

(* what the importer did before repair (E), for every line: the name comes back SQUEEZED (fields of the name
   re-joined with single blanks), i.e. it was right exactly for the names with squeeze name = name *)
Theorem C13_image_name_squeezed_before_repair : forall fields name,
  List.length fields = 9%nat -> Forall (fun t => field_ok t = true) fields -> name_ok name = true ->
  parse_image_line_legacy (emit_image_line fields name) = Some (fields, squeeze name).
Proof. exact parse_emit_image_line_legacy. Qed.
Print Assumptions C13_image_name_squeezed_before_repair.

(* the hypotheses are satisfiable: a name with two blanks in a row, a tab and a comma inside; a file with a header *)
Definition ex_fields : list string := ["12"; "0.5"; "-0.5"; "0.5"; "1e-05"; "1.0"; "-2.25"; "3.0"; "2"].
Definition ex_name : string := String.append "dir/a  b" (String (ascii_of_nat 9) "c,d.jpg").
Example C13_image_line_example :
  List.length ex_fields = 9%nat /\ forallb field_ok ex_fields = true /\ name_ok ex_name = true
  /\ parse_image_line (emit_image_line ex_fields ex_name) = Some (ex_fields, ex_name)
  /\ squeeze ex_name = "dir/a b c d.jpg"
  /\ parse_images_txt (emit_images_txt ["# Image list"; "#   IMAGE_ID, ..."]
                        [(ex_fields, ex_name, ""); (ex_fields, "z.jpg", "1.5 2.5 -1 3.0 4.0 0")])
     = Some [(ex_fields, ex_name); (ex_fields, "z.jpg")]
  /\ parse_image_line "1 1 0 0 0" = None.
Proof. repeat split; vm_compute; reflexivity. Qed.

(* ------------------------------------------------------------------ non-vacuity: a concrete in-range dataset where
   each clause bites.  Image ids follow (timestamp, camera): "z.jpg" gets id 1, "m.jpg" id 2, "a.jpg" id 3, so the
   pair ("a.jpg", "z.jpg") is stored with swapped columns under pair id (1, 3) and swapped back on import; "a.jpg" is
   taken by a camera mounted on a rig; "m.jpg" has no pose but is observed by point 0; point 1 has an empty track. *)
Definition ex_pose (w x y z tx ty tz : Q) : pose := mkP (mkQ w x y z) (mkV tx ty tz).
Definition ex : dataset :=
  mkD [("camB", Cam "PINHOLE" [640; 480; 500.5; 501; 320; 240]); ("lidar", Other); ("camA", Cam "SIMPLE_RADIAL" [800; 600; 700; 400; 300; -0.01])]
      (Some [("rig", [("camA", ex_pose 0 1 0 0 1 0 0)])])
      (Some [(5%Z, [("camB", ex_pose 1 0 0 0 1 2 3)]); (9%Z, [("rig", ex_pose 0 0 1 0 0 0 7)])])
      [(5%Z, [("camB", "z.jpg")]); (7%Z, [("camA", "m.jpg")]); (9%Z, [("camA", "a.jpg")])]
      (Some (mkF 2 [("a.jpg", [[1.5; 2.5]; [3; 4]]); ("m.jpg", []); ("z.jpg", [[7; 8]])]))
      (Some (mkF 2 [("a.jpg", [[1; 255]; [0; 7]]); ("z.jpg", [[9; 9]])]))
      (Some [(("a.jpg", "z.jpg"), [(1, 0)%Z]); (("a.jpg", "m.jpg"), [(0, 5)%Z; (1, 6)%Z])])
      [[1; 2; 3; 255; 0; 10]; [4; 5; 6.5; 0; 0; 0]]
      [(0%Z, [("m.jpg", 0%Z); ("a.jpg", 1%Z)])].

Example C13_example :
  in_range_repo MPose.compose2 ex = true
  /\ exists d', roundtrip_spec ex = ROk d'
     /\ image_names d' = ["z.jpg"; "m.jpg"; "a.jpg"]
     /\ camera_of d' "a.jpg" = Some (Cam "SIMPLE_RADIAL" [800; 600; 700; 400; 300; -0.01])
     /\ pose_of d' "m.jpg" = None
     /\ (exists p, pose_of d' "a.jpg" = Some p /\ p =p= ex_pose 0 0 0 1 1 0 (-7))
     /\ matches_of d' ("a.jpg", "z.jpg") = Some [(1, 0)%Z]
     /\ matches_of d' ("z.jpg", "a.jpg") = None
     /\ feats_of (d_kp d') "m.jpg" = Some []
     /\ obs_of d' 0 = [("m.jpg", 0%Z); ("a.jpg", 1%Z)] /\ obs_of d' 1 = []
     /\ d_points d' = d_points ex.
Proof.
  split; [vm_compute; reflexivity|]. eexists. split; [vm_compute; reflexivity|].
  repeat split; try (vm_compute; reflexivity).
  eexists. split; [vm_compute; reflexivity|]. repeat split; vm_compute; reflexivity.
Qed.

(* the rig hypotheses of C13_rig_mounted_world_pose hold on the same dataset, for the image "a.jpg" taken by "camA"
   mounted on "rig" (checked with the deciders of Proofs/PRigs.v) *)
Example C13_example_rig :
  let g := ex_pose 0 1 0 0 1 0 0 in let w := ex_pose 0 0 1 0 0 0 7 in
  let R : rigs pose := [("rig", [("camA", g)])] in
  let T : traj pose := [(5%Z, [("camB", ex_pose 1 0 0 0 1 2 3)]); (9%Z, [("rig", w)])] in
  d_rigs ex = Some R /\ d_traj ex = Some T
  /\ wf2 R /\ wf2 T /\ one_parent R /\ depth_le R 1 /\ (1 <= max_depth)%nat /\ rigs_nonempty R
  /\ no_empty_timestamp T /\ single_source R T
  /\ In (9%Z, "camA", "a.jpg") (images_of ex) /\ is_rig R "camA" = false
  /\ path_up R "camA" [("rig", g)] "rig" /\ lookup2 9%Z "rig" T = Some w.
Proof.
  intros g w R T.
  assert (WR : wf2 R) by (apply wf2b_sound; vm_compute; reflexivity).
  assert (WT : wf2 T) by (apply wf2b_sound; vm_compute; reflexivity).
  split; [reflexivity|]. split; [reflexivity|]. split; [exact WR|]. split; [exact WT|].
  split; [apply one_parent_check; [exact WR | vm_compute; reflexivity]|].
  split; [apply (depth_le_rank R (fun d => if eqb d "rig" then 0%nat else 1%nat) 1 WR); vm_compute; reflexivity|].
  split; [unfold max_depth; lia|].
  split; [apply rigs_nonempty_check; vm_compute; reflexivity|].
  split; [apply no_empty_check; vm_compute; reflexivity|].
  split; [apply single_source_unmounted; [exact WR | exact WT | vm_compute; reflexivity]|].
  split; [vm_compute; auto|]. split; [vm_compute; reflexivity|].
  split; [|vm_compute; reflexivity]. eapply path_cons; [vm_compute; reflexivity | apply path_nil].
Qed.

(* ------------------------------------------------------------------ the behaviour before the repairs is refuted *)
Definition roundtrip_legacy := roundtrip_with MPose.compose2 true.

(* (A) rigs but no trajectories: export raised AssertionError (rigs_remove_inplace(None, rigs)) *)
Definition ex_rigs_no_traj : dataset :=
  mkD [("camA", Cam "PINHOLE" [640; 480; 500; 500; 320; 240])] (Some [("rig", [("camA", ex_pose 1 0 0 0 1 0 0)])]) None
      [(1%Z, [("camA", "a.jpg")])] None None None [] [].
Lemma C13_export_rigs_without_trajectories_legacy_refuted :
  in_range_repo MPose.compose2 ex_rigs_no_traj = true /\ roundtrip_legacy ex_rigs_no_traj = RExport
  /\ exists d', roundtrip_spec ex_rigs_no_traj = ROk d'.
Proof. split; [|split]; [vm_compute; reflexivity ..|]. eexists. vm_compute. reflexivity. Qed.

(* (B) an observation in an image without pose came back with the image name 'unknown' *)
Definition ex_unposed_observation : dataset :=
  mkD [("camA", Cam "PINHOLE" [640; 480; 500; 500; 320; 240])] None (Some [(1%Z, [("camA", ex_pose 1 0 0 0 0 0 0)])])
      [(1%Z, [("camA", "a.jpg")]); (2%Z, [("camA", "b.jpg")])]
      (Some (mkF 2 [("a.jpg", [[1; 2]]); ("b.jpg", [[3; 4]])])) None None [[1; 2; 3]] [(0%Z, [("a.jpg", 0%Z); ("b.jpg", 0%Z)])].
Lemma C13_import_unposed_observation_legacy_refuted :
  in_range_repo MPose.compose2 ex_unposed_observation = true
  /\ (exists d', roundtrip_legacy ex_unposed_observation = ROk d' /\ obs_of d' 0 = [("a.jpg", 0%Z); ("unknown", 0%Z)])
  /\ (exists d', roundtrip_spec ex_unposed_observation = ROk d' /\ obs_of d' 0 = [("a.jpg", 0%Z); ("b.jpg", 0%Z)]).
Proof. split; [vm_compute; reflexivity|]. split; eexists; split; vm_compute; reflexivity. Qed.

(* (C) no trajectories at all: no images.txt is written and the import raised AssertionError *)
Definition ex_no_traj : dataset :=
  mkD [("camA", Cam "PINHOLE" [640; 480; 500; 500; 320; 240])] None None
      [(1%Z, [("camA", "a.jpg")])] (Some (mkF 2 [("a.jpg", [[1; 2]])])) None None [] [].
Lemma C13_import_without_images_txt_legacy_refuted :
  in_range_repo MPose.compose2 ex_no_traj = true /\ roundtrip_legacy ex_no_traj = RImport
  /\ exists d', roundtrip_spec ex_no_traj = ROk d'.
Proof. split; [|split]; [vm_compute; reflexivity ..|]. eexists. vm_compute. reflexivity. Qed.

(* (D) re-using an export target: a dataset without trajectories exported over one that had poses kept the old
   images.txt, and the import gave its image the pose of the other dataset's image *)
Definition ex_posed : dataset :=
  mkD [("camA", Cam "PINHOLE" [640; 480; 500; 500; 320; 240])] None (Some [(1%Z, [("camA", ex_pose 0.5 0.5 0.5 0.5 1 2 3)])])
      [(1%Z, [("camA", "a.jpg")])] None None None [] [].
Definition ex_unposed : dataset :=
  mkD [("camA", Cam "PINHOLE" [640; 480; 500; 500; 320; 240])] None None [(7%Z, [("camA", "b.jpg")])] None None None [] [].
Lemma C13_stale_images_txt_legacy_refuted :
  in_range_repo MPose.compose2 ex_unposed = true
  /\ (exists d', reexport_legacy ex_posed ex_unposed = Some d' /\ pose_of d' "b.jpg" = Some (ex_pose 0.5 0.5 0.5 0.5 1 2 3))
  /\ (exists d', roundtrip_spec ex_unposed = ROk d' /\ pose_of d' "b.jpg" = None).
Proof. split; [vm_compute; reflexivity|]. split; eexists; split; vm_compute; reflexivity. Qed.

(* (E) an image name with two blanks in a row: images.txt was cut into fields and the name re-joined with single
   blanks, so the observation in the POSED image "a  x.jpg" came back in "a x.jpg", an image that does not exist *)
Definition ex_two_blanks : dataset :=
  mkD [("camA", Cam "PINHOLE" [640; 480; 500; 500; 320; 240])] None (Some [(1%Z, [("camA", ex_pose 1 0 0 0 0 0 0)])])
      [(1%Z, [("camA", "a  x.jpg")]); (2%Z, [("camA", "b.jpg")])]
      (Some (mkF 2 [("a  x.jpg", [[1; 2]]); ("b.jpg", [[3; 4]])])) None None [[1; 2; 3]] [(0%Z, [("a  x.jpg", 0%Z); ("b.jpg", 0%Z)])].
Lemma C13_image_name_two_blanks_legacy_refuted :
  in_range_repo MPose.compose2 ex_two_blanks = true /\ forallb name_ok (image_names ex_two_blanks) = true
  /\ (exists d', roundtrip_squeezed ex_two_blanks = Some d' /\ image_names d' = ["a  x.jpg"; "b.jpg"]
                 /\ obs_of d' 0 = [("a x.jpg", 0%Z); ("b.jpg", 0%Z)])
  /\ (exists d', roundtrip_spec ex_two_blanks = ROk d' /\ obs_of d' 0 = [("a  x.jpg", 0%Z); ("b.jpg", 0%Z)])
  /\ parse_image_line_legacy "1 1.0 0.0 0.0 0.0 0.0 0.0 0.0 1 a  x.jpg" = Some (["1"; "1.0"; "0.0"; "0.0"; "0.0"; "0.0"; "0.0"; "0.0"; "1"], "a x.jpg")
  /\ parse_image_line "1 1.0 0.0 0.0 0.0 0.0 0.0 0.0 1 a  x.jpg" = Some (["1"; "1.0"; "0.0"; "0.0"; "0.0"; "0.0"; "0.0"; "0.0"; "1"], "a  x.jpg").
Proof.
  split; [vm_compute; reflexivity|]. split; [vm_compute; reflexivity|].
  split; [eexists; repeat split; vm_compute; reflexivity|].
  split; [eexists; split; vm_compute; reflexivity|]. split; vm_compute; reflexivity.
Qed.
