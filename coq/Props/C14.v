(* Props/C14.v — property C14: OpenMVG export then import preserves images, poses, intrinsics, structure
   and matches.  Only statements, each closed by a lemma of Proofs/POpenmvg.v.

   Quantifier: every configuration [cfg] (flatten or not, intrinsics layout v1 / v2, any image root name) and every
   dataset [d] with [in_range cfg d = true] (Model/MOpenmvg.v: a boolean decided on the input alone):
     cameras of images are SIMPLE_PINHOLE / SIMPLE_RADIAL / RADIAL, PINHOLE / OPENCV with fx = fy, or FULL_OPENCV with
     fx = fy and k4 = k5 = k6 = 0, integral width and height; every image has a pose with a non-zero quaternion;
     image names are distinct and stay distinct after renaming (flattening merges no two images); no two images
     share a regions file name; observations name known images that have keypoints; matched pairs are pairs of
     distinct known images, each unordered pair once.
   NOT in range, stated explicitly: fisheye / FOV / thin-prism / unknown cameras and PINHOLE / OPENCV with
   fx <> fy or FULL_OPENCV with k4..k6 <> 0 ([C14_not_expressible]: the exporter replaces them or refuses), images
   without pose, flattened names that collide ([C14_flatten_collision_out_of_range]), point colours (not part of
   sfm_data).
   Trusted library behaviour: numpy-quaternion's from_rotation_matrix is the Section variable [from_matrix] with the
   contract [from_matrix_rot]; every theorem is generalised over it when the section closes. *)
From Coq Require Import QArith Qabs ZArith Bool List String.
From KV Require Import Eqb Str AL.
From KV.Model Require Import MQV MPose MOpenmvg.
From KV.Proofs Require Import PQV POpenmvg POpenmvgKp.
From KV.Gen Require Import Topenmvg.
Import ListNotations.
Local Open Scope string_scope.
Local Open Scope list_scope.

Section C14.
  Variable from_matrix : mat -> quat.
  Hypothesis from_matrix_rot : forall M, mmul M (mtrans M) =m= mid -> mdet M == 1 ->
    rot (from_matrix M) =m= M /\ ~ n2 (from_matrix M) == 0.
  Variable cfg : config.
  Variable d : dataset.
  Hypothesis IR : in_range cfg d = true.

  Notation r := (reimported from_matrix cfg d).
  Notation rn := (rename cfg d).

  (* 0. export and import both succeed; [r] is the re-imported dataset *)
  Theorem C14_roundtrip_succeeds :
    exists s, export cfg d = Some s /\ import from_matrix s = Some r.
  Proof. exists (xsfm cfg d). exact (reimported_ok from_matrix cfg d IR). Qed.

  (* 1. same images, in the same order, each renamed by [rn]; [rn] is injective on the images ... *)
  Theorem C14_same_images :
    map snd (r_images r) = map rn (names d) /\ NoDup (map rn (names d)).
  Proof. split; [exact (rt_images from_matrix cfg d IR)|exact (ND_rn cfg d IR)]. Qed.

  (* ... and only replaces the directory shared by all images by the name of the image root
     (joining the remaining components with '_' when flattening) *)
  Theorem C14_rename_is_prefix_change : forall n, In n (names d) ->
    exists rel, n = sub_root d ++ rel /\ rel <> [] /\
                rn n = images_dir cfg d :: (if flatten cfg then [sjoin "_" rel] else rel).
  Proof.
    intros n Hn. apply rename_spec; [exact Hn|]. destruct (ir_facts cfg d IR) as (_ & NE & _). exact (NE n Hn).
  Qed.

  (* 2. each image has the same world-to-camera pose: as a rotation (rot r' == rot r, so sign and scale of
        the quaternion are ignored; exact 180 degree turns included) and as a translation (t' == t) *)
  Theorem C14_same_poses : forall n p, In n (names d) -> d_pose_of d n = Some p ->
    exists p', r_pose_of r (rn n) = Some p' /\
               rot (pr p') =m= rot (pr p) /\ pt p' =v= pt p /\ ~ n2 (pr p') == 0.
  Proof. exact (rt_pose from_matrix from_matrix_rot cfg d IR). Qed.

  (* 3. each image has the same intrinsics (the same FULL_OPENCV-form projection parameters) *)
  Theorem C14_same_intrinsics : forall n c, In n (names d) -> d_cam_of d n = Some c ->
    exists c', r_cam_of r (rn n) = Some c' /\ cam_equiv c' c = true.
  Proof. exact (rt_camera from_matrix cfg d IR). Qed.

  (* 4. same 3-D points in the same order, each with the same observations (image renamed, same feature);
        no observation appears anywhere else *)
  Theorem C14_same_structure :
    points_list (r_points r) = points_list (d_points d) /\
    forall j, obs_at (r_obs r) j =
              if in_bounds d j then map (fun o => (rn (fst o), snd o)) (obs_at (d_obs d) j) else [].
  Proof. split; [exact (rt_points from_matrix cfg d IR)|exact (rt_observations from_matrix cfg d IR)]. Qed.

  (* 5. the keypoints / descriptors an image gets back are its own *)
  Theorem C14_same_keypoints : forall n, In n (names d) -> AL.lookup (rn n) (r_kp r) = AL.lookup n (d_kp d).
  Proof. exact (rt_keypoints from_matrix cfg d IR). Qed.

  (* 6. same match index pairs per image pair: [match_rel ms x y] = [(feature of x, feature of y)] whatever the
        orientation the pair is stored in; every pair stored after the round trip is an original one, in
        lexical order *)
  Theorem C14_same_matches :
    (forall x y, In x (names d) -> In y (names d) ->
       match_rel (r_matches r) (rn x) (rn y) = match_rel (d_matches d) x y) /\
    (forall e', In e' (r_matches r) ->
       exists e, In e (d_matches d) /\ same_pair (fst e') (rn (fst (fst e)), rn (snd (fst e))) = true /\
                 sltb (pstr (snd (fst e'))) (pstr (fst (fst e'))) = false).
  Proof. split; [exact (rt_matches from_matrix cfg d IR)|exact (rt_matches_only from_matrix cfg d IR)]. Qed.
End C14.
Print Assumptions C14_roundtrip_succeeds.
Print Assumptions C14_same_images.
Print Assumptions C14_rename_is_prefix_change.
Print Assumptions C14_same_poses.
Print Assumptions C14_same_intrinsics.
Print Assumptions C14_same_structure.
Print Assumptions C14_same_keypoints.
Print Assumptions C14_same_matches.

(* --- the two intrinsics mappings invert each other on the representable set, for both JSON layouts *)
Theorem C14_intrinsics_maps_inverse : forall (layout_v2 : bool) (c : camera), representable c = true ->
  exists i c', export_cam layout_v2 c = Some i /\ import_cam i = Some c' /\ cam_equiv c' c = true.
Proof. exact intrinsics_roundtrip. Qed.
Print Assumptions C14_intrinsics_maps_inverse.

(* --- the keypoints themselves (regions .feat files; the feature ids of observations and matches index their rows):
       for EVERY list of keypoints of a SIFT-like type (at least 4 columns; any number of rows, none and one included)
       the exported file is accepted by the importer and holds the same number of rows, in the same order, each
       with the first four columns (x, y, scale, orientation) to half a unit of the fifth decimal *)
Theorem C14_same_keypoint_rows : forall rows : kprows, feat_ok rows = true ->
  exists rows', import_feat (export_feat rows) = Some rows' /\
    Forall2 (fun r' r => Forall2 (fun x' x => Qabs (x' - x) <= 1 # 200000) r' (firstn 4 r)) rows' rows.
Proof. exact feat_roundtrip. Qed.
Print Assumptions C14_same_keypoint_rows.

(* ... and values with at most five decimals come back exactly *)
Theorem C14_five_decimal_keypoints_exact : forall k : Z, round5 (inject_Z k / 100000) == inject_Z k / 100000.
Proof. exact round5_exact. Qed.
Print Assumptions C14_five_decimal_keypoints_exact.

(* ... the error branch: keypoints with fewer than four columns (not SIFT-like: out of range) are refused on import *)
Theorem C14_narrow_keypoints_refused : forall rows : kprows,
  (exists r, In r rows /\ (List.length r < 4)%nat) -> import_feat (export_feat rows) = None.
Proof. exact feat_narrow_refused. Qed.
Print Assumptions C14_narrow_keypoints_refused.

(* non-vacuity, with exact ties of the rounding (odd multiples of 1/64: round half even), a negative value, a
   fifth column that is dropped, and a file of a single row *)
Example C14_keypoint_rows_example :
  feat_ok [[1 # 64; 3 # 64; -(1 # 64); 123456789 # 10000000; 99]] = true /\
  match import_feat (export_feat [[1 # 64; 3 # 64; -(1 # 64); 123456789 # 10000000; 99]]) with
  | Some rows' => rows_rel Qeq_bool rows' [[1562 # 100000; 4688 # 100000; -(1562 # 100000); 1234568 # 100000]] = true
  | None => False
  end.
Proof. vm_compute. repeat split. Qed.

(* the reader before the repair (fixes/C14-import-keypoints-single-or-no-row.patch) is refuted: an image with exactly
   one keypoint, or with none, made import_openmvg raise (np.loadtxt returns a vector / an empty vector) *)
Lemma C14_single_keypoint_legacy_refuted :
  feat_ok [[1; 2; 3; 4]] = true /\ feat_ok [] = true /\
  import_feat_legacy (export_feat [[1; 2; 3; 4]]) = None /\ import_feat_legacy (export_feat []) = None /\
  import_feat (export_feat []) = Some [] /\
  match import_feat (export_feat [[1; 2; 3; 4]]) with Some r => rows_rel Qeq_bool r [[1; 2; 3; 4]] = true | None => False end.
Proof. vm_compute. repeat split. Qed.

(* --- the pose arithmetic alone: centre = inverse(pose).t, t' = -R c gives t' == t (uses rot * rot^T == I) *)
Theorem C14_centre_translation_inverse : forall p : pose, ~ n2 (pr p) == 0 ->
  centre p =v= pt (MPose.inverse p) /\
  snd (import_pose (centre p, rotation p)) =v= pt p /\
  mmul (rotation p) (mtrans (rotation p)) =m= mid /\ mdet (rotation p) == 1.
Proof.
  intros p NZ. split; [apply centre_inverse|]. split; [|split].
  - unfold import_pose, centre, rotation. cbn [fst snd]. rewrite !mvmul_r_eq, !rot_r_eq, qinv_r_eq.
    rewrite (rot_inv_cancel_r (pr p) (vneg (pt p)) NZ). apply vneg_involutive.
  - rewrite rotation_rot. apply rot_orth_r; exact NZ.
  - rewrite rotation_rot. apply rot_det; exact NZ.
Qed.
Print Assumptions C14_centre_translation_inverse.

(* --- the contract of from_rotation_matrix is met by concrete answers of the library on concrete rotation
       matrices (identity, an exact 180 degree turn, a quarter turn, a generic rational rotation); a total
       rational instance is not constructed here (see docs/C14.md), the contract is sampled on every run *)
Example C14_contract_instances :
  let ok (q : quat) := rot q =m= rot q /\ mmul (rot q) (mtrans (rot q)) =m= mid /\ mdet (rot q) == 1 /\ ~ n2 q == 0 in
  ok (mkQ 1 0 0 0) /\ ok (mkQ 0 1 0 0) /\ ok (mkQ 1 0 0 1) /\ ok (mkQ (1#3) (3#5) (4#5) (-2#7)) /\
  rot (mkQ 0 1 0 0) =m= mkM 1 0 0  0 (-1) 0  0 0 (-1) /\ rot (mkQ 0 (-3) 0 0) =m= rot (mkQ 0 1 0 0).
Proof. vm_compute. repeat split; discriminate. Qed.

(* --- explicitly out of range: OpenMVG has no model for these *)
Theorem C14_not_expressible : forall ps,
  representable (mkCam OPENCV_FISHEYE ps) = false /\ representable (mkCam RADIAL_FISHEYE ps) = false /\
  representable (mkCam SIMPLE_RADIAL_FISHEYE ps) = false /\ representable (mkCam FOV ps) = false /\
  representable (mkCam THIN_PRISM_FISHEYE ps) = false /\ representable (mkCam UNKNOWN_CAMERA ps) = false.
Proof. exact fisheye_not_representable. Qed.
Print Assumptions C14_not_expressible.

(* --- the model's tables are those of the tree under test (Gen/Topenmvg.v is regenerated on every check):
       every kapture camera model is a case of the model with the same parameter count; the OpenMVG model
       names are exactly the converter's; the default focal factor is the exporter's *)
Theorem C14_tables_current :
  map (fun t => (ctype_name t, param_count t)) all_ctypes = Topenmvg.camera_param_counts /\
  map model_name [Mpinhole; Mradial_k1; Mradial_k3; Mbrown_t2; Mfisheye] = Topenmvg.openmvg_models /\
  focal_factor = Topenmvg.default_focal_factor.
Proof. vm_compute. repeat split. Qed.
Print Assumptions C14_tables_current.

(* --- non-vacuity: a concrete dataset in range on which every clause bites: two directories under a shared
       one, flattening, a Brown camera shared by two images and a PINHOLE, an exact 180 degree turn and a
       non-unit quaternion, points with observations, a pair stored against the lexical order *)
Definition ex_cfg : config := mkCfg true false "images".
Definition ex_data : dataset :=
  mkData [("camB", mkCam FULL_OPENCV [640; 480; 500; 500; 320; 240; 1#10; -(1#50); 1#1000; 1#500; 3#100; 0; 0; 0]);
          ("camA", mkCam PINHOLE [64; 48; 50; 50; 32; 24])]%Q
         [mkImg 10 "camB" ["run"; "left"; "2.jpg"]; mkImg 10 "camA" ["run"; "right"; "1.jpg"];
          mkImg 17 "camB" ["run"; "left"; "10.jpg"]]
         [((10%Z, "camB"), mkP (mkQ 0 1 0 0) (mkV 1 2 3)); ((10%Z, "camA"), mkP (mkQ 2 0 0 2) (mkV (1#2) (-1) 7));
          ((17%Z, "camB"), mkP (mkQ (1#3) (3#5) (4#5) 0) (mkV (-3) 4 5))]%Q
         (Some [mkV 1 2 3; mkV 4 5 6])%Q
         [(0%Z, [(["run"; "left"; "2.jpg"], 1%Z); (["run"; "right"; "1.jpg"], 3%Z)]); (1%Z, [(["run"; "left"; "10.jpg"], 0%Z)])]
         [(["run"; "left"; "2.jpg"], 0%Z); (["run"; "right"; "1.jpg"], 1%Z); (["run"; "left"; "10.jpg"], 2%Z)]
         [((["run"; "right"; "1.jpg"], ["run"; "left"; "10.jpg"]), [(4, 0)]%Z);
          ((["run"; "left"; "2.jpg"], ["run"; "right"; "1.jpg"]), [(0, 1); (2, 3)]%Z)].

Example C14_example :
  in_range ex_cfg ex_data = true /\
  map (rename ex_cfg ex_data) (names ex_data) = [["run"; "left_2.jpg"]; ["run"; "right_1.jpg"]; ["run"; "left_10.jpg"]] /\
  match import_core (xsfm ex_cfg ex_data) with
  | Some k => map fst (r_matches k) = [(["run"; "left_10.jpg"], ["run"; "right_1.jpg"]); (["run"; "left_2.jpg"], ["run"; "right_1.jpg"])]
              /\ map snd (r_matches k) = [[(0, 4)]; [(0, 1); (2, 3)]]%Z
              /\ obs_at (r_obs k) 0 = [(["run"; "left_2.jpg"], 1%Z); (["run"; "right_1.jpg"], 3%Z)]
              /\ map (fun e => c_type (snd e)) (r_cams k) = [FULL_OPENCV; SIMPLE_PINHOLE]
  | None => False
  end.
Proof. vm_compute. repeat split. Qed.

(* --- both intrinsics layouts: what the importer reads back does not depend on the layout the exporter was asked to
       write (v1 'value0' / v2 flat), and the exporter raises for one exactly when it raises for the other:
       for EVERY dataset, in range or not *)
Theorem C14_layout_independent : forall (fl : bool) (rb : string) (d : dataset),
  match export (mkCfg fl true rb) d, export (mkCfg fl false rb) d with
  | Some s2, Some s1 => import_core s2 = import_core s1
  | None, None => True
  | _, _ => False
  end.
Proof. exact import_core_layout. Qed.
Print Assumptions C14_layout_independent.
(* the two exports of the example do differ (the Brown camera is written in the other layout) *)
Example C14_layouts_differ :
  option_map (fun s => map (fun e => in_layout (snd e)) (s_intrinsics s)) (export (mkCfg true true "images") ex_data)
    = Some [Flat; Flat] /\
  option_map (fun s => map (fun e => in_layout (snd e)) (s_intrinsics s)) (export (mkCfg true false "images") ex_data)
    = Some [Value0; Flat].
Proof. vm_compute. repeat split. Qed.

(* --- flattened names that collide are out of range, and indeed two images would be merged *)
Example C14_flatten_collision_out_of_range :
  let d := mkData [("c", mkCam SIMPLE_PINHOLE [4; 4; 5; 2; 2]%Q)]
                  [mkImg 1 "c" ["a"; "b_1.jpg"]; mkImg 2 "c" ["a_b"; "1.jpg"]]
                  [((1%Z, "c"), pid); ((2%Z, "c"), pid)] None [] [] [] in
  in_range (mkCfg true false "images") d = false /\ in_range (mkCfg false false "images") d = true /\
  map (rename (mkCfg true false "images") d) (names d) = [["images"; "a_b_1.jpg"]; ["images"; "a_b_1.jpg"]].
Proof. vm_compute. repeat split. Qed.

(* --- the behaviour before the repair is refuted: with flattening and a directory shared by all images the
       regions files were named after the whole kapture name ("cam0_1.feat") while the view, and therefore the
       importer, use the name relative to the shared directory ("1.feat"): keypoints are not found and the
       observations of an in-range dataset are lost *)
Definition legacy_cfg : config := mkCfg true false "images".
Definition legacy_data : dataset :=
  mkData [("c", mkCam SIMPLE_PINHOLE [4; 4; 5; 2; 2]%Q)]
         [mkImg 1 "c" ["cam0"; "1.jpg"]] [((1%Z, "c"), pid)] (Some [mkV 1 2 3]%Q)
         [(0%Z, [(["cam0"; "1.jpg"], 2%Z)])] [(["cam0"; "1.jpg"], 0%Z)] [].
Lemma C14_legacy_refuted :
  in_range legacy_cfg legacy_data = true /\
  match export_legacy legacy_cfg legacy_data with
  | Some s => s_regions s = [("cam0_1", 0%Z)] /\
              match import_core s with Some k => r_kp k = [] /\ obs_at (r_obs k) 0 = [] | None => False end
  | None => False
  end /\
  match export legacy_cfg legacy_data with
  | Some s => s_regions s = [("1", 0%Z)] /\
              match import_core s with
              | Some k => r_kp k = [(["cam0"; "1.jpg"], 0%Z)] /\ obs_at (r_obs k) 0 = [(["cam0"; "1.jpg"], 2%Z)]
              | None => False
              end
  | None => False
  end.
Proof. vm_compute. repeat split. Qed.
