(* Props/C15.v — property C15: OpenSfM export then import preserves shots, poses, cameras, points,
   matches.  Only statements; every proof is a lemma of Proofs/POpensfm.v about the executable model
   Model/MOpensfm.v.  PART A is about the code as it is (one clause of the property fails there: a known
   finding, stated positively as what still holds and refuted by a witness); PART B about the repaired model.

   All theorems quantify over
     - every dataset [d] with [in_range d = true]  (cameras SIMPLE_PINHOLE / SIMPLE_RADIAL / RADIAL with
       integral positive size and the principal point at the image centre, image names unique, every
       image with a trajectory entry of its own whose quaternion is not zero, points with colours,
       features and matches referring to recorded images), of any size;
     - every pair of functions [to_rv] (as_rotation_vector) / [of_rv] (from_rotation_vector).
   The rotation theorem alone needs the library contract, and only on the quaternions of [d]:
       rotvec_contract_on to_rv of_rv d :=
         forall (k, p) in d_traj d,  n2 (p_r p) <> 0 -> rot (of_rv (to_rv (p_r p))) =m= rot (p_r p). *)
From Coq Require Import List Bool String ZArith QArith Sorting.Permutation.
From KV Require Import Eqb AL Str.
From KV.Model Require Import MQV MOpensfm.
From KV.Proofs Require Import PQV POpensfm.
Import ListNotations.
Local Open Scope string_scope.
Local Open Scope Q_scope.
Local Open Scope list_scope.

(* =====================================================================================================
   PART A — THE CODE AS IT IS in the tree under test ([roundtrip] = import_ . export, the functions the
   correspondence run compares with the implementation).  Every clause of the property holds, except that
   the importer orders the point ids as STRINGS (known finding, see docs/C15.md): the point sequence comes
   back permuted by that fixed order — identical up to ten points, the same multiset for any number.
   ===================================================================================================== *)
Section C15_as_is.
  Variable to_rv : quat -> vec.
  Variable of_rv : vec -> quat.
  Variable d : dataset.
  Hypothesis in_range_d : in_range d = true.

  Ltac back H := rewrite (roundtrip_total to_rv of_rv d in_range_d) in H; injection H as <-.

  (* --- 0. the round trip never fails inside the range *)
  Theorem C15_roundtrip_succeeds : exists d', roundtrip to_rv of_rv d = Ok d'.
  Proof. eexists. apply roundtrip_total. exact in_range_d. Qed.

  (* --- 1. the same image names, bound to the same camera identifiers (nothing added, nothing lost) *)
  Theorem C15_images_and_camera_binding : forall d', roundtrip to_rv of_rv d = Ok d' ->
    map (fun i => (i_name i, i_cam i)) (d_images d') = map (fun i => (i_name i, i_cam i)) (d_images d).
  Proof. intros d' H. back H. apply images_preserved. Qed.

  (* --- 2. each image comes back with the same world-to-camera pose: the same rotation (as a rotation
          matrix, for any non-zero quaternion incl. half turns) and the very same translation; and there
          is exactly one pose per image afterwards *)
  Theorem C15_poses : forall d', roundtrip to_rv of_rv d = Ok d' ->
    rotvec_contract_on to_rv of_rv d ->
    forall im p, In im (d_images d) -> lookup (i_ts im, i_cam im) (d_traj d) = Some p ->
    exists ts' p', In (mkImg ts' (i_cam im) (i_name im)) (d_images d') /\
                   lookup (ts', i_cam im) (d_traj d') = Some p' /\
                   rot (p_r p') =m= rot (p_r p) /\ p_t p' = p_t p.
  Proof. intros d' H C im p I L. back H. apply poses_preserved; assumption. Qed.

  Theorem C15_one_pose_per_image : forall d', roundtrip to_rv of_rv d = Ok d' ->
    List.length (d_traj d') = List.length (d_images d).
  Proof. intros d' H. back H. apply one_pose_per_image. Qed.

  (* --- 3. cameras: same identifiers; each comes back as RADIAL with the same perspective parameters
          (w, h, f, k1, k2) — the focal length exactly, over Q — and the same (centred) principal point *)
  Theorem C15_camera_ids : forall d', roundtrip to_rv of_rv d = Ok d' ->
    map fst (d_cameras d') = map fst (d_cameras d).
  Proof. intros d' H. back H. apply camera_ids_preserved. Qed.

  Theorem C15_camera_parameters : forall d', roundtrip to_rv of_rv d = Ok d' ->
    forall id c, lookup id (d_cameras d) = Some c ->
    exists c', lookup id (d_cameras d') = Some c' /\ c_type c' = Radial /\
               qlist_eq (persp c') (persp c) /\
               nthq (c_params c') 3 == nthq (c_params c) 3 /\ nthq (c_params c') 4 == nthq (c_params c) 4.
  Proof. intros d' H id c L. back H. apply cameras_preserved; assumption. Qed.

  (* --- 4 (as is). the points come back in the STRING order of their decimal ids: the original sequence
          permuted by [string_order_perm] (ids "0","1","10","11",...,"2",...) ... *)
  Theorem C15_points_as_is_string_order : forall d', roundtrip to_rv of_rv d = Ok d' ->
    d_points d' = option_map string_order_perm (d_points d).
  Proof. intros d' H. back H. reflexivity. Qed.

  (* ... hence the same multiset of (coordinates, colour) rows, for any number of points ... *)
  Theorem C15_points_as_is_same_multiset : forall d', roundtrip to_rv of_rv d = Ok d' ->
    match d_points d, d_points d' with
    | Some rows, Some rows' => Permutation rows' rows
    | None, None => True
    | _, _ => False
    end.
  Proof.
    intros d' H. back H. cbn. destruct (d_points d) as [rows|]; cbn; [|exact I].
    apply string_order_perm_Permutation.
  Qed.

  (* ... and the very same sequence as long as there are at most ten points *)
  Theorem C15_points_as_is_same_sequence_upto_ten : forall d', roundtrip to_rv of_rv d = Ok d' ->
    match d_points d with Some rows => (List.length rows <= 10)%nat | None => True end ->
    d_points d' = d_points d.
  Proof.
    intros d' H L. back H. cbn. destruct (d_points d) as [rows|]; cbn; [|reflexivity].
    rewrite string_order_perm_upto_ten by exact L. reflexivity.
  Qed.

  (* --- 5. keypoints and descriptors: for every name, the same array (or the same absence) *)
  Theorem C15_keypoints : forall d', roundtrip to_rv of_rv d = Ok d' ->
    forall n, lookup n (d_keypoints d') = lookup n (d_keypoints d).
  Proof. intros d' H n. back H. apply keypoints_preserved; assumption. Qed.

  Theorem C15_descriptors : forall d', roundtrip to_rv of_rv d = Ok d' ->
    forall n, lookup n (d_descriptors d') = lookup n (d_descriptors d).
  Proof. intros d' H n. back H. apply descriptors_preserved; assumption. Qed.

  (* --- 6. matches: for every ordered pair of names, the same list of keypoint index pairs (the score
          column is not carried by OpenSfM and comes back as 1) or the same absence *)
  Theorem C15_match_index_pairs : forall d', roundtrip to_rv of_rv d = Ok d' ->
    forall a b, option_map (map mrow_idx) (lookup (a, b) (d_matches d'))
                = option_map (map mrow_idx) (lookup (a, b) (d_matches d)).
  Proof.
    intros d' H a b. back H. rewrite (matches_preserved to_rv of_rv d in_range_d).
    destruct (lookup (a, b) (d_matches d)) as [rows|]; cbn; [|reflexivity].
    f_equal. rewrite map_map. cbn. rewrite map_id. reflexivity.
  Qed.
End C15_as_is.

Print Assumptions C15_roundtrip_succeeds.
Print Assumptions C15_images_and_camera_binding.
Print Assumptions C15_poses.
Print Assumptions C15_one_pose_per_image.
Print Assumptions C15_camera_ids.
Print Assumptions C15_camera_parameters.
Print Assumptions C15_points_as_is_string_order.
Print Assumptions C15_points_as_is_same_multiset.
Print Assumptions C15_points_as_is_same_sequence_upto_ten.
Print Assumptions C15_keypoints.
Print Assumptions C15_descriptors.
Print Assumptions C15_match_index_pairs.

(* --- 4 (as is), the clause of the property that FAILS on the code as it is: an in-range dataset with eleven
   points whose round trip succeeds and changes the sequence (it comes back 0,1,10,2,...,9).  This is the
   known finding `points imported in string order of their ids (more than 10 points)`. *)
Definition no_images (pts : option (list (list Q))) : dataset :=
  {| d_cameras := []; d_images := []; d_traj := []; d_points := pts;
     d_keypoints := []; d_descriptors := []; d_matches := [] |}.
Definition eleven_points : list (list Q) := map (fun i => [inject_Z (Z.of_nat i); 0; 0; 0; 0; 0]) (seq 0 11).

Theorem C15_points_sequence_refuted : forall to_rv of_rv,
  exists d, in_range d = true /\ option_map (@List.length _) (d_points d) = Some 11%nat /\
  exists d', roundtrip to_rv of_rv d = Ok d' /\ d_points d' <> d_points d /\
             option_map (map (fun r => nthq r 0)) (d_points d') = Some [0; 1; 10; 2; 3; 4; 5; 6; 7; 8; 9].
Proof.
  intros to_rv of_rv. exists (no_images (Some eleven_points)).
  split; [vm_compute; reflexivity|]. split; [vm_compute; reflexivity|].
  eexists. split; [vm_compute; reflexivity|].
  split; [|vm_compute; reflexivity]. vm_compute. intro H. discriminate H.
Qed.
Print Assumptions C15_points_sequence_refuted.

(* =====================================================================================================
   PART B — THE REPAIRED MODEL ([roundtrip_repaired]: `sorted(opensfm_points, key=int)`, the patch kept in
   fixes/not-applied/ because it needs the stored sample fixtures regenerated).  NOT the code under test.
   With it the property holds at full strength: the point sequence is preserved for any length, and nothing
   else changes with respect to Part A.
   ===================================================================================================== *)
Definition set_points (pts : option (list (list Q))) (x : dataset) : dataset :=
  {| d_cameras := d_cameras x; d_images := d_images x; d_traj := d_traj x; d_points := pts;
     d_keypoints := d_keypoints x; d_descriptors := d_descriptors x; d_matches := d_matches x |}.

Theorem C15_repaired_points_sequence : forall to_rv of_rv d, in_range d = true ->
  exists d', roundtrip_repaired to_rv of_rv d = Ok d' /\ d_points d' = d_points d.
Proof. intros to_rv of_rv d R. eexists. split; [apply roundtrip_repaired_total; exact R|reflexivity]. Qed.
Print Assumptions C15_repaired_points_sequence.

(* every other clause of Part A transfers verbatim: the two results differ in the point cloud only *)
Theorem C15_repaired_differs_in_points_only : forall to_rv of_rv d, in_range d = true ->
  forall d0, roundtrip to_rv of_rv d = Ok d0 ->
  roundtrip_repaired to_rv of_rv d = Ok (set_points (d_points d) d0).
Proof.
  intros to_rv of_rv d R d0 H. rewrite (roundtrip_total to_rv of_rv d R) in H. injection H as <-.
  rewrite (roundtrip_repaired_total to_rv of_rv d R). reflexivity.
Qed.
Print Assumptions C15_repaired_differs_in_points_only.

(* --- specific lemmas named by the design *)
(* focal normalisation: f / max(w,h) * max(int(w), int(h)) = f exactly, also for portrait images *)
Theorem C15_focal_normalisation_exact : forall f w h,
  is_int w = true -> is_int h = true -> pos w = true -> pos h = true ->
  f / qmax w h * inject_Z (Z.max (qtrunc w) (qtrunc h)) == f.
Proof. exact focal_roundtrip. Qed.
Print Assumptions C15_focal_normalisation_exact.

(* point ids "0", "1", ..., "n-1": ordered by NUMBER they stay in place, for every n ... *)
Theorem C15_numeric_id_order_any_length : forall n,
  map show_nat (map fst (nsort (keyed 0 (seq 0 n)))) = map show_nat (seq 0 n).
Proof. exact sort_numeric_ids. Qed.
Print Assumptions C15_numeric_id_order_any_length.

(* ... ordered as STRINGS (the legacy importer) they never do once there are more than ten *)
Theorem C15_string_id_order_breaks_beyond_ten : forall (V : Type) (vs : list V),
  (10 < List.length vs)%nat -> ksort (skeyed 0 vs) <> skeyed 0 vs.
Proof. intros V. exact sort_string_breaks. Qed.
Print Assumptions C15_string_id_order_breaks_beyond_ten.

(* on the ids themselves the as-is order moves something for EVERY n above ten *)
Theorem C15_string_order_moves_ids_beyond_ten : forall n, (10 < n)%nat -> string_order_perm (seq 0 n) <> seq 0 n.
Proof. exact string_order_ids_beyond_ten. Qed.
Print Assumptions C15_string_order_moves_ids_beyond_ten.

(* --- non-vacuity: a concrete in-range dataset (two cameras, one portrait; three images named in
   non-lexical order in nested folders; a half turn and a near half turn; twelve points; features on two
   images, one of them keypoints only; two match pairs in both orientations), with a concrete pair of
   conversion functions that satisfies the contract on it (Cayley / Gibbs vector: (x,y,z)/w and back,
   rational and defined for w <> 0). *)
Definition cayley_to (q : quat) : vec := mkV (qx q / qw q) (qy q / qw q) (qz q / qw q).
Definition cayley_of (v : vec) : quat := mkQ 1 (vx v) (vy v) (vz v).

Definition ex_points : list (list Q) :=
  map (fun i => [inject_Z (Z.of_nat i); 1 # 2; - inject_Z (Z.of_nat i); 10; 20; inject_Z (Z.of_nat i)]) (seq 0 12).

Definition ex_d : dataset :=
  {| d_cameras := [("camB", mkCam SimplePinhole [480; 640; 1001 # 2; 240; 320]);
                   ("camA", mkCam Radial [641; 481; 3333 # 10; 641 # 2; 481 # 2; 1 # 100; -2 # 100])];
     d_images := [mkImg 5 "camB" "z/b.jpg"; mkImg 15 "camA" "a.jpg"; mkImg 25 "camA" "m/n/c.jpg"];
     d_traj := [((5%Z, "camB"), mkPose (mkQ 1 0 0 0) (mkV 0 0 0));
                ((15%Z, "camA"), mkPose (mkQ (1 # 1000000) 3 (-4) 12) (mkV 1 (1 # 10) (-13 # 4)));
                ((25%Z, "camA"), mkPose (mkQ (-1 # 2) (1 # 2) (1 # 2) (1 # 2)) (mkV 2 (2 # 10) (-13 # 4)))];
     d_points := Some ex_points;
     d_keypoints := [("a.jpg", mkArr "float32" 4 [0; 1065353216; 1073741824; 1077936128]);
                     ("z/b.jpg", mkArr "float32" 4 [])]%N;
     d_descriptors := [("a.jpg", mkArr "uint8" 2 [7; 255])]%N;
     d_matches := [(("z/b.jpg", "a.jpg"), [((0%Z, 1%Z), 1 # 2); ((1%Z, 0%Z), 1 # 4)]);
                   (("a.jpg", "m/n/c.jpg"), [])] |}.

Example C15_example :
  in_range ex_d = true /\
  rotvec_contract_on cayley_to cayley_of ex_d /\
  exists d', roundtrip cayley_to cayley_of ex_d = Ok d' /\
             map (fun i => (i_name i, i_cam i)) (d_images d') = [("z/b.jpg", "camB"); ("a.jpg", "camA"); ("m/n/c.jpg", "camA")] /\
             d_points d' = Some (string_order_perm ex_points) /\ d_points d' <> Some ex_points /\
             map fst (d_keypoints d') = ["z/b.jpg"; "a.jpg"] /\ map fst (d_descriptors d') = ["a.jpg"] /\
             map fst (d_matches d') = [("z/b.jpg", "a.jpg"); ("a.jpg", "m/n/c.jpg")].
Proof.
  split; [vm_compute; reflexivity|]. split.
  - intros k p I _. cbn in I.
    destruct I as [E|[E|[E|[]]]]; inversion E; subst; vm_compute; repeat split; reflexivity.
  - eexists. split; [vm_compute; reflexivity|]. vm_compute. repeat split; try reflexivity.
    intro H; discriminate H.
Qed.

(* --- the behaviour of the tree before the four committed repairs is refuted (witnesses by computation) *)
Definition one_image (kp : list (string * arr)) (ms : list ((string * string) * list mrow)) : dataset :=
  {| d_cameras := [("cam", mkCam SimplePinhole [640; 480; 500; 320; 240])];
     d_images := [mkImg 0 "cam" "a.jpg"]; d_traj := [((0%Z, "cam"), mkPose (mkQ 1 0 0 0) (mkV 0 0 0))];
     d_points := None; d_keypoints := kp; d_descriptors := []; d_matches := ms |}.

(* (2) the features files were written under a name the importer never looks at: keypoints vanish *)
Lemma C15_features_legacy_refuted : forall to_rv,
  let d := one_image [("a.jpg", mkArr "float32" 4 [0; 0; 0; 0]%N)] [] in
  in_range d = true /\
  exists d', export_legacy to_rv d = Ok d' /\ o_features d' = [] /\
             exists p, export to_rv d = Ok p /\ o_features p <> [].
Proof.
  intros to_rv d. split; [vm_compute; reflexivity|]. eexists. split; [vm_compute; reflexivity|].
  split; [reflexivity|]. eexists. split; [vm_compute; reflexivity|]. discriminate.
Qed.

(* (3) writing a match file raised AttributeError (np.int) *)
Lemma C15_matches_export_legacy_refuted : forall to_rv,
  let d := one_image [] [(("a.jpg", "a.jpg"), [((0%Z, 0%Z), 1)])] in
  in_range d = true /\ export_legacy to_rv d = Err ENpInt.
Proof. intros to_rv d. split; vm_compute; reflexivity. Qed.

(* (4) keypoints without descriptors: the (repaired) exporter's file made the legacy importer raise KeyError *)
Lemma C15_keypoints_only_legacy_refuted : forall to_rv of_rv,
  let d := one_image [("a.jpg", mkArr "float32" 4 [0; 0; 0; 0]%N)] [] in
  in_range d = true /\ bind (export to_rv d) (import_legacy of_rv) = Err EMissingArray.
Proof. intros to_rv of_rv d. split; vm_compute; reflexivity. Qed.

(* (5) an empty point cloud (0 points, inside the quantifier) made the legacy importer raise ValueError *)
Lemma C15_empty_cloud_legacy_refuted : forall to_rv of_rv,
  in_range (no_images (Some [])) = true /\
  bind (export to_rv (no_images (Some []))) (import_legacy of_rv) = Err EPointsShape /\
  roundtrip to_rv of_rv (no_images (Some [])) = Ok (no_images (Some [])).
Proof. intros to_rv of_rv. repeat split; vm_compute; reflexivity. Qed.

(* =====================================================================================================
   PART C — HISTORIES: the export directory was used before.  [prev] is ANY project found there (what an
   earlier export_opensfm, of this or of another dataset, left); [export_onto prev d] is the export of [d]
   into that directory as the code does it — reconstruction.json / camera_models.json rewritten, a features
   file written over for every image that has keypoints or descriptors, a matches file written over for
   every image when there are matches, nothing deleted — and [roundtrip_onto prev d] the import of the
   result.  [covered_by prev d]: every features / matches file of [prev] is one that the export of [d]
   writes again (the recording grew, its features were extracted anew: the usual re-export).
   ===================================================================================================== *)
(* a fresh directory is the empty history *)
Theorem C15_fresh_directory_is_the_empty_history : forall to_rv d,
  export_onto to_rv empty_project d = export to_rv d.
Proof. exact export_onto_empty. Qed.
Print Assumptions C15_fresh_directory_is_the_empty_history.

(* what the folders hold afterwards, for ANY earlier content and ANY dataset: the files of the dataset win *)
Theorem C15_reexport_features_folder : forall prev d n,
  lookup n (export_features_onto prev d)
  = if memb n (names d)
    then match feature_entry d n with Some e => Some e | None => lookup n prev end
    else lookup n prev.
Proof. exact reexport_features_lookup. Qed.
Print Assumptions C15_reexport_features_folder.

Theorem C15_reexport_matches_folder : forall prev d a,
  lookup a (export_matches_onto prev d)
  = match d_matches d with
    | [] => lookup a prev
    | _ => if memb a (names d) then Some (matches_of d a) else lookup a prev
    end.
Proof. exact reexport_matches_lookup. Qed.
Print Assumptions C15_reexport_matches_folder.

(* ANY history changes the outcome of the round trip in the features and matches only (shots, poses, cameras and
   points are those of Part A), and these are what the importer reads from the folders above *)
Theorem C15_reexport_differs_in_features_and_matches_only : forall to_rv of_rv prev d d0,
  roundtrip to_rv of_rv d = Ok d0 ->
  roundtrip_onto to_rv of_rv prev d
  = Ok (set_fm d0 (import_keypoints (export_features_onto (o_features prev) d))
                  (import_descriptors (export_features_onto (o_features prev) d))
                  (import_matches (export_matches_onto (o_matches prev) d))).
Proof. exact roundtrip_onto_spec. Qed.
Print Assumptions C15_reexport_differs_in_features_and_matches_only.

(* THE PROPERTY THROUGH A COVERED HISTORY: for every in-range dataset, whatever the earlier export held in the files
   that are written again (other values, other dtype, other width, other pairs), the re-import gives the keypoints,
   descriptors and match index pairs OF THE DATASET — nothing stale — and everything else as in Part A *)
Theorem C15_reexport_covered_history : forall to_rv of_rv d prev, in_range d = true ->
  NoDup (keys (o_features prev)) -> NoDup (keys (o_matches prev)) -> covered_by prev d ->
  exists d0 d', roundtrip to_rv of_rv d = Ok d0 /\ roundtrip_onto to_rv of_rv prev d = Ok d' /\
    d_cameras d' = d_cameras d0 /\ d_images d' = d_images d0 /\ d_traj d' = d_traj d0 /\ d_points d' = d_points d0 /\
    (forall n, lookup n (d_keypoints d') = lookup n (d_keypoints d)) /\
    (forall n, lookup n (d_descriptors d') = lookup n (d_descriptors d)) /\
    (forall a b, option_map (map mrow_idx) (lookup (a, b) (d_matches d'))
                 = option_map (map mrow_idx) (lookup (a, b) (d_matches d))).
Proof.
  intros to_rv of_rv d prev R WF WM COV.
  eexists. eexists. split; [apply roundtrip_total; exact R|]. split.
  { apply roundtrip_onto_spec. apply roundtrip_total; exact R. }
  cbn [set_fm d_cameras d_images d_traj d_points d_keypoints d_descriptors d_matches].
  repeat split.
  - intros n. apply (reexport_keypoints to_rv of_rv d R prev WF COV).
  - intros n. apply (reexport_descriptors to_rv of_rv d R prev WF COV).
  - intros a b. rewrite (reexport_matches to_rv of_rv d R prev WM COV).
    destruct (lookup (a, b) (d_matches d)) as [rows|]; cbn; [|reflexivity].
    f_equal. rewrite map_map. cbn. rewrite map_id. reflexivity.
Qed.
Print Assumptions C15_reexport_covered_history.

(* LEFTOVERS, AS THE CODE IS (observation, outside the judged range): a features file of the earlier export that the
   dataset does not write again survives, and the importer turns it into keypoints the dataset never had *)
Theorem C15_reexport_leftover_keypoints_as_is : forall to_rv of_rv d prev n a ds, in_range d = true ->
  NoDup (keys (o_features prev)) ->
  lookup n (o_features prev) = Some (Some a, ds) -> feature_entry d n = None ->
  lookup n (d_keypoints d) = None /\
  exists d', roundtrip_onto to_rv of_rv prev d = Ok d' /\ lookup n (d_keypoints d') = Some a.
Proof.
  intros to_rv of_rv d prev n a ds R WF L F. split.
  - unfold feature_entry in F. destruct (lookup n (d_keypoints d)); [|reflexivity].
    destruct (lookup n (d_descriptors d)); discriminate F.
  - eexists. split; [apply roundtrip_onto_spec; apply roundtrip_total; exact R|].
    cbn [set_fm d_keypoints].
    rewrite lookup_import_keypoints by (apply wf_export_features_onto; exact WF).
    rewrite (reexport_leftover_features _ _ _ _ L F). reflexivity.
Qed.
Print Assumptions C15_reexport_leftover_keypoints_as_is.

(* non-vacuity of Part C: over [ex_d], an earlier project with OTHER keypoints (another dtype and width) and descriptors for
   a.jpg and another match file for z/b.jpg is a covered history; the re-import yields the arrays of [ex_d] *)
Definition ex_prev : project :=
  with_fm empty_project
          [("a.jpg", (Some (mkArr "float64" 2 [1; 2; 3; 4]%N), Some (mkArr "float32" 1 [9]%N)))]
          [("z/b.jpg", [("a.jpg", [(7%Z, 7%Z)]); ("m/n/c.jpg", [(1%Z, 2%Z)])])].

Example C15_reexport_example :
  covered_by ex_prev ex_d /\ NoDup (keys (o_features ex_prev)) /\ NoDup (keys (o_matches ex_prev)) /\
  exists d', roundtrip_onto cayley_to cayley_of ex_prev ex_d = Ok d' /\
             lookup "a.jpg" (d_keypoints d') = Some (mkArr "float32" 4 [0; 1065353216; 1073741824; 1077936128]%N) /\
             map fst (d_matches d') = [("z/b.jpg", "a.jpg"); ("a.jpg", "m/n/c.jpg")].
Proof.
  split.
  { split.
    - intros n. cbn [ex_prev with_fm o_features lookup]. destruct (eqb_spec n "a.jpg") as [->|_]; [|tauto].
      intros _. split; [vm_compute; reflexivity|vm_compute; discriminate].
    - intros a. cbn [ex_prev with_fm o_matches lookup]. destruct (eqb_spec a "z/b.jpg") as [->|_]; [|tauto].
      intros _. split; [vm_compute; discriminate|vm_compute; reflexivity]. }
  split; [repeat constructor; cbn; tauto|]. split; [repeat constructor; cbn; tauto|].
  eexists. split; [vm_compute; reflexivity|]. vm_compute. split; reflexivity.
Qed.

(* --- the other behaviour classes the generator exercises, stated for all inputs *)
(* timestamps: the re-imported images are stamped with the rank of their shot, 0 .. n-1, whatever the timestamps of the
   dataset (shared between synchronised cameras, starting at 0, huge): no two images can collide *)
Theorem C15_timestamps_are_shot_ranks : forall to_rv of_rv d, in_range d = true ->
  forall d', roundtrip to_rv of_rv d = Ok d' ->
  map i_ts (d_images d') = map Z.of_nat (seq 0 (List.length (d_images d))).
Proof.
  intros to_rv of_rv d R d' H. rewrite (roundtrip_total to_rv of_rv d R) in H. injection H as <-.
  cbn [back d_images]. rewrite imgs_from_ts. apply map_ext. intros k. reflexivity.
Qed.
Print Assumptions C15_timestamps_are_shot_ranks.

(* match scores: every row of every pair comes back — same index pairs, same number of rows, score 1 — whatever its
   score was (0, negative, above 1) *)
Theorem C15_match_rows_kept_whatever_the_score : forall to_rv of_rv d, in_range d = true ->
  forall d', roundtrip to_rv of_rv d = Ok d' ->
  forall a b rows, lookup (a, b) (d_matches d) = Some rows ->
  exists rows', lookup (a, b) (d_matches d') = Some rows' /\
                map mrow_idx rows' = map mrow_idx rows /\ List.length rows' = List.length rows /\
                Forall (fun r => snd r = 1) rows'.
Proof.
  intros to_rv of_rv d R d' H a b rows L. rewrite (roundtrip_total to_rv of_rv d R) in H. injection H as <-.
  rewrite (matches_preserved to_rv of_rv d R), L. cbn [option_map]. eexists. split; [reflexivity|].
  split; [|split].
  - rewrite map_map. cbn. apply map_id.
  - rewrite !map_length. reflexivity.
  - apply Forall_forall. intros r I. apply in_map_iff in I. destruct I as (ij & <- & _). reflexivity.
Qed.
Print Assumptions C15_match_rows_kept_whatever_the_score.
