(* Props/C15.v — property C15: OpenSfM export then import preserves shots, poses, cameras, points,
   matches.  Only statements; every proof is a lemma of Proofs/POpensfm.v about the executable model
   Model/MOpensfm.v (export_opensfm / import_opensfm after the repairs fixes/C15-*.patch).

   All theorems quantify over
     - every dataset [d] with [in_range d = true]  (cameras SIMPLE_PINHOLE / SIMPLE_RADIAL / RADIAL with
       integral positive size and the principal point at the image centre, image names unique, every
       image with a trajectory entry of its own whose quaternion is not zero, points with colours,
       features and matches referring to recorded images), of any size;
     - every pair of functions [to_rv] (as_rotation_vector) / [of_rv] (from_rotation_vector).
   The rotation theorem alone needs the library contract, and only on the quaternions of [d]:
       rotvec_contract_on to_rv of_rv d :=
         forall (k, p) in d_traj d,  n2 (p_r p) <> 0 -> rot (of_rv (to_rv (p_r p))) =m= rot (p_r p). *)
From Coq Require Import List Bool String ZArith QArith.
From KV Require Import Eqb AL Str.
From KV.Model Require Import MQV MOpensfm.
From KV.Proofs Require Import PQV POpensfm.
Import ListNotations.
Local Open Scope string_scope.
Local Open Scope Q_scope.
Local Open Scope list_scope.

Section C15.
  Variable to_rv : quat -> vec.
  Variable of_rv : vec -> quat.
  Variable d : dataset.
  Hypothesis in_range_d : in_range d = true.

  Ltac back H := rewrite (roundtrip_total to_rv of_rv d in_range_d) in H; injection H as <-.

  (* --- 0. the round trip never fails inside the range *)
  Theorem C15_roundtrip_succeeds : exists d', roundtrip to_rv of_rv d = Ok d'.
  Proof. eexists. apply roundtrip_total. exact in_range_d. Qed.

  (* --- 1. the same image names, bound to the same camera identifiers (nothing added, nothing lost) *)
  Theorem C15_images_and_camera_binding : forall d', roundtrip to_rv of_rv d = Ok d' ->
    map (fun i => (i_name i, i_cam i)) (d_images d') = map (fun i => (i_name i, i_cam i)) (d_images d).
  Proof. intros d' H. back H. apply images_preserved. Qed.

  (* --- 2. each image comes back with the same world-to-camera pose: the same rotation (as a rotation
          matrix, for any non-zero quaternion incl. half turns) and the very same translation; and there
          is exactly one pose per image afterwards *)
  Theorem C15_poses : forall d', roundtrip to_rv of_rv d = Ok d' ->
    rotvec_contract_on to_rv of_rv d ->
    forall im p, In im (d_images d) -> lookup (i_ts im, i_cam im) (d_traj d) = Some p ->
    exists ts' p', In (mkImg ts' (i_cam im) (i_name im)) (d_images d') /\
                   lookup (ts', i_cam im) (d_traj d') = Some p' /\
                   rot (p_r p') =m= rot (p_r p) /\ p_t p' = p_t p.
  Proof. intros d' H C im p I L. back H. apply poses_preserved; assumption. Qed.

  Theorem C15_one_pose_per_image : forall d', roundtrip to_rv of_rv d = Ok d' ->
    List.length (d_traj d') = List.length (d_images d).
  Proof. intros d' H. back H. apply one_pose_per_image. Qed.

  (* --- 3. cameras: same identifiers; each comes back as RADIAL with the same perspective parameters
          (w, h, f, k1, k2) — the focal length exactly, over Q — and the same (centred) principal point *)
  Theorem C15_camera_ids : forall d', roundtrip to_rv of_rv d = Ok d' ->
    map fst (d_cameras d') = map fst (d_cameras d).
  Proof. intros d' H. back H. apply camera_ids_preserved. Qed.

  Theorem C15_camera_parameters : forall d', roundtrip to_rv of_rv d = Ok d' ->
    forall id c, lookup id (d_cameras d) = Some c ->
    exists c', lookup id (d_cameras d') = Some c' /\ c_type c' = Radial /\
               qlist_eq (persp c') (persp c) /\
               nthq (c_params c') 3 == nthq (c_params c) 3 /\ nthq (c_params c') 4 == nthq (c_params c) 4.
  Proof. intros d' H id c L. back H. apply cameras_preserved; assumption. Qed.

  (* --- 4. the same SEQUENCE of 3-D points with colours, for any number of points *)
  Theorem C15_points_sequence : forall d', roundtrip to_rv of_rv d = Ok d' -> d_points d' = d_points d.
  Proof. intros d' H. back H. apply points_preserved. Qed.

  (* --- 5. keypoints and descriptors: for every name, the same array (or the same absence) *)
  Theorem C15_keypoints : forall d', roundtrip to_rv of_rv d = Ok d' ->
    forall n, lookup n (d_keypoints d') = lookup n (d_keypoints d).
  Proof. intros d' H n. back H. apply keypoints_preserved; assumption. Qed.

  Theorem C15_descriptors : forall d', roundtrip to_rv of_rv d = Ok d' ->
    forall n, lookup n (d_descriptors d') = lookup n (d_descriptors d).
  Proof. intros d' H n. back H. apply descriptors_preserved; assumption. Qed.

  (* --- 6. matches: for every ordered pair of names, the same list of keypoint index pairs (the score
          column is not carried by OpenSfM and comes back as 1) or the same absence *)
  Theorem C15_match_index_pairs : forall d', roundtrip to_rv of_rv d = Ok d' ->
    forall a b, option_map (map mrow_idx) (lookup (a, b) (d_matches d'))
                = option_map (map mrow_idx) (lookup (a, b) (d_matches d)).
  Proof.
    intros d' H a b. back H. rewrite (matches_preserved to_rv of_rv d in_range_d).
    destruct (lookup (a, b) (d_matches d)) as [rows|]; cbn; [|reflexivity].
    f_equal. rewrite map_map. cbn. rewrite map_id. reflexivity.
  Qed.
End C15.

Print Assumptions C15_roundtrip_succeeds.
Print Assumptions C15_images_and_camera_binding.
Print Assumptions C15_poses.
Print Assumptions C15_one_pose_per_image.
Print Assumptions C15_camera_ids.
Print Assumptions C15_camera_parameters.
Print Assumptions C15_points_sequence.
Print Assumptions C15_keypoints.
Print Assumptions C15_descriptors.
Print Assumptions C15_match_index_pairs.

(* --- specific lemmas named by the design *)
(* focal normalisation: f / max(w,h) * max(int(w), int(h)) = f exactly, also for portrait images *)
Theorem C15_focal_normalisation_exact : forall f w h,
  is_int w = true -> is_int h = true -> pos w = true -> pos h = true ->
  f / qmax w h * inject_Z (Z.max (qtrunc w) (qtrunc h)) == f.
Proof. exact focal_roundtrip. Qed.
Print Assumptions C15_focal_normalisation_exact.

(* point ids "0", "1", ..., "n-1": ordered by NUMBER they stay in place, for every n ... *)
Theorem C15_numeric_id_order_any_length : forall n,
  map show_nat (map fst (nsort (keyed 0 (seq 0 n)))) = map show_nat (seq 0 n).
Proof. exact sort_numeric_ids. Qed.
Print Assumptions C15_numeric_id_order_any_length.

(* ... ordered as STRINGS (the legacy importer) they never do once there are more than ten *)
Theorem C15_string_id_order_breaks_beyond_ten : forall (V : Type) (vs : list V),
  (10 < List.length vs)%nat -> ksort (skeyed 0 vs) <> skeyed 0 vs.
Proof. intros V. exact sort_string_breaks. Qed.
Print Assumptions C15_string_id_order_breaks_beyond_ten.

(* --- non-vacuity: a concrete in-range dataset (two cameras, one portrait; three images named in
   non-lexical order in nested folders; a half turn and a near half turn; twelve points; features on two
   images, one of them keypoints only; two match pairs in both orientations), with a concrete pair of
   conversion functions that satisfies the contract on it (Cayley / Gibbs vector: (x,y,z)/w and back,
   rational and defined for w <> 0). *)
Definition cayley_to (q : quat) : vec := mkV (qx q / qw q) (qy q / qw q) (qz q / qw q).
Definition cayley_of (v : vec) : quat := mkQ 1 (vx v) (vy v) (vz v).

Definition ex_points : list (list Q) :=
  map (fun i => [inject_Z (Z.of_nat i); 1 # 2; - inject_Z (Z.of_nat i); 10; 20; inject_Z (Z.of_nat i)]) (seq 0 12).

Definition ex_d : dataset :=
  {| d_cameras := [("camB", mkCam SimplePinhole [480; 640; 1001 # 2; 240; 320]);
                   ("camA", mkCam Radial [641; 481; 3333 # 10; 641 # 2; 481 # 2; 1 # 100; -2 # 100])];
     d_images := [mkImg 5 "camB" "z/b.jpg"; mkImg 15 "camA" "a.jpg"; mkImg 25 "camA" "m/n/c.jpg"];
     d_traj := [((5%Z, "camB"), mkPose (mkQ 1 0 0 0) (mkV 0 0 0));
                ((15%Z, "camA"), mkPose (mkQ (1 # 1000000) 3 (-4) 12) (mkV 1 (1 # 10) (-13 # 4)));
                ((25%Z, "camA"), mkPose (mkQ (-1 # 2) (1 # 2) (1 # 2) (1 # 2)) (mkV 2 (2 # 10) (-13 # 4)))];
     d_points := Some ex_points;
     d_keypoints := [("a.jpg", mkArr "float32" 4 [0; 1065353216; 1073741824; 1077936128]);
                     ("z/b.jpg", mkArr "float32" 4 [])]%N;
     d_descriptors := [("a.jpg", mkArr "uint8" 2 [7; 255])]%N;
     d_matches := [(("z/b.jpg", "a.jpg"), [((0%Z, 1%Z), 1 # 2); ((1%Z, 0%Z), 1 # 4)]);
                   (("a.jpg", "m/n/c.jpg"), [])] |}.

Example C15_example :
  in_range ex_d = true /\
  rotvec_contract_on cayley_to cayley_of ex_d /\
  exists d', roundtrip cayley_to cayley_of ex_d = Ok d' /\
             map (fun i => (i_name i, i_cam i)) (d_images d') = [("z/b.jpg", "camB"); ("a.jpg", "camA"); ("m/n/c.jpg", "camA")] /\
             d_points d' = Some ex_points /\
             map fst (d_keypoints d') = ["z/b.jpg"; "a.jpg"] /\ map fst (d_descriptors d') = ["a.jpg"] /\
             map fst (d_matches d') = [("z/b.jpg", "a.jpg"); ("a.jpg", "m/n/c.jpg")].
Proof.
  split; [vm_compute; reflexivity|]. split.
  - intros k p I _. cbn in I.
    destruct I as [E|[E|[E|[]]]]; inversion E; subst; vm_compute; repeat split; reflexivity.
  - eexists. split; [vm_compute; reflexivity|]. vm_compute. repeat split; reflexivity.
Qed.

(* --- the behaviour of the tree before the repairs is refuted (witnesses by computation) *)
Definition no_images (pts : option (list (list Q))) : dataset :=
  {| d_cameras := []; d_images := []; d_traj := []; d_points := pts;
     d_keypoints := []; d_descriptors := []; d_matches := [] |}.
Definition eleven_points : list (list Q) := map (fun i => [inject_Z (Z.of_nat i); 0; 0; 0; 0; 0]) (seq 0 11).
Definition one_image (kp : list (string * arr)) (ms : list ((string * string) * list mrow)) : dataset :=
  {| d_cameras := [("cam", mkCam SimplePinhole [640; 480; 500; 320; 240])];
     d_images := [mkImg 0 "cam" "a.jpg"]; d_traj := [((0%Z, "cam"), mkPose (mkQ 1 0 0 0) (mkV 0 0 0))];
     d_points := None; d_keypoints := kp; d_descriptors := []; d_matches := ms |}.

(* (1) ids ordered as strings: eleven points come back in the order 0,1,10,2,... *)
Lemma C15_points_order_legacy_refuted : forall to_rv of_rv,
  in_range (no_images (Some eleven_points)) = true /\
  exists d', roundtrip_legacy to_rv of_rv (no_images (Some eleven_points)) = Ok d' /\
             d_points d' <> d_points (no_images (Some eleven_points)) /\
             option_map (map (fun r => nthq r 0)) (d_points d') = Some [0; 1; 10; 2; 3; 4; 5; 6; 7; 8; 9].
Proof.
  intros to_rv of_rv. split; [vm_compute; reflexivity|]. eexists. split; [vm_compute; reflexivity|].
  split; [|vm_compute; reflexivity]. vm_compute. intro H. discriminate H.
Qed.

(* (2) the features files were written under a name the importer never looks at: keypoints vanish *)
Lemma C15_features_legacy_refuted : forall to_rv,
  let d := one_image [("a.jpg", mkArr "float32" 4 [0; 0; 0; 0]%N)] [] in
  in_range d = true /\
  exists d', export_legacy to_rv d = Ok d' /\ o_features d' = [] /\
             exists p, export to_rv d = Ok p /\ o_features p <> [].
Proof.
  intros to_rv d. split; [vm_compute; reflexivity|]. eexists. split; [vm_compute; reflexivity|].
  split; [reflexivity|]. eexists. split; [vm_compute; reflexivity|]. discriminate.
Qed.

(* (3) writing a match file raised AttributeError (np.int) *)
Lemma C15_matches_export_legacy_refuted : forall to_rv,
  let d := one_image [] [(("a.jpg", "a.jpg"), [((0%Z, 0%Z), 1)])] in
  in_range d = true /\ export_legacy to_rv d = Err ENpInt.
Proof. intros to_rv d. split; vm_compute; reflexivity. Qed.

(* (4) keypoints without descriptors: the (repaired) exporter's file made the legacy importer raise KeyError *)
Lemma C15_keypoints_only_legacy_refuted : forall to_rv of_rv,
  let d := one_image [("a.jpg", mkArr "float32" 4 [0; 0; 0; 0]%N)] [] in
  in_range d = true /\ bind (export to_rv d) (import_legacy of_rv) = Err EMissingArray.
Proof. intros to_rv of_rv d. split; vm_compute; reflexivity. Qed.

(* (5) an empty point cloud (0 points, inside the quantifier) made the legacy importer raise ValueError *)
Lemma C15_empty_cloud_legacy_refuted : forall to_rv of_rv,
  in_range (no_images (Some [])) = true /\
  bind (export to_rv (no_images (Some []))) (import_legacy of_rv) = Err EPointsShape /\
  roundtrip to_rv of_rv (no_images (Some [])) = Ok (no_images (Some [])).
Proof. intros to_rv of_rv. repeat split; vm_compute; reflexivity. Qed.
