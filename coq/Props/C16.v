(* Props/C16.v — property C16: loading or upgrading a dataset treats file contents purely as data.
   Only statements, each closed by a lemma of Proofs/PEffects.v.

   Reading guide.  [load_e L t] / [upgrade_e L t kt dt gt] (Model/MEffects.v) return the outcome and the list of
   effects of loading / upgrading the directory tree [t]; a tree gives, for every text file, the class of its
   version line and its rows of fields — ANY strings; [L] holds the leaf converters (int(), float(), ...), ANY
   functions.  Paths are lists of components below the dataset root; [inside p] says that no component can leave
   the folder it is joined to (not empty, not "." or "..", no separator).  The theorems quantify over every tree
   and every L; the only hypotheses are what the operating system guarantees about directory listings
   ([wf_listing], [wf_moves]: plain entry names) and, for the upgrade, that the feature types passed BY THE CALLER
   are plain names ([safe_opt]; the tool passes None and the types are then taken from the files). *)
From Coq Require Import List Bool String Arith.
From KV Require Import Eqb Str.
From KV.Model Require Import MEffects.
From KV.Proofs Require Import PEffects.
From KV.Gen Require Import Tdtypes.
Import ListNotations.
Local Open Scope string_scope.
Local Open Scope list_scope.

(* --- 1. whatever the files contain, loading only reads files under the dataset root *)
Theorem C16_load_reads_only : forall (L : leaves) (t : tree),
  wf_listing (t_dirs t) ->
  forall e, In e (snd (load_e L t)) -> exists p, e = Read p /\ inside p = true.
Proof. intros L t WF e I. exact (load_reads_only L t e WF I). Qed.
Print Assumptions C16_load_reads_only.

Corollary C16_load_no_forbidden_effect : forall (L : leaves) (t : tree),
  wf_listing (t_dirs t) ->
  ~ In Eval (snd (load_e L t)) /\ ~ In Spawn (snd (load_e L t)) /\ ~ In Import (snd (load_e L t)) /\
  ~ In Net (snd (load_e L t)) /\ (forall p, ~ In (Write p) (snd (load_e L t))) /\ (forall p, ~ In (Delete p) (snd (load_e L t))).
Proof.
  intros L t WF.
  assert (H : forall e, In e (snd (load_e L t)) -> exists q, e = Read q) by
    (intros e I; destruct (load_reads_only L t e WF I) as [q [E _]]; exists q; exact E).
  split; [intros I; destruct (H _ I) as [q E]; discriminate E|].
  split; [intros I; destruct (H _ I) as [q E]; discriminate E|].
  split; [intros I; destruct (H _ I) as [q E]; discriminate E|].
  split; [intros I; destruct (H _ I) as [q E]; discriminate E|].
  split; intros p I; destruct (H _ I) as [q E]; discriminate E.
Qed.
Print Assumptions C16_load_no_forbidden_effect.

(* --- 2. which files may be read is fixed by the SHAPE of the directory (which files and folders exist, what the
        feature folders list): two datasets of the same shape, with arbitrary different contents and arbitrary
        different converters, can only read paths from one and the same set *)
Theorem C16_load_reads_fixed_by_shape : forall (L L' : leaves) (t t' : tree),
  shape_of t = shape_of t' ->
  (forall e, In e (snd (load_e L t)) -> exists p, e = Read p /\ In p (candidate_paths (shape_of t))) /\
  (forall e, In e (snd (load_e L' t')) -> exists p, e = Read p /\ In p (candidate_paths (shape_of t))).
Proof.
  intros L L' t t' E. split; intros e I.
  - exact (load_reads_candidates L t e I).
  - rewrite E. exact (load_reads_candidates L' t' e I).
Qed.
Print Assumptions C16_load_reads_fixed_by_shape.

(* --- 3. the element type is a whitelist lookup: total, exactly the 13 names with an optional np. / numpy. prefix,
        and it reads back what the writers emit *)
Theorem C16_parse_dtype_whitelist : forall s d,
  parse_dtype s = Some d <->
  s = show_dtype d \/ s = ("np." ++ show_dtype d)%string \/ s = ("numpy." ++ show_dtype d)%string.
Proof. exact parse_dtype_whitelist. Qed.
Print Assumptions C16_parse_dtype_whitelist.

Theorem C16_parse_dtype_roundtrip : forall d, parse_dtype (show_dtype d) = Some d.
Proof. exact parse_dtype_show. Qed.
Print Assumptions C16_parse_dtype_roundtrip.

Theorem C16_parse_dtype_rejects_everything_else : forall s,
  parse_dtype s = None <-> ~ In s accepted_names.
Proof. exact parse_dtype_rejects. Qed.
Print Assumptions C16_parse_dtype_rejects_everything_else.

Theorem C16_accepted_names_count : List.length accepted_names = 39 /\ List.length all_dtypes = 13.
Proof. split; reflexivity. Qed.
Print Assumptions C16_accepted_names_count.

(* --- 4. an element type outside the whitelist is reported, never swallowed: a load of a current-version dataset
        that returns a value has found a whitelisted element type in EVERY descriptor file of every listed
        feature type; and the error produced names the file and the field *)
Theorem C16_invalid_dtype_is_an_error : forall (L : leaves) (t : tree) fs,
  fst (load_e L t) = Value ->
  find_file (t_files t) p_sensors = Some fs -> f_ver fs = VCur ->
  forall k name f, listed_config t k name f ->
    exists r rest d, f_rows f = r :: rest /\ parse_dtype (nth_s 1 r) = Some d.
Proof. exact load_value_dtypes_ok. Qed.
Print Assumptions C16_invalid_dtype_is_an_error.

Theorem C16_invalid_dtype_names_file_and_field : forall (L : leaves) k p r rest,
  List.length r = ncols k -> is_int L (nth_s 2 r) = true -> parse_dtype (nth_s 1 r) = None ->
  cfg_check L k p (r :: rest) = Some (EBadDtype p (nth_s 1 r)).
Proof. exact cfg_check_bad_dtype. Qed.
Print Assumptions C16_invalid_dtype_names_file_and_field.

(* --- 5. the upgrade reads, writes, renames and removes only under the dataset root, and nothing else *)
Theorem C16_upgrade_writes_inside : forall (L : leaves) (t : tree) kt dt gt,
  wf_moves (t_moves t) -> safe_opt kt -> safe_opt dt -> safe_opt gt ->
  forall e, In e (snd (upgrade_e L t kt dt gt)) ->
    exists p, (e = Read p \/ e = Write p \/ e = Delete p) /\ inside p = true.
Proof.
  intros L t kt dt gt WF SK SD SG e I.
  pose proof (upgrade_all_inside L t kt dt gt WF SK SD SG e I) as H.
  destruct e as [p|p|p| | | | ]; cbn in H; try discriminate H; exists p; auto.
Qed.
Print Assumptions C16_upgrade_writes_inside.

(*      ... and, with NO hypothesis at all (any tree, any converters, any feature types passed by the caller, plain or
        not): every effect of the upgrade is a file access; nothing is evaluated, spawned, imported or fetched *)
Theorem C16_upgrade_no_forbidden_effect : forall (L : leaves) (t : tree) kt dt gt,
  (forall e, In e (snd (upgrade_e L t kt dt gt)) -> exists p, e = Read p \/ e = Write p \/ e = Delete p) /\
  ~ In Eval (snd (upgrade_e L t kt dt gt)) /\ ~ In Spawn (snd (upgrade_e L t kt dt gt)) /\
  ~ In Import (snd (upgrade_e L t kt dt gt)) /\ ~ In Net (snd (upgrade_e L t kt dt gt)).
Proof.
  intros L t kt dt gt. pose proof (upgrade_all_access L t kt dt gt) as H.
  split; [intros e I; specialize (H e I); destruct e as [p|p|p| | | | ]; try discriminate H; exists p; auto|].
  repeat split; intros I; specialize (H _ I); discriminate H.
Qed.
Print Assumptions C16_upgrade_no_forbidden_effect.

(* --- non-vacuity: concrete trees on which every clause bites *)
Definition ex_leaves : leaves :=
  {| is_int := fun s => memb s ["0"; "1"; "4"; "128"; "640"; "480"];
     is_float := fun s => memb s ["0"; "1"; "0.5"; "640"; "480"];
     sensor_ok := fun r => eqb r ["front"; "camera"; "UNKNOWN_CAMERA"; "640"; "480"];
     pose_ok := fun _ => true;
     rec_ok := fun _ _ => true |}.
Definition ex_files (dtype : string) : list (path * file) :=
  [ (p_sensors, {| f_ver := VCur; f_rows := [["cam0"; "front"; "camera"; "UNKNOWN_CAMERA"; "640"; "480"]] |});
    (p_rec "camera", {| f_ver := VCur; f_rows := [["0"; "cam0"; "a.jpg"]] |});
    (p_cfg "keypoints" "SIFT", {| f_ver := VCur; f_rows := [["SIFT"; dtype; "4"]] |});
    (p_cfg "descriptors" "SIFT", {| f_ver := VCur; f_rows := [["SIFT"; "np.uint8"; "128"; "SIFT"; "L2"]] |}) ].
Definition ex_tree (dtype : string) : tree :=
  {| t_files := ex_files dtype;
     t_dirs := [(d_feat "keypoints", ["SIFT"]); (d_feat "descriptors", ["SIFT"])];
     t_p3d_ok := true; t_kpt := [("SIFT", "a.jpg")]; t_moves := []; t_json := [] |}.

Example C16_example_listing_wf : forall d, wf_listing (t_dirs (ex_tree d)).
Proof.
  intros d q names n [E|[E|[]]] I; injection E as <- <-; destruct I as [<-|[]]; reflexivity.
Qed.

Example C16_example_load :
  load_e ex_leaves (ex_tree "float32")
  = (Value, [Read p_sensors; Read (p_rec "camera"); Read (p_cfg "keypoints" "SIFT"); Read (p_cfg "descriptors" "SIFT")])
  /\ load_e ex_leaves (ex_tree "__import__('os').system('touch X')")
  = (Error (EBadDtype (p_cfg "keypoints" "SIFT") "__import__('os').system('touch X')"),
     [Read p_sensors; Read (p_rec "camera"); Read (p_cfg "keypoints" "SIFT")])
  /\ listed_config (ex_tree "float32") "keypoints" "SIFT" {| f_ver := VCur; f_rows := [["SIFT"; "float32"; "4"]] |}.
Proof.
  split; [vm_compute; reflexivity|]. split; [vm_compute; reflexivity|].
  split; [cbn; tauto|]. split; [exists ["SIFT"]; split; [reflexivity|cbn; tauto] | reflexivity].
Qed.

Definition ex_tree10 (name : string) : tree :=
  {| t_files := [ (p_sensors, {| f_ver := V10; f_rows := [["cam0"; "front"; "camera"; "UNKNOWN_CAMERA"; "640"; "480"]] |});
                  (p_old_cfg "keypoints", {| f_ver := V10; f_rows := [[name; "float32"; "4"]] |}) ];
     t_dirs := [(d_feat "keypoints", [])];
     t_p3d_ok := false; t_kpt := [];
     t_moves := [(d_feat "keypoints", [["cam0"; "a.jpg.kpt"]])]; t_json := [] |}.

Example C16_example_upgrade :
  upgrade_e ex_leaves (ex_tree10 "SIFT") None None None
  = (Value, [Read p_sensors; Write p_sensors; Read (p_old_cfg "keypoints"); Delete (p_old_cfg "keypoints");
             Write (p_cfg "keypoints" "SIFT");
             Delete ["reconstruction"; "keypoints"; "cam0"; "a.jpg.kpt"];
             Write ["reconstruction"; "keypoints"; "SIFT"; "cam0"; "a.jpg.kpt"]])
  /\ upgrade_e ex_leaves (ex_tree10 "../../../x") None None None
  = (Error (EBadName (p_old_cfg "keypoints") "../../../x"),
     [Read p_sensors; Write p_sensors; Read (p_old_cfg "keypoints"); Delete (p_old_cfg "keypoints")])
  /\ wf_moves (t_moves (ex_tree10 "SIFT")).
Proof.
  split; [vm_compute; reflexivity|]. split; [vm_compute; reflexivity|].
  intros d rels rel [E|[]] I; injection E as <- <-; destruct I as [<-|[]]; reflexivity.
Qed.

(* --- the behaviour before the repair is refuted: the element type was evaluated while loading and while
       upgrading, and the upgrade used the name field of a 1.0 file as a folder name unchecked *)
Lemma C16_load_legacy_refuted :
  exists t, wf_listing (t_dirs t) /\ In Eval (snd (load_legacy_e ex_leaves t)).
Proof.
  exists (ex_tree "__import__('os').system('touch X')"). split; [apply C16_example_listing_wf|].
  vm_compute. tauto.
Qed.

Lemma C16_upgrade_legacy_refuted :
  exists t, wf_moves (t_moves t) /\
    In Eval (snd (upgrade_legacy_e ex_leaves t None None None)) /\
    exists p, In (Write p) (snd (upgrade_legacy_e ex_leaves t None None None)) /\ inside p = false.
Proof.
  exists (ex_tree10 "../../../x"). split.
  - intros d rels rel [E|[]] I; injection E as <- <-; destruct I as [<-|[]]; reflexivity.
  - split; [vm_compute; tauto|].
    exists ["reconstruction"; "keypoints"; "../../../x"; "keypoints.txt"]. split; [vm_compute; tauto|reflexivity].
Qed.

(* --- 6. no partial match.  An accepted element type consists of lower-case ASCII letters, digits and dots, so a field
        that contains any other byte is rejected wherever an accepted name may sit inside it: the str(type) /
        repr(dtype) wrappers with anything after them, brackets, quotes, calls, spaces, upper case, and every
        non-ASCII look-alike (each byte of a multi-byte UTF-8 character is >= 128). *)
Theorem C16_parse_dtype_charset : forall s d, parse_dtype s = Some d -> all_chars dtype_char s = true.
Proof. exact parse_dtype_charset. Qed.
Print Assumptions C16_parse_dtype_charset.

Theorem C16_parse_dtype_rejects_foreign_char : forall s c,
  has_char c s = true -> dtype_char c = false -> parse_dtype s = None.
Proof. exact parse_dtype_foreign_char. Qed.
Print Assumptions C16_parse_dtype_rejects_foreign_char.

Theorem C16_parse_dtype_rejects_type_repr : forall n tail,
  parse_dtype ("<class '" ++ n ++ "'>" ++ tail)%string = None /\ parse_dtype ("dtype('" ++ n ++ "')" ++ tail)%string = None.
Proof. intros n tail. split; [apply parse_dtype_class_repr | apply parse_dtype_dtype_repr]. Qed.
Print Assumptions C16_parse_dtype_rejects_type_repr.

(*      text AFTER an accepted name gives an accepted name only when it is the (at most two) digits of another
        whitelisted name (int -> int16); text BEFORE one only when it is np. / numpy. and/or the u of uintN *)
Theorem C16_parse_dtype_no_suffix : forall s t d d',
  parse_dtype s = Some d -> parse_dtype (s ++ t)%string = Some d' -> all_chars is_digit t = true /\ String.length t <= 2.
Proof. exact parse_dtype_extension. Qed.
Print Assumptions C16_parse_dtype_no_suffix.

Theorem C16_parse_dtype_tail_rejected : forall s t d c,
  parse_dtype s = Some d -> has_char c t = true -> is_digit c = false -> parse_dtype (s ++ t)%string = None.
Proof. exact parse_dtype_tail_rejected. Qed.
Print Assumptions C16_parse_dtype_tail_rejected.

Theorem C16_parse_dtype_no_prefix : forall h s d d',
  parse_dtype s = Some d -> parse_dtype (h ++ s)%string = Some d' -> In h [""; "u"; "np."; "numpy."; "np.u"; "numpy.u"]%string.
Proof. exact parse_dtype_head. Qed.
Print Assumptions C16_parse_dtype_no_prefix.

(* --- 7. the upgrade does not swallow an element type either: an upgrade that returns a value found, in each of the
        three 1.0 descriptor files it converted, a first row of 3 fields with a whitelisted element type; otherwise the
        error names the file and the field and nothing has been deleted or written for that folder *)
Theorem C16_upgrade_invalid_dtype_is_an_error : forall (L : leaves) (t : tree) kt dt gt,
  fst (upgrade_e L t kt dt gt) = Value ->
  forall k names f, In k ["keypoints"; "descriptors"; "global_features"]%string ->
    find_dir (t_dirs t) (d_feat k) = Some names -> find_file (t_files t) (p_old_cfg k) = Some f ->
    exists r rest d, f_rows f = r :: rest /\ List.length r = 3 /\ is_int L (nth_s 2 r) = true /\
                     parse_dtype (nth_s 1 r) = Some d.
Proof. intros L t kt dt gt. exact (upgrade_value_dtypes_ok L true t kt dt gt). Qed.
Print Assumptions C16_upgrade_invalid_dtype_is_an_error.

Theorem C16_upgrade_invalid_dtype_names_file_and_field : forall (L : leaves) t k needs kp given names f r rest,
  find_dir (t_dirs t) (d_feat k) = Some names -> find_file (t_files t) (p_old_cfg k) = Some f ->
  old_version_ok (f_ver f) = true -> (needs = true -> kp <> None) ->
  f_rows f = r :: rest -> List.length r = 3 -> is_int L (nth_s 2 r) = true -> parse_dtype (nth_s 1 r) = None ->
  fst (snd (up_feature L true t k needs kp given)) = Some (EBadDtype (p_old_cfg k) (nth_s 1 r)) /\
  forall e, In e (snd (snd (up_feature L true t k needs kp given))) -> e = Read (p_old_cfg k).
Proof.
  intros L t k needs kp given names f r rest D F OV NK R LN II PD.
  destruct (up_feature_bad_dtype L true t k needs kp given names f r rest D F OV NK R LN II PD) as [A B].
  split; [exact A|]. intros e I. destruct (B e I) as [E|[C _]]; [exact E|discriminate C].
Qed.
Print Assumptions C16_upgrade_invalid_dtype_names_file_and_field.

Example C16_example_upgrade_type_repr :
  upgrade_e ex_leaves
    {| t_files := [ (p_sensors, {| f_ver := V10; f_rows := [] |});
                    (p_old_cfg "keypoints", {| f_ver := V10;
                       f_rows := [["SIFT"; "<class 'numpy.float32'>.__import__('os').system('touch X')"; "4"]] |}) ];
       t_dirs := [(d_feat "keypoints", [])]; t_p3d_ok := false; t_kpt := []; t_moves := []; t_json := [] |} None None None
  = (Error (EBadDtype (p_old_cfg "keypoints") "<class 'numpy.float32'>.__import__('os').system('touch X')"),
     [Read p_sensors; Write p_sensors; Read (p_old_cfg "keypoints")]).
Proof. vm_compute. reflexivity. Qed.

(* --- 8. the whitelist of the model IS the behaviour of the code on a probe universe observed on this run
        (Gen/Tdtypes.v, regenerated by harness/tables/dtypes.py from the tree under test): a few thousand candidate
        fields (every public name of numpy and builtins, bare and prefixed; every accepted name in ~50 decorations)
        were handed, in a real descriptor file, to the three 1.1 readers and to the 1.0 reader of the upgrade; each
        reader accepted exactly the probes that parse_dtype accepts *)
Definition accepts (s : string) : bool := match parse_dtype s with Some _ => true | None => false end.
Definition agrees_on_universe (code_accepts : list string) : bool :=
  forallb (fun s => Bool.eqb (memb s code_accepts) (accepts s)) dtype_probe_universe
  && forallb (fun s => memb s dtype_probe_universe) code_accepts.

Theorem C16_code_whitelist_agrees_on_probe_universe :
  agrees_on_universe code_accepts_keypoints = true /\ agrees_on_universe code_accepts_descriptors = true /\
  agrees_on_universe code_accepts_global_features = true /\ agrees_on_universe code_accepts_upgrade = true.
Proof.
  assert (H : agrees_on_universe code_accepts_keypoints && agrees_on_universe code_accepts_descriptors &&
              agrees_on_universe code_accepts_global_features && agrees_on_universe code_accepts_upgrade = true)
    by (vm_cast_no_check (eq_refl true)).      (* evaluated once, by the kernel, at Qed *)
  exact (and4_true _ _ _ _ H).
Qed.
Print Assumptions C16_code_whitelist_agrees_on_probe_universe.

Corollary C16_code_accepts_iff_model_accepts : forall s, In s dtype_probe_universe ->
  forall l, In l [code_accepts_keypoints; code_accepts_descriptors; code_accepts_global_features; code_accepts_upgrade] ->
  (In s l <-> exists d, parse_dtype s = Some d).
Proof.
  intros s U l IL.
  assert (A : agrees_on_universe l = true).
  { destruct C16_code_whitelist_agrees_on_probe_universe as [A1 [A2 [A3 A4]]].
    cbn in IL. destruct IL as [<-|[<-|[<-|[<-|[]]]]]; assumption. }
  unfold agrees_on_universe in A. apply andb_true_iff in A. destruct A as [A _].
  rewrite forallb_forall in A. specialize (A s U). apply Bool.eqb_prop in A.
  rewrite <- memb_In, A. unfold accepts. destruct (parse_dtype s) as [d|]; split; try discriminate; eauto.
  intros [d E]; discriminate E.
Qed.
Print Assumptions C16_code_accepts_iff_model_accepts.

Theorem C16_probe_universe_covers_whitelist :
  (forall s, In s accepted_names -> In s dtype_probe_universe) /\ 3000 <= List.length dtype_probe_universe.
Proof.
  split.
  - intros s I. apply memb_In.
    assert (H : forallb (fun s => memb s dtype_probe_universe) accepted_names = true) by (vm_cast_no_check (eq_refl true)).
    rewrite forallb_forall in H. exact (H s I).
  - apply Nat.leb_le. vm_cast_no_check (eq_refl true).
Qed.
Print Assumptions C16_probe_universe_covers_whitelist.
