(* Props/C17.v — property C17: an archive is unpacked and marked installed only if its SHA-256 matches.
   Only statements, each closed by lemmas of Proofs/PDownload.v.

   Every theorem quantifies over
     sha          : any digest function (SHA-256 is abstract, no contract is needed),
     srv          : ANY server = any function from the request history to a response (adversary),
     name, expected, untar_fails (the local untar may fail on any archive it likes),
     force, no_cleaning, the prior local state s0 (any archive file content or none, any installed
     index incl. a stale marker, any earlier log), and — where stated — any number of attempts n.
   [r] is the outcome of the installation, [final r] the local state afterwards;  the log grows at
   the front:  log (final r) = new ++ log s0. *)
From Coq Require Import List Bool String ZArith Lia.
From KV Require Import Eqb Str.
From KV.Model Require Import MDownload.
From KV.Proofs Require Import PDownload.
Import ListNotations.
Local Open Scope string_scope.
Local Open Scope list_scope.

(* --- 1. whatever the server does, every extraction performed by an installation is of bytes whose
        digest equals the published one, there is at most one, and it happens while the dataset is
        not (yet) marked installed *)
Theorem C17_extractions_verified :
  forall sha srv name expected untar_fails n force nc s0,
  let r := install_n sha srv name expected untar_fails n force nc s0 in
  exists new, log (final r) = new ++ log s0 /\ (List.length new <= 2)%nat /\
    forall b m, In (EExtract b m) new -> sha b = expected /\ m = false.
Proof.
  intros sha srv name expected untar_fails n force nc s0 r.
  destruct (install_spec sha srv name expected untar_fails n force nc s0) as [_ H]. fold r in H.
  destruct r as [st sf|x sf]; cbn [final] in *.
  - destruct H as [[_ [_ [_ ->]]]|[[_ [_ [_ [b [S [_ [L _]]]]]]]|[_ [L _]]]].
    + exists []. split; [reflexivity|]. split; [cbn; lia|]. intros ? ? [].
    + exists [EUpgrade true; EExtract b false]. split; [exact L|]. split; [cbn; lia|].
      intros b' m [E|[E|[]]]; inversion E; subst; auto.
    + exists []. split; [exact L|]. split; [cbn; lia|]. intros ? ? [].
  - destruct H as [_ [[_ [b [S [_ [_ L]]]]]|[_ L]]].
    + exists [EExtract b false]. split; [exact L|]. split; [cbn; lia|].
      intros b' m [E|[]]; inversion E; subst; auto.
    + exists []. split; [exact L|]. split; [cbn; lia|]. intros ? ? [].
Qed.
Print Assumptions C17_extractions_verified.

(* --- 2. the dataset is marked installed afterwards only if (a) it was already marked and force was
        not given — then NOTHING happened: no request, no extraction, state untouched — or (b) an
        archive with the published digest was extracted successfully during this very call, before
        the marker was written, and the call reports "installed" *)
Theorem C17_marked_only_after_verified_extraction :
  forall sha srv name expected untar_fails n force nc s0,
  let r := install_n sha srv name expected untar_fails n force nc s0 in
  is_installed name (final r) = true ->
  (force = false /\ is_installed name s0 = true /\ r = Ret SInstalled s0)
  \/ (exists b, sha b = expected /\ untar_fails b = false /\
                r = Ret SInstalled (final r) /\
                log (final r) = EUpgrade true :: EExtract b false :: log s0).
Proof.
  intros sha srv name expected untar_fails n force nc s0 r M.
  destruct (install_spec sha srv name expected untar_fails n force nc s0) as [_ H]. fold r in H.
  destruct r as [st sf|x sf]; cbn [final] in *.
  - destruct H as [[-> [F [I ->]]]|[[-> [_ [_ [b [S [U [L _]]]]]]]|[_ [_ N]]]].
    + left; auto.
    + right. exists b; auto.
    + congruence.
  - destruct H as [N _]. congruence.
Qed.
Print Assumptions C17_marked_only_after_verified_extraction.

(* --- 3. every outcome other than "installed" (a failure status or an exception) leaves the dataset
        unmarked, runs no upgrade, and extracts nothing — except that when the local untar itself
        fails, its single attempt was on a verified archive *)
Theorem C17_failure_is_clean :
  forall sha srv name expected untar_fails n force nc s0,
  let r := install_n sha srv name expected untar_fails n force nc s0 in
  (forall sf, r <> Ret SInstalled sf) ->
  is_installed name (final r) = false /\
  (log (final r) = log s0
   \/ exists b, r = Raise XUntar (final r) /\ sha b = expected /\ untar_fails b = true /\
                archive (final r) = Some b /\ log (final r) = EExtract b false :: log s0).
Proof.
  intros sha srv name expected untar_fails n force nc s0 r NI.
  destruct (install_spec sha srv name expected untar_fails n force nc s0) as [_ H]. fold r in H.
  destruct r as [st sf|x sf]; cbn [final] in *.
  - destruct H as [[-> _]|[[-> _]|[_ [L N]]]]; try (exfalso; eapply NI; reflexivity). auto.
  - destruct H as [N [[-> [b [S [U [A L]]]]]|[_ L]]]; split; auto.
    right. exists b; auto.
Qed.
Print Assumptions C17_failure_is_clean.

Corollary C17_failure_extracts_nothing :
  forall sha srv name expected untar_fails n force nc s0,
  let r := install_n sha srv name expected untar_fails n force nc s0 in
  (forall b, untar_fails b = false) ->
  (forall sf, r <> Ret SInstalled sf) ->
  log (final r) = log s0 /\ is_installed name (final r) = false.
Proof.
  intros sha srv name expected untar_fails n force nc s0 r U NI.
  destruct (C17_failure_is_clean sha srv name expected untar_fails n force nc s0 NI) as [N [L|[b [_ [_ [F _]]]]]].
  - auto.
  - rewrite U in F; discriminate.
Qed.
Print Assumptions C17_failure_extracts_nothing.

(* --- 4. a reported success is a real one *)
Theorem C17_success_is_marked :
  forall sha srv name expected untar_fails n force nc s0 sf,
  install_n sha srv name expected untar_fails n force nc s0 = Ret SInstalled sf ->
  is_installed name sf = true.
Proof.
  intros sha srv name expected untar_fails n force nc s0 sf E.
  destruct (install_spec sha srv name expected untar_fails n force nc s0) as [_ H]. rewrite E in H. cbn [final] in H.
  destruct H as [[_ [_ [I ->]]]|[[_ [_ [I _]]]|[[C|[C|[_ C]]] _]]]; auto; discriminate.
Qed.
Print Assumptions C17_success_is_marked.

(* --- 5. what must not change: the markers of all other datasets *)
Theorem C17_other_markers_untouched :
  forall sha srv name expected untar_fails n force nc s0 m,
  m <> name ->
  (In m (index (final (install_n sha srv name expected untar_fails n force nc s0))) <-> In m (index s0)).
Proof.
  intros sha srv name expected untar_fails n force nc s0 m N.
  destruct (install_spec sha srv name expected untar_fails n force nc s0) as [H _]. apply H; exact N.
Qed.
Print Assumptions C17_other_markers_untouched.

(* --- 6. the outcomes of the installer as it is (two attempts): "installed", "corrupted",
        "incomplete", or an exception of the modelled kinds; never "downloaded" / "not installed",
        and the internal "cannot happen" branch of the model is indeed unreachable *)
Theorem C17_outcomes :
  forall sha srv name expected untar_fails force nc s0,
  match install sha srv name expected untar_fails force nc s0 with
  | Ret st _ => st = SInstalled \/ st = SCorrupted \/ st = SIncomplete
  | Raise x _ => x <> XInternal
  end.
Proof.
  intros sha srv name expected untar_fails force nc s0. unfold install.
  destruct (install_spec sha srv name expected untar_fails 2 force nc s0) as [_ H].
  destruct (install_n _ _ _ _ _ 2 force nc s0) as [st sf|x sf].
  - destruct H as [[-> _]|[[-> _]|[[C|[C|[C _]]] _]]]; auto. discriminate.
  - destruct H as [_ [[-> _]|[X _]]]; [discriminate|].
    unfold net_exn in X. intros ->. repeat destruct X as [X|X]; discriminate.
Qed.
Print Assumptions C17_outcomes.

(* --- 7a. the `download` command (with or without force, any server, any prior state, marked or not)
        never extracts, never upgrades and never touches the installed index *)
Theorem C17_download_command_inert :
  forall sha srv name expected n force s0,
  let sf := final (download_cmd sha srv name expected n force s0) in
  index sf = index s0 /\ log sf = log s0.
Proof. intros. exact (download_cmd_frame sha srv name expected (fun _ => false) n force s0). Qed.
Print Assumptions C17_download_command_inert.

(* --- 7. histories: after ANY sequence of `install` / `download` calls on the same directory (each call
        with its own adversarial server, untar behaviour, number of attempts and flags — failed attempts,
        retries, forced re-downloads and forced re-installations in any order; only the archive file and
        the index persist between calls) every archive ever extracted had the published digest, no
        extraction happened on a marked dataset, the dataset is marked at the end only if it was marked at
        the start or a verified archive was extracted, and other datasets' markers are as at the start *)
Theorem C17_any_history :
  forall sha name expected (calls : list call) s0,
  let sf := run_calls sha name expected calls s0 in
  exists new, log sf = new ++ log s0 /\
    (forall b m, In (EExtract b m) new -> sha b = expected /\ m = false) /\
    (is_installed name sf = true ->
       is_installed name s0 = true \/ exists b, In (EExtract b false) new /\ sha b = expected) /\
    (forall m, m <> name -> (In m (index sf) <-> In m (index s0))).
Proof. intros. apply run_calls_post. Qed.
Print Assumptions C17_any_history.

(* --- 7b. listing (Dataset.prob_status on its own) changes nothing on disk, whatever the server answers *)
Theorem C17_listing_inert :
  forall sha srv name expected s0,
  let sf := final (prob_status sha srv name expected s0) in
  archive sf = archive s0 /\ index sf = index s0 /\ log sf = log s0.
Proof. intros. exact (prob_status_keeps sha srv name expected (fun _ => false) s0). Qed.
Print Assumptions C17_listing_inert.

(* --- 7c. histories during which the dataset index is RE-PUBLISHED (`update`, or any rewrite of the index file)
        between calls: [calls] pairs every call (install / download / list, own server, untar behaviour, attempts,
        flags) with the checksum the index publishes AT THE TIME OF THAT CALL.  [news] are the events of each
        call in call order.  Every archive ever extracted had the digest published when its call was made — never
        that of an earlier or later publication —, on an unmarked dataset; marked at the end => marked at the
        start or some call extracted an archive verified against ITS publication; other markers unchanged. *)
Theorem C17_any_history_republished :
  forall sha name (calls : list (string * call)) s0,
  let sf := run_pub sha name calls s0 in
  exists news : list (list event),
    Forall2 (fun (ec : string * call) new =>
               forall b m, In (EExtract b m) new -> sha b = fst ec /\ m = false) calls news /\
    log sf = List.concat (rev news) ++ log s0 /\
    (is_installed name sf = true ->
       is_installed name s0 = true \/
       exists e c new b, In (e, c, new) (combine calls news) /\ In (EExtract b false) new /\ sha b = e) /\
    (forall m, m <> name -> (In m (index sf) <-> In m (index s0))).
Proof. intros. apply run_pub_post. Qed.
Print Assumptions C17_any_history_republished.

(* an unchanged publication gives back the plain histories of theorem 7 *)
Theorem C17_republished_constant :
  forall sha name e (calls : list call) s0,
  run_pub sha name (List.map (fun c => (e, c)) calls) s0 = run_calls sha name e calls s0.
Proof. intros. apply run_pub_const. Qed.
Print Assumptions C17_republished_constant.

(* non-vacuity: the index publishes "good" (sha = identity), the dataset is listed; the index is re-published
   with "new!"; the server still delivers "good" twice: reported corrupted, nothing extracted, nothing marked;
   then it delivers "new!": installed, and only "new!" was extracted *)
Definition const_srv (z : Z) (b : string) : server := fun _ => mkResp false (PSize z) b false.
Definition ex_call k srv force := mkCall k srv (fun _ => false) 2 force false.
Definition ex_republished := [("good", ex_call KList (const_srv 4 "good") false);
                              ("new!", ex_call KInstall (const_srv 4 "good") false);
                              ("new!", ex_call KInstall (const_srv 4 "new!") false)].
Example C17_example_republished :
  let s2 := run_pub (fun b => b) "ds" (firstn 2 ex_republished) (mkSt None [] [] []) in
  let s3 := run_pub (fun b => b) "ds" ex_republished (mkSt None [] [] []) in
  (archive s2, index s2, log s2) = (Some "good", [], []) /\
  (archive s3, index s3, log s3) = (None, ["ds"], [EUpgrade true; EExtract "new!" false]).
Proof. vm_compute. split; reflexivity. Qed.

(* --- 8. the guarantee is not bought by refusing everything: against a server that tells the true
        size and honours Range, from EVERY prior archive state (none, partial, corrupt of any size,
        complete) a forced or first installation ends installed, having extracted verified bytes *)
Theorem C17_honest_server_installs :
  forall sha name good untar_fails force nc s0,
  (forall b, sha b = sha good -> untar_fails b = false) ->
  force = true \/ is_installed name s0 = false ->
  exists b sf, install sha (honest good) name (sha good) untar_fails force nc s0 = Ret SInstalled sf /\
               sha b = sha good /\ is_installed name sf = true /\
               log sf = EUpgrade true :: EExtract b false :: log s0.
Proof. intros. apply honest_install; assumption. Qed.
Print Assumptions C17_honest_server_installs.

(* --- non-vacuity: concrete adversaries.  sha is instantiated by the identity (any function will do) *)
Definition ex_srv (script : list response) : server := srv_of_script script.
Definition ok (z : Z) := mkResp false (PSize z) "" false.
Definition body (b : string) := mkResp false PNone b false.

(* corrupted content first, the right one on the second attempt: installed, extraction of "good" only *)
Example C17_example_second_attempt :
  install (fun b => b) (ex_srv [ok 4; body "evil"; ok 4;  ok 4; body "good"; ok 4]) "ds" "good" (fun _ => false)
          false false (mkSt None ["other"] [] [])
  = Ret SInstalled (mkSt None ["other"; "ds"]
                         [RProbe; RGet None; RProbe; RProbe; RGet None; RProbe]
                         [EUpgrade true; EExtract "good" false]).
Proof. vm_compute. reflexivity. Qed.

(* a partial file is resumed; the server ignores Range on the first attempt, the file becomes oversized,
   is deleted, and the second attempt succeeds *)
Example C17_example_resume_ignored :
  install (fun b => b) (ex_srv [ok 4; ok 4; ok 4; body "good"; ok 4;  ok 4; body "good"; ok 4]) "ds" "good"
          (fun _ => false) true true (mkSt (Some "go") ["ds"] [] [])
  = Ret SInstalled (mkSt (Some "good") ["ds"]
                         [RProbe; RGet None; RProbe; RProbe; RGet (Some 2%Z); RProbe; RProbe; RProbe]
                         [EUpgrade true; EExtract "good" false]).
Proof. vm_compute. reflexivity. Qed.

(* truncated twice: reported "incomplete", nothing extracted, stale marker removed by force *)
Example C17_example_failure :
  install (fun b => b) (ex_srv [ok 4; body "g"; ok 4;  ok 4; ok 4; body ""; ok 4]) "ds" "good" (fun _ => false)
          true false (mkSt None ["ds"; "other"] [] [])
  = Ret SIncomplete (mkSt (Some "g") ["other"]
                          [RProbe; RGet (Some 1%Z); RProbe; RProbe; RProbe; RGet None; RProbe] []).
Proof. vm_compute. reflexivity. Qed.

(* --- the theorems can fail: the installer with the weaker gate  `if status == 'corrupted': return`
       (install_weak_gate in the model) extracts and marks an archive whose digest is wrong *)
Lemma C17_weak_gate_refuted :
  exists srv s0 b m,
    In (EExtract b m) (log (final (install_weak_gate (fun b => b) srv "ds" "good" s0))) /\ b <> "good"
    /\ is_installed "ds" (final (install_weak_gate (fun b => b) srv "ds" "good" s0)) = true.
Proof.
  exists (fun _ => mkResp false (PSize 4) "g" false), (mkSt None [] [] []), "gg", false.
  vm_compute. split; [auto|]. split; [discriminate|reflexivity].
Qed.

(* --- theorem 7c can fail: an InstallDir that caches the first parse of the index (run_pub_cached) verifies a later
       call against the withdrawn checksum: "old" is extracted and marked while the index publishes "new" *)
Lemma C17_cached_index_refuted :
  exists (calls : list (string * call)) e c b m,
    nth_error calls 1 = Some (e, c) /\
    In (EExtract b m) (log (run_pub_cached (fun b => b) "ds" calls (mkSt None [] [] []))) /\ b <> e /\
    is_installed "ds" (run_pub_cached (fun b => b) "ds" calls (mkSt None [] [] [])) = true /\
    log (run_pub (fun b => b) "ds" calls (mkSt None [] [] [])) = [].
Proof.
  exists [("old", ex_call KList (const_srv 3 "old") false); ("new", ex_call KInstall (const_srv 3 "old") false)],
         "new", (ex_call KInstall (const_srv 3 "old") false), "old", false.
  vm_compute. split; [reflexivity|]. split; [auto|]. split; [discriminate|]. split; reflexivity.
Qed.
