(* Props/C18.v — property C18: unpacking a dataset archive never writes outside the install directory.
   Only statements, each closed by a lemma of Proofs/PUntar.v about the model Model/MUntar.v of
   kapture.converter.downloader.archives.untar_file (paths are reversed lists of components: [under R p]
   means that p is R or lies beneath R). *)
From Coq Require Import List Bool String Arith.
From KV Require Import Eqb Str AL.
From KV.Model Require Import MUntar.
From KV.Proofs Require Import PUntar PUntarSpell.
Import ListNotations.
Local Open Scope string_scope.
Local Open Scope list_scope.

(* --- 1. Confinement.  For EVERY archive (any members, kinds, names, link targets, in any order), every
   initial file system [s] and every install directory [R]: whatever untar_file does — extract everything,
   stop at a member refused by the filter, stop on an OS error, or give up for lack of model fuel — no node
   outside R is created, removed or replaced, and no regular file outside R changes content or owner bits.
   [Good R s] = no regular file inside R is a hard link of a file outside R (and inode numbers in use are
   below the allocation counter); it is preserved, so the statement composes over successive archives. *)
Theorem C18_untar_confined : forall (R : rpath) (archive : list member) (s : state),
  Good R s ->
  let s' := snd (untar R archive s) in
  (forall p, ~ under R p ->
     node_at s' p = node_at s p /\
     forall i, node_at s p = Some (NFile i) -> lookup i (files s') = lookup i (files s))
  /\ Good R s'.
Proof. exact untar_confined. Qed.
Print Assumptions C18_untar_confined.

(* --- 2. The same, structurally: the run is a sequence of primitive effects (create / replace a node, remove a
   node, create a regular file, overwrite a regular file), each located at or beneath R; a hard link only ever
   shares the inode of a file that is itself at or beneath R.  No hypothesis on the state at all. *)
Theorem C18_every_effect_inside : forall (R : rpath) (archive : list member) (s : state),
  steps R s (snd (untar R archive s)).
Proof. exact untar_effects_inside. Qed.
Print Assumptions C18_every_effect_inside.

(* --- 3. Why the filter works, independent of any invariant on the links created so far: on any file system,
   whenever the kernel resolves a path (following links, or creating the last component, or not following
   it when it is no link), os.path.realpath(strict=False) computes the same location.  The filter's check
   of the resolved destination therefore speaks about the very location the system call will touch. *)
Theorem C18_kernel_agrees_with_realpath : forall s fuel m seen cur cs x,
  walk m s fuel seen cur cs = WOk x ->
  (m = Strict \/ m = Create) \/ (m = NoFollow /\ forall t, node_at s x <> Some (NSym t)) ->
  walk Lenient s fuel seen cur cs = WOk x.
Proof. intros s fuel m seen cur cs x W H. eapply walk_agree; eauto. Qed.
Print Assumptions C18_kernel_agrees_with_realpath.

(* --- 4. Benign archives.  [archive] holds only regular and directory members whose names are free of ".."
   ([plain]); no regular member's name is a prefix of, or equal to, another member's name ([consistent]); on the
   tree-shaped state [s] every member [fits]: what lies on the way to it is free or a real directory, and
   nothing exists yet under the name of a regular member.  Then the archive is extracted completely (outcome
   OOk) and every regular member is found under its name with its content, owner-readable and -writable.
   ([leaving s R <> None]: the links already present below R resolve within the model's fuel.)
   (Overwriting files that already exist is outside this theorem; the correspondence run covers it.) *)
Theorem C18_benign_extracted : forall (R : rpath) (archive : list member) (s : state),
  WF s -> node_at s R = Some NDir -> InoOk s -> leaving s R <> None ->
  (forall m, In m archive -> plain (comps (m_name m)) /\ fits R s m) ->
  consistent archive ->
  exists s', untar R archive s = (OOk, s') /\
    forall n d, In (MReg n d) archive ->
      exists i, node_at s' (rev (comps n) ++ R) = Some (NFile i) /\
                lookup i (files s') = Some {| f_data := d; f_orw := true |}.
Proof. exact benign_extracted. Qed.
Print Assumptions C18_benign_extracted.

(* --- 4b. A regular member REPLACES what a previous extraction (or anything else) left under its name: when its
   name is an existing regular file in real directories, the member is accepted and the file's content becomes the
   member's content, whatever the old content, size or dates (the owner bits of the existing file are kept).  Stated
   for one member ([step] = filter + extraction of that member inside the loop of untar_file). *)
Theorem C18_regular_member_replaces_content : forall all (R : rpath) (s : state) n d i c rhead ino,
  comps n = rev (c :: rhead) -> plain (rev (c :: rhead)) ->
  WF s -> node_at s R = Some NDir -> node_at s ((c :: rhead) ++ R) = Some (NFile ino) ->
  exists s', step Repaired all R s (MReg n d) i = (OOk, s') /\
             node_at s' ((c :: rhead) ++ R) = Some (NFile ino) /\
             option_map f_data (lookup ino (files s')) = Some d.
Proof.
  intros all R s n d i c rhead ino E PL W DR N. exists (write_file s ino d).
  split; [apply (step_reg_overwrite all R s n d i c rhead ino); assumption|]. split; [exact N|].
  cbn [files write_file]. rewrite lookup_insert_eq. reflexivity.
Qed.
Print Assumptions C18_regular_member_replaces_content.

(* --- 5. Links cannot be left behind to be used later.  A link is validated when it is created, but what it
   resolves to can change with the links created after it; untar_file therefore revalidates the links at the
   end.  Whatever the archive and whatever the outcome (extracted, refused, failed — the model's own
   out-of-fuel outcome excepted): every symbolic link below R that resolves outside R afterwards (as
   os.path.realpath sees it, which by theorem 3 is where the kernel would go) was already below R before,
   with the same text, and already resolved outside R.  So nothing that runs after the extraction (the caller
   upgrades the dataset in place) can be led outside R through a link of the archive. *)
Theorem C18_no_new_link_leaves : forall (R : rpath) (archive : list member) (s : state) before,
  leaving s R = Some before ->
  fst (untar R archive s) <> OFuel ->
  exists after, leaving (snd (untar R archive s)) R = Some after /\ forall e, In e after -> In e before.
Proof. exact untar_links_stay. Qed.
Print Assumptions C18_no_new_link_leaves.

(* --- 6. The install directory as the caller spells it, and processes that install several archives.
   untar_file is given a TEXT: absolute, or relative to the working directory, possibly through symbolic links
   ([install_dir s cwd text] = where the kernel lands, an existing directory).
   6a. The directory the filter validates against — os.path.realpath(text) — is that very directory, for every
   text, working directory and file system: validation and writing cannot be about two different directories. *)
Theorem C18_spelling_validated_where_written : forall s cwd text R,
  install_dir s cwd text = Some R -> install_realpath s cwd text = Some R.
Proof. exact spelled_realpath_agrees. Qed.
Print Assumptions C18_spelling_validated_where_written.

(* 6b. Confinement to the directory the text denotes at the time of the call. *)
Theorem C18_untar_spelled_confined : forall cwd text (archive : list member) s R o s',
  install_dir s cwd text = Some R -> Good R s ->
  untar_spelled cwd text archive s = Some (o, s') ->
  (forall p, ~ under R p ->
     node_at s' p = node_at s p /\
     forall i, node_at s p = Some (NFile i) -> lookup i (files s') = lookup i (files s))
  /\ Good R s'.
Proof. exact untar_spelled_confined. Qed.
Print Assumptions C18_untar_spelled_confined.

(* 6c. Histories of ANY length: a process calls untar_file any number of times, each call with its own working
   directory, text and archive ([run_calls]); the same text may denote another directory from one call to the next
   (chdir, a link re-pointed by an earlier archive...).  A location that is outside the directory of each call — the
   one its text denotes when that call is made ([history_ok], which also asks each of those states to be [Good]) —
   keeps its node and, if it is a regular file, its content and owner bits.  Nothing an earlier call saw is
   carried over: the model of a call is a function of the file system it is made on. *)
Theorem C18_history_confined : forall (calls : list call) (s : state) (p : rpath),
  history_ok p calls s ->
  node_at (run_calls calls s) p = node_at s p /\
  forall i, node_at s p = Some (NFile i) -> lookup i (files (run_calls calls s)) = lookup i (files s).
Proof. exact run_calls_confined. Qed.
Print Assumptions C18_history_confined.

(* the seeded history: from /p/work1 a benign archive is installed into "datasets" (a real directory a is made);
   from /p/work2 a second archive is installed into "datasets": a -> . ; esc -> a/.. ; esc/victim.txt.  Validated
   against /p/work1/datasets the link esc would stay inside; against /p/work2/datasets — where it is created — it
   leads to /p/work2: refused, and /p/work2/victim.txt keeps its content. *)
Definition st2 : state :=
  {| nodes := [(["p"], NDir); (["work1"; "p"], NDir); (["datasets"; "work1"; "p"], NDir);
               (["work2"; "p"], NDir); (["datasets"; "work2"; "p"], NDir); (["victim.txt"; "work2"; "p"], NFile 1)];
     files := [(1, {| f_data := "precious"; f_orw := true |})]; next := 2 |}.
Definition calls2 : list call :=
  [(["work1"; "p"], "datasets", [MReg "a/readme.txt" "hello"]);
   (["work2"; "p"], "datasets", [MSym "a" "."; MSym "esc" "a/.."; MReg "esc/pwned.txt" "pwned"; MReg "esc/victim.txt" "overwritten"])].
Example C18_example_same_text_two_directories :
  history_ok ["victim.txt"; "work2"; "p"] calls2 st2
  /\ node_at (run_calls calls2 st2) ["readme.txt"; "a"; "datasets"; "work1"; "p"] = Some (NFile 2)
  /\ node_at (run_calls calls2 st2) ["a"; "datasets"; "work2"; "p"] = Some (NSym ".")
  /\ node_at (run_calls calls2 st2) ["esc"; "datasets"; "work2"; "p"] = None
  /\ node_at (run_calls calls2 st2) ["pwned.txt"; "work2"; "p"] = None
  /\ lookup 1 (files (run_calls calls2 st2)) = Some {| f_data := "precious"; f_orw := true |}
  /\ option_map fst (untar_spelled ["work2"; "p"] "datasets" (snd (List.nth 1 calls2 ([], "", []))) st2)
     = Some (OFilter FLinkOutside).
Proof.
  split.
  - cbn [history_ok calls2].
    change (install_dir st2 ["work1"; "p"] "datasets") with (Some ["datasets"; "work1"; "p"]).
    split; [apply goodb_Good; vm_compute; reflexivity|].
    split; [intros U; apply under_underb in U; vm_compute in U; discriminate|].
    set (s1 := snd (untar ["datasets"; "work1"; "p"] [MReg "a/readme.txt" "hello"] st2)).
    assert (E : install_dir s1 ["work2"; "p"] "datasets" = Some ["datasets"; "work2"; "p"]) by (vm_compute; reflexivity).
    rewrite E. split; [apply goodb_Good; vm_compute; reflexivity|].
    split; [intros U; apply under_underb in U; vm_compute in U; discriminate|exact I].
  - vm_compute. repeat split.
Qed.

(* --- non-vacuity and the hostile cases of the property on a concrete, populated tree:
     /p/install            the install directory R, with  pre/old.txt  and  ext -> ../outdir  (user-made)
     /p/sentinel.txt, /p/outdir/keep.txt, /p/outdir/back -> ../install/landing       outside *)
Definition R0 : rpath := ["install"; "p"].
Definition st0 : state :=
  {| nodes := [(["p"], NDir); (R0, NDir); ("pre" :: R0, NDir); ("old.txt" :: "pre" :: R0, NFile 1);
               ("ext" :: R0, NSym "../outdir");
               (["sentinel.txt"; "p"], NFile 2); (["outdir"; "p"], NDir); (["keep.txt"; "outdir"; "p"], NFile 3);
               (["back"; "outdir"; "p"], NSym "../install/landing")];
     files := [(1, {| f_data := "old"; f_orw := true |}); (2, {| f_data := "precious"; f_orw := true |});
               (3, {| f_data := "keep"; f_orw := true |})];
     next := 4 |}.

Example C18_example_state_good : Good R0 st0.
Proof. apply goodb_Good. vm_compute. reflexivity. Qed.

(* a benign archive is extracted: directories are made on the way, an existing file is overwritten in place *)
Example C18_example_benign :
  let r := untar R0 [MDir "./"; MReg "a/b/f.txt" "data"; MReg "pre/old.txt" "new"; MDir "a/b"] st0 in
  fst r = OOk
  /\ node_at (snd r) ("f.txt" :: "b" :: "a" :: R0) = Some (NFile 4)
  /\ lookup 4 (files (snd r)) = Some {| f_data := "data"; f_orw := true |}
  /\ lookup 1 (files (snd r)) = Some {| f_data := "new"; f_orw := true |}.
Proof. vm_compute. repeat split. Qed.

(* the hypotheses of C18_benign_extracted are met by a concrete archive on the populated tree st0 *)
Definition benign0 : list member :=
  [MDir "./"; MReg "a/b/f.txt" "data"; MDir "a/b"; MReg "./g.txt" "z"; MReg "pre/new.txt" "n"; MDir "pre"].
Example C18_example_benign_hypotheses :
  WF st0 /\ node_at st0 R0 = Some NDir /\ InoOk st0 /\ leaving st0 R0 <> None /\
  (forall m, In m benign0 -> plain (comps (m_name m)) /\ fits R0 st0 m) /\ consistent benign0.
Proof.
  split; [apply wfb_WF; vm_compute; reflexivity|]. split; [reflexivity|].
  split; [apply inookb_InoOk; vm_compute; reflexivity|]. split; [vm_compute; discriminate|].
  split; [|apply consistentb_ok; vm_compute; reflexivity].
  assert (H : forallb (fun m => plainb (comps (m_name m)) && fitsb R0 st0 m) benign0 = true) by (vm_compute; reflexivity).
  rewrite forallb_forall in H. intros m I. specialize (H m I). apply andb_true_iff in H. destruct H as [H1 H2].
  split; [apply plainb_ok; exact H1 | apply fitsb_ok; exact H2].
Qed.

(* an update extracted over a first version: same path, same size, other content — the last content is there;
   likewise the same name twice in one archive *)
Example C18_example_update_replaces_content :
  let s1 := snd (untar R0 [MReg "k/records.txt" "version-1"] st0) in
  let r2 := untar R0 [MReg "k/records.txt" "VERSION-2"] s1 in
  fst r2 = OOk /\ lookup 4 (files (snd r2)) = Some {| f_data := "VERSION-2"; f_orw := true |}
  /\ lookup 4 (files (snd (untar R0 [MReg "f" "AAAA"; MReg "f" "BBBB"] st0))) = Some {| f_data := "BBBB"; f_orw := true |}.
Proof. vm_compute. repeat split. Qed.

(* every hostile shape named by the property is refused before anything is written *)
Example C18_example_hostile :
  fst (untar R0 [MReg "../escaped.txt" "x"] st0) = OFilter FOutside
  /\ fst (untar R0 [MReg "a/../../newdir/../install/f.txt" "x"] st0) = OFilter FOutside
  /\ fst (untar R0 [MSym "l" "../outdir"; MReg "l/keep.txt" "x"] st0) = OFilter FLinkOutside
  /\ fst (untar R0 [MSym "l" "/p/outdir"] st0) = OFilter FAbsLink
  /\ fst (untar R0 [MHard "h" "../sentinel.txt"; MReg "h" "x"] st0) = OFilter FLinkOutside
  /\ fst (untar R0 [MReg "ext/keep.txt" "x"] st0) = OFilter FOutside       (* through the user-made link *)
  /\ fst (untar R0 [MSym "l" "pre"; MReg "l/old.txt" "x"] st0) = OFilter FOutside   (* through a link, even inward *)
  /\ fst (untar R0 [MSpecial "pipe"] st0) = OFilter FSpecial
  /\ fst (untar R0 [MReg "/p/sentinel.txt" "x"] st0) = OOk                  (* absolute: re-rooted below R *)
  /\ node_at (snd (untar R0 [MReg "/p/sentinel.txt" "x"] st0)) ("sentinel.txt" :: "p" :: R0) = Some (NFile 4).
Proof. vm_compute. repeat split. Qed.

(* on POSIX a back slash is an ordinary character of a file name: names are split on "/" only.  A member named
   `..\escaped.txt` is ONE component, holds no "..", and is extracted as one oddly named file inside R; so is
   `a\..\..\sentinel.txt`; a link target `..\outdir` is a plain (here dangling) name in the same directory *)
Example C18_example_backslash_is_a_name_character :
  let r := untar R0 [MReg "..\escaped.txt" "x"; MReg "a\..\..\sentinel.txt" "boom"; MDir "dir\sub"; MSym "l" "..\outdir"] st0 in
  fst r = OOk
  /\ comps "a\..\..\sentinel.txt" = ["a\..\..\sentinel.txt"]
  /\ node_at (snd r) ("..\escaped.txt" :: R0) = Some (NFile 4)
  /\ node_at (snd r) ("a\..\..\sentinel.txt" :: R0) = Some (NFile 5)
  /\ node_at (snd r) ("dir\sub" :: R0) = Some NDir
  /\ node_at (snd r) ("l" :: R0) = Some (NSym "..\outdir")
  /\ node_at (snd r) ["escaped.txt"; "p"] = None
  /\ lookup 2 (files (snd r)) = Some {| f_data := "precious"; f_orw := true |}.
Proof. vm_compute. repeat split. Qed.

(* "no link inside R points outside R" is NOT an invariant of the member-by-member validation (a hard link
   naming a symbolic link duplicates it at another depth): with the per-member checks alone R/out -> ../outdir
   is left behind after two accepted members.  Confinement does not rest on such an invariant (a third member
   that would replace the outside link outdir/back through it is refused because its name goes through a link);
   and the final revalidation of untar_file removes the duplicated link and reports the archive. *)
Example C18_example_link_duplication :
  let r2 := untar_no_revalidation R0 [MSym "d/l" "../outdir"; MHard "out" "d/l"] st0 in
  fst r2 = OOk /\ node_at (snd r2) ("out" :: R0) = Some (NSym "../outdir")
  /\ fst (untar_no_revalidation R0 [MSym "d/l" "../outdir"; MHard "out" "d/l"; MSym "out/back" "../install/y"] st0)
     = OFilter FOutside
  /\ fst (untar R0 [MSym "d/l" "../outdir"; MHard "out" "d/l"] st0) = OFilter FLeaves
  /\ node_at (snd (untar R0 [MSym "d/l" "../outdir"; MHard "out" "d/l"] st0)) ("out" :: R0) = None.
Proof. vm_compute. repeat split. Qed.

(* --- the behaviour before the repair is refuted: without an extraction filter the member "../escaped.txt"
   is created outside the install directory (this is the replay recorded in known_findings.txt) *)
Lemma C18_legacy_refuted :
  exists (archive : list member) (p : rpath),
    Good R0 st0 /\ ~ under R0 p /\
    node_at (snd (untar_legacy R0 archive st0)) p <> node_at st0 p.
Proof.
  exists [MReg "../escaped.txt" "x"], ["escaped.txt"; "p"]. split; [exact C18_example_state_good|]. split.
  - intros U. apply under_underb in U. vm_compute in U. discriminate.
  - vm_compute. discriminate.
Qed.

(* an outside file is overwritten through a hard link, and through a symbolic link, by the pre-fix code *)
Lemma C18_legacy_refuted_links :
  lookup 2 (files (snd (untar_legacy R0 [MHard "h" "../sentinel.txt"; MReg "h" "boom"] st0)))
    = Some {| f_data := "boom"; f_orw := true |}
  /\ lookup 3 (files (snd (untar_legacy R0 [MSym "l" "../outdir"; MReg "l/keep.txt" "boom"] st0)))
    = Some {| f_data := "boom"; f_orw := true |}.
Proof. vm_compute. split; reflexivity. Qed.

(* passing filter='data' alone is not a repair on CPython 3.12: the resolved destination is inside R, the
   member is accepted, and os.makedirs creates /p/newdir outside R on the way *)
Lemma C18_data_filter_alone_refuted :
  exists (archive : list member) (p : rpath),
    ~ under R0 p /\ node_at st0 p = None /\
    node_at (snd (untar_data_only R0 archive st0)) p = Some NDir.
Proof.
  exists [MReg "../newdir/../install/f.txt" "x"], ["newdir"; "p"]. split; [|split].
  - intros U. apply under_underb in U. vm_compute in U. discriminate.
  - reflexivity.
  - vm_compute. reflexivity.
Qed.

(* ... and an outside link is replaced through a duplicated link, when only '..' is refused in addition *)
Lemma C18_needs_no_link_in_name :
  let archive := [MSym "d/l" "../outdir"; MHard "out" "d/l"; MSym "out/back" "../install/y"] in
  node_at (snd (untar_data_only R0 archive st0)) ["back"; "outdir"; "p"] = Some (NSym "../install/y").
Proof. vm_compute. reflexivity. Qed.

(* --- the first repair (own filter, own link creation) without the final revalidation is refuted: each link
   of this archive points inside R when it is created (b -> c/d and a -> b/../.. while c does not exist);
   c -> . then re-points a to the parent of R.  The extraction succeeds, k/sensors/sensors.txt resolves to
   /p/victim/sensors/sensors.txt, and the kernel opens that outside file for writing through it — which
   is what the in-place upgrade run by the caller after the extraction does (confirmed on the real code). *)
Definition repoint : list member :=
  [MSym "b" "c/d"; MSym "a" "b/../.."; MSym "k/sensors/sensors.txt" "../../a/victim/sensors/sensors.txt";
   MSym "c" "."; MDir "d"].
Definition st1 : state :=
  {| nodes := nodes st0 ++ [(["victim"; "p"], NDir); (["sensors"; "victim"; "p"], NDir);
                            (["sensors.txt"; "sensors"; "victim"; "p"], NFile 4)];
     files := files st0 ++ [(4, {| f_data := "# kapture format: 1.0"; f_orw := true |})];
     next := 5 |}.

Lemma C18_no_revalidation_refuted :
  let r := untar_no_revalidation R0 repoint st1 in
  fst r = OOk
  /\ leaving st1 R0 = Some [("ext" :: R0, "../outdir")]
  /\ leaving (snd r) R0 = Some [("ext" :: R0, "../outdir"); ("a" :: R0, "b/../..");
                                ("sensors.txt" :: "sensors" :: "k" :: R0, "../../a/victim/sensors/sensors.txt")]
  /\ walk Create (snd r) 100 [] R0 ["k"; "sensors"; "sensors.txt"] = WOk ["sensors.txt"; "sensors"; "victim"; "p"].
Proof. vm_compute. repeat split. Qed.

(* the tree under test refuses that archive: the two links that have come to lead outside are removed, the
   user-made link ext, which led outside before, is left alone *)
Example C18_example_repointed_links_removed :
  let r := untar R0 repoint st1 in
  fst r = OFilter FLeaves
  /\ node_at (snd r) ("a" :: R0) = None
  /\ node_at (snd r) ("sensors.txt" :: "sensors" :: "k" :: R0) = None
  /\ node_at (snd r) ("c" :: R0) = Some (NSym ".")
  /\ leaving (snd r) R0 = Some [("ext" :: R0, "../outdir")].
Proof. vm_compute. repeat split. Qed.
