(* Props/C19.v — property C19: clearing a dataset directory removes only dataset files, with consent.
   Only statements, each closed by a lemma of Proofs/PClear.v, instantiated with the tables that
   harness/gen_tables.py read from the repository under test on this run (Gen/Tables.v). *)
From Coq Require Import List Bool String.
From KV Require Import Eqb Str.
From KV.Gen Require Import Tables.
From KV.Model Require Import MClear.
From KV.Proofs Require Import PClear.
Import ListNotations.
Local Open Scope string_scope.
Local Open Scope list_scope.

Notation csv := Tables.csv_files.
Notation feat := Tables.feature_dirs.
Notation rdata := Tables.records_data_rel.

(* --- facts about the tables of the tree under test, decided by computation (finite) *)
Definition names := map MClear.tname (csv ++ feat).
Definition paths := map MClear.tpath (csv ++ feat) ++ [rdata].

Fixpoint nodupb (l : list string) : bool :=
  match l with [] => true | x :: l' => negb (memb x l') && nodupb l' end.
Lemma nodupb_NoDup l : nodupb l = true -> NoDup l.
Proof.
  induction l as [|x l IH]; cbn; [constructor|]. rewrite andb_true_iff, negb_true_iff, memb_not_In.
  intros [N R]. constructor; auto.
Qed.

Lemma tables_names_nodup : NoDup names.
Proof. apply nodupb_NoDup. vm_compute. reflexivity. Qed.

Lemma tables_names_disjoint : forall e f, In e csv -> In f feat -> MClear.tname e <> MClear.tname f.
Proof.
  assert (H : forallb (fun e => forallb (fun f => negb (eqb (MClear.tname e) (MClear.tname f))) feat) csv = true)
    by (vm_compute; reflexivity).
  intros e f IE IF. rewrite forallb_forall in H. specialize (H e IE). rewrite forallb_forall in H.
  specialize (H f IF). apply negb_true_iff in H. apply eqb_false in H. exact H.
Qed.

(* no candidate path lies inside another one, is empty, is absolute, or climbs out of the root:
   deleting one candidate (recursively, when it is a folder) cannot remove a kept part or a foreign file
   that is not itself under a dataset folder *)
Definition nested (p q : string) : bool := prefixb (p ++ "/")%string q.
Definition path_ok (p : string) : bool :=
  negb (eqb p "") && negb (prefixb "/" p) && negb (prefixb "../" p) && negb (eqb p "..").
Theorem C19_candidates_independent :
  forallb path_ok paths = true /\
  forallb (fun p => forallb (fun q => negb (nested p q)) paths) paths = true.
Proof. split; vm_compute; reflexivity. Qed.
Print Assumptions C19_candidates_independent.

(* --- 1. nothing is deleted without consent *)
Theorem C19_no_consent_no_change : forall only skip st,
  deleted (clear_repo only skip st false) = [].
Proof. exact (no_consent_no_change csv feat rdata). Qed.
Print Assumptions C19_no_consent_no_change.

(* --- 2. with consent the call always succeeds, whichever dataset files happen to exist *)
Theorem C19_always_succeeds : forall only skip st,
  exists acts, clear_repo only skip st true = Done acts.
Proof. exact (always_succeeds csv feat rdata). Qed.
Print Assumptions C19_always_succeeds.

(* --- 3. what is deleted is exactly: the existing paths of the selected parts, and records_data
        unless a part that stores record files is kept.  Everything else (kept parts, foreign
        files: any path not in the tables) survives. *)
Theorem C19_deletes_exactly : forall only skip st p,
  In p (deleted (clear_repo only skip st true)) <->
  exists_at st p = true /\
  ((p = rdata /\ ~ (exists e, In e (csv ++ feat) /\ MClear.tfile e = true /\ selected only skip (MClear.tname e) = false))
   \/ (p <> rdata /\ exists e, In e (csv ++ feat) /\ MClear.tpath e = p /\ selected only skip (MClear.tname e) = true)).
Proof. exact (deletes_exactly csv feat rdata tables_names_disjoint tables_names_nodup). Qed.
Print Assumptions C19_deletes_exactly.

Corollary C19_foreign_files_survive : forall only skip st p,
  ~ In p paths -> ~ In p (deleted (clear_repo only skip st true)).
Proof.
  intros only skip st p NP D. apply C19_deletes_exactly in D. destruct D as [_ [[-> _]|[_ [e [I [<- _]]]]]]; apply NP; unfold paths.
  - apply in_app_iff; right; left; reflexivity.
  - apply in_app_iff; left. apply in_map; assumption.
Qed.
Print Assumptions C19_foreign_files_survive.

(* --- 4. a symbolic link (or a file) is unlinked, never followed; only real folders are removed recursively *)
Theorem C19_link_unlinked : forall only skip st p a acts,
  clear_repo only skip st true = Done acts -> In (p, a) acts ->
  a = match kind_of st p with Dir => Rmtree | _ => Unlink end.
Proof.
  intros only skip st p a acts E I.
  apply (actions_by_kind csv feat rdata only skip st p a). unfold clear_repo in E. rewrite E. exact I.
Qed.
Print Assumptions C19_link_unlinked.

Theorem C19_each_path_once : forall only skip st, NoDup (deleted (clear_repo only skip st true)).
Proof. exact (no_path_twice csv feat rdata). Qed.
Print Assumptions C19_each_path_once.

(* --- non-vacuity: a concrete state where each clause bites *)
Example C19_example :
  let st := [("sensors/sensors.txt", File); ("sensors/records_camera.txt", File);
             ("sensors/records_data", Link); ("reconstruction/keypoints", Dir); ("notes.md", File)] in
  clear_repo [] ["RecordsCamera"] st true
  = Done [("sensors/sensors.txt", Unlink); ("reconstruction/keypoints", Rmtree)]
  /\ clear_repo [] [] st true
  = Done [("sensors/sensors.txt", Unlink); ("sensors/records_data", Unlink);
          ("sensors/records_camera.txt", Unlink); ("reconstruction/keypoints", Rmtree)]
  /\ clear_repo [] [] st false = Refused.
Proof. vm_compute. repeat split. Qed.

(* --- the behaviour before the repair is refuted: keeping RecordsCamera when records_data does not
       exist crashed (ValueError from list.remove) although consent was given *)
Lemma C19_legacy_refuted :
  exists only skip st,
    clear_legacy csv feat rdata only skip st true = Crash.
Proof. exists [], ["RecordsCamera"], [("sensors/sensors.txt", File)]. vm_compute. reflexivity. Qed.
