(* Props/C19.v — property C19: clearing a dataset directory removes only dataset files, with consent.
   Only statements, each closed by a lemma of Proofs/PClear.v, instantiated with the tables that
   harness/gen_tables.py read from the repository under test on this run (Gen/Tables.v). *)
From Coq Require Import List Bool String.
From KV Require Import Eqb Str.
From KV.Gen Require Import Tables.
From KV.Model Require Import MClear.
From KV.Proofs Require Import PClear.
Import ListNotations.
Local Open Scope string_scope.
Local Open Scope list_scope.

Notation csv := Tables.csv_files.
Notation feat := Tables.feature_dirs.
Notation rdata := Tables.records_data_rel.

(* --- facts about the tables of the tree under test, decided by computation (finite) *)
Definition names := map MClear.tname (csv ++ feat).
Definition paths := map MClear.tpath (csv ++ feat) ++ [rdata].

Fixpoint nodupb (l : list string) : bool :=
  match l with [] => true | x :: l' => negb (memb x l') && nodupb l' end.
Lemma nodupb_NoDup l : nodupb l = true -> NoDup l.
Proof.
  induction l as [|x l IH]; cbn; [constructor|]. rewrite andb_true_iff, negb_true_iff, memb_not_In.
  intros [N R]. constructor; auto.
Qed.

Lemma tables_names_nodup : NoDup names.
Proof. apply nodupb_NoDup. vm_compute. reflexivity. Qed.

Lemma tables_names_disjoint : forall e f, In e csv -> In f feat -> MClear.tname e <> MClear.tname f.
Proof.
  assert (H : forallb (fun e => forallb (fun f => negb (eqb (MClear.tname e) (MClear.tname f))) feat) csv = true)
    by (vm_compute; reflexivity).
  intros e f IE IF. rewrite forallb_forall in H. specialize (H e IE). rewrite forallb_forall in H.
  specialize (H f IF). apply negb_true_iff in H. apply eqb_false in H. exact H.
Qed.

(* no candidate path lies inside another one, is empty, is absolute, or climbs out of the root:
   deleting one candidate (recursively, when it is a folder) cannot remove a kept part or a foreign file
   that is not itself under a dataset folder *)
Definition nested (p q : string) : bool := prefixb (p ++ "/")%string q.
Definition path_ok (p : string) : bool :=
  negb (eqb p "") && negb (prefixb "/" p) && negb (prefixb "../" p) && negb (eqb p "..").
Theorem C19_candidates_independent :
  forallb path_ok paths = true /\
  forallb (fun p => forallb (fun q => negb (nested p q)) paths) paths = true.
Proof. split; vm_compute; reflexivity. Qed.
Print Assumptions C19_candidates_independent.

(* --- 1. nothing is deleted without consent *)
Theorem C19_no_consent_no_change : forall only skip st,
  deleted (clear_repo only skip st false) = [].
Proof. exact (no_consent_no_change csv feat rdata). Qed.
Print Assumptions C19_no_consent_no_change.

(* --- 2. with consent the call always succeeds, whichever dataset files happen to exist *)
Theorem C19_always_succeeds : forall only skip st,
  exists acts, clear_repo only skip st true = Done acts.
Proof. exact (always_succeeds csv feat rdata). Qed.
Print Assumptions C19_always_succeeds.

(* --- 3. what is deleted is exactly: the existing paths of the selected parts, and records_data
        unless a part that stores record files is kept.  Everything else (kept parts, foreign
        files: any path not in the tables) survives. *)
Theorem C19_deletes_exactly : forall only skip st p,
  In p (deleted (clear_repo only skip st true)) <->
  exists_at st p = true /\
  ((p = rdata /\ ~ (exists e, In e (csv ++ feat) /\ MClear.tfile e = true /\ selected only skip (MClear.tname e) = false))
   \/ (p <> rdata /\ exists e, In e (csv ++ feat) /\ MClear.tpath e = p /\ selected only skip (MClear.tname e) = true)).
Proof. exact (deletes_exactly csv feat rdata tables_names_disjoint tables_names_nodup). Qed.
Print Assumptions C19_deletes_exactly.

Corollary C19_foreign_files_survive : forall only skip st p,
  ~ In p paths -> ~ In p (deleted (clear_repo only skip st true)).
Proof.
  intros only skip st p NP D. apply C19_deletes_exactly in D. destruct D as [_ [[-> _]|[_ [e [I [<- _]]]]]]; apply NP; unfold paths.
  - apply in_app_iff; right; left; reflexivity.
  - apply in_app_iff; left. apply in_map; assumption.
Qed.
Print Assumptions C19_foreign_files_survive.

(* --- 4. a symbolic link (or a file) is unlinked, never followed; only real folders are removed recursively *)
Theorem C19_link_unlinked : forall only skip st p a acts,
  clear_repo only skip st true = Done acts -> In (p, a) acts ->
  a = match kind_of st p with Dir => Rmtree | _ => Unlink end.
Proof.
  intros only skip st p a acts E I.
  apply (actions_by_kind csv feat rdata only skip st p a). unfold clear_repo in E. rewrite E. exact I.
Qed.
Print Assumptions C19_link_unlinked.

Theorem C19_each_path_once : forall only skip st, NoDup (deleted (clear_repo only skip st true)).
Proof. exact (no_path_twice csv feat rdata). Qed.
Print Assumptions C19_each_path_once.

(* --- 5. sessions: several calls made by one process (same directory as the earlier calls left it, or a
        fresh copy of the initial directory), for ALL histories *)
Notation call := MClear.call.

(* the user is asked exactly when the call is not forced and something would be deleted
   (so: never a silent deletion "because there is nothing to lose", never a needless question) *)
Theorem C19_prompt_iff : forall only skip st force,
  prompts_repo only skip st force = true <->
  force = false /\ exists p, In p (deleted (clear_repo only skip st true)).
Proof. exact (prompts_iff csv feat rdata). Qed.
Print Assumptions C19_prompt_iff.

(* the question (and the refusal message) names exactly the paths that a yes deletes *)
Theorem C19_question_names_what_is_deleted : forall only skip st,
  announced_repo only skip st = deleted (clear_repo only skip st true).
Proof. exact (announced_is_deleted csv feat rdata). Qed.
Print Assumptions C19_question_names_what_is_deleted.

(* the directory after a call: exactly the deleted paths are gone *)
Theorem C19_after_exact : forall st o p,
  kind_of (after st o) p = if memb p (deleted o) then Absent else kind_of st p.
Proof. exact kind_of_after. Qed.
Print Assumptions C19_after_exact.

(* a refused call leaves the directory exactly as it was *)
Theorem C19_refusal_changes_nothing : forall only skip st,
  after st (clear_repo only skip st false) = st.
Proof. exact (no_consent_state_unchanged csv feat rdata). Qed.
Print Assumptions C19_refusal_changes_nothing.

(* a cleared selection stays cleared: calling again with the same selection neither asks nor refuses nor
   deletes, whatever kind (file, folder, live or dangling link) the entries had *)
Theorem C19_cleared_then_quiet : forall only skip st c,
  clear_repo only skip (after st (clear_repo only skip st true)) c = Done [] /\
  prompts_repo only skip (after st (clear_repo only skip st true)) false = false.
Proof. exact (cleared_then_quiet csv feat rdata). Qed.
Print Assumptions C19_cleared_then_quiet.

(* whatever the history of calls, a path outside the tables is never touched, and a path inside either
   is as it was in the initial directory or is gone (nothing is ever created or replaced) *)
Theorem C19_session_foreign_survive : forall (ks : list call) st p,
  ~ In p paths -> kind_of (snd (session_repo st st ks)) p = kind_of st p.
Proof. intros ks st p NP. apply (session_foreign csv feat rdata tables_names_disjoint ks st st p NP). reflexivity. Qed.
Print Assumptions C19_session_foreign_survive.

Theorem C19_session_only_shrinks : forall (ks : list call) st p,
  kind_of (snd (session_repo st st ks)) p = kind_of st p \/ kind_of (snd (session_repo st st ks)) p = Absent.
Proof. intros ks st p. apply (session_only_shrinks csv feat rdata ks st st p). left; reflexivity. Qed.
Print Assumptions C19_session_only_shrinks.

(* the outcome of a call on a fresh directory at the end of ANY history is that of the call alone:
   nothing is remembered from one call to the next (selection, consent, records_data rule) *)
Theorem C19_history_independent : forall (ks : list call) st (k : call),
  k_fresh k = true ->
  fst (session_repo st st (ks ++ [k])) =
  fst (session_repo st st ks) ++ [clear_repo (k_only k) (k_skip k) st (consent_of k)].
Proof. intros ks st k. exact (fresh_call_history_independent csv feat rdata ks st st k). Qed.
Print Assumptions C19_history_independent.

(* a session of refused calls on one directory leaves it as it was *)
Theorem C19_session_without_consent : forall (ks : list call) st,
  Forall (fun k => consent_of k = false /\ k_fresh k = false) ks -> snd (session_repo st st ks) = st.
Proof. intros ks st. exact (session_without_consent csv feat rdata ks st st). Qed.
Print Assumptions C19_session_without_consent.

(* what every call of a session keeps survives the session: a path none of whose parts is ever selected
   (parts named in skip, or not named in only), and records_data when every call keeps a part storing files *)
Theorem C19_kept_part_survives_session : forall (ks : list call) st p,
  p <> rdata ->
  (forall e, In e (csv ++ feat) -> MClear.tpath e = p ->
     Forall (fun k => selected (k_only k) (k_skip k) (MClear.tname e) = false) ks) ->
  kind_of (snd (session_repo st st ks)) p = kind_of st p.
Proof.
  intros ks st p NR H.
  apply (session_kept_part_survives csv feat rdata tables_names_disjoint tables_names_nodup ks st st p NR H). reflexivity.
Qed.
Print Assumptions C19_kept_part_survives_session.

Theorem C19_records_data_survives_session : forall (ks : list call) st,
  Forall (fun k => exists e, In e (csv ++ feat) /\ MClear.tfile e = true /\
                             selected (k_only k) (k_skip k) (MClear.tname e) = false) ks ->
  kind_of (snd (session_repo st st ks)) rdata = kind_of st rdata.
Proof.
  intros ks st H.
  apply (session_records_data_survives csv feat rdata tables_names_disjoint tables_names_nodup ks st st H). reflexivity.
Qed.
Print Assumptions C19_records_data_survives_session.

(* the hypotheses of the two theorems above are satisfiable (decided on the generated tables) *)
Example C19_kept_hypotheses_satisfiable :
  let k o s f y fr := {| k_only := o; k_skip := s; k_force := f; k_yes := y; k_fresh := fr |} in
  let ks := [k [] ["Keypoints"; "RecordsCamera"] true false false; k ["Trajectories"; "Matches"] [] false true true] in
  forallb (fun e => implb (eqb (MClear.tpath e) "reconstruction/keypoints")
                          (forallb (fun c => negb (selected (k_only c) (k_skip c) (MClear.tname e))) ks)) (csv ++ feat) = true
  /\ existsb (fun e => eqb (MClear.tpath e) "reconstruction/keypoints") (csv ++ feat) = true
  /\ forallb (fun c => existsb (fun e => MClear.tfile e && negb (selected (k_only c) (k_skip c) (MClear.tname e))) (csv ++ feat)) ks = true.
Proof. vm_compute. repeat split. Qed.

Example C19_session_example :
  let st := [("sensors/sensors.txt", Link); ("sensors/trajectories.txt", File);
             ("sensors/records_data", Dir); ("reconstruction/keypoints", Dir); ("notes.md", File)] in
  let k o s f y fr := {| k_only := o; k_skip := s; k_force := f; k_yes := y; k_fresh := fr |} in
  session_repo st st [k ["Trajectories"] [] true false false; k ["Keypoints"] [] false false true;
                      k ["Keypoints"] [] false true true; k [] [] false true false; k [] [] false false false]
  = ([Done [("sensors/trajectories.txt", Unlink)]; Refused; Done [("reconstruction/keypoints", Rmtree)];
      Done [("sensors/trajectories.txt", Unlink); ("sensors/sensors.txt", Unlink); ("sensors/records_data", Rmtree)];
      Done []],
     [("notes.md", File)]).
Proof. vm_compute. reflexivity. Qed.

(* --- non-vacuity: a concrete state where each clause bites *)
Example C19_example :
  let st := [("sensors/sensors.txt", File); ("sensors/records_camera.txt", File);
             ("sensors/records_data", Link); ("reconstruction/keypoints", Dir); ("notes.md", File)] in
  clear_repo [] ["RecordsCamera"] st true
  = Done [("sensors/sensors.txt", Unlink); ("reconstruction/keypoints", Rmtree)]
  /\ clear_repo [] [] st true
  = Done [("sensors/sensors.txt", Unlink); ("sensors/records_data", Unlink);
          ("sensors/records_camera.txt", Unlink); ("reconstruction/keypoints", Rmtree)]
  /\ clear_repo [] [] st false = Refused.
Proof. vm_compute. repeat split. Qed.

(* --- the behaviour before the repair is refuted: keeping RecordsCamera when records_data does not
       exist crashed (ValueError from list.remove) although consent was given *)
Lemma C19_legacy_refuted :
  exists only skip st,
    clear_legacy csv feat rdata only skip st true = Crash.
Proof. exists [], ["RecordsCamera"], [("sensors/sensors.txt", File)]. vm_compute. reflexivity. Qed.
