(* Props/C20.v — property C20: upgrading a 1.0 dataset to 1.1 preserves all of its content.
   Only statements, each closed by a lemma of Proofs/PUpgrade.v.  The model (Model/MUpgrade.v) is
   instantiated with the file names, extensions, version line and column lines that
   harness/tables/upgrade.py read from the repository under test on this run (Gen/Tupgrade.v).

   Vocabulary
     tree                 a dataset directory: files outside the feature folders, the four feature folders, records_data
     upgrade_inplace a t  kapture.utils.upgrade.upgrade_1_0_to_1_1_inplace with the type / metric names a
     upgrade_copy a s t   tools/kapture_upgrade_1_0_to_1_1.upgrade_1_0_to_1_1 with image transfer strategy s
     load11 t             what kapture_from_dir reads from t (None: it raises)
     load10 a t           the content of the 1.0 directory t, labelled with the names a asks for
                          (text tables as their data rows; feature sets = descriptor fields + (image, data file) for the
                          recorded images; matches; observations merged per point) — "relabel (load10 t)" of the design
     tidy10 a t           side conditions under which a 1.0 directory is in the domain: version lines are 1.0 or absent,
                          a version line is a comment line, names are clean fields (no comma / line break / outer blank),
                          type names contain no slash, recorded image names end in a proper base name, no file sits where
                          a 1.1 descriptor would be looked for.  Decidable: tidy10_b.
     tidy10_strict a t    what the copy route insists on in addition: every version line present (except points3d.txt). *)
From Coq Require Import List Bool String ZArith.
From KV Require Import Eqb Str AL.
From KV.Gen Require Import Tupgrade.
From KV.Model Require Import MUpgrade MDlUpgrade.
From KV.Proofs Require Import PUpgrade PDlUpgrade.
Import ListNotations.
Local Open Scope string_scope.
Local Open Scope list_scope.

(* --- 1. in place: the call succeeds and the upgraded directory loads, as version 1.1, to exactly the content of the
        1.0 directory: same rows in every text table, same feature sets with the same data files filed under their type
        name, same matches under the keypoints type, same observations labelled with the keypoints type.
        Frame: records_data is not touched; files that are not text tables of the dataset are not touched; a feature
        folder is either left alone or rewritten by [in_folder]; the text tables keep their lines under a new version line. *)
Theorem C20_inplace_preserves : forall a t v,
  tidy10 a t -> load10 a t = Some v ->
  exists st, upgrade_inplace a t = Done st /\ load11 (fst st) = Some v /\
    t_rd (fst st) = t_rd t /\
    (forall n, memb n csv_1_0 = false -> n <> obs_file -> lookup n (t_top (fst st)) = lookup n (t_top t)) /\
    (forall k, folder_shape k (get_folder k t) (get_folder k (fst st))) /\
    mt_shape (t_mt t) (t_mt (fst st)) /\
    (forall n, memb n csv_1_0 = true -> lookup n (t_top (fst st)) = rewritten csv_1_0 (t_top t) n).
Proof. exact inplace_preserves. Qed.
Print Assumptions C20_inplace_preserves.

(* --- 2. copy route, whatever the image transfer strategy *)
Theorem C20_copy_preserves : forall a s t v,
  tidy10 a t -> tidy10_strict a t -> load10 a t = Some v ->
  exists r, upgrade_copy a s t = CDone r /\ load11 (c_out r) = Some v.
Proof. exact copy_preserves. Qed.
Print Assumptions C20_copy_preserves.

(* --- 3. both routes give the same result *)
Theorem C20_routes_agree : forall a s t v,
  tidy10 a t -> tidy10_strict a t -> load10 a t = Some v ->
  exists st r, upgrade_inplace a t = Done st /\ upgrade_copy a s t = CDone r /\
               load11 (fst st) = Some v /\ load11 (c_out r) = Some v.
Proof. exact routes_agree. Qed.
Print Assumptions C20_routes_agree.

(* file by file: what the copy route writes into a feature folder is in the folder rewritten in place, same bytes *)
Theorem C20_copy_within_inplace : forall k ty row F q c,
  lookup q (cp_folder k ty row F) = Some c -> lookup q (in_folder k ty row F) = Some c.
Proof. exact copy_within_inplace. Qed.
Print Assumptions C20_copy_within_inplace.

(* --- 4. data files: identical content, now filed under the type name (for every folder content, every name) *)
Theorem C20_data_files_moved : forall k ty row F x,
  has_ext (fext k) x = true ->
  lookup (under ty x) (in_folder k ty row F) = lookup x F /\
  lookup (under ty x) (cp_folder k ty row F) = lookup x F.
Proof. intros. split; [apply lookup_in_folder_data | apply lookup_cp_folder_data]; assumption. Qed.
Print Assumptions C20_data_files_moved.

(* in place, every other file of the folder stays where it is (the old descriptor and the side json excepted) *)
Theorem C20_other_files_stay : forall k ty row F x,
  has_ext (fext k) x = false -> x <> descname k -> x <> under ty (descname k) ->
  (forall j, fjson k = Some j -> x <> j /\ x <> under ty j) ->
  lookup x (in_folder k ty row F) = lookup x F.
Proof. exact lookup_in_folder_other. Qed.
Print Assumptions C20_other_files_stay.

(* --- 5. every file the routes write declares the current version *)
Theorem C20_declares_version :
  (forall segs, version_of_file (rewrite_header segs) = Some version_11) /\
  (forall k row, match desc11 k row with Txt segs => version_of_file segs | Bin _ => None end = Some version_11) /\
  (forall ty m, match obs_file11 ty m with Txt segs => version_of_file segs | Bin _ => None end = Some version_11).
Proof. split; [exact version_rewrite_header | split; [exact declares_11_descriptor | exact version_obs_file11]]. Qed.
Print Assumptions C20_declares_version.

(* --- 6. guard: a directory whose text tables carry another version is refused before anything is written;
        in particular a second run on an upgraded directory is refused and leaves it as it is *)
Theorem C20_other_version_refused : forall a t ssegs,
  all_other_version (t_top t) -> lookup sensors_file (t_top t) = Some (Txt ssegs) ->
  upgrade_inplace a t = Failed Refused (t, a_kt a).
Proof. exact inplace_refuses_other_version. Qed.
Print Assumptions C20_other_version_refused.

Theorem C20_copy_other_version_refused : forall a s t ssegs,
  lookup sensors_file (t_top t) = Some (Txt ssegs) -> version_ok_strict (version_of_file ssegs) = false ->
  upgrade_copy a s t = CFailed Refused.
Proof. exact copy_refuses_other_version. Qed.
Print Assumptions C20_copy_other_version_refused.

Theorem C20_second_run_refused : forall a a' t v st,
  tidy10 a t -> load10 a t = Some v -> upgrade_inplace a t = Done st ->
  upgrade_inplace a' (fst st) = Failed Refused (fst st, a_kt a').
Proof. exact second_run_refused. Qed.
Print Assumptions C20_second_run_refused.

(* --- 7. the loop of the in-place route: moving the files one after the other, longest path first (the repaired order),
        gives the parallel rename used by the model, for every folder content — also when an image folder is named like
        the feature type.  "Longest" by any measure that grows when a path is put under the type folder; the number of
        bytes and the number of characters (Python's len) both do. *)
Theorem C20_longest_first_is_rename : forall ty e F (len : string -> nat),
  (forall q, (len q < len (under ty q))%nat) ->
  forall L, NoDup L -> (forall q, In q L <-> In q (keys F) /\ has_ext e q = true) -> longest_first len L ->
  forall k, lookup k (move_in_order ty L F) = lookup k (rename_feat ty e F).
Proof. exact longest_first_is_rename. Qed.
Print Assumptions C20_longest_first_is_rename.

Theorem C20_length_measures : forall ty q,
  (String.length q < String.length (under ty q))%nat /\ (nchars q < nchars (under ty q))%nat.
Proof. intros. split; [apply bytes_grow | apply chars_grow]. Qed.
Print Assumptions C20_length_measures.

(* the parallel rename loses nothing and overwrites nothing *)
Theorem C20_rename_lossless : forall ty e F p,
  lookup (if has_ext e p then under ty p else p) (rename_feat ty e F) = lookup p F.
Proof. exact lookup_rename_feat. Qed.
Print Assumptions C20_rename_lossless.

(* --- 8. record files in the copy route, per image transfer strategy; the source keeps them unless asked to move them *)
Theorem C20_record_files_per_strategy : forall a s t r,
  upgrade_copy a s t = CDone r ->
  match t_rd t with
  | None => c_rd r = RNone /\ c_src_rd r = None
  | Some R =>
    c_src_rd r = match s with Move => Some [] | _ => Some R end /\
    c_rd r = match s with
             | Skip => RNone
             | RootLink => RRootLink
             | Copy | Move => files_or_none RFiles R
             | LinkAbs | LinkRel => files_or_none RLinks R
             end
  end.
Proof. exact record_files_per_strategy. Qed.
Print Assumptions C20_record_files_per_strategy.

(* --- the hypothesis on image names follows from: the base name has a character other than a dot *)
Theorem C20_images_ok_good : forall k imgs, forallb good_base imgs = true -> images_ok (fext k) imgs.
Proof. exact images_ok_good. Qed.
Print Assumptions C20_images_ok_good.

(* --- the hypotheses are decidable *)
Theorem C20_tidy_decidable : forall a t,
  (tidy10_b a t = true -> tidy10 a t) /\ (tidy10_strict_b a t = true -> tidy10_strict a t).
Proof. intros. split; [apply tidy10_b_sound | apply tidy10_strict_b_sound]. Qed.
Print Assumptions C20_tidy_decidable.

(* ------------------------------------------------------------------ non-vacuity: a 1.0 directory with every part *)
Definition H10 := "# kapture format: 1.0".
Definition ex_tree : tree :=
  mkTree
    [("sensors/sensors.txt", Txt [H10; "# sensor_id, name, sensor_type, [sensor_params]+"; "cam0, cam, camera, SIMPLE_PINHOLE, 640, 480, 500, 320, 240"; ""]);
     ("sensors/records_camera.txt", Txt [H10; "0, cam0, cam0/0001.jpg"; "1, cam0,  SIFT/x.png "; ""]);
     ("reconstruction/points3d.txt", Txt ["# X, Y, Z"; "1.0,2.0,3.0"; "0.5,0.0,-1.0"; ""]);
     ("reconstruction/observations.txt", Txt [H10; "1, cam0/0001.jpg, 3, SIFT/x.png, 4"; "0, SIFT/x.png, 007"; "5"; "1, SIFT/x.png, 9"; ""]);
     ("notes.md", Bin "mine")]
    (Some [("keypoints.txt", Txt [H10; "# name, dtype, dsize"; "SIFT, np.float32, 4"; ""]);
           ("cam0/0001.jpg.kpt", Bin "K1"); ("SIFT/x.png.kpt", Bin "K2"); ("extract_local_features.json", Bin "{}")])
    (Some [("descriptors.txt", Txt [H10; "HardNet, uint8, 0128"; ""]);
           ("cam0/0001.jpg.desc", Bin "D1"); ("SIFT/x.png.desc", Bin "D2")])
    (Some [("global_features.txt", Txt [H10; "APGEM, float32, 2048"; ""]); ("cam0/0001.jpg.gfeat", Bin "G1")])
    (Some [("cam0/0001.jpg.overlapping/SIFT/x.png.matches", Bin "M12"); ("run_matching.json", Bin "{}")])
    (Some [("cam0/0001.jpg", Bin "I1"); ("SIFT/x.png", Bin "I2")]).
Definition ex_args : args := mkArgs None None None "L2" "cosine".

Example C20_example :
  tidy10 ex_args ex_tree /\ tidy10_strict ex_args ex_tree /\
  exists v, load10 ex_args ex_tree = Some v /\
    v_kp v = [("SIFT", ["SIFT"; "float32"; "4"], [("cam0/0001.jpg", Bin "K1"); ("SIFT/x.png", Bin "K2")])] /\
    v_ds v = [("HardNet", ["HardNet"; "uint8"; "128"; "SIFT"; "L2"], [("cam0/0001.jpg", Bin "D1"); ("SIFT/x.png", Bin "D2")])] /\
    v_gf v = [("APGEM", ["APGEM"; "float32"; "2048"; "cosine"], [("cam0/0001.jpg", Bin "G1")])] /\
    v_mt v = [("SIFT", "cam0/0001.jpg", "SIFT/x.png", Bin "M12")] /\
    v_obs v = [(0%Z, "SIFT", [("SIFT/x.png", 7%Z)]); (1%Z, "SIFT", [("cam0/0001.jpg", 3%Z); ("SIFT/x.png", 4%Z); ("SIFT/x.png", 9%Z)])].
Proof.
  split; [apply tidy10_b_sound; vm_compute; reflexivity|].
  split; [apply tidy10_strict_b_sound; vm_compute; reflexivity|].
  eexists. split; [vm_compute; reflexivity|]. repeat split.
Qed.

(* ------------------------------------------------------------------ the behaviour before the repairs is refuted *)
(* (a) fixes/C20-global-features-without-keypoints.patch: both routes asserted a keypoints type in the
       global-features branch; a dataset with global features and no keypoints was refused *)
Definition gf_only : tree :=
  mkTree
    [("sensors/sensors.txt", Txt [H10; "cam0, cam, camera, SIMPLE_PINHOLE, 640, 480, 500, 320, 240"; ""]);
     ("sensors/records_camera.txt", Txt [H10; "0, cam0, a.jpg"; ""])]
    None None
    (Some [("global_features.txt", Txt [H10; "APGEM, float32, 8"; ""]); ("a.jpg.gfeat", Bin "G1")])
    None None.

Lemma C20_legacy_refuted :
  tidy10 ex_args gf_only /\ tidy10_strict ex_args gf_only /\
  (exists v, load10 ex_args gf_only = Some v /\ v_gf v = [("APGEM", ["APGEM"; "float32"; "8"; "cosine"], [("a.jpg", Bin "G1")])]) /\
  (exists st, upgrade_inplace_legacy ex_args gf_only = Failed Refused st) /\
  upgrade_copy_legacy ex_args Copy gf_only = CFailed Refused.
Proof.
  split; [apply tidy10_b_sound; vm_compute; reflexivity|].
  split; [apply tidy10_strict_b_sound; vm_compute; reflexivity|].
  split; [eexists; split; vm_compute; reflexivity|].
  split; [eexists|]; vm_compute; reflexivity.
Qed.

(* (b) fixes/C20-inplace-move-longest-paths-first.patch: with an image folder named like the keypoints type, the loop
       moved T/x.jpg.kpt onto T/T/x.jpg.kpt before moving the latter: one image lost its keypoints, the other got the
       wrong ones.  (Listing order: a folder before its sub-folders, as os.walk gives it.) *)
Definition clash : tree :=
  mkTree
    [("sensors/sensors.txt", Txt [H10; "cam0, cam, camera, SIMPLE_PINHOLE, 640, 480, 500, 320, 240"; ""]);
     ("sensors/records_camera.txt", Txt [H10; "0, cam0, T/x.jpg"; "1, cam0, T/T/x.jpg"; ""])]
    (Some [("keypoints.txt", Txt [H10; "T, float32, 4"; ""]); ("T/x.jpg.kpt", Bin "KP of T/x.jpg"); ("T/T/x.jpg.kpt", Bin "KP of T/T/x.jpg")])
    None None None None.

Lemma C20_legacy_order_refuted :
  tidy10 ex_args clash /\
  (exists v, load10 ex_args clash = Some v /\
             v_kp v = [("T", ["T"; "float32"; "4"], [("T/x.jpg", Bin "KP of T/x.jpg"); ("T/T/x.jpg", Bin "KP of T/T/x.jpg")])]) /\
  (exists st v', upgrade_inplace_legacy ex_args clash = Done st /\ load11 (fst st) = Some v' /\
                 v_kp v' = [("T", ["T"; "float32"; "4"], [("T/T/x.jpg", Bin "KP of T/x.jpg")])]).
Proof.
  split; [apply tidy10_b_sound; vm_compute; reflexivity|].
  split; [eexists; split; vm_compute; reflexivity|].
  eexists. eexists. split; [vm_compute; reflexivity|]. split; vm_compute; reflexivity.
Qed.

(* (c) fixes/C20-copy-route-without-records-data.patch: root_link on a dataset without sensors/records_data raised *)
Lemma C20_legacy_root_link_refuted :
  upgrade_copy_legacy ex_args RootLink gf_only = CFailed Refused /\
  exists r, upgrade_copy ex_args RootLink gf_only = CDone r /\ c_rd r = RNone.
Proof. split; [vm_compute; reflexivity|]. eexists. split; vm_compute; reflexivity. Qed.

(* ------------------------------------------------------------------ 9. downloader route (tools/kapture_download_dataset.py):
   any history of installs into one install directory and runs of the `upgrade` command, each ending with a pass of
   Dataset.upgrade over the whole install directory as it is then.
     session [] ss      the install directory after the history ss (and whether a step raised)
     installs ss        the dataset directories the history deflates, in order
     wants_upgrade t    sensors/sensors.txt of t says 1.0 or carries no version line
     good t             t is no 1.0 dataset, or a 1.0 dataset in the domain (tidy10 with all names defaulted, metrics L2)
     settled t          t itself when it is no 1.0 dataset, else the result of the in-place route on it
   Every dataset ends as the in-place upgrade of what was deflated — upgraded exactly once, whatever was installed before
   or after it, in however many steps — and nothing raises; directories that are no 1.0 dataset stay as they are. *)
Theorem C20_session_settles : forall ss,
  Forall (fun p => good (snd p)) (installs ss) ->
  session [] ss = (map (fun p => (fst p, settled (snd p))) (installs ss), false).
Proof. exact session_settles. Qed.
Print Assumptions C20_session_settles.

Theorem C20_session_preserves : forall ss n t v,
  Forall (fun p => good (snd p)) (installs ss) ->
  In (n, t) (installs ss) -> tidy10 dl_args t -> load10 dl_args t = Some v -> wants_upgrade t = true ->
  exists r st, session [] ss = (r, false) /\ upgrade_inplace dl_args t = Done st /\
               In (n, fst st) r /\ load11 (fst st) = Some v /\ map fst r = map fst (installs ss).
Proof. exact session_preserves. Qed.
Print Assumptions C20_session_preserves.

(* an upgraded dataset is not upgraded again by the later passes: its sensors.txt says 1.1 *)
Theorem C20_upgraded_is_left_alone : forall t v st,
  tidy10 dl_args t -> load10 dl_args t = Some v -> upgrade_inplace dl_args t = Done st ->
  wants_upgrade (fst st) = false.
Proof. exact upgraded_is_calm. Qed.
Print Assumptions C20_upgraded_is_left_alone.

(* frame, for every install directory (also when the pass raises): a directory that is no 1.0 dataset is not touched,
   and a pass neither adds, drops nor reorders directories *)
Theorem C20_pass_frame : forall r,
  (forall n t, In (n, t) r -> wants_upgrade t = false -> In (n, t) (fst (upgrade_pass r))) /\
  map fst (fst (upgrade_pass r)) = map fst r.
Proof. intros r. split; [apply pass_frame | apply pass_names]. Qed.
Print Assumptions C20_pass_frame.

(* non-vacuity and the behaviour that must not happen: two 1.0 datasets installed one after the other.  The real pass
   upgrades both; a downloader that keeps the list of directories found by its first pass leaves the second one in 1.0
   (seeded change C20-downloader-stale-csv-list), where the loader skips the whole reconstruction. *)
Example C20_session_example :
  good ex_tree /\ good gf_only /\ wants_upgrade ex_tree = true /\ wants_upgrade gf_only = true /\
  (exists ra rb, session [] [Install "dsA/mapping" gf_only; Install "dsB" ex_tree; Again]
                 = ([("dsA/mapping", ra); ("dsB", rb)], false) /\
                 load11 ra = load10 dl_args gf_only /\ load11 rb = load10 dl_args ex_tree /\ load11 rb <> None) /\
  (exists ra, session_listed None [] [Install "dsA/mapping" gf_only; Install "dsB" ex_tree; Again]
              = ([("dsA/mapping", ra); ("dsB", ex_tree)], false) /\ wants_upgrade ex_tree = true).
Proof.
  split; [right; split; [apply tidy10_b_sound; vm_compute; reflexivity | eexists; vm_compute; reflexivity]|].
  split; [right; split; [apply tidy10_b_sound; vm_compute; reflexivity | eexists; vm_compute; reflexivity]|].
  split; [vm_compute; reflexivity|]. split; [vm_compute; reflexivity|]. split.
  - eexists. eexists. split; [vm_compute; reflexivity|]. split; [vm_compute; reflexivity|].
    split; [vm_compute; reflexivity | vm_compute; discriminate].
  - eexists. split; vm_compute; reflexivity.
Qed.
