(* Props/C20.v — placeholder while the harness is being brought up *)
From Coq Require Import List Bool String.
From KV.Model Require Import MUpgrade.
From KV.Proofs Require Import PUpgrade.
Import ListNotations.
Theorem C20_placeholder : True. Proof. exact I. Qed.
Print Assumptions C20_placeholder.
