"""Table translator: introspects the kapture tree on PYTHONPATH and writes coq/Gen/Tables.v.
Run on every check.  Fails closed (non-zero exit, file untouched) when introspection fails.
The output is rewritten only when its content changes so that make stays incremental."""
import inspect
import os
import re
import sys

sys.path.insert(0, os.path.dirname(os.path.abspath(__file__)))
import kv  # noqa: E402


DRY = os.environ.get('VERIF_TABLES_DRY') == '1'     # only report (exit 3) whether a file would change
WOULD_CHANGE = []


def write_if_changed(path, text):
    old = open(path).read() if os.path.exists(path) else None
    if old != text:
        if DRY:
            WOULD_CHANGE.append(path)
            return
        with open(path, 'w') as f:
            f.write(text)


def main(out_path):
    import kapture
    import kapture.io.csv as kcsv
    import kapture.io.features as kfeat
    import kapture.io.records as krec
    from kapture.core.Records import RecordsFilePath

    L = []
    w = L.append
    w('(* GENERATED on every check by harness/gen_tables.py from the repository under test. Do not edit. *)')
    w('From Coq Require Import List String ZArith NArith.')
    w('Import ListNotations.')
    w('Local Open Scope string_scope.')
    w('')
    # the dataset parts, in constructor order
    params = [p for p in inspect.signature(kapture.Kapture.__init__).parameters if p != 'self']
    w('(* Kapture.__init__ parameters = the dataset parts *)')
    w('Definition parts : list string := ' + kv.clist(kv.cstr(p) for p in params) + '.')
    w('')
    root = '/kvroot'

    def rel(p):
        p = p.replace('\\', '/')
        assert p.startswith(root + '/'), p
        return p[len(root) + 1:]

    w('(* CSV_FILENAMES: (type name, path relative to the dataset root, stores record files) *)')
    rows = []
    for t, fn in kcsv.CSV_FILENAMES.items():
        rows.append(kv.cpair(kv.cstr(t.__name__), kv.cstr(fn.replace('\\', '/')),
                             kv.cbool(issubclass(t, RecordsFilePath))))
    w('Definition csv_files : list (string * string * bool) := ' + kv.clist(rows) + '.')
    rows = []
    for t, fn in kfeat.FEATURES_DATA_DIRNAMES.items():
        rows.append(kv.cpair(kv.cstr(t.__name__), kv.cstr(fn.replace('\\', '/')),
                             kv.cbool(issubclass(t, RecordsFilePath))))
    w('(* FEATURES_DATA_DIRNAMES *)')
    w('Definition feature_dirs : list (string * string * bool) := ' + kv.clist(rows) + '.')
    w('Definition records_data_rel : string := ' + kv.cstr(rel(krec.get_record_fullpath(root))) + '.')
    w('')
    text = '\n'.join(L) + '\n'
    write_if_changed(out_path, text)
    # per-property table files: harness/tables/<name>.py with emit() -> list of Coq lines  ==> coq/Gen/T<name>.v
    extra = os.path.join(os.path.dirname(os.path.abspath(__file__)), 'tables')
    if os.path.isdir(extra):
        for fn in sorted(os.listdir(extra)):
            if fn.endswith('.py') and not fn.startswith('_'):
                target = os.path.join(os.path.dirname(out_path), 'T' + fn[:-3] + '.v')
                try:
                    ns = {'__file__': os.path.join(extra, fn), '__name__': 'tables_' + fn[:-3]}
                    exec(compile(open(os.path.join(extra, fn)).read(), fn, 'exec'), ns)
                    lines = ['(* GENERATED on every check by harness/tables/%s from the repository under test. Do not edit. *)' % fn,
                             'From Coq Require Import List String ZArith NArith QArith.', 'Import ListNotations.', '']
                    lines += list(ns['emit']())
                    write_if_changed(target, '\n'.join(lines) + '\n')
                except Exception as e:  # fail closed for the properties that depend on this table only
                    print(f'TABLE-TRANSLATOR-FAILED {fn}: {type(e).__name__}: {e}')
                    for ext in ('.v', '.vo'):
                        if os.path.exists(target[:-2] + ext):
                            if DRY:
                                WOULD_CHANGE.append(target)
                            else:
                                os.unlink(target[:-2] + ext)


if __name__ == '__main__':
    main(sys.argv[1])
    if DRY and WOULD_CHANGE:
        sys.exit(3)
