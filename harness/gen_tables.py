"""Table translator: introspects the kapture tree on PYTHONPATH and writes coq/Gen/Tables.v.
Run on every check.  Fails closed (non-zero exit, file untouched) when introspection fails.
The output is rewritten only when its content changes so that make stays incremental."""
import inspect
import os
import re
import sys

sys.path.insert(0, os.path.dirname(os.path.abspath(__file__)))
import kv  # noqa: E402


def main(out_path):
    import kapture
    import kapture.io.csv as kcsv
    import kapture.io.features as kfeat
    import kapture.io.records as krec
    from kapture.core.Records import RecordsFilePath

    L = []
    w = L.append
    w('(* GENERATED on every check by harness/gen_tables.py from the repository under test. Do not edit. *)')
    w('From Coq Require Import List String ZArith NArith.')
    w('Import ListNotations.')
    w('Local Open Scope string_scope.')
    w('')
    # the dataset parts, in constructor order
    params = [p for p in inspect.signature(kapture.Kapture.__init__).parameters if p != 'self']
    w('(* Kapture.__init__ parameters = the dataset parts *)')
    w('Definition parts : list string := ' + kv.clist(kv.cstr(p) for p in params) + '.')
    w('')
    root = '/kvroot'

    def rel(p):
        p = p.replace('\\', '/')
        assert p.startswith(root + '/'), p
        return p[len(root) + 1:]

    w('(* CSV_FILENAMES: (type name, path relative to the dataset root, stores record files) *)')
    rows = []
    for t, fn in kcsv.CSV_FILENAMES.items():
        rows.append(kv.cpair(kv.cstr(t.__name__), kv.cstr(fn.replace('\\', '/')),
                             kv.cbool(issubclass(t, RecordsFilePath))))
    w('Definition csv_files : list (string * string * bool) := ' + kv.clist(rows) + '.')
    rows = []
    for t, fn in kfeat.FEATURES_DATA_DIRNAMES.items():
        rows.append(kv.cpair(kv.cstr(t.__name__), kv.cstr(fn.replace('\\', '/')),
                             kv.cbool(issubclass(t, RecordsFilePath))))
    w('(* FEATURES_DATA_DIRNAMES *)')
    w('Definition feature_dirs : list (string * string * bool) := ' + kv.clist(rows) + '.')
    w('Definition records_data_rel : string := ' + kv.cstr(rel(krec.get_record_fullpath(root))) + '.')
    w('')
    extra = os.path.join(os.path.dirname(os.path.abspath(__file__)), 'tables')
    if os.path.isdir(extra):
        for fn in sorted(os.listdir(extra)):
            if fn.endswith('.py'):
                ns = {}
                exec(compile(open(os.path.join(extra, fn)).read(), fn, 'exec'), ns)
                w(f'(* ---- harness/tables/{fn} *)')
                for line in ns['emit']():
                    w(line)
                w('')
    text = '\n'.join(L) + '\n'
    old = open(out_path).read() if os.path.exists(out_path) else None
    if old != text:
        with open(out_path, 'w') as f:
            f.write(text)


if __name__ == '__main__':
    main(sys.argv[1])
