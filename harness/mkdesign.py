"""Assembles DESIGN.md from docs/design_head.md, docs/Cxx.md, known_findings.txt, selftest/RESULTS.md and
docs/design_tail.md.  Run after integrating a property or a self-test run."""
import os
import re

HERE = os.path.dirname(os.path.abspath(__file__))
VERIF = os.path.dirname(HERE)
ALL = [f'C{i:02d}' for i in range(1, 21)]


def demote(md):
    """Shift the headings of a per-property note two levels down so that they nest under section 5."""
    out = []
    for line in md.splitlines():
        m = re.match(r'^(#+)\s', line)
        if m:
            line = '##' + line
        out.append(line)
    return '\n'.join(out)


def latest_results():
    rows = {}
    # older runs first (RESULTS.history.md), then the current file: the latest verdict of a patch wins
    for path in (os.path.join(VERIF, 'selftest', 'RESULTS.history.md'), os.path.join(VERIF, 'selftest', 'RESULTS.md')):
        if not os.path.exists(path):
            continue
        for line in open(path):
            m = re.match(r'\|\s*(C\d+)\s*\|\s*(\S+)\s*\|\s*([^|]+?)\s*\|\s*([^|]*?)\s*\|\s*(.*?)\s*\|\s*$', line)
            if m and m.group(2) not in ('patch', '---') and os.path.exists(os.path.join(VERIF, m.group(2)) if not m.group(2).startswith('selftest/') and not m.group(2).startswith('seeded/') else os.path.join(VERIF, m.group(2))):
                rows[m.group(2)] = (m.group(1), m.group(3), m.group(5))
    return rows


def main():
    parts = [open(os.path.join(VERIF, 'docs', 'design_head.md')).read()]
    ready = set(open(os.path.join(HERE, 'ready.txt')).read().split())
    for pid in ALL:
        p = os.path.join(VERIF, 'docs', pid + '.md')
        if os.path.exists(p):
            status = 'claimed in MANIFEST.json' if pid in ready else 'built, not yet integrated/claimed'
            parts.append(f'\n<!-- {pid}: {status} -->\n' + demote(open(p).read().strip()) + '\n')
        else:
            parts.append(f'\n### {pid}\n\nNot built yet in this round; the plan is in `git show 5e6a701:DESIGN.md` section 5.\n')
    # section 6 from known_findings.txt
    sec6 = ['\n## 6. Defects found on the unchanged tree, and what was done\n',
            'Each line below is a genuine defect: the failing input was shown against the real code by the check\'s oracle '
            '(replay in `corpus/<id>/`), repaired by one small `fix:` commit in `/repo` (the patch as developed is in `fixes/`), '
            'and the pre-fix behaviour stays provable as a `…_legacy_refuted` lemma where the model keeps it. A `fixed:` entry '
            'suppresses nothing: the reverse of every fix is a mutant in `selftest/mutants/` and must be reported again.\n',
            '| property | commit | what failed |', '|---|---|---|']
    known = []
    for line in open(os.path.join(VERIF, 'known_findings.txt')):
        m = re.match(r'fixed:\s+property=(\S+)\s+(\S+)\s+(.*)$', line.strip())
        if m:
            sec6.append(f'| {m.group(1)} | `{m.group(2)}` | {m.group(3).replace("|", "/")} |')
        m = re.match(r'known:\s+property=(\S+)\s+sig=(.*)$', line.strip())
        if m:
            known.append((m.group(1), m.group(2)))
    if known:
        sec6.append('\nRecorded rather than repaired (printed as `KNOWN-FINDING:` by the check, exit 0):\n')
        for pid, sig in known:
            sec6.append(f'- {pid}: {sig}')
    else:
        sec6.append('\nNo finding is recorded-rather-than-repaired at this point (`known:` lines: none).')
    parts.append('\n'.join(sec6) + '\n')
    parts.append(open(os.path.join(VERIF, 'docs', 'design_tail.md')).read())
    # section 9 table
    rows = latest_results()
    tab = ['\n### Latest self-test verdict per patch (from `selftest/RESULTS.md`)\n',
           '`CAUGHT` = exit 1 with a `VIOLATION` line and a concrete failing input as replay; '
           '`CAUGHT (no-failing-input-found)` = the proof/correspondence broke but the property\'s oracle found no failing input '
           '(the change alters modelled behaviour without violating the statement); `QUIET` = exit 0 (expected for harmless patches); '
           '`MISSED` / `FALSE-ALARM` are defects of the machinery.\n',
           '| property | patch | verdict | what the check reported |', '|---|---|---|---|']
    for patch in sorted(rows, key=lambda k: (rows[k][0], k)):
        pid, verdict, detail = rows[patch]
        detail = re.sub(r'VIOLATION property=\S+ replay=\S+\s*(no-failing-input-found)?\s*(::)?', '', detail).strip()
        tab.append(f'| {pid} | `{patch}` | {verdict} | {detail[:150]} |')
    parts.append('\n'.join(tab) + '\n')
    with open(os.path.join(VERIF, 'DESIGN.md'), 'w') as f:
        f.write('\n'.join(parts))
    print('DESIGN.md written:', sum(len(p) for p in parts), 'chars')


if __name__ == '__main__':
    main()
