"""Writes MANIFEST.json from the metadata of the property modules that exist (harness/props/cXX.py).
Properties without a module are listed under not_applicable with the reason from PENDING below."""
import importlib
import json
import os
import sys

HERE = os.path.dirname(os.path.abspath(__file__))
sys.path.insert(0, HERE)
VERIF = os.path.dirname(HERE)
ALL = [f'C{i:02d}' for i in range(1, 21)]
PENDING = {}


def main():
    checks, na = [], []
    ready = set(open(os.path.join(HERE, 'ready.txt')).read().split())
    for pid in ALL:
        if pid not in ready or not os.path.exists(os.path.join(HERE, 'props', pid.lower() + '.py')):
            na.append({'property_id': pid, 'reason': PENDING.get(pid, 'check still being built and integrated in this round (see DESIGN.md section 5 for the plan); not yet claimed')})
            continue
        mod = importlib.import_module('props.' + pid.lower())
        checks.append({
            'property_id': pid,
            'quick_cmd': f'./check {pid} quick',
            'thorough_cmd': f'./check {pid} thorough',
            'evidence_file': f'/verif/evidence/{pid}.json',
            'replay_cmd_template': f'./check {pid} --replay {{path}}',
            'engine': 'coq-proof+correspondence',
            'level_claimed': {'category': 'proof', 'text': mod.LEVEL_TEXT, 'design_ref': f'DESIGN.md section 5 ({pid})'},
            'level_note': mod.LEVEL_NOTE,
            'technique': mod.TECHNIQUE,
        })
    man = {
        'version': 1,
        'setup_cmd': './setup.sh',
        'hooks': {'guard': 'KAPTURE_VERIF', 'enable': 'no source hooks: the harness patches builtins.input / requests / untar from outside and sets KAPTURE_VERIF=1 (unused by the source)',
                  'baseline_off_cmd': 'cd /repo && /venv/bin/python -m pytest -ra -q -p no:cacheprovider --timeout=900 --continue-on-collection-errors',
                  'source_commits': [], 'add_only': True},
        'engines': [{'name': 'coq-proof+correspondence', 'path': '/verif/check',
                     'serves_properties': [c['property_id'] for c in checks],
                     'kind_free_text': 'Coq 8.16.1 theorems over hand-written executable Gallina models (coq/Model, coq/Proofs, coq/Props) + tables regenerated from the source on every run (coq/Gen/Tables.v) + differential correspondence evaluated inside Coq by vm_compute (harness/)'}],
        'checks': checks,
        'notes': 'See DESIGN.md. Fix commits in /repo are listed in known_findings.txt as fixed: lines.',
        'not_applicable': na,
    }
    with open(os.path.join(VERIF, 'MANIFEST.json'), 'w') as f:
        json.dump(man, f, indent=1)
    print(f'{len(checks)} checks, {len(na)} pending')


if __name__ == '__main__':
    main()
