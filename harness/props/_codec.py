"""Shared machinery of the text-codec properties C01 (save / load round trip) and C02 (format conformance).

A dataset travels through the harness in a *plain* JSON-able form (lists of rows in a fixed semantic
column order, floats as float.hex() strings).  From it we build the real kapture objects (semantic
constructors / keyword arguments only), let the real kapture_to_dir / kapture_from_dir / *_from_file run,
extract what came back through the semantic accessors of the kapture classes (attribute names, never file
positions) and hand everything to Coq as typed cells laid out in the column order that kapture_format.adoc
documents (parsed at run time)."""
import logging
import math
import os
import re
import shutil
import struct

import kv

logging.disable(logging.CRITICAL)

TABLE_PARTS = ['sensors', 'rigs', 'trajectories', 'records_camera', 'records_depth', 'records_lidar', 'records_wifi',
               'records_bluetooth', 'records_gnss', 'records_accelerometer', 'records_gyroscope', 'records_magnetic',
               'observations']
FEAT_PARTS = ['keypoints', 'descriptors', 'global_features']
ALL_PARTS = TABLE_PARTS[:12] + FEAT_PARTS + ['matches', 'points3d', 'observations']
assert len(ALL_PARTS) == 18

COQ_TFILE = {'sensors': 'FSensors', 'rigs': 'FRigs', 'trajectories': 'FTraj', 'records_camera': 'FRec RCamera',
             'records_depth': 'FRec RDepth', 'records_lidar': 'FRec RLidar', 'records_wifi': 'FRec RWifi',
             'records_bluetooth': 'FRec RBluetooth', 'records_gnss': 'FRec RGnss',
             'records_accelerometer': 'FRec RAccel', 'records_gyroscope': 'FRec RGyro',
             'records_magnetic': 'FRec RMag', 'observations': 'FObs'}
COQ_FEAT = {'keypoints': 'KKeypoints', 'descriptors': 'KDescriptors', 'global_features': 'KGlobal'}
REC_SENSOR_TYPE = {'records_camera': 'camera', 'records_depth': 'depth', 'records_lidar': 'lidar',
                   'records_wifi': 'wifi', 'records_bluetooth': 'bluetooth', 'records_gnss': 'gnss',
                   'records_accelerometer': 'accelerometer', 'records_gyroscope': 'gyroscope',
                   'records_magnetic': 'magnetic'}

# semantic column names of the plain rows (the names the kapture classes use), per logical file
SEM_COLS = {
    'sensors': ['sensor_id', 'name', 'sensor_type', '*sensor_params'],
    'rigs': ['rig_id', 'sensor_id', 'qw', 'qx', 'qy', 'qz', 'tx', 'ty', 'tz'],
    'trajectories': ['timestamp', 'device_id', 'qw', 'qx', 'qy', 'qz', 'tx', 'ty', 'tz'],
    'records_camera': ['timestamp', 'device_id', 'image_path'],
    'records_depth': ['timestamp', 'device_id', 'depth_map_path'],
    'records_lidar': ['timestamp', 'device_id', 'point_cloud_path'],
    'records_wifi': ['timestamp', 'device_id', 'bssid', 'frequency', 'rssi', 'ssid', 'scan_time_start', 'scan_time_end'],
    'records_bluetooth': ['timestamp', 'device_id', 'address', 'rssi', 'name'],
    'records_gnss': ['timestamp', 'device_id', 'x', 'y', 'z', 'utc', 'dop'],
    'records_accelerometer': ['timestamp', 'device_id', 'x_accel', 'y_accel', 'z_accel'],
    'records_gyroscope': ['timestamp', 'device_id', 'x_speed', 'y_speed', 'z_speed'],
    'records_magnetic': ['timestamp', 'device_id', 'x_strength', 'y_strength', 'z_strength'],
    'observations': ['point3d_id', 'keypoints_type', '*image_path', '*feature_id'],
    'keypoints': ['name', 'dtype', 'dsize'],
    'descriptors': ['name', 'dtype', 'dsize', 'keypoints_type', 'metric_type'],
    'global_features': ['name', 'dtype', 'dsize', 'metric_type'],
    'pairsfile': ['query_image', 'mapping_image', 'score'],
}
# names used by kapture_format.adoc that differ from the names in the code
ADOC_ALIAS = {'sensor_device_id': 'sensor_id', 'rig_device_id': 'rig_id', 'x_acc': 'x_accel', 'y_acc': 'y_accel',
              'z_acc': 'z_accel', 'BSSID': 'bssid', 'RSSI': 'rssi', 'SSID': 'ssid'}
KEYLEN = {'sensors': 1, 'rigs': 2, 'trajectories': 2, 'records_camera': 2, 'records_depth': 2, 'records_lidar': 2,
          'records_wifi': 3, 'records_bluetooth': 3, 'records_gnss': 2, 'records_accelerometer': 2,
          'records_gyroscope': 2, 'records_magnetic': 2, 'observations': 2}

_ADOC = None


def adoc_columns():
    """logical part name -> column names in the order of kapture_format.adoc, normalised to the code's names;
    a leading '*' marks the repeating tail."""
    global _ADOC
    if _ADOC is None:
        import importlib.util
        spec = importlib.util.spec_from_file_location('tables_codec', os.path.join(kv.VERIF, 'harness', 'tables', 'codec.py'))
        mod = importlib.util.module_from_spec(spec)
        spec.loader.exec_module(mod)
        syn = mod.adoc_syntax(kv.REPO)
        out = {}
        for fname, line in syn.items():
            part = fname[:-4] if fname.endswith('.txt') else fname
            cols = []
            tail = False
            for tok in line.split(','):
                tok = tok.strip()
                if tok.startswith('['):
                    tail = True
                name = tok.strip('[]+* ')
                name = ADOC_ALIAS.get(name, name)
                cols.append(('*' if tail else '') + name)
                if tok.rstrip('+*').endswith(']'):
                    tail = False
            out[part] = cols
        _ADOC = out
    return _ADOC


def spec_order(part, values):
    """values: dict semantic name -> value (tail names -> list).  Returns the flat row in adoc order."""
    cols = adoc_columns()[part]
    sem = SEM_COLS[part]
    if sorted(c.lstrip('*') for c in cols) != sorted(c.lstrip('*') for c in sem):
        raise RuntimeError(f'{part}: columns of kapture_format.adoc {cols} are not the columns of the code {sem}')
    fixed = [values[c] for c in cols if not c.startswith('*')]
    tails = [values[c[1:]] for c in cols if c.startswith('*')]
    out = list(fixed)
    if tails:
        for group in zip(*tails):
            out.extend(group)
    return out


# ------------------------------------------------------------------------------------------------ floats
def f2bits(x):
    return struct.unpack('<Q', struct.pack('<d', float(x)))[0]


def bits2f(b):
    return struct.unpack('<d', struct.pack('<Q', b))[0]


def fx(h):
    return float.fromhex(h)


def hx(x):
    return float(x).hex()


def gen_float(rng, allow_special=True):
    c = rng.choice(['short', 'short', 'digits17', 'digits17', 'int', 'sub', 'huge', 'zero', 'tiny', 'quat'])
    if c == 'short':
        return rng.choice([1, -1]) * rng.randint(0, 99999) / rng.choice([1, 2, 4, 8, 10, 100, 1000])
    if c == 'digits17':
        return rng.uniform(-1, 1) * 10 ** rng.randint(-5, 9)
    if c == 'int':
        return float(rng.randint(-10 ** rng.randint(0, 17), 10 ** rng.randint(0, 17)))
    if c == 'sub':
        return rng.choice([1, -1]) * 5e-324 * rng.randint(1, 2 ** rng.randint(1, 51))
    if c == 'huge':
        return rng.choice([1, -1]) * rng.uniform(1e300, 1.7976931348623157e308)
    if c == 'zero':
        return rng.choice([0.0, -0.0])
    if c == 'tiny':
        return rng.uniform(-1, 1) * 10 ** rng.randint(-300, -9)
    return rng.uniform(-1, 1)


# ------------------------------------------------------------------------------------------------ identifiers
_ALPHA = 'abcdefghijklmnopqrstuvwxyzABCDEFGHIJKLMNOPQRSTUVWXYZ0123456789_-.'
_INNER = _ALPHA + '   ;:!@$%&()[]{}=+~^\'"#' + 'éàüßñøЖдляΩλ漢字かな한글🙂  '


def is_wf_str(s, allow_empty=True):
    if s == '' and not allow_empty:
        return False
    return (',' not in s and '\n' not in s and '\r' not in s and s == s.strip() and not s.startswith('#'))


def gen_ident(rng, allow_empty=False, fancy=0.35, maxlen=12):
    for _ in range(50):
        if allow_empty and rng.random() < 0.12:
            return ''
        n = rng.randint(1, maxlen)
        if rng.random() < fancy:
            s = ''.join(rng.choice(_INNER) for _ in range(n))
        else:
            s = ''.join(rng.choice(_ALPHA) for _ in range(n))
        if is_wf_str(s, allow_empty=False):
            return s
    return 'x'


def gen_name_component(rng, fancy=0.3):
    """a directory / file name: no '/', not '.' or '..', no backslash"""
    for _ in range(50):
        s = gen_ident(rng, fancy=fancy, maxlen=10).replace('/', '_').replace('\\', '_')
        if s.strip('.') and is_wf_str(s, False) and len(s.encode()) < 100 and '.overlapping' not in s:
            return s
    return 'n'


def gen_path(rng, ext='.jpg'):
    parts = [gen_name_component(rng) for _ in range(rng.randint(1, 3))]
    parts = [p for p in parts if p not in ('.', '..')]
    p = '/'.join(parts) + rng.choice([ext, ext, '', '.png'])
    return p if is_wf_str(p, False) and not p.startswith('/') else 'img' + ext


def denormalise(rng, p):
    """the same file under a spelling that is not in os.path.normpath form (a legal identifier all the same)"""
    c = rng.choice(['dot', 'double', 'updir', 'updir'])
    if c == 'dot':
        return './' + p
    if c == 'double' and '/' in p:
        return p.replace('/', '//', 1)
    return gen_name_component(rng, fancy=0.0) + '/../' + p


def is_normalised(p):
    return os.path.normpath(p).replace('\\', '/') == p


def gen_timestamp(rng):
    c = rng.choice(['small', 'small', 'small', 'neg', 'big19', 'zero', 'mid'])
    if c == 'small':
        return rng.randint(0, 2000)
    if c == 'neg':
        return -rng.randint(1, 10 ** rng.randint(1, 18))
    if c == 'big19':
        return rng.randint(10 ** 18, 9223372036854775807)
    if c == 'zero':
        return 0
    return rng.randint(10 ** 9, 10 ** 16)


# ------------------------------------------------------------------------------------------------ dataset generator
DTYPES_WRITE = ['float32', 'float64', 'int32', 'uint8']     # element types every tree accepts back bare


def gen_pose(rng, partial=0.3):
    rot = [hx(gen_float(rng)) for _ in range(4)] if rng.random() > partial / 2 else None
    tr = [hx(gen_float(rng)) for _ in range(3)] if rng.random() > partial / 2 else None
    return rot, tr


def gen_dataset(rng, present=None, size=None, nested_rigs=False, rig_order=None, multi_device=False):
    """A well-formed dataset in plain form.  present: set of part names (None = each with probability 1/2,
    then closed under the format's dependencies); size: max rows per part."""
    import kapture
    from kapture.core.Sensors import CAMERA_TYPE_PARAMS_COUNT_FROM_NAME
    big = None
    if size is None:
        size = rng.choice([0, 1, 2, 3, 3, 5, 8])
        if rng.random() < 0.2:
            big = rng.choice(TABLE_PARTS + ['points3d'])      # one part with up to 40 rows
    if present is None:
        present = {p for p in ALL_PARTS if rng.random() < 0.5}
    present = set(present) | {'sensors'}
    if 'observations' in present:
        present |= {'keypoints', 'points3d'}
    if present & {'keypoints', 'descriptors', 'global_features', 'matches'}:
        present.add('records_camera')

    cur = [None]

    def n_rows():
        if big is not None and cur[0] == big:
            return rng.randint(0, 40)
        return rng.randint(0, size) if size else 0
    d = {p: None for p in ALL_PARTS}
    used_ids = set()
    # as in real captures, several devices usually share the same few timestamps
    ts_pool = [gen_timestamp(rng) for _ in range(rng.randint(1, 5))]

    def pick_ts():
        return rng.choice(ts_pool) if rng.random() < 0.7 else gen_timestamp(rng)

    def fresh_id():
        for _ in range(100):
            s = gen_ident(rng, fancy=0.3, maxlen=8)
            if s not in used_ids:
                used_ids.add(s)
                return s
        s = 'id%d' % len(used_ids)
        used_ids.add(s)
        return s
    cur[0] = 'sensors'
    # sensors: make sure every record kind that is present can have a sensor of its type
    sensors = []
    by_type = {}
    # several devices of the same kind are common (two phones, a stereo pair): 1-3 sensors per record kind present
    wanted = []
    for p_ in REC_SENSOR_TYPE:
        if p_ in present and (multi_device or rng.random() < 0.85):
            wanted += [REC_SENSOR_TYPE[p_]] * (rng.randint(2, 3) if multi_device else rng.choice([1, 1, 2, 3]))
    wanted += [rng.choice(['camera', 'depth', 'lidar', 'wifi', 'gnss', 'odometry', 'pressure', 'my sensor'])
               for _ in range(n_rows())]
    rng.shuffle(wanted)
    for st in (wanted if multi_device else wanted[:max(size, 14) if size else 3]):
        sid = fresh_id()
        name = rng.choice([None, '', gen_ident(rng, allow_empty=True), gen_ident(rng)])
        if st in ('camera', 'depth'):
            model = rng.choice(list(CAMERA_TYPE_PARAMS_COUNT_FROM_NAME))
            npar = CAMERA_TYPE_PARAMS_COUNT_FROM_NAME[model]
            vals = [rng.choice([float(rng.randint(1, 4000)), gen_float(rng), rng.uniform(0, 2000)]) for _ in range(npar)]
            cam = kapture.Camera(model, vals, name, sensor_type=st)
            params = list(cam.sensor_params)
        elif st == 'gnss':
            params = [rng.choice(['EPSG:4326', 'EPSG:2154', ''])]
        else:
            params = [gen_ident(rng, allow_empty=True) for _ in range(rng.choice([0, 0, 1, 2, 3]))]
        sensors.append([sid, name, st, params])
        by_type.setdefault(st, []).append(sid)
    d['sensors'] = sensors
    sids = [s[0] for s in sensors]
    # rigs: members are sensors or other rigs (nested rigs, depth up to 3); the rows of a parent rig may stand
    # before or after the rows of the rigs it contains (parent-first is what a top-down construction gives)
    rig_ids = []
    if 'rigs' in present:
        groups = []
        if sids:
            n_rigs = rng.randint(0, min(size, 4)) if not nested_rigs else rng.randint(2, 3)
            for _ in range(n_rigs):
                rid = fresh_id()
                pool = list(sids)
                members = rng.sample(pool, rng.randint(1, min(2, len(pool))))
                if rig_ids and (nested_rigs or rng.random() < 0.6):
                    members.insert(rng.randint(0, len(members)), rig_ids[-1])     # contains the previous rig
                    if len(rig_ids) > 1 and rng.random() < 0.3:
                        members.append(rig_ids[0])
                rig_ids.append(rid)
                group = []
                for m in dict.fromkeys(members):
                    rot, tr = gen_pose(rng)
                    group.append([rid, m, rot, tr])
                groups.append(group)
        order = rig_order or rng.choice(['child-first', 'parent-first', 'shuffled'])
        if order == 'parent-first':
            groups.reverse()
        elif order == 'shuffled':
            rng.shuffle(groups)
        d['rigs'] = [row for g in groups for row in g]
    devices = sids + rig_ids
    cur[0] = 'trajectories'
    if 'trajectories' in present:
        rows, seen = [], set()
        if devices and multi_device:
            for ts in dict.fromkeys(ts_pool[:3]):
                for dev in devices[:4]:
                    seen.add((ts, dev))
                    rot, tr = gen_pose(rng)
                    rows.append([ts, dev, rot, tr])
            rng.shuffle(rows)
        elif devices:
            for _ in range(n_rows()):
                k = (pick_ts(), rng.choice(devices))
                if k in seen:
                    continue
                seen.add(k)
                rot, tr = gen_pose(rng)
                rows.append([k[0], k[1], rot, tr])
        d['trajectories'] = rows

    def rec_keys(part):
        cur[0] = part
        ids = by_type.get(REC_SENSOR_TYPE[part], [])
        keys, seen = [], set()
        if ids and multi_device:
            # every device at each of a few common timestamps, rows interleaved in some order
            keys = [(ts, dev) for ts in dict.fromkeys(ts_pool[:3]) for dev in ids]
            c = rng.choice(['timestamp-major', 'device-major', 'shuffled'])
            if c == 'device-major':
                keys.sort(key=lambda k: ids.index(k[1]))
            elif c == 'shuffled':
                rng.shuffle(keys)
            return keys
        if ids:
            for _ in range(n_rows()):
                k = (pick_ts(), rng.choice(ids))
                if k not in seen:
                    seen.add(k)
                    keys.append(k)
        return keys
    for part, ext in [('records_camera', '.jpg'), ('records_depth', '.depth'), ('records_lidar', '.pcd')]:
        if part in present:
            rows, norm_seen = [], set()
            for ts, dev in rec_keys(part):
                pth = gen_path(rng, ext)
                if rng.random() < 0.25:
                    pth = denormalise(rng, pth)
                if os.path.normpath(pth) in norm_seen:
                    continue                          # two spellings of one file would share their feature files
                norm_seen.add(os.path.normpath(pth))
                rows.append([ts, dev, pth])
            d[part] = rows
    if 'records_wifi' in present:
        rows = []
        for ts, dev in rec_keys('records_wifi'):
            seen = set()
            for _ in range(rng.randint(1, 3)):
                b = gen_ident(rng, fancy=0.2)
                if b in seen:
                    continue
                seen.add(b)
                rows.append([ts, dev, b, rng.randint(0, 6 * 10 ** 9), hx(gen_float(rng)), gen_ident(rng, allow_empty=True),
                             gen_timestamp(rng), gen_timestamp(rng)])
        d['records_wifi'] = rows
    if 'records_bluetooth' in present:
        rows = []
        for ts, dev in rec_keys('records_bluetooth'):
            seen = set()
            for _ in range(rng.randint(1, 3)):
                b = gen_ident(rng, fancy=0.2)
                if b in seen:
                    continue
                seen.add(b)
                rows.append([ts, dev, b, hx(gen_float(rng)), gen_ident(rng, allow_empty=True)])
        d['records_bluetooth'] = rows
    if 'records_gnss' in present:
        d['records_gnss'] = [[ts, dev, hx(gen_float(rng)), hx(gen_float(rng)), hx(gen_float(rng)), gen_timestamp(rng),
                              hx(gen_float(rng))] for ts, dev in rec_keys('records_gnss')]
    for part in ['records_accelerometer', 'records_gyroscope', 'records_magnetic']:
        if part in present:
            d[part] = [[ts, dev, hx(gen_float(rng)), hx(gen_float(rng)), hx(gen_float(rng))] for ts, dev in rec_keys(part)]
    images = sorted({r[2] for r in (d['records_camera'] or [])})
    feat_keys = {}
    for part in FEAT_PARTS:
        if part in present:
            rows, seen = [], set()
            for _ in range(rng.randint(1, 3)):
                key = gen_name_component(rng, fancy=0.25)
                if key in seen or key.lower() in {s.lower() for s in seen}:
                    continue
                seen.add(key)
                imgs = sorted(rng.sample(images, rng.randint(0, len(images)))) if images else []
                base = [key, gen_ident(rng, fancy=0.3), rng.choice(DTYPES_WRITE), rng.randint(0, 4096)]
                if part == 'descriptors':
                    base += [gen_ident(rng, fancy=0.2), gen_ident(rng, allow_empty=True, fancy=0.2)]
                elif part == 'global_features':
                    base += [gen_ident(rng, allow_empty=True, fancy=0.2)]
                rows.append(base + [imgs])
            d[part] = rows
            feat_keys[part] = [r[0] for r in rows]
    if 'matches' in present:
        rows, seen = [], set()
        for _ in range(rng.randint(1, 2)):
            kt = rng.choice(feat_keys.get('keypoints', []) + [gen_name_component(rng, fancy=0.2)])
            if kt in seen or kt.lower() in {s.lower() for s in seen}:
                continue
            seen.add(kt)
            pairs = set()
            # match files are named after the images: a pair is identified by the normalised spelling of its paths
            mimages = [i for i in images if is_normalised(i)]
            if len(mimages) >= 2:
                for _ in range(rng.randint(1, 4)):
                    a, b = rng.sample(mimages, 2)
                    pairs.add((a, b) if a < b else (b, a))
            if not pairs:
                continue          # an empty match set has no representation on disk
            rows.append([kt, sorted([list(p) for p in pairs])])
        d['matches'] = rows if rows else None
    cur[0] = 'points3d'
    if 'points3d' in present:
        w = rng.choice([3, 6])
        n = rng.choice([0, 0, n_rows(), n_rows()])
        pts = []
        for _ in range(n):
            row = [hx(gen_float(rng)) for _ in range(3)]
            if w == 6:
                row += [hx(rng.choice([float(rng.randint(0, 255)), gen_float(rng)])) for _ in range(3)]
            pts.append(row)
        d['points3d'] = [w, pts]
    cur[0] = 'observations'
    if 'observations' in present:
        rows, seen = [], set()
        kps = [r for r in (d['keypoints'] or []) if r[-1]]
        if kps:
            # observations.txt has one line per (point3d_id, keypoints_type): a 3-D point is usually seen through
            # several kinds of keypoints (and several points through one kind), so ids come from a small pool
            pid_pool = [rng.choice([rng.randint(0, 50), gen_timestamp(rng)]) for _ in range(rng.randint(1, 3))]
            for _ in range(n_rows()):
                kp = rng.choice(kps)
                k = (rng.choice(pid_pool) if rng.random() < 0.6 else rng.choice([rng.randint(0, 50), gen_timestamp(rng)]),
                     kp[0])
                if k in seen:
                    continue
                seen.add(k)
                pairs = [[rng.choice(kp[-1]), rng.randint(0, 10 ** rng.randint(0, 9))] for _ in range(rng.randint(1, 4))]
                rows.append([k[0], k[1], pairs])
        d['observations'] = rows
    return d


# ------------------------------------------------------------------------------------------------ plain <-> kapture
def _pose(rot, tr):
    import kapture
    return kapture.PoseTransform(r=[fx(v) for v in rot] if rot is not None else None,
                                 t=[fx(v) for v in tr] if tr is not None else None)


def _np_dtype(name):
    import numpy as np
    return {'float': float, 'int': int}.get(name) or getattr(np, name)


def build_kapture(d):
    """plain form -> kapture.Kapture, through the public constructors only"""
    import numpy as np
    import kapture
    k = kapture.Kapture()
    if d['sensors'] is not None:
        s = kapture.Sensors()
        for sid, name, st, params in d['sensors']:
            s[sid] = kapture.create_sensor(st, list(params), name)
        k.sensors = s
    if d['rigs'] is not None:
        r = kapture.Rigs()
        for rid, sid, rot, tr in d['rigs']:
            r[rid, sid] = _pose(rot, tr)
        k.rigs = r
    if d['trajectories'] is not None:
        t = kapture.Trajectories()
        for ts, dev, rot, tr in d['trajectories']:
            t[ts, dev] = _pose(rot, tr)
        k.trajectories = t
    for part, cls in [('records_camera', kapture.RecordsCamera), ('records_depth', kapture.RecordsDepth),
                      ('records_lidar', kapture.RecordsLidar)]:
        if d[part] is not None:
            r = cls()
            for ts, dev, p in d[part]:
                r[ts, dev] = p
            setattr(k, part, r)
    if d['records_wifi'] is not None:
        r = kapture.RecordsWifi()
        for ts, dev, bssid, fr, rssi, ssid, s0, s1 in d['records_wifi']:
            if (ts, dev) not in r:
                r[ts, dev] = kapture.RecordWifi()
            r[ts, dev][bssid] = kapture.RecordWifiSignal(frequency=fr, rssi=fx(rssi), ssid=ssid,
                                                         scan_time_start=s0, scan_time_end=s1)
        k.records_wifi = r
    if d['records_bluetooth'] is not None:
        r = kapture.RecordsBluetooth()
        for ts, dev, addr, rssi, name in d['records_bluetooth']:
            if (ts, dev) not in r:
                r[ts, dev] = kapture.RecordBluetooth()
            r[ts, dev][addr] = kapture.RecordBluetoothSignal(rssi=fx(rssi), name=name)
        k.records_bluetooth = r
    if d['records_gnss'] is not None:
        r = kapture.RecordsGnss()
        for ts, dev, x, y, z, utc, dop in d['records_gnss']:
            r[ts, dev] = kapture.RecordGnss(x=fx(x), y=fx(y), z=fx(z), utc=utc, dop=fx(dop))
        k.records_gnss = r
    for part, cls, rec, names in [
            ('records_accelerometer', kapture.RecordsAccelerometer, kapture.RecordAccelerometer, ('x_accel', 'y_accel', 'z_accel')),
            ('records_gyroscope', kapture.RecordsGyroscope, kapture.RecordGyroscope, ('x_speed', 'y_speed', 'z_speed')),
            ('records_magnetic', kapture.RecordsMagnetic, kapture.RecordMagnetic, ('x_strength', 'y_strength', 'z_strength'))]:
        if d[part] is not None:
            r = cls()
            for ts, dev, x, y, z in d[part]:
                r[ts, dev] = rec(**dict(zip(names, (fx(x), fx(y), fx(z)))))
            setattr(k, part, r)
    if d['keypoints'] is not None:
        k.keypoints = {key: kapture.Keypoints(name, _np_dtype(dt), ds, set(imgs)) for key, name, dt, ds, imgs in d['keypoints']}
    if d['descriptors'] is not None:
        k.descriptors = {key: kapture.Descriptors(name, _np_dtype(dt), ds, kt, mt, set(imgs))
                         for key, name, dt, ds, kt, mt, imgs in d['descriptors']}
    if d['global_features'] is not None:
        k.global_features = {key: kapture.GlobalFeatures(name, _np_dtype(dt), ds, mt, set(imgs))
                             for key, name, dt, ds, mt, imgs in d['global_features']}
    if d['matches'] is not None:
        k.matches = {kt: kapture.Matches({(a, b) for a, b in pairs}) for kt, pairs in d['matches']}
    if d['points3d'] is not None:
        w, rows = d['points3d']
        arr = np.array([[fx(v) for v in row] for row in rows], dtype=np.float64).reshape((-1, w))
        k.points3d = kapture.Points3d(arr)
    if d['observations'] is not None:
        o = kapture.Observations()
        for pid, kt, pairs in d['observations']:
            for img, fid in pairs:
                o.add(pid, kt, img, fid)
        k.observations = o
    return k


def gen_mutations(rng, d):
    """in-memory edits through the public API, applied to the objects built from d AFTER they have been saved once"""
    muts = []
    scale = lambda: hx(rng.choice([0.5, 0.25, -0.5, 0.001, 0.75]))
    if d['trajectories']:
        muts.append({'op': 'rescale_trajectories', 's': scale()})
        if rng.random() < 0.5:
            rot, tr = gen_pose(rng, partial=0.2)
            muts.append({'op': 'replace_pose', 'i': rng.randrange(len(d['trajectories'])), 'rot': rot, 'tr': tr})
    if d['rigs']:
        muts.append({'op': 'rescale_rig_pose', 'i': rng.randrange(len(d['rigs'])), 's': scale()})
    if d['records_gnss'] and rng.random() < 0.7:
        muts.append({'op': 'edit_gnss', 'i': rng.randrange(len(d['records_gnss'])), 'x': hx(gen_float(rng))})
    if d['records_wifi'] and rng.random() < 0.7:
        muts.append({'op': 'edit_wifi', 'i': rng.randrange(len(d['records_wifi'])), 'rssi': hx(gen_float(rng)),
                     'frequency': rng.randint(0, 6 * 10 ** 9)})
    if d['records_lidar'] and rng.random() < 0.7:
        muts.append({'op': 'edit_lidar', 'i': rng.randrange(len(d['records_lidar'])), 'path': gen_path(rng, '.pcd')})
    if rng.random() < 0.6:
        muts.append({'op': 'add_sensor', 'id': 'added ' + gen_ident(rng, fancy=0.2), 'name': rng.choice([None, 'new'])})
    rng.shuffle(muts)
    return muts


_MUT_PART = {'rescale_trajectories': 'trajectories', 'replace_pose': 'trajectories', 'rescale_rig_pose': 'rigs',
             'edit_gnss': 'records_gnss', 'edit_wifi': 'records_wifi', 'edit_lidar': 'records_lidar', 'add_sensor': 'sensors'}


def mutation_applies(m, d):
    """the part the mutation edits is present in (this sub-dataset of) d"""
    return d.get(_MUT_PART[m['op']]) is not None


def apply_mutations(k, d, muts):
    import kapture
    for m in muts:
        op = m['op']
        if op == 'rescale_trajectories':
            kapture.trajectory_rescale_inplace(k.trajectories, fx(m['s']))
        elif op == 'replace_pose':
            ts, dev = d['trajectories'][m['i']][:2]
            k.trajectories[ts, dev] = _pose(m['rot'], m['tr'])
        elif op == 'rescale_rig_pose':
            rid, sid = d['rigs'][m['i']][:2]
            k.rigs[rid, sid].rescale(fx(m['s']))
        elif op == 'edit_gnss':
            ts, dev = d['records_gnss'][m['i']][:2]
            k.records_gnss[ts, dev].x = fx(m['x'])
        elif op == 'edit_wifi':
            ts, dev, bssid = d['records_wifi'][m['i']][:3]
            sig = k.records_wifi[ts, dev][bssid]
            sig.rssi = fx(m['rssi'])
            sig.frequency = m['frequency']
        elif op == 'edit_lidar':
            ts, dev = d['records_lidar'][m['i']][:2]
            k.records_lidar[ts, dev] = m['path']
        elif op == 'add_sensor':
            if m['id'] not in k.sensors and (k.rigs is None or m['id'] not in k.rigs):
                k.sensors[m['id']] = kapture.Sensor('pressure', [], m['name'])
        else:
            raise KeyError(op)


def touch(k):
    """what any tool does between two saves: print, compare, read the raw pose lists"""
    for part in (k.trajectories, k.rigs):
        if part is not None:
            repr(part)
            for a, b, pose in __import__('kapture').flatten(part):
                pose.r_raw, pose.t_raw
                if pose.r is not None and pose.t is not None:      # PoseTransform.__eq__ does not support partial poses
                    pose == pose


class TypeErrorInLoaded(Exception):
    pass


def _chk(v, ty, what):
    if type(v) is not ty and not (ty is float and type(v).__name__ == 'float64'):
        raise TypeErrorInLoaded(f'{what} is {type(v).__name__}, expected {ty.__name__}')
    return v


def _pose_plain(pose, what):
    import quaternion  # noqa
    rot = tr = None
    if pose.r is not None:
        q = pose.r
        rot = [hx(_chk(float(getattr(q, a)), float, what)) for a in ('w', 'x', 'y', 'z')]
    if pose.t is not None:
        t = pose.t
        if t.shape != (3, 1):
            raise TypeErrorInLoaded(f'{what} translation shape {t.shape}')
        tr = [hx(float(t[i, 0])) for i in range(3)]
    return rot, tr


def _dtype_name(dt):
    import numpy as np
    return str(dt) if isinstance(dt, np.dtype) else dt.__name__


def extract_part(part, obj):
    """one part of a kapture.Kapture -> plain rows, through the semantic accessors; checks Python types"""
    import numpy as np
    import kapture
    if obj is None:
        return None
    if part == 'sensors':
        rows = []
        for sid, s in obj.items():
            _chk(sid, str, 'sensor id')
            if s.name is not None:
                _chk(s.name, str, 'sensor name')
            rows.append([sid, s.name, _chk(s.sensor_type, str, 'sensor type'),
                         [_chk(p, str, 'sensor param') for p in s.sensor_params]])
            if s.sensor_type in ('camera', 'depth') and not isinstance(s, kapture.Camera):
                raise TypeErrorInLoaded('camera sensor is not a Camera')
        return rows
    if part == 'rigs':
        rows = []
        for rid, rig in obj.items():
            for sid, pose in rig.items():
                rot, tr = _pose_plain(pose, 'rig pose')
                rows.append([_chk(rid, str, 'rig id'), _chk(sid, str, 'rig sensor id'), rot, tr])
        return rows
    if part == 'trajectories':
        rows = []
        for ts, devs in obj.items():
            for dev, pose in devs.items():
                rot, tr = _pose_plain(pose, 'trajectory pose')
                rows.append([_chk(ts, int, 'timestamp'), _chk(dev, str, 'device id'), rot, tr])
        return rows
    if part in ('records_camera', 'records_depth', 'records_lidar'):
        return [[_chk(ts, int, 'timestamp'), _chk(dev, str, 'device id'), _chk(p, str, 'record path')]
                for ts, devs in obj.items() for dev, p in devs.items()]
    if part == 'records_wifi':
        rows = []
        for ts, devs in obj.items():
            for dev, rec in devs.items():
                for bssid, s in rec.items():
                    rows.append([_chk(ts, int, 'timestamp'), _chk(dev, str, 'device id'), _chk(bssid, str, 'bssid'),
                                 _chk(s.frequency, int, 'frequency'), hx(_chk(s.rssi, float, 'rssi')),
                                 _chk(s.ssid, str, 'ssid'), _chk(s.scan_time_start, int, 'scan_time_start'),
                                 _chk(s.scan_time_end, int, 'scan_time_end')])
        return rows
    if part == 'records_bluetooth':
        rows = []
        for ts, devs in obj.items():
            for dev, rec in devs.items():
                for addr, s in rec.items():
                    rows.append([_chk(ts, int, 'timestamp'), _chk(dev, str, 'device id'), _chk(addr, str, 'address'),
                                 hx(_chk(s.rssi, float, 'rssi')), _chk(s.name, str, 'name')])
        return rows
    if part == 'records_gnss':
        return [[_chk(ts, int, 'timestamp'), _chk(dev, str, 'device id'), hx(_chk(g.x, float, 'x')),
                 hx(_chk(g.y, float, 'y')), hx(_chk(g.z, float, 'z')), _chk(g.utc, int, 'utc'),
                 hx(_chk(g.dop, float, 'dop'))]
                for ts, devs in obj.items() for dev, g in devs.items()]
    if part in ('records_accelerometer', 'records_gyroscope', 'records_magnetic'):
        names = SEM_COLS[part][2:]
        return [[_chk(ts, int, 'timestamp'), _chk(dev, str, 'device id')] +
                [hx(_chk(getattr(g, n), float, n)) for n in names]
                for ts, devs in obj.items() for dev, g in devs.items()]
    if part == 'keypoints':
        return [[key, _chk(f.type_name, str, 'name'), _dtype_name(f.dtype), _chk(f.dsize, int, 'dsize'), sorted(f)]
                for key, f in obj.items()]
    if part == 'descriptors':
        return [[key, _chk(f.type_name, str, 'name'), _dtype_name(f.dtype), _chk(f.dsize, int, 'dsize'),
                 _chk(f.keypoints_type, str, 'keypoints_type'), _chk(f.metric_type, str, 'metric_type'), sorted(f)]
                for key, f in obj.items()]
    if part == 'global_features':
        return [[key, _chk(f.type_name, str, 'name'), _dtype_name(f.dtype), _chk(f.dsize, int, 'dsize'),
                 _chk(f.metric_type, str, 'metric_type'), sorted(f)]
                for key, f in obj.items()]
    if part == 'matches':
        return [[kt, sorted([list(p) for p in m])] for kt, m in obj.items()]
    if part == 'points3d':
        a = np.asarray(obj)
        if a.ndim != 2 or a.dtype != np.float64:
            raise TypeErrorInLoaded(f'points3d array {a.shape} {a.dtype}')
        return [int(a.shape[1]), [[hx(float(v)) for v in row] for row in a]]
    if part == 'observations':
        rows = []
        for pid, per in obj.items():
            for kt, lst in per.items():
                rows.append([_chk(pid, int, 'point3d id'), _chk(kt, str, 'keypoints type'),
                             [[_chk(i, str, 'image'), _chk(f, int, 'feature id')] for i, f in lst]])
        return rows
    raise KeyError(part)


def extract(k):
    """kapture.Kapture -> plain form (rows sorted by key)"""
    return sort_plain({p: extract_part(p, getattr(k, p)) for p in ALL_PARTS})


def _ukey(s):
    return s.encode('utf-8')


def sort_plain(d):
    """canonical order: containers are maps, so rows are sorted by their key (strings by UTF-8 bytes)"""
    out = dict(d)
    for part, n in KEYLEN.items():
        if out.get(part) is not None:
            out[part] = sorted(out[part], key=lambda r: tuple(_ukey(x) if isinstance(x, str) else x for x in r[:n]))
    for part in FEAT_PARTS:
        if out.get(part) is not None:
            out[part] = sorted(([*r[:-1], sorted(set(r[-1]), key=_ukey)] for r in out[part]), key=lambda r: _ukey(r[0]))
    if out.get('matches') is not None:
        out['matches'] = sorted(([kt, sorted({tuple(p) for p in pairs}, key=lambda p: (_ukey(p[0]), _ukey(p[1])))]
                                 for kt, pairs in out['matches']), key=lambda r: _ukey(r[0]))
        out['matches'] = [[kt, [list(p) for p in pairs]] for kt, pairs in out['matches']]
    return out


def canon_plain(d):
    """what the statement of C01 allows a save / load cycle to change"""
    out = sort_plain(d)
    if out['sensors'] is not None:
        out['sensors'] = [[sid, '' if name is None else name, st, params] for sid, name, st, params in out['sensors']]
    if out['points3d'] is not None:
        w, rows = out['points3d']
        out['points3d'] = [w, [[hx(float('%.10f' % fx(v))) for v in row] for row in rows]]
    return out


def write_data_files(d, root):
    """the binary feature / match files that belong to the dataset (kapture_to_dir does not write them)"""
    import numpy as np
    import kapture
    import kapture.io.features as kf
    for part, cls, writer in [('keypoints', kapture.Keypoints, kf.image_keypoints_to_file),
                              ('descriptors', kapture.Descriptors, kf.image_descriptors_to_file),
                              ('global_features', kapture.GlobalFeatures, kf.image_global_features_to_file)]:
        for row in (d[part] or []):
            key, imgs = row[0], row[-1]
            for img in imgs:
                p = kf.get_features_fullpath(cls, key, root, img)
                os.makedirs(os.path.dirname(p), exist_ok=True)
                writer(p, np.zeros((1, 2), dtype=np.float32))
    for kt, pairs in (d['matches'] or []):
        os.makedirs(kf.get_matches_fullpath(None, kt, root), exist_ok=True)
        for a, b in pairs:
            p = kf.get_matches_fullpath((a, b), kt, root)
            os.makedirs(os.path.dirname(p), exist_ok=True)
            kf.image_matches_to_file(p, np.zeros((1, 3), dtype=np.float64))


def read_text_files(root):
    """every *.txt below root (relative path -> str), binary-exact (newline='')"""
    out = {}
    for dp, _, files in os.walk(root):
        for fn in files:
            if fn.endswith('.txt'):
                p = os.path.join(dp, fn)
                with open(p, 'r', encoding='utf-8', newline='') as f:
                    out[os.path.relpath(p, root).replace('\\', '/')] = f.read()
    return out


def part_paths():
    import kapture
    import kapture.io.csv as kcsv
    cls = {'sensors': kapture.Sensors, 'rigs': kapture.Rigs, 'trajectories': kapture.Trajectories,
           'records_camera': kapture.RecordsCamera, 'records_depth': kapture.RecordsDepth,
           'records_lidar': kapture.RecordsLidar, 'records_wifi': kapture.RecordsWifi,
           'records_bluetooth': kapture.RecordsBluetooth, 'records_gnss': kapture.RecordsGnss,
           'records_accelerometer': kapture.RecordsAccelerometer, 'records_gyroscope': kapture.RecordsGyroscope,
           'records_magnetic': kapture.RecordsMagnetic, 'points3d': kapture.Points3d,
           'observations': kapture.Observations}
    return {p: kcsv.CSV_FILENAMES[c].replace('\\', '/') for p, c in cls.items()}


def feat_cfg_path(part, key):
    import kapture
    import kapture.io.csv as kcsv
    cls = {'keypoints': kapture.Keypoints, 'descriptors': kapture.Descriptors, 'global_features': kapture.GlobalFeatures}[part]
    return kcsv.FEATURES_CSV_FILENAMES[cls](key).replace('\\', '/')


# ------------------------------------------------------------------------------------------------ rows for Coq
def flat_rows(part, rows):
    """plain rows of a table part -> list of flat rows (python values: str/int/float/None) in adoc column order"""
    out = []
    for r in rows:
        if part == 'sensors':
            v = {'sensor_id': r[0], 'name': r[1], 'sensor_type': r[2], 'sensor_params': list(r[3])}
        elif part in ('rigs', 'trajectories'):
            names = SEM_COLS[part]
            v = {names[0]: r[0], names[1]: r[1]}
            rot = [fx(x) for x in r[2]] if r[2] is not None else [None] * 4
            tr = [fx(x) for x in r[3]] if r[3] is not None else [None] * 3
            v.update(dict(zip(['qw', 'qx', 'qy', 'qz'], rot)))
            v.update(dict(zip(['tx', 'ty', 'tz'], tr)))
        elif part == 'observations':
            v = {'point3d_id': r[0], 'keypoints_type': r[1], 'image_path': [p[0] for p in r[2]],
                 'feature_id': [p[1] for p in r[2]]}
        else:
            names = SEM_COLS[part]
            v = {}
            for n, x in zip(names, r):
                v[n] = x
            for n in names:
                if FLOAT_COLS.get(part) and n in FLOAT_COLS[part]:
                    v[n] = fx(v[n])
        out.append(spec_order(part, v))
    return out


FLOAT_COLS = {'records_wifi': {'rssi'}, 'records_bluetooth': {'rssi'}, 'records_gnss': {'x', 'y', 'z', 'dop'},
              'records_accelerometer': {'x_accel', 'y_accel', 'z_accel'},
              'records_gyroscope': {'x_speed', 'y_speed', 'z_speed'},
              'records_magnetic': {'x_strength', 'y_strength', 'z_strength'}}


def feat_cfg_row(part, row):
    names = SEM_COLS[part]
    return spec_order(part, dict(zip(names, row[1:1 + len(names)])))


def hcell(v):
    if v is None:
        return 'HN'
    if isinstance(v, bool):
        raise TypeError('bool cell')
    if isinstance(v, int):
        return f'(HI {kv.cz(v)})'
    if isinstance(v, float):
        return f'(HF {kv.cn(f2bits(v))})'
    if isinstance(v, str):
        return f'(HS {kv.cstr(v)})'
    raise TypeError(type(v))


def hrows(rows):
    return kv.clist(kv.clist(hcell(c) for c in r) for r in rows)


def hdata(d):
    """plain dataset -> Coq term of type MCodec.hdata"""
    tabs = []
    for part in TABLE_PARTS:
        if d[part] is not None:
            tabs.append(kv.cpair(COQ_TFILE[part], hrows(flat_rows(part, d[part]))))
    feats = []
    for part in FEAT_PARTS:
        if d[part] is not None:
            sets = []
            for row in d[part]:
                sets.append('{| hf_key := %s; hf_cfg := %s; hf_images := %s |}' % (
                    kv.cstr(row[0]), kv.clist(hcell(c) for c in feat_cfg_row(part, row)),
                    kv.clist(kv.cstr(i) for i in row[-1])))
            feats.append(kv.cpair(COQ_FEAT[part], kv.clist(sets)))
    if d['matches'] is None:
        ma = 'None'
    else:
        ma = '(Some %s)' % kv.clist(kv.cpair(kv.cstr(kt), kv.clist(kv.cpair(kv.cstr(a), kv.cstr(b)) for a, b in pairs))
                                    for kt, pairs in d['matches'])
    if d['points3d'] is None:
        p3 = 'None'
    else:
        w, rows = d['points3d']
        p3 = '(Some (%s, %s))' % (kv.cnat(w), hrows([[fx(v) for v in r] for r in rows]))
    return '{| hd_tabs := %s; hd_feats := %s; hd_matches := %s; hd_p3d := %s |}' % (
        kv.clist(tabs), kv.clist(feats), ma, p3)


# ------------------------------------------------------------------------------------------------ float tables
def all_floats(d):
    out = set()

    def add(h):
        out.add(f2bits(fx(h)))
    for part in ('rigs', 'trajectories'):
        for r in (d.get(part) or []):
            for g in (r[2], r[3]):
                for h in (g or []):
                    add(h)
    for part, cols in FLOAT_COLS.items():
        names = SEM_COLS[part]
        for r in (d.get(part) or []):
            for n, v in zip(names, r):
                if n in cols:
                    add(v)
    if d.get('points3d'):
        for row in d['points3d'][1]:
            for h in row:
                add(h)
    return out


def tokens_of(text):
    toks = set()
    for line in re.split(r'\r\n|\r|\n', text):
        for f in line.split(','):
            toks.add(f.strip())
    return toks


def cam_canon(tok):
    """the canonical parameter string the real Camera class makes of a field (None: it raises)"""
    import kapture
    try:
        return kapture.Camera('UNKNOWN_CAMERA', [tok, tok]).sensor_params[1]
    except (ValueError, OverflowError, AssertionError, TypeError):
        return None


_TOKEN_OK = re.compile(r'^[\x21-\x7e]{1,400}$')


def float_tables(bits, texts, p3d_bits=(), paths=()):
    """Coq term of type MCodec.ftabs: repr for the floats of the case, float() for every field of the texts that
    CPython's float accepts, '%.10f' for the point coordinates, Camera's canonical strings.
    Every entry is validated against CPython (float(repr(x)) is bit-identical to x)."""
    bits = set(bits) | set(p3d_bits)
    show, f10 = [], []
    toks = set()
    for t in texts:
        toks |= tokens_of(t)
    for b in sorted(bits):
        x = bits2f(b)
        s = repr(x)
        if f2bits(float(s)) != b and not math.isnan(x):
            raise RuntimeError(f'CPython contract violated: float(repr(x)) != x for bits {b}')
        show.append((b, s))
        toks.add(s)
    for b in sorted(set(p3d_bits)):
        s = '%.10f' % bits2f(b)
        f10.append((b, s))
        toks.add(s)
    read, cam = [], []
    for tok in sorted(toks):
        if not _TOKEN_OK.match(tok) and not (0 < len(tok) <= 400 and tok.isascii()):
            continue
        try:
            v = float(tok)
        except ValueError:
            continue
        if '_' in tok:
            continue
        read.append((tok, f2bits(v)))
        c = cam_canon(tok)
        if c is not None:
            cam.append((tok, c))
    norm = sorted({(q, path_secure_py(q)) for q in paths if path_secure_py(q) != q})
    return ('{| ft_show := %s; ft_read := %s; ft_fmt10 := %s; ft_cam := %s; ft_norm := %s |}' % (
        kv.clist(kv.cpair(kv.cn(b), kv.cstr(s)) for b, s in show),
        kv.clist(kv.cpair(kv.cstr(t), kv.cn(b)) for t, b in read),
        kv.clist(kv.cpair(kv.cn(b), kv.cstr(s)) for b, s in f10),
        kv.clist(kv.cpair(kv.cstr(t), kv.cstr(c)) for t, c in cam),
        kv.clist(kv.cpair(kv.cstr(a), kv.cstr(b)) for a, b in norm)))


def path_secure_py(p):
    """kapture.utils.paths.path_secure"""
    from kapture.utils.paths import path_secure
    return path_secure(p)


def image_paths(d):
    out = set()
    for r in (d.get('records_camera') or []):
        out.add(r[2])
    for kt, pairs in (d.get('matches') or []):
        for a, b in pairs:
            out.add(a)
            out.add(b)
    return out


def p3d_float_bits(d):
    out = set()
    if d.get('points3d'):
        for row in d['points3d'][1]:
            for h in row:
                out.add(f2bits(fx(h)))
                out.add(f2bits(float('%.10f' % fx(h))))
    return out


# ------------------------------------------------------------------------------------------------ running a data case
def run_data_case(d, tmp, name='k1', mutations=None, symlink_features=False):
    """save with the real kapture_to_dir, load with the real kapture_from_dir, save again.
    With mutations: the objects are first saved to another directory, edited in memory through the public API, and
    THEN saved / loaded; obs['current'] is the content held in memory at that moment (read through the accessors),
    which is what the save / load cycle is judged against.  Returns observations (JSON-able)."""
    import kapture.io.csv as kcsv
    root = os.path.join(tmp, name)
    root2 = os.path.join(tmp, name + '_resaved')
    shutil.rmtree(root, ignore_errors=True)
    shutil.rmtree(root2, ignore_errors=True)
    obs = {'save_exc': None, 'load_exc': None, 'files': None, 'loaded': None, 'resave_files': None, 'resave_exc': None}
    try:
        k = build_kapture(d)
        if mutations is not None:
            root0 = os.path.join(tmp, name + '_first')
            shutil.rmtree(root0, ignore_errors=True)
            os.makedirs(root0)
            kcsv.kapture_to_dir(root0, k)
            touch(k)
            shutil.rmtree(root0, ignore_errors=True)
            apply_mutations(k, d, mutations)
            d = extract(k)
            obs['current'] = d
        os.makedirs(root, exist_ok=True)
        kcsv.kapture_to_dir(root, k)
        write_data_files(d, root)
        if symlink_features:
            obs['symlinked'] = symlink_feature_subdirs(d, root, os.path.join(tmp, name + '_linked'))
        obs['files'] = read_text_files(root)
    except Exception as e:
        obs['save_exc'] = f'{type(e).__name__}: {e}'
        shutil.rmtree(root, ignore_errors=True)
        return obs
    try:
        import warnings
        with warnings.catch_warnings():
            warnings.simplefilter('ignore')
            k2 = kcsv.kapture_from_dir(root)
        obs['loaded'] = extract(k2)
    except TypeErrorInLoaded as e:
        obs['load_exc'] = f'wrong Python type after load: {e}'
        k2 = None
    except BaseException as e:
        if isinstance(e, (KeyboardInterrupt, SystemExit)):
            raise
        obs['load_exc'] = f'{type(e).__name__}: {e}'
        k2 = None
    if k2 is not None:
        try:
            os.makedirs(root2, exist_ok=True)
            kcsv.kapture_to_dir(root2, k2)
            obs['resave_files'] = read_text_files(root2)
        except Exception as e:
            obs['resave_exc'] = f'{type(e).__name__}: {e}'
    shutil.rmtree(root, ignore_errors=True)
    shutil.rmtree(root2, ignore_errors=True)
    shutil.rmtree(os.path.join(tmp, name + '_linked'), ignore_errors=True)
    return obs


def symlink_feature_subdirs(d, root, outside):
    """storage layout variation: one sub-directory of every feature type directory is moved out of the dataset and
    replaced by a symbolic link to it (feature folders on another disk)"""
    import kapture
    import kapture.io.features as kf
    n = 0
    shutil.rmtree(outside, ignore_errors=True)
    for part, cls in [('keypoints', kapture.Keypoints), ('descriptors', kapture.Descriptors),
                      ('global_features', kapture.GlobalFeatures)]:
        for row in (d[part] or []):
            fdir = kf.get_features_fullpath(cls, row[0], root)
            if not os.path.isdir(fdir):
                continue
            subs = sorted(x for x in os.listdir(fdir)
                          if os.path.isdir(os.path.join(fdir, x)) and not os.path.islink(os.path.join(fdir, x)))
            if subs:
                os.makedirs(outside, exist_ok=True)
                target = os.path.join(outside, 'd%d' % n)
                shutil.move(os.path.join(fdir, subs[0]), target)
                os.symlink(target, os.path.join(fdir, subs[0]))
                n += 1
    return n


def run_history(steps, tmp, tag=''):
    """several steps in ONE process over a few reused directory paths.
       {'op': 'save_load', 'path': i, 'data': d}   judged like a single data case
       {'op': 'old', 'path': i, 'data': d}         the dataset is written, its files are stamped with format version 1.0
                                                   and it is loaded (history only: loading older versions is C20's subject)
       {'op': 'probe', 'path': i}                  kapture_format_version of a directory that does not exist"""
    import warnings
    import kapture.io.csv as kcsv
    out = []
    for st in steps:
        name = 'hist%s-%d' % (tag, st['path'])     # paths are private to the history, reused inside it
        root = os.path.join(tmp, name)
        if st['op'] == 'save_load':
            out.append(run_data_case(st['data'], tmp, name))
        elif st['op'] == 'probe':
            shutil.rmtree(root, ignore_errors=True)
            try:
                out.append({'version': kcsv.kapture_format_version(root), 'exc': None})
            except Exception as e:
                out.append({'version': None, 'exc': f'{type(e).__name__}: {e}'[:120]})
        elif st['op'] == 'old':
            shutil.rmtree(root, ignore_errors=True)
            o = {'exc': None}
            try:
                os.makedirs(root, exist_ok=True)
                kcsv.kapture_to_dir(root, build_kapture(st['data']))
                for dp, _, files in os.walk(root):
                    for fn in files:
                        if fn.endswith('.txt'):
                            fp = os.path.join(dp, fn)
                            with open(fp, encoding='utf-8', newline='') as f:
                                t = f.read()
                            with open(fp, 'w', encoding='utf-8', newline='') as f:
                                f.write(t.replace('# kapture format: 1.1', '# kapture format: 1.0', 1))
                with warnings.catch_warnings():
                    warnings.simplefilter('ignore')
                    k = kcsv.kapture_from_dir(root)
                o['sensors'] = len(k.sensors) if k.sensors is not None else None
            except BaseException as e:
                if isinstance(e, (KeyboardInterrupt, SystemExit)):
                    raise
                o['exc'] = f'{type(e).__name__}: {e}'[:120]
            shutil.rmtree(root, ignore_errors=True)
            out.append(o)
        else:
            raise KeyError(st['op'])
    return out


def expected_files(d):
    """relative paths of the text files a dataset must produce"""
    pp = part_paths()
    out = set()
    for part in TABLE_PARTS + ['points3d']:
        if d[part] is not None:
            out.add(pp[part])
    for part in FEAT_PARTS:
        for row in (d[part] or []):
            out.add(feat_cfg_path(part, row[0]))
    return out


def encode_data_case(d, obs):
    """Coq term of type MCodec.dcase"""
    pp = part_paths()
    files = obs['files'] or {}
    loaded = obs['loaded']
    texts = list(files.values())
    bits = all_floats(d) | (all_floats(loaded) if loaded else set())
    pb = p3d_float_bits(d) | (p3d_float_bits(loaded) if loaded else set())
    ft = float_tables(bits, texts, pb, image_paths(d) | (image_paths(loaded) if loaded else set()))
    tfiles = []
    for part in TABLE_PARTS:
        if pp[part] in files:
            tfiles.append(kv.cpair(COQ_TFILE[part], kv.cstr(files[pp[part]])))
    p3 = kv.copt(kv.cstr(files[pp['points3d']]) if pp['points3d'] in files else None)
    cfgs = []
    for part in FEAT_PARTS:
        base = feat_cfg_path(part, '\0').split('\0')
        found = []
        for rel, content in files.items():
            if rel.startswith(base[0]) and rel.endswith(base[1]) and len(rel) > len(base[0]) + len(base[1]) - 1:
                key = rel[len(base[0]):len(rel) - len(base[1])]
                if '/' not in key:
                    found.append(kv.cpair(kv.cstr(key), kv.cstr(content)))
        if found:
            cfgs.append(kv.cpair(COQ_FEAT[part], kv.clist(found)))
    return ('{| dc_ft := %s; dc_data := %s; dc_files := %s; dc_p3d_file := %s; dc_cfg_files := %s; dc_loaded := %s |}' % (
        ft, hdata(d), kv.clist(tfiles), p3, kv.clist(cfgs), kv.copt(hdata(loaded) if loaded else None)))


def first_diff(a, b):
    """readable first difference of two plain datasets"""
    for part in ALL_PARTS:
        x, y = a.get(part), b.get(part)
        if x == y:
            continue
        if x is None or y is None:
            return f'{part}: {"absent" if x is None else "present"} before, {"absent" if y is None else "present"} after'
        if part == 'points3d':
            if x[0] != y[0]:
                return f'points3d: {len(x[1])}x{x[0]} before, {len(y[1])}x{y[0]} after'
            return 'points3d: coordinates differ'
        if len(x) != len(y):
            return f'{part}: {len(x)} rows before, {len(y)} after'
        for r1, r2 in zip(x, y):
            if r1 != r2:
                return f'{part}: row differs'
    return None


# ================================================================================================ per-file cases
# (C02: conformant renderings in free layouts, files written by the implementation, malformed files)
FILE_PARTS = TABLE_PARTS + FEAT_PARTS + ['points3d', 'pairsfile']
POSITIONAL = set(FEAT_PARTS) | {'points3d'}
# column types as the tables of kapture_format.adoc give them (s = string, i = integer, f = float, o = float or empty)
SPEC_TYPES = {
    'sensors': {'sensor_id': 's', 'name': 's', 'sensor_type': 's', 'sensor_params': 's'},
    'rigs': {'rig_id': 's', 'sensor_id': 's', **{c: 'o' for c in ('qw', 'qx', 'qy', 'qz', 'tx', 'ty', 'tz')}},
    'trajectories': {'timestamp': 'i', 'device_id': 's', **{c: 'o' for c in ('qw', 'qx', 'qy', 'qz', 'tx', 'ty', 'tz')}},
    'records_camera': {'timestamp': 'i', 'device_id': 's', 'image_path': 's'},
    'records_depth': {'timestamp': 'i', 'device_id': 's', 'depth_map_path': 's'},
    'records_lidar': {'timestamp': 'i', 'device_id': 's', 'point_cloud_path': 's'},
    'records_wifi': {'timestamp': 'i', 'device_id': 's', 'bssid': 's', 'frequency': 'i', 'rssi': 'f', 'ssid': 's',
                     'scan_time_start': 'i', 'scan_time_end': 'i'},
    'records_bluetooth': {'timestamp': 'i', 'device_id': 's', 'address': 's', 'rssi': 'f', 'name': 's'},
    'records_gnss': {'timestamp': 'i', 'device_id': 's', 'x': 'f', 'y': 'f', 'z': 'f', 'utc': 'i', 'dop': 'f'},
    'records_accelerometer': {'timestamp': 'i', 'device_id': 's', 'x_accel': 'f', 'y_accel': 'f', 'z_accel': 'f'},
    'records_gyroscope': {'timestamp': 'i', 'device_id': 's', 'x_speed': 'f', 'y_speed': 'f', 'z_speed': 'f'},
    'records_magnetic': {'timestamp': 'i', 'device_id': 's', 'x_strength': 'f', 'y_strength': 'f', 'z_strength': 'f'},
    'observations': {'point3d_id': 'i', 'keypoints_type': 's', 'image_path': 's', 'feature_id': 'i'},
    'keypoints': {'name': 's', 'dtype': 's', 'dsize': 'i'},
    'descriptors': {'name': 's', 'dtype': 's', 'dsize': 'i', 'keypoints_type': 's', 'metric_type': 's'},
    'global_features': {'name': 's', 'dtype': 's', 'dsize': 'i', 'metric_type': 's'},
    'pairsfile': {'query_image': 's', 'mapping_image': 's', 'score': 's'},
}
VERSION_LINE = '# kapture format: 1.1'


def col_types(part, n):
    """types of a flat row with n cells, in adoc order"""
    if part == 'points3d':
        return ['f'] * n
    cols = adoc_columns()[part]
    fixed = [SPEC_TYPES[part][c] for c in cols if not c.startswith('*')]
    group = [SPEC_TYPES[part][c[1:]] for c in cols if c.startswith('*')]
    out = list(fixed)
    while group and len(out) < n:
        out.extend(group)
    return out[:max(n, len(fixed))]


def int_token(rng, z, fancy):
    if not fancy or rng.random() < 0.5:
        return str(z)
    sign = '-' if z < 0 else rng.choice(['', '', '+'])
    return sign + '0' * rng.choice([0, 1, 1, 3, 7]) + str(abs(z))


def float_token(rng, x, fancy):
    r = repr(x)
    if not fancy or rng.random() < 0.4:
        return r
    cands = ['%.17g' % x, '%.20e' % x, '%.25g' % x]
    if not r.startswith('-'):
        cands += ['+' + r, '00' + r]
    else:
        cands += ['-00' + r[1:]]
    if '.' in r and 'e' not in r and 'n' not in r:
        cands += [r + '000']
    if x == int(x) and abs(x) < 1e15:
        cands += [str(int(x)) if x != 0 or math.copysign(1, x) > 0 else '-0']
    c = rng.choice(cands)
    try:
        if f2bits(float(c)) == f2bits(x):
            return c
    except ValueError:
        pass
    return r


BLANKS = ['', '', ' ', ' ', '  ', '\t', ' \t ', '    ', '\x0b', '\x0c ', ' \x1f']
BLANKS_PLAIN = ['', '', ' ', ' ', '  ', '\t', ' \t ']


def render_rows(rng, part, value_rows, fancy=True):
    """value rows (python values in adoc order) -> list of text lines (no line end), with free blanks"""
    blanks = BLANKS_PLAIN if part == 'points3d' else BLANKS
    lines = []
    for row in value_rows:
        tys = col_types(part, len(row))
        toks = []
        for v, ty in zip(row, tys):
            if v is None:
                t = ''
            elif isinstance(v, str):
                t = v
            elif isinstance(v, int):
                t = int_token(rng, v, fancy)
            else:
                t = float_token(rng, v, fancy)
            toks.append(t)
        if fancy:
            cells = [rng.choice(blanks) + t + rng.choice(blanks) for t in toks]
            sep = ','
        else:
            cells, sep = toks, ', '
        line = sep.join(cells)
        if line.startswith('#') or not line.strip():
            line = ' ' + line
        lines.append(line)
    return lines


def gen_comment(rng):
    body = ''.join(rng.choice(' abc,;#:012 é漢\t') for _ in range(rng.randint(0, 20)))
    return '#' + body


def layout_text(rng, part, row_lines, fancy=True, header=None, p3d_header=None):
    """assemble a file: version line first, then comment / blank lines interleaved freely, \\n or \\r\\n per line"""
    lines = [VERSION_LINE]
    if p3d_header is not None:
        lines.append(p3d_header)
    elif header is not None and (not fancy or rng.random() < 0.6):
        lines.append(header)
    body = []
    for ln in row_lines:
        if fancy:
            while rng.random() < 0.25:
                body.append(rng.choice([gen_comment(rng), '', '   ', '\t']))
        body.append(ln)
    if fancy:
        while rng.random() < 0.3:
            body.append(rng.choice([gen_comment(rng), '', ' ']))
    lines += body
    crlf_all = fancy and rng.random() < 0.25
    out = []
    for ln in lines:
        out.append(ln + ('\r\n' if crlf_all or (fancy and rng.random() < 0.15) else '\n'))
    return ''.join(out)


_TABLES_MOD = None


def _tables_mod():
    global _TABLES_MOD
    if _TABLES_MOD is None:
        import importlib.util
        spec = importlib.util.spec_from_file_location('tables_codec', os.path.join(kv.VERIF, 'harness', 'tables', 'codec.py'))
        mod = importlib.util.module_from_spec(spec)
        spec.loader.exec_module(mod)
        cap, p3, probes = mod.writer_headers()
        hdrs = {k[:-4]: v[0] for k, v in cap.items()}
        hdrs['points3d:3'] = p3[3][1]
        hdrs['points3d:6'] = p3[6][1]
        dta = {}
        for kind, txt, canon in probes:
            dta.setdefault(kind, {})[txt] = canon
        _TABLES_MOD = (hdrs, dta)
    return _TABLES_MOD


def writer_header(part):
    """the header comment the real writer emits (captured as harness/tables/codec.py does)"""
    return _tables_mod()[0].get(part)


def dtype_accepts():
    """feature kind -> {element-type text accepted by the reader of this tree: canonical name}"""
    return _tables_mod()[1]


# ---- independent reader written from the specification (oracle of C02, no Coq, no kapture code)
def spec_reader_py(part, text):
    """returns ('ok', rows) with typed python values in adoc order, or ('bad', reason)"""
    lines = re.split(r'\r\n|\n', text)
    if not lines or not lines[0].startswith(VERSION_LINE):
        return 'bad', 'first line is not the version line'
    rows = []
    for ln in lines:
        if ln.startswith('#') or not ln.strip():
            continue
        fs = [f.strip() for f in ln.split(',')]
        tys = col_types(part, len(fs))
        if len(tys) != len(fs):
            return 'bad', f'a row has {len(fs)} fields'
        row = []
        for f, ty in zip(fs, tys):
            try:
                if ty == 's':
                    row.append(f)
                elif ty == 'i':
                    if not re.fullmatch(r'[+-]?[0-9]+', f):
                        return 'bad', f'not an integer: {f!r}'
                    row.append(int(f))
                elif ty == 'f':
                    row.append(float(f))
                else:
                    row.append(None if f == '' else float(f))
            except ValueError:
                return 'bad', f'not a number: {f!r}'
        rows.append(row)
    return 'ok', rows


def same_cells(a, b):
    """typed equality of two flat rows lists (floats bit for bit)"""
    if len(a) != len(b):
        return False
    for r1, r2 in zip(a, b):
        if len(r1) != len(r2):
            return False
        for x, y in zip(r1, r2):
            if type(x) is not type(y):
                return False
            if isinstance(x, float):
                if f2bits(x) != f2bits(y):
                    return False
            elif x != y:
                return False
    return True


def sort_flat(part, rows):
    n = {'pairsfile': 2}.get(part, KEYLEN.get(part, 0))
    if not n:
        return rows
    return sorted(rows, key=lambda r: tuple(_ukey(x) if isinstance(x, str) else x for x in r[:n]))


# ---- running the real per-file readers
def run_file_reader(part, text, ids, kp, tmp):
    """returns {'exc': str|None, 'rows': flat rows (adoc order, sorted by key) | None, 'width': int}"""
    import warnings
    import kapture
    import kapture.io.csv as kcsv
    root = os.path.join(tmp, 'f')
    shutil.rmtree(root, ignore_errors=True)
    names = {'points3d': 'points3d.txt', 'observations': 'observations.txt', 'pairsfile': 'pairs.txt'}
    fp = os.path.join(root, 'x', names.get(part, part + '.txt'))
    os.makedirs(os.path.dirname(fp))
    with open(fp, 'w', encoding='utf-8', newline='') as f:
        f.write(text)
    idset = None if ids is None else set(ids)
    out = {'exc': None, 'rows': None, 'width': 0}
    try:
        with warnings.catch_warnings():
            warnings.simplefilter('ignore')
            if part == 'sensors':
                plain = extract_part(part, kcsv.sensors_from_file(fp))
            elif part == 'rigs':
                plain = extract_part(part, kcsv.rigs_from_file(fp, idset))
            elif part == 'trajectories':
                plain = extract_part(part, kcsv.trajectories_from_file(fp, idset))
            elif part.startswith('records_'):
                fn = getattr(kcsv, part + '_from_file')
                plain = extract_part(part, fn(fp, idset))
            elif part == 'observations':
                lk = None if kp is None else {k: set(v) for k, v in kp}
                plain = extract_part(part, kcsv.observations_from_file(fp, lk))
            elif part in FEAT_PARTS:
                cfg = getattr(kcsv, part + '_config_from_file')(fp)
                vals = {'name': cfg.name, 'dtype': _dtype_name(cfg.dtype), 'dsize': cfg.dsize}
                _chk(cfg.name, str, 'name')
                _chk(cfg.dsize, int, 'dsize')
                for extra in ('keypoints_type', 'metric_type'):
                    if hasattr(cfg, extra):
                        vals[extra] = _chk(getattr(cfg, extra), str, extra)
                out['rows'] = [spec_order(part, vals)]
                plain = None
            elif part == 'points3d':
                w, rows = extract_part(part, kcsv.points3d_from_file(fp))
                out['rows'] = [[fx(v) for v in r] for r in rows]
                out['width'] = w
                plain = None
            elif part == 'pairsfile':
                import numpy as np
                import kapture.io.features as kf
                pairs = set()
                for ln in re.split(r'\r\n|\r|\n', text):
                    if ln.strip() and not ln.startswith('#'):
                        fs = [x.strip() for x in ln.split(',')]
                        if len(fs) >= 2:
                            a, b = fs[0], fs[1]
                            pairs.add((a, b) if a < b else (b, a))
                for a, b in pairs:
                    p = kf.get_matches_fullpath((a, b), 'kt', root)
                    os.makedirs(os.path.dirname(p), exist_ok=True)
                    kf.image_matches_to_file(p, np.zeros((1, 3), dtype=np.float64))
                m = kcsv.matches_from_dir('kt', root, None, fp)
                out['rows'] = sort_flat(part, [[_chk(a, str, 'image'), _chk(b, str, 'image')] for a, b in m])
                plain = None
            else:
                raise KeyError(part)
            if plain is not None:
                out['rows'] = sort_flat(part, flat_rows(part, plain))
    except TypeErrorInLoaded as e:
        out['exc'] = 'wrong Python type: ' + str(e)
        out['type_error'] = True
    except BaseException as e:
        if isinstance(e, (KeyboardInterrupt, SystemExit)):
            raise
        out['exc'] = f'{type(e).__name__}: {e}'[:200]
    shutil.rmtree(root, ignore_errors=True)
    return out


def jrows(rows):
    """flat rows -> JSON-able (floats as hex strings tagged)"""
    return [[{'f': hx(c)} if isinstance(c, float) else c for c in r] for r in rows]


def unjrows(rows):
    return [[fx(c['f']) if isinstance(c, dict) else c for c in r] for r in rows]


COQ_FILEID = {**{p: 'IdTab (%s)' % COQ_TFILE[p] for p in TABLE_PARTS}, **{p: 'IdFeat %s' % COQ_FEAT[p] for p in FEAT_PARTS},
              'points3d': 'IdP3d', 'pairsfile': 'IdPairs'}


def encode_file_case(case, obs):
    """Coq term of type MCodec.fcase"""
    part = case['part']
    text = case['text']
    spec = case.get('spec')
    bits = set()
    rows_spec = unjrows(spec['rows']) if spec else None
    rows_obs = unjrows(obs['rows']) if obs.get('rows') is not None else None
    for rows in (rows_spec, rows_obs):
        for r in (rows or []):
            for c in r:
                if isinstance(c, float):
                    bits.add(f2bits(c))
    ft = float_tables(bits, [text], bits if part == 'points3d' else ())
    ids = case.get('ids')
    kp = case.get('kp')
    return ('{| fc_ft := %s; fc_file := %s; fc_text := %s; fc_ids := %s; fc_kp := %s; fc_spec := %s; fc_obs := %s |}' % (
        ft, COQ_FILEID[part], kv.cstr(text),
        kv.copt(kv.clist(kv.cstr(i) for i in ids) if ids is not None else None),
        kv.copt(kv.clist(kv.cpair(kv.cstr(k), kv.clist(kv.cstr(i) for i in v)) for k, v in kp) if kp is not None else None),
        kv.copt(kv.cpair(kv.cnat(spec.get('width', 0)), hrows(rows_spec)) if spec else None),
        kv.copt(kv.cpair(kv.cnat(obs.get('width', 0)), hrows(rows_obs)) if rows_obs is not None else None)))
