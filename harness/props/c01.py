"""C01 — saving a dataset and loading it back returns the same dataset; saving again is byte-identical.
Implementation under test: kapture.io.csv.kapture_to_dir / kapture_from_dir (and every *_to_file / *_from_file)."""
import itertools
from fractions import Fraction

import kv
from props import _codec as cc

ID = 'C01'
COQ_MODELS = ['MCodecTxt', 'MCodec']
COQ_HEADER = 'From KV Require Import Eqb Str.\nFrom KV.Model Require Import MCodecTxt MCodec.'
CASE_TYPE = 'list MCodec.dcase'
CHECK_FN = 'MCodec.check_history'
SHARD_SIZE = 5
CASE_TIMEOUT = 120
SEARCH_CAP = 400
RULE = ('input = a well-formed dataset built through the real kapture classes: every part present with probability 1/2 '
        '(closed under the format dependencies: sensors always; features/matches need records_camera; observations need '
        'keypoints and points3d) plus the all / sensors-only / every single-part patterns; 0..40 rows per part; floats from '
        '{short decimals, 17 significant digits, integers, subnormal, huge, +-0.0, tiny}; partial poses; identifiers with '
        'inner blanks, punctuation and non-ASCII; negative and 19-digit timestamps; empty and XYZ-only point clouds. '
        'Non-trivial = at least three parts present and at least one data row; distinct = distinct plain dataset.')
TRUSTED = ['CPython: float(repr(x)) == x bit for bit; "%.10f" % x rounds correctly and float() of it is within 1e-10 of x '
           'and is a fixed point of the formatting (section hypotheses read_show, read10, fmt10_idem, round10_close of '
           'coq/Proofs/PCodec.v; every table entry used by the correspondence is re-validated against CPython)',
           'numpy.savetxt / numpy.loadtxt on comma separated "%.10f" rows behave as the table lexer on such files',
           'Python str.strip()/split(",")/int()/str(int) as modelled in coq/Model/MCodecTxt.v on fields that do not start or '
           'end with (Unicode) white space; universal-newline text files; UTF-8 default encoding (PYTHONUTF8 / C.UTF-8)',
           'the binary feature / match files are created by the harness through kapture.io.features (kapture_to_dir does not '
           'write them); the model only records which of them exist']
ASSUMPTIONS = ['well-formed dataset = every reference resolves (devices of rigs/trajectories/records are declared with the '
               'right sensor type, feature images are images of records_camera, observations refer to loaded keypoints), '
               'keys unique, strings comma-free / newline-free / trimmed / not starting with "#", floats finite, camera '
               'parameters in the canonical form the Camera class produces, pose groups entirely present or absent',
               'presence patterns are restricted to those the format can represent: sensors.txt is required by the loader; '
               'an empty feature dict, an empty Matches set, an empty per-timestamp dict, an empty wifi/bluetooth record '
               'and an observation with no (image, feature) pair have no representation on disk and are excluded',
               'element types of feature sets are drawn from the names the descriptor readers of the tree under test accept '
               'bare (float32, float64, int32, uint8)',
               'format version other than 1.1 is out of scope (property C20)']
EXHAUSTIVE = {'quick': False, 'thorough': False}
NOTES = []


KNOWN_MATCHES = 'matches: pairs on non-normalised image paths are lost on reload'


def nonnormalised_matches_dataset(rng, i):
    d = cc.gen_dataset(rng, present={'sensors', 'records_camera', 'keypoints'} | ({'trajectories'} if i % 2 else set()), size=2)
    cam = next((s_[0] for s_ in d['sensors'] if s_[2] == 'camera'), None)
    if cam is None:
        d['sensors'].append(['cam', None, 'camera', ['UNKNOWN_CAMERA', '640', '480']])
        cam = 'cam'
    imgs = ['./cam0/0001.jpg', 'cam0//0002.jpg', 'seq/../cam0/0003.jpg', 'plain/4.jpg', 'plain/5.jpg']
    d['records_camera'] = [[j, cam, im] for j, im in enumerate(imgs)]
    for row in d['keypoints']:
        row[-1] = sorted(x for x in imgs if rng.random() < 0.8)
    allp = [[imgs[0], imgs[1]], [imgs[3], imgs[2]], [imgs[3], imgs[4]]]
    pairs = (allp[i % 3:] + allp[:i % 3])[:2 + (i % 2)] + [[imgs[0], imgs[3]]][:i % 2]
    d['matches'] = [['kp' if i % 2 else d['keypoints'][0][0], sorted(sorted(p_) for p_ in pairs)]]
    return d


def shared_points_dataset(rng, i):
    """Observations in which 3-D points are seen through SEVERAL kinds of keypoints (observations.txt then has several
    lines with the same point3d_id, one per keypoints type), the same image / the same (image, feature) under two kinds,
    points seen through one kind only next to them, and every order of insertion (kind-major, point-major, interleaved:
    the in-memory dict order of the kinds of a point is not the sorted order the writer uses)."""
    extra = {p for p in ('descriptors', 'matches', 'trajectories', 'global_features') if rng.random() < 0.3}
    d = cc.gen_dataset(rng, present={'sensors', 'records_camera', 'keypoints', 'points3d', 'observations'} | extra, size=3)
    cam = next((s_[0] for s_ in d['sensors'] if s_[2] == 'camera'), None)
    if cam is None:
        d['sensors'].append(['cam', None, 'camera', ['UNKNOWN_CAMERA', '640', '480']])
        cam = 'cam'
    imgs = sorted({r[2] for r in d['records_camera']})
    for j in range(len(imgs), 3):
        d['records_camera'].append([10 ** 6 + j, cam, 'shared/%d.jpg' % j])
    imgs = sorted({r[2] for r in d['records_camera']})
    # 2-4 kinds of keypoints, names whose sorted order differs from their creation order
    kinds = [r[0] for r in d['keypoints']]
    for name in ['sift', 'r2d2', 'SuperPoint', 'd2_tf']:
        if len(kinds) >= 2 + i % 3:
            break
        if name.lower() not in {k.lower() for k in kinds}:
            d['keypoints'].append([name, 'ext', rng.choice(cc.DTYPES_WRITE), rng.randint(0, 128), []])
            kinds.append(name)
    for row in d['keypoints']:
        row[-1] = sorted(set(row[-1]) | set(rng.sample(imgs, rng.randint(2, len(imgs)))))
    kimgs = {r[0]: r[-1] for r in d['keypoints']}
    npts = rng.randint(2, 5)
    pids = rng.sample(range(0, 12), npts) if i % 4 else [cc.gen_timestamp(rng) for _ in range(npts)]
    pids = list(dict.fromkeys(pids))
    keys = []
    for n, pid in enumerate(pids):
        seen_by = kinds if n == 0 else rng.sample(kinds, rng.randint(1, len(kinds)))   # the first point: every kind
        keys += [(pid, kt) for kt in seen_by]
    order = ['kind-major', 'point-major', 'shuffled', 'reverse'][i % 4]
    if order == 'kind-major':
        keys.sort(key=lambda k: kinds.index(k[1]))
    elif order == 'shuffled':
        rng.shuffle(keys)
    elif order == 'reverse':
        keys.reverse()
    rows = []
    for pid, kt in keys:
        pairs = [[rng.choice(kimgs[kt]), rng.randint(0, 30)] for _ in range(rng.randint(1, 3))]
        prev = next((r for r in rows if r[0] == pid), None)
        if prev is not None and rng.random() < 0.5:
            # the very same image (and sometimes feature index) under another kind of keypoints
            same = [p_ for p_ in prev[2] if p_[0] in kimgs[kt]]
            if same:
                pairs.append(list(rng.choice(same)))
        rows.append([pid, kt, pairs])
    d['observations'] = rows
    return d


def _has_nonnormalised_pairs(d):
    return any(not cc.is_normalised(x) for kt, pairs in (d.get('matches') or []) for pr in pairs for x in pr)


def gen_cases(rng, tier):
    cases = []

    def mk(d, origin='gen'):
        cases.append({'kind': 'data', 'data': d, '_origin': origin})
    # fixed presence patterns: everything, sensors only, each single part (closed under dependencies)
    mk(cc.gen_dataset(rng, present=set(cc.ALL_PARTS), size=3))
    mk(cc.gen_dataset(rng, present=set(cc.ALL_PARTS), size=0))
    mk(cc.gen_dataset(rng, present={'sensors'}, size=2))
    for p in cc.ALL_PARTS:
        mk(cc.gen_dataset(rng, present={p}, size=rng.choice([0, 2, 4])))
    # empty containers of every kind with no sensor declared
    for p in cc.ALL_PARTS:
        if p not in ('keypoints', 'descriptors', 'global_features', 'matches'):
            mk(cc.gen_dataset(rng, present={p}, size=0))
    # point clouds: empty / non-empty x 3 / 6 columns
    for w in (3, 6):
        for n in (0, 1, 2):
            d = cc.gen_dataset(rng, present={'points3d'}, size=2)
            rows = [[cc.hx(cc.gen_float(rng)) for _ in range(w)] for _ in range(n)]
            d['points3d'] = [w, rows]
            mk(d)
    # nested rigs, in each insertion order, with trajectories of rigs
    for order in ('parent-first', 'child-first', 'shuffled'):
        for _ in range(2 if tier == 'quick' else 10):
            mk(cc.gen_dataset(rng, present={'sensors', 'rigs', 'trajectories', 'records_camera'}, size=3,
                              nested_rigs=True, rig_order=order))
    # image paths that are not in normpath form (./a/b.jpg, a//b.jpg, x/../a/b.jpg) in records_camera, feature sets
    # and observations; feature sub-directories that are symbolic links to directories
    for i in range(4 if tier == 'quick' else 20):
        d = cc.gen_dataset(rng, present={'sensors', 'records_camera', 'keypoints', 'descriptors', 'global_features',
                                         'points3d', 'observations'}, size=5)
        rows, seen = [], set()
        for j, r in enumerate(d['records_camera']):
            base = 'cam%d/%04d.jpg' % (j % 2, j)
            r[2] = [base, './' + base, base.replace('/', '//'), 'seq/../' + base][(i + j) % 4]
        imgs = [r[2] for r in d['records_camera']]
        for part in cc.FEAT_PARTS:
            for row in d[part] or []:
                row[-1] = sorted(x for x in imgs if rng.random() < 0.8)
        kps = [r for r in d['keypoints'] if r[-1]]
        d['observations'] = [[n, kp[0], [[rng.choice(kp[-1]), rng.randint(0, 99)] for _ in range(2)]]
                             for n, kp in enumerate(kps)]
        cases.append({'kind': 'data', 'data': d, 'symlink_features': i % 2 == 1, '_origin': 'gen'})
    # match pairs between images of every kind of name (netpbm / targa / no extension / names ending in the letters of
    # '.matches', '.overlapping', '.kpt' ...): the pair names come back from file names
    for i in range(2 if tier == 'quick' else 8):
        d = cc.gen_dataset(rng, present={'sensors', 'records_camera', 'keypoints', 'descriptors'}, size=2)
        cam = next((s_[0] for s_ in d['sensors'] if s_[2] == 'camera'), None)
        if cam is None:
            d['sensors'].append(['cam', None, 'camera', ['UNKNOWN_CAMERA', '640', '480']])
            cam = 'cam'
        names = ['a/0001.pgm', 'a/0002.ppm', 'b/frame_a', 'b/x.jpe', 'c/mesh.tga', 'c/scan_mesh', 'd/plain.jpg', 'd/e.matches',
                 'e/f.overlapping', 'e/g.kpt', 'f/h.desc', 'f/dots...', 'g/t', 'g/s.h']
        rng.shuffle(names)
        names = names[:8 + 3 * i]
        d['records_camera'] = [[j, cam, im] for j, im in enumerate(names)]
        for part in ('keypoints', 'descriptors'):
            for row in d[part]:
                row[-1] = sorted(x for x in names if rng.random() < 0.8)
        pairs = sorted({tuple(sorted(rng.sample(names, 2))) for _ in range(10)})
        d['matches'] = [[d['keypoints'][0][0], [list(p_) for p_ in pairs]]]
        mk(d)
    # KNOWN FINDING: match pairs on image paths that are not in normpath form (lost on reload by the code as it is)
    for i in range(3 if tier == 'quick' else 12):
        mk(nonnormalised_matches_dataset(rng, i))
    # 3-D points seen through several kinds of keypoints: several lines of observations.txt share a point3d_id
    for i in range(4 if tier == 'quick' else 24):
        mk(shared_points_dataset(rng, i))
    # large tables (a writer that works in blocks must not depend on the number of rows)
    for nrows in ((1001,) if tier == 'quick' else (999, 1000, 1001, 2001)):
        d = cc.gen_dataset(rng, present={'sensors'}, size=0)
        d['sensors'] = [['c', None, 'camera', ['UNKNOWN_CAMERA', '640', '480']]]
        d['records_camera'] = [[t, 'c', 'i/%d.jpg' % t] for t in range(nrows)]
        mk(d)
    # two or three devices of the same kind recording at the same timestamps, for every records kind
    for p in [q for q in cc.TABLE_PARTS if q.startswith('records_')] + ['trajectories']:
        mk(cc.gen_dataset(rng, present={'sensors', p}, size=3, multi_device=True))
    mk(cc.gen_dataset(rng, present=set(cc.ALL_PARTS), size=2, multi_device=True))
    # the same in-memory objects saved, edited through the public API (rescale, replace a pose, edit a record, add a
    # sensor), saved again: the second save / load is judged against the content held in memory at that moment
    for i in range(8 if tier == 'quick' else 80):
        pres = {'sensors', 'rigs', 'trajectories'} | ({p for p in cc.ALL_PARTS if rng.random() < 0.4} if i % 2 else set())
        d = cc.gen_dataset(rng, present=pres, size=3, nested_rigs=(i % 4 == 0))
        cases.append({'kind': 'mutate', 'data': d, 'mutations': cc.gen_mutations(rng, d), '_origin': 'gen'})
    n = 50 if tier == 'quick' else 900
    for _ in range(n):
        mk(cc.gen_dataset(rng))
    # histories
    recon = {'sensors', 'records_camera', 'keypoints', 'points3d', 'observations', 'descriptors', 'matches'}

    def full():
        return cc.gen_dataset(rng, present=recon | {p for p in cc.ALL_PARTS if rng.random() < 0.3}, size=2)

    def sl(path, d=None):
        return {'op': 'save_load', 'path': path, 'data': d if d is not None else full()}

    def old(path):
        return {'op': 'old', 'path': path, 'data': cc.gen_dataset(rng, size=2)}
    hist = [
        [old(0), sl(0)],                                # an older dataset replaced by a 1.1 save at the same path
        [{'op': 'probe', 'path': 0}, sl(0)],            # looked up before the directory existed
        [sl(0), old(1), sl(0)],                         # load 1.1, load 1.0 elsewhere, load 1.1 again
        [sl(0), sl(0)],                                 # dataset A then dataset B at the same path
        [sl(1, cc.gen_dataset(rng, present={'sensors'}, size=1)), sl(1)],
        [old(1), sl(0), sl(1)],
    ]
    b = full()
    hist.append([sl(0, b), old(0), sl(0, b)])           # the very same dataset before and after
    for _ in range(4 if tier == 'quick' else 60):
        steps = []
        for _ in range(rng.randint(2, 4)):
            c = rng.choice(['sl', 'sl', 'old', 'probe'])
            p_ = rng.randint(0, 1)
            steps.append(sl(p_) if c == 'sl' else (old(p_) if c == 'old' else {'op': 'probe', 'path': p_}))
        if not any(st['op'] == 'save_load' for st in steps):
            steps.append(sl(rng.randint(0, 1)))
        hist.append(steps)
    for steps in hist:
        cases.append({'kind': 'history', 'steps': steps, '_origin': 'gen'})
    if tier == 'thorough':
        # every pair of parts
        for a, b in itertools.combinations(cc.ALL_PARTS, 2):
            mk(cc.gen_dataset(rng, present={a, b}, size=2))
    return cases


def run_impl(case, ctx):
    if case['kind'] == 'history':
        return {'steps': cc.run_history(case['steps'], ctx['tmp'], kv.case_hash(case['steps'])[:8])}
    if case['kind'] == 'mutate':
        return cc.run_data_case(case['data'], ctx['tmp'], mutations=case['mutations'])
    return cc.run_data_case(case['data'], ctx['tmp'], symlink_features=bool(case.get('symlink_features')))


def _points_close(a, b):
    if a is None or b is None:
        return a is None and b is None
    if a[0] != b[0] or len(a[1]) != len(b[1]):
        return False
    tol = Fraction(1, 10 ** 10)
    for r1, r2 in zip(a[1], b[1]):
        for x, y in zip(r1, r2):
            if abs(Fraction(*cc.fx(x).as_integer_ratio()) - Fraction(*cc.fx(y).as_integer_ratio())) > tol:
                return False
    return True


def oracle(case, obs):
    """C01 stated directly on the implementation's behaviour (no Coq model involved).
    A history is judged step by step: the statement is per save / load, whatever happened before in the process."""
    if case['kind'] == 'history':
        for i, (st, o) in enumerate(zip(case['steps'], obs['steps'])):
            if st['op'] == 'save_load':
                sig = _oracle_data(st['data'], o)
                if sig:
                    before = '+'.join(x['op'] for x in case['steps'][:i]) or 'nothing'
                    return f'after [{before}] in the same process: {sig}'
            elif st['op'] == 'probe' and (o['exc'] or o['version'] is not None):
                return 'version lookup on a missing directory: ' + str(o['exc'] or o['version'])
        return None
    if case['kind'] == 'mutate':
        sig = _oracle_data(obs.get('current') or case['data'], obs)
        return ('after save, ' + '+'.join(m['op'] for m in case['mutations']) + ', save again: ' + sig) if sig else None
    return _oracle_data(case['data'], obs)


def _oracle_data(d, obs):
    if obs['save_exc']:
        return 'saving a well-formed dataset raised ' + obs['save_exc'].split(':')[0]
    want = cc.expected_files(d)
    got = set(obs['files'])
    if got - want:
        return 'a text file was written for an absent part: ' + sorted(got - want)[0]
    if want - got:
        return 'no file was written for a present part: ' + sorted(want - got)[0]
    if obs['load_exc']:
        return 'loading the saved dataset failed: ' + obs['load_exc'][:80]
    orig = cc.sort_plain(d)
    want_d = cc.canon_plain(d)
    got_d = obs['loaded']
    known = None
    for part in cc.ALL_PARTS:
        x, y = orig[part], got_d[part]
        if (x is None) != (y is None):
            return f'{part}: {"absent" if x is None else "present"} before saving, {"absent" if y is None else "present"} after loading'
        if part == 'points3d':
            if x is not None and x[0] != y[0]:
                return f'points3d: {len(x[1])}x{x[0]} array reloads as {len(y[1])}x{y[0]}'
            if not _points_close(x, y):
                return 'points3d: a coordinate moved by more than 1e-10'
            continue
        if want_d[part] != y:
            if part == 'matches' and _only_nonnormalised_pairs_lost(want_d[part], y):
                known = KNOWN_MATCHES         # reported only if nothing else is wrong (see the end)
                continue
            return f'{part}: reloaded content differs from the saved content'
    if obs['resave_exc']:
        return 'saving the reloaded dataset raised ' + obs['resave_exc'].split(':')[0]
    if obs['resave_files'] != obs['files']:
        bad = sorted(k for k in set(obs['files']) | set(obs['resave_files'])
                     if obs['files'].get(k) != obs['resave_files'].get(k))
        return 'saving the reloaded dataset is not byte-identical: ' + bad[0]
    return known


def _only_nonnormalised_pairs_lost(want, got):
    """the reloaded matches are the saved ones minus EXACTLY the pairs that have a non-normalised member (at least one)"""
    if want is None or got is None or [kt for kt, _ in want] != [kt for kt, _ in got]:
        return False
    lost = 0
    for (kt, wp), (_, gp) in zip(want, got):
        keep = [p_ for p_ in wp if all(cc.is_normalised(x) for x in p_)]
        if gp != keep:
            return False
        lost += len(wp) - len(keep)
    return lost > 0


def _data_steps(case, obs):
    if case['kind'] == 'history':
        return [(st['data'], o) for st, o in zip(case['steps'], obs['steps']) if st['op'] == 'save_load']
    if case['kind'] == 'mutate':
        return [(obs.get('current') or case['data'], obs)]
    return [(case['data'], obs)]


def encode(case, obs):
    terms = []
    for d, o in _data_steps(case, obs):
        if o['save_exc']:
            raise RuntimeError('implementation could not save: ' + o['save_exc'])
        terms.append(cc.encode_data_case(d, o))
    return kv.clist(terms)


def _nrows(d):
    n = 0
    for p in cc.ALL_PARTS:
        v = d[p]
        if v is None:
            continue
        n += len(v[1]) if p == 'points3d' else len(v)
    return n


def nontrivial(case, obs):
    if case['kind'] == 'history':
        return True
    d = case['data']
    return sum(1 for p in cc.ALL_PARTS if d[p] is not None) >= 3 and _nrows(d) >= 1


def classify(case, obs):
    if case['kind'] == 'history':
        bad = any(o.get('load_exc') or o.get('save_exc') or o.get('exc') for o in obs['steps'])
        return 'history/' + '+'.join(st['op'] for st in case['steps']) + ('/exc' if bad else '/ok')
    if case['kind'] == 'mutate':
        return 'mutate/' + '+'.join(sorted(m['op'] for m in case['mutations']))
    d = case['data']
    npart = sum(1 for p in cc.ALL_PARTS if d[p] is not None)
    n = _nrows(d)
    sz = '0' if n == 0 else ('1-9' if n < 10 else ('10-49' if n < 50 else '50+'))
    pb = '1' if npart == 1 else ('2-5' if npart <= 5 else ('6-12' if npart <= 12 else '13-18'))
    p3 = d['points3d']
    p3c = 'none' if p3 is None else f'{"empty" if not p3[1] else "n"}x{p3[0]}'
    return f'parts={pb}/rows={sz}/p3d={p3c}/{"ok" if not (obs["load_exc"] or obs["save_exc"]) else "exc"}'


def describe(case, obs):
    if case['kind'] == 'history':
        return {'history': [{'op': st['op'], 'path': st['path'],
                             'parts': [p for p in cc.ALL_PARTS if st.get('data') and st['data'][p] is not None],
                             'load_exc': o.get('load_exc') or o.get('exc')}
                            for st, o in zip(case['steps'], obs['steps'])]}
    d = case['data']
    return {'parts_present': [p for p in cc.ALL_PARTS if d[p] is not None], 'rows': _nrows(d),
            'files_written': sorted(obs['files'] or {}), 'load_exc': obs['load_exc'],
            'first_difference': cc.first_diff(cc.canon_plain(d), obs['loaded']) if obs['loaded'] else None}


def shrink(case):
    if case['kind'] == 'history':
        # not shrunk: once a step has failed the process itself may carry the stale state (a cache, a mutated
        # default), so a shorter history that "still fails" here need not fail when replayed in a fresh process
        return
    if case['kind'] == 'mutate':
        m = case['mutations']
        for i in range(len(m)):
            if len(m) > 1:
                yield {'kind': 'mutate', 'data': case['data'], 'mutations': m[:i] + m[i + 1:]}
        return
    d = case['data']
    if _has_nonnormalised_pairs(d):
        return          # never shrink towards (or inside) the known finding: its signature is reserved for the exact pattern
    for p in cc.ALL_PARTS:
        if d[p] is not None and p != 'sensors':
            c = {k: v for k, v in d.items()}
            c[p] = None
            if p in ('keypoints', 'points3d') and d['observations'] is not None:
                continue
            if p == 'records_camera' and any(d[q] is not None for q in ('keypoints', 'descriptors', 'global_features', 'matches')):
                continue
            yield {'kind': 'data', 'data': c, 'symlink_features': bool(case.get('symlink_features'))}
    for p in cc.ALL_PARTS:
        v = d[p]
        if v and p not in ('points3d', 'sensors', 'records_camera', 'keypoints'):
            c = dict(d)
            c[p] = []
            yield {'kind': 'data', 'data': c, 'symlink_features': bool(case.get('symlink_features'))}
    if d['points3d'] and d['points3d'][1]:
        c = dict(d)
        c['points3d'] = [d['points3d'][0], []]
        yield {'kind': 'data', 'data': c, 'symlink_features': bool(case.get('symlink_features'))}


TECHNIQUE = ('Coq proof of the codec round trip (one generic theorem on tables of typed columns instantiated for every file kind, '
             'then the 18-part dispatch) over an executable Gallina model; the model is tied to the code by translation '
             'validation: the verified specification-level parser and the loader model are run inside Coq (vm_compute) on the '
             'bytes the implementation wrote and compared with what the implementation loaded')
LEVEL_TEXT = ('Theorems in coq/Props/C01.v hold for every well-formed dataset (any sizes, every representable presence pattern), '
              'for every float lexer satisfying the stated CPython contracts. See docs/C01.md for the exact statements and '
              'what is labelled partial.')
LEVEL_NOTE = ('Trusted: Coq kernel + vm_compute, harness encoders, CPython float repr/parse and "%.10f" contracts, numpy '
              'savetxt/loadtxt on plain rows, Python str primitives as modelled. Presence patterns the format cannot represent '
              'are excluded (listed in assumptions).')
