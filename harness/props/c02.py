"""C02 — written text files follow the published format; every conformant file loads to the content the
specification assigns to it.  Implementation under test: the *_to_file writers (through kapture_to_dir) and the
*_from_file readers of kapture.io.csv; specification: kapture_format.adoc (column order parsed at run time)."""
import os
import shutil

import kv
from props import _codec as cc

ID = 'C02'
COQ_MODELS = ['MCodecTxt', 'MCodec']
COQ_HEADER = 'From KV Require Import Eqb Str.\nFrom KV.Model Require Import MCodecTxt MCodec.'
CASE_TYPE = 'MCodec.fcase'
CHECK_FN = 'MCodec.check_file_case'
SHARD_SIZE = 30
CASE_TIMEOUT = 120
SEARCH_CAP = 600
RULE = ('three streams over the 13 table files, points3d.txt, the 3 feature descriptor files and the pairs file: '
        '(written) a generated dataset is saved by the real kapture_to_dir and each written file is handed, byte for byte, to '
        'the specification-level parser - also files written AFTER the objects were saved once and edited in memory through the '
        'public API (rescale, pose / record edits), judged against the content in memory at the second save; LARGE tables of '
        '999 / 1000 / 1001 / 2001 rows for sensors, trajectories, records_camera, records_wifi, observations (whole file through the '
        'independent reader, a 12-line window around row 1000 through the specification-level parser in Coq); (layout) a table is rendered with free layout choices per line - blanks (space, tab, '
        'VT, FF, US) around every field, comment and blank lines anywhere after the version line, row permutation, \\n or '
        '\\r\\n, leading zeros and "+" on integers, alternative spellings of floats, duplicate keys, optional id filters - and '
        'loaded by the real *_from_file reader (incl. nested rigs in any row order with the sensor-id filter, and points3d.txt '
        'without the optional column comment); (malformed) wrong arity, non-numeric fields, unknown camera models, missing '
        'rows: error-versus-value agreement between model and reader only. '
        'Non-trivial = at least one data row; distinct = distinct (file kind, text, filter).')
TRUSTED = ['CPython float()/repr() on the tokens of each case (tables re-validated per case), int()/str.strip()/split(",") as '
           'modelled in coq/Model/MCodecTxt.v, universal-newline text mode, UTF-8',
           'numpy.loadtxt(delimiter=",", comments="#") on conformant points3d files behaves as the table lexer + float()',
           'the column names / order of each file are read from kapture_format.adoc at run time; the column TYPES are '
           'transcribed by hand from its tables (harness SPEC_TYPES and the schemas of coq/Model/MCodec.v)']
ASSUMPTIONS = ['conformant = version line first; every other line is a comment (starts with "#"), blank, or a row of the '
               'documented columns separated by commas with optional blanks around each field; integers are optionally '
               'signed ASCII digit strings; floats are any token CPython float() accepts (no "_", no nan/inf)',
               'an empty rotation / translation group in rigs.txt / trajectories.txt denotes a missing rotation / translation '
               '(what the writer emits for partial poses; the specification text is silent about it)',
               'points3d.txt: rows are positional (row index = point id), so no row permutation; for an empty cloud the column '
               'comment must be the second line (as the specification notes); colour columns are read as floats',
               'element-type names of the descriptor files are taken from the set the readers of the tree under test accept '
               '(probed at run time); arbitrary expressions in that field are the subject of property C16',
               'malformed stream: rows whose device is filtered out are never malformed, rotation groups are never half empty '
               'and half garbage, no gnss row with 6 fields, no single-column points3d file (the model is not claimed exact there)']
EXHAUSTIVE = {'quick': False, 'thorough': False}
NOTES = []

SORTED_PARTS = {p for p in cc.TABLE_PARTS if p not in ('sensors', 'rigs')}


def _sub_dataset(d, part):
    """the smallest well-formed sub-dataset of d that contains `part`"""
    keep = {'sensors', part}
    if part in cc.FEAT_PARTS or part == 'matches':
        keep.add('records_camera')
    if part == 'observations':
        keep |= {'keypoints', 'points3d', 'records_camera'}
    out = {p: (d[p] if p in keep else None) for p in cc.ALL_PARTS}
    if out['rigs'] is None and part == 'trajectories':
        out['rigs'] = d['rigs']
    return out


def _writer_order(part, rows):
    if part in SORTED_PARTS:
        return sorted(rows, key=lambda r: (r[0], r[1].encode('utf-8')))
    return rows


def _expected_written(d, part):
    """rows (adoc order, file order) a conformant writer must have put into the file of `part`"""
    c = cc.canon_plain(d)
    if part == 'points3d':
        w, rows = c['points3d']
        return w, [[cc.fx(v) for v in r] for r in rows]
    if part in cc.FEAT_PARTS:
        raise KeyError
    # canon_plain sorts by full key; the writer sorts by (timestamp, device) keeping the inner order of the dataset
    base = d[part]
    if part == 'sensors':
        base = [[sid, '' if name is None else name, st, params] for sid, name, st, params in base]
    return 0, cc.flat_rows(part, _writer_order(part, base))


def _ids_for(rng, d, part):
    if part == 'rigs':
        ids = [s[0] for s in d['sensors']]
        return rng.choice([None, ids, ids])
    if part == 'trajectories':
        ids = [s[0] for s in d['sensors']] + sorted({r[0] for r in (d['rigs'] or [])})
    elif part.startswith('records_'):
        ids = [s[0] for s in d['sensors'] if s[2] == cc.REC_SENSOR_TYPE[part]]
    else:
        return None
    c = rng.choice(['none', 'none', 'all', 'subset'])
    if c == 'none':
        return None
    if c == 'all':
        return ids
    return [i for i in ids if rng.random() < 0.6]


def _expected_content(part, rows, ids, kp):
    """content the specification assigns to the rows (file order), seen through the optional filters:
    a later row with the same key replaces an earlier one; observation rows of the same key concatenate"""
    n = {'pairsfile': 2}.get(part, cc.KEYLEN.get(part, 0))
    if part == 'pairsfile':
        out = {}
        for r in rows:
            a, b = r[0], r[1]
            k = (a, b) if a < b else (b, a)
            out[k] = list(k)
        return cc.sort_flat(part, list(out.values()))
    if not n:
        return rows
    if ids is not None:
        idset = set(ids)
        if part == 'rigs':
            rig_ids = {r[0] for r in rows}
            rows = [r for r in rows if r[1] in idset or r[1] in rig_ids]
        else:
            rows = [r for r in rows if r[1] in idset]
    if part == 'observations' and kp is not None:
        kpd = {k: set(v) for k, v in kp}
        new = []
        for r in rows:
            if r[1] not in kpd or not kpd[r[1]]:
                continue
            tail = []
            for i in range(2, len(r) - 1, 2):
                if r[i] in kpd[r[1]]:
                    tail += [r[i], r[i + 1]]
            if tail:
                new.append(r[:2] + tail)
        rows = new
    out = {}
    for r in rows:
        k = tuple(r[:n])
        if part == 'observations' and k in out:
            out[k] = out[k] + r[n:]
        else:
            if k in out:
                del out[k]
            out[k] = list(r)
    return cc.sort_flat(part, list(out.values()))


def _layout_case(rng, d, part):
    fancy = rng.random() < 0.85
    ids = kp = None
    width = 0
    p3d_header = None
    if part == 'points3d':
        width, rows = d['points3d'][0], [[cc.fx(v) for v in r] for r in d['points3d'][1]]
        hdr = cc.writer_header('points3d:%d' % width)
        if not rows or rng.random() < 0.7:
            p3d_header = hdr
        vrows = rows
        trows = rows
    elif part in cc.FEAT_PARTS:
        row = rng.choice(d[part])
        vrows = [cc.feat_cfg_row(part, row)]
        acc = cc.dtype_accepts().get(part, {})
        canon = row[2]
        alts = [t for t, c in acc.items() if c == canon] or [canon]
        cols = cc.adoc_columns()[part]
        trows = [list(vrows[0])]
        trows[0][cols.index('dtype')] = rng.choice(alts)
    elif part == 'pairsfile':
        imgs = sorted({r[2] for r in (d['records_camera'] or [])}) or ['a.jpg', 'b.jpg', 'c/d.jpg']
        vrows = []
        for _ in range(rng.randint(0, 6)):
            a, b = rng.choice(imgs), rng.choice(imgs)
            vrows.append([a, b, rng.choice(['0.5', '1', '', 'n/a', repr(rng.random())])])
        trows = vrows
    else:
        base = d[part]
        if part == 'sensors':
            base = [[sid, '' if name is None else name, st, params] for sid, name, st, params in base]
        vrows = cc.flat_rows(part, base)
        if fancy and part not in cc.POSITIONAL:
            vrows = list(vrows)
            rng.shuffle(vrows)
            # duplicate keys: the later row wins
            if vrows and rng.random() < 0.3 and part not in ('sensors',):
                n = cc.KEYLEN[part]
                src, other = rng.choice(vrows), rng.choice(vrows)
                if len(src) == len(other):
                    vrows.insert(rng.randint(0, len(vrows)), list(src[:n]) + list(other[n:]))
        trows = vrows
        ids = _ids_for(rng, d, part)
        if part == 'observations' and rng.random() < 0.5 and d['keypoints']:
            kp = [[r[0], [i for i in r[-1] if rng.random() < 0.8]] for r in d['keypoints'] if rng.random() < 0.85]
            kp = kp or None
    lines = cc.render_rows(rng, part, trows, fancy)
    text = cc.layout_text(rng, part, lines, fancy, header=cc.writer_header(part), p3d_header=p3d_header)
    expect = _expected_content(part, vrows, ids, kp)
    return {'kind': 'layout', 'part': part, 'text': text, 'ids': ids, 'kp': kp,
            'spec': {'width': width, 'rows': cc.jrows(vrows)}, 'expect': cc.jrows(expect), 'width': width}


_INT_GARBAGE = ['abc', '1.0', '', '0x10', '1e3', '12a', '- 1']
_FLT_GARBAGE = ['abc', '1.2.3', '--1', '1e', 'e5', '1,5'.replace(',', ';')]


def _malformed_case(rng, d, part):
    """a plain rendering with one defect"""
    if part == 'points3d':
        width, rows = d['points3d'][0], [[cc.fx(v) for v in r] for r in d['points3d'][1]]
        if not rows:
            rows = [[1.0, 2.0, 3.0] + ([4.0, 5.0, 6.0] if width == 6 else [])]
        hdr = cc.writer_header('points3d:%d' % width)
        vrows = rows
    elif part in cc.FEAT_PARTS:
        vrows = [cc.feat_cfg_row(part, rng.choice(d[part]))]
        hdr = None
    elif part == 'pairsfile':
        vrows = [['a.jpg', 'b.jpg', '0.5'], ['c.jpg', 'a.jpg', '1']]
        hdr = None
    else:
        base = d[part]
        if part == 'sensors':
            base = [[sid, '' if name is None else name, st, params] for sid, name, st, params in base]
        vrows = cc.flat_rows(part, base)
        hdr = None
        if not vrows:
            return None
    lines = cc.render_rows(rng, part, vrows, fancy=False)
    if not lines:
        mut = 'empty'
    else:
        i = rng.randrange(len(lines))
        fs = lines[i].split(', ')
        tys = cc.col_types(part, len(fs))
        choices = ['drop', 'add', 'int', 'float', 'empty', 'norows']
        if part == 'records_gnss':
            choices = ['add', 'int', 'float', 'drop2']
        if part == 'points3d':
            choices = ['drop', 'add', 'float', 'wronghdr'] if len(lines) > 1 else ['float', 'wronghdr', 'add']
        if part == 'sensors':
            choices += ['cammodel', 'camcount', 'camparam']
        if part == 'pairsfile':
            choices = ['drop', 'add']
        mut = rng.choice(choices)
        if mut == 'drop' and len(fs) > 1:
            j = rng.randrange(len(fs))
            if part == 'points3d' and len(fs) <= 2:
                mut = 'float'
            else:
                del fs[j]
        if mut == 'drop2' and len(fs) > 2:
            del fs[-2:]
        if mut == 'add':
            fs.insert(rng.randrange(len(fs) + 1), rng.choice(['7', 'x', '1.5']))
        if mut == 'int':
            js = [j for j, t in enumerate(tys) if t == 'i' and j < len(fs)]
            if js:
                fs[rng.choice(js)] = rng.choice(_INT_GARBAGE)
        if mut == 'float':
            js = [j for j, t in enumerate(tys) if t in ('f', 'o') and j < len(fs)]
            if part in ('rigs', 'trajectories'):
                # only into a group that is entirely present
                js = [j for j in js if all(fs[k] != '' for k in (range(2, 6) if j < 6 else range(6, 9)))]
            if js:
                fs[rng.choice(js)] = rng.choice(_FLT_GARBAGE)
        if mut == 'empty':
            js = [j for j, t in enumerate(tys) if t in ('i', 'f') and j < len(fs)]
            if js:
                fs[rng.choice(js)] = ''
        if part == 'sensors' and mut in ('cammodel', 'camcount', 'camparam'):
            cams = [k for k, ln in enumerate(lines) if ln.split(', ')[2] in ('camera', 'depth')]
            if cams:
                i = rng.choice(cams)
                fs = lines[i].split(', ')
                if mut == 'cammodel':
                    fs[3] = rng.choice(['pinhole', 'NOSUCH', ''])
                elif mut == 'camcount':
                    fs = fs[:-1] if rng.random() < 0.5 else fs + ['1']
                else:
                    fs[rng.randrange(4, len(fs))] = rng.choice(_FLT_GARBAGE)
        lines[i] = ', '.join(fs)
        if mut == 'norows':
            lines = []
        if mut == 'wronghdr':
            hdr = cc.writer_header('points3d:%d' % (9 - width))
    text = cc.layout_text(rng, part, lines, fancy=False, header=cc.writer_header(part),
                          p3d_header=hdr if part == 'points3d' else None)
    return {'kind': 'malformed', 'part': part, 'text': text, 'ids': None, 'kp': None, 'spec': None, 'mutation': mut}


def _large_dataset(part, n):
    one, zero = cc.hx(1.0), cc.hx(0.0)
    d = {p: None for p in cc.ALL_PARTS}
    d['sensors'] = [['c', None, 'camera', ['UNKNOWN_CAMERA', '640', '480']], ['w', '', 'wifi', []]]
    if part == 'sensors':
        d['sensors'] = [['s%d' % i, 'n', 'lidar', []] for i in range(n)]
    elif part == 'trajectories':
        d['trajectories'] = [[t, 'c', [one, zero, zero, zero], [zero, cc.hx(float(t)), zero]] for t in range(n)]
    elif part == 'records_camera':
        d['records_camera'] = [[t, 'c', 'i/%d.jpg' % t] for t in range(n)]
    elif part == 'records_wifi':
        d['records_wifi'] = [[t, 'w', 'b', 2400, cc.hx(-50.0), 's', 0, 0] for t in range(n)]
    elif part == 'observations':
        d['records_camera'] = [[0, 'c', 'i.jpg']]
        d['keypoints'] = [['k', 'n', 'float32', 2, ['i.jpg']]]
        d['points3d'] = [3, []]
        d['observations'] = [[i, 'k', [['i.jpg', i]]] for i in range(n)]
    return d


def _slice_of(part, text, lo, hi, expected_rows):
    """version line + data lines lo..hi-1 of a written file, and the expected rows that carry the keys of those lines"""
    lines = text.split('\n')
    data = [ln for ln in lines[1:] if ln and not ln.startswith('#')]
    window = data[lo:hi]
    n = cc.KEYLEN[part]
    tys = cc.col_types(part, n)[:n]
    by_key = {}
    for r in expected_rows:
        by_key.setdefault(tuple(r[:n]), r)
    rows, seen = [], set()
    for ln in window:
        fs = [f.strip() for f in ln.split(',')][:n]
        try:
            key = tuple(int(f) if t == 'i' else f for f, t in zip(fs, tys))
        except ValueError:
            continue
        if key in by_key and key not in seen:
            seen.add(key)
            rows.append(by_key[key])
    return '\n'.join([cc.VERSION_LINE] + window) + '\n', rows


def gen_cases(rng, tier):
    cases = []
    n_data = 40 if tier == 'quick' else 400
    # points3d.txt without the optional column comment (data already on the second line), or with it further down
    for w in (3, 6):
        for where in ('absent', 'absent-crlf', 'after-first-row', 'after-blank'):
            rows = [[cc.gen_float(rng) for _ in range(w)] for _ in range(rng.randint(1, 3))]
            lines = cc.render_rows(rng, 'points3d', rows, fancy=False)
            hdr = cc.writer_header('points3d:%d' % w)
            if where == 'after-first-row':
                lines.insert(1, hdr)
            elif where == 'after-blank':
                lines = ['', hdr] + lines
            eol = '\r\n' if where == 'absent-crlf' else '\n'
            text = eol.join([cc.VERSION_LINE] + lines) + eol
            cases.append({'kind': 'layout', 'part': 'points3d', 'text': text, 'ids': None, 'kp': None,
                          'spec': {'width': w, 'rows': cc.jrows(rows)}, 'expect': cc.jrows(rows), 'width': w})
    # LARGE tables: the written file must be valid whatever the number of rows (block-wise writers); the whole file goes
    # through the independent reader, a window of lines around row 1000 goes to the specification-level parser in Coq
    for nrows in (999, 1000, 1001, 2001):
        for part in ('sensors', 'trajectories', 'records_camera', 'records_wifi', 'observations'):
            lo = max(0, min(nrows, 1006) - 12)
            cases.append({'kind': 'written', 'part': part, 'data': _large_dataset(part, nrows), 'slice': [lo, lo + 12]})
    # load HISTORIES in one process: a conformant 1.1 directory B is loaded, a directory stamped with another format
    # version is loaded (or refused) elsewhere, B is loaded again: every load of B must give the content of its files
    for stamp in ('1.0', '1.0', '0.9', '1.2'):
        b = cc.gen_dataset(rng, present={'sensors', 'records_camera', 'keypoints', 'descriptors', 'points3d', 'observations',
                                         'trajectories'}, size=3)
        if not b['points3d'][1]:
            b['points3d'] = [b['points3d'][0], [[cc.hx(cc.gen_float(rng)) for _ in range(b['points3d'][0])]]]
        cases.append({'kind': 'loadhist', 'part': 'points3d', 'data': b, 'other': cc.gen_dataset(rng, size=2), 'stamp': stamp})
    for i in range(n_data):
        if i < 2:
            d = cc.gen_dataset(rng, present=set(cc.ALL_PARTS), size=3 + i)
        elif i < 5:
            # nested rigs; the layout stream renders their rows in any order (parent first, child first)
            d = cc.gen_dataset(rng, present={'sensors', 'rigs', 'trajectories'}, size=3, nested_rigs=True)
        elif i < 9:
            # 2-3 devices of the same kind at common timestamps, for every records kind
            d = cc.gen_dataset(rng, present={p for p in cc.TABLE_PARTS if p != 'observations'}, size=2, multi_device=True)
        else:
            d = cc.gen_dataset(rng)
        if i < 9 or i % 5 == 0:
            # a file written AFTER the in-memory objects were saved once and then edited through the public API
            dm = d if (d['rigs'] or d['trajectories']) else cc.gen_dataset(rng, present={'sensors', 'rigs', 'trajectories', 'records_wifi', 'records_gnss'}, size=3)
            muts = cc.gen_mutations(rng, dm)
            for p in ('rigs', 'trajectories', 'records_wifi', 'records_gnss', 'records_lidar', 'sensors'):
                if dm[p] is not None:
                    cases.append({'kind': 'written', 'part': p, 'data': _sub_dataset(dm, p), 'mutations': muts})
        if 2 <= i < 5 and d['rigs']:
            # the same nested rigs with the rows of each rig kept together, outermost rig first / innermost rig first
            groups = {}
            for r in d['rigs']:
                groups.setdefault(r[0], []).append(r)
            child_first = [g for g in groups.values()]
            inner = {r[1] for r in d['rigs']} & set(groups)
            child_first.sort(key=lambda g: 0 if g[0][0] in inner else 1)
            ids = [x[0] for x in d['sensors']]
            for order in (child_first, child_first[::-1]):
                vrows = cc.flat_rows('rigs', [r for g in order for r in g])
                text = cc.layout_text(rng, 'rigs', cc.render_rows(rng, 'rigs', vrows, fancy=False), fancy=False,
                                      header=cc.writer_header('rigs'))
                cases.append({'kind': 'layout', 'part': 'rigs', 'text': text, 'ids': ids, 'kp': None,
                              'spec': {'width': 0, 'rows': cc.jrows(vrows)},
                              'expect': cc.jrows(_expected_content('rigs', vrows, ids, None)), 'width': 0})
        present = [p for p in cc.ALL_PARTS if d[p] is not None and p != 'matches']
        # (written): every file of the dataset
        for p in present:
            sub = _sub_dataset(d, p)
            cases.append({'kind': 'written', 'part': p, 'data': sub})
        # (layout) and (malformed): a few parts of the dataset
        for p in present:
            if rng.random() < 0.6 or 5 <= i < 9:
                cases.append(_layout_case(rng, d, p))
            if rng.random() < 0.3:
                m = _malformed_case(rng, d, p)
                if m:
                    cases.append(m)
        if rng.random() < 0.5:
            cases.append(_layout_case(rng, d, 'pairsfile'))
        if rng.random() < 0.15:
            cases.append(_malformed_case(rng, d, 'pairsfile'))
    return cases


def _run_loadhist(case, ctx):
    import warnings
    import kapture.io.csv as kcsv
    tmp = ctx['tmp']
    tag = kv.case_hash(case['data'])[:8]
    root_b, root_a = os.path.join(tmp, 'lhB' + tag), os.path.join(tmp, 'lhA' + tag)
    for r in (root_b, root_a):
        shutil.rmtree(r, ignore_errors=True)
    out = {'kind': 'loadhist', 'exc': None, 'loads': [], 'text': None, 'other_exc': None}

    def load_b():
        try:
            with warnings.catch_warnings():
                warnings.simplefilter('ignore')
                out['loads'].append({'exc': None, 'loaded': cc.extract(kcsv.kapture_from_dir(root_b))})
        except BaseException as e:
            if isinstance(e, (KeyboardInterrupt, SystemExit)):
                raise
            out['loads'].append({'exc': f'{type(e).__name__}: {e}'[:120], 'loaded': None})
    try:
        os.makedirs(root_b)
        kcsv.kapture_to_dir(root_b, cc.build_kapture(case['data']))
        cc.write_data_files(case['data'], root_b)
        out['text'] = cc.read_text_files(root_b).get(cc.part_paths()['points3d'])
        load_b()
        os.makedirs(root_a)
        kcsv.kapture_to_dir(root_a, cc.build_kapture(case['other']))
        for dp, _, files in os.walk(root_a):
            for fn in files:
                if fn.endswith('.txt'):
                    fp = os.path.join(dp, fn)
                    with open(fp, encoding='utf-8', newline='') as f:
                        t = f.read()
                    with open(fp, 'w', encoding='utf-8', newline='') as f:
                        f.write(t.replace('# kapture format: 1.1', '# kapture format: ' + case['stamp'], 1))
        try:
            with warnings.catch_warnings():
                warnings.simplefilter('ignore')
                kcsv.kapture_from_dir(root_a)
        except Exception as e:
            out['other_exc'] = f'{type(e).__name__}'
        load_b()
    except Exception as e:
        out['exc'] = f'{type(e).__name__}: {e}'[:160]
    for r in (root_b, root_a):
        shutil.rmtree(r, ignore_errors=True)
    return out


def run_impl(case, ctx):
    import kapture.io.csv as kcsv
    part = case['part']
    if case['kind'] == 'loadhist':
        return _run_loadhist(case, ctx)
    if case['kind'] == 'written':
        d = case['data']
        root = os.path.join(ctx['tmp'], 'w')
        shutil.rmtree(root, ignore_errors=True)
        out = {'kind': 'written', 'save_exc': None, 'texts': {}, 'read': {}}
        try:
            k = cc.build_kapture(d)
            if case.get('mutations') is not None:
                os.makedirs(root)
                kcsv.kapture_to_dir(root, k)
                cc.touch(k)
                shutil.rmtree(root)
                muts = [m for m in case['mutations'] if cc.mutation_applies(m, d)]
                cc.apply_mutations(k, d, muts)
                d = cc.extract(k)
                out['current'] = d
            os.makedirs(root)
            kcsv.kapture_to_dir(root, k)
            files = cc.read_text_files(root)
        except Exception as e:
            out['save_exc'] = f'{type(e).__name__}: {e}'[:200]
            shutil.rmtree(root, ignore_errors=True)
            return out
        shutil.rmtree(root, ignore_errors=True)
        if part in cc.FEAT_PARTS:
            for row in d[part]:
                rel = cc.feat_cfg_path(part, row[0])
                out['texts'][row[0]] = files.get(rel)
        else:
            out['texts'][''] = files.get(cc.part_paths()[part])
        if case.get('slice') and out['texts'].get('') is not None:
            w, rows = _expected_written(d, part)
            stext, srows = _slice_of(part, out['texts'][''], case['slice'][0], case['slice'][1], rows)
            r = cc.run_file_reader(part, stext, None, None, ctx['tmp'])
            out['slice'] = {'text': stext, 'rows': cc.jrows(srows), 'read_exc': r['exc'],
                            'read': cc.jrows(r['rows']) if r['rows'] is not None else None}
            return out
        for key, text in out['texts'].items():
            if text is not None:
                r = cc.run_file_reader(part, text, None, None, ctx['tmp'])
                out['read'][key] = {'exc': r['exc'], 'width': r['width'],
                                    'rows': cc.jrows(r['rows']) if r['rows'] is not None else None}
        return out
    r = cc.run_file_reader(part, case['text'], case.get('ids'), case.get('kp'), ctx['tmp'])
    return {'kind': case['kind'], 'exc': r['exc'], 'width': r['width'], 'type_error': r.get('type_error', False),
            'rows': cc.jrows(r['rows']) if r['rows'] is not None else None}


def _written_items(case, obs):
    """[(key, text, expected width, expected rows (file order))] for a written case"""
    d, part = obs.get('current') or case['data'], case['part']
    items = []
    if part in cc.FEAT_PARTS:
        for row in d[part]:
            items.append((row[0], obs['texts'].get(row[0]), 0, [cc.feat_cfg_row(part, row)]))
    else:
        w, rows = _expected_written(d, part)
        items.append(('', obs['texts'].get(''), w, rows))
    return items


def oracle(case, obs):
    """C02 stated directly on the implementation (independent reader written from the specification)."""
    part = case['part']
    if case['kind'] == 'written':
        if obs['save_exc']:
            return 'saving a well-formed dataset raised ' + obs['save_exc'].split(':')[0]
        for key, text, w, rows in _written_items(case, obs):
            if text is None:
                return f'{part}: no file written'
            st, got = cc.spec_reader_py(part, text)
            if st != 'ok':
                return f'{part}: the written file is not a valid file of the format ({got.split(":")[0]})'
            if not cc.same_cells(cc.sort_flat(part, got), cc.sort_flat(part, rows)):
                return f'{part}: an independent reader of the written file does not recover the saved data'
            if part == 'points3d':
                second = text.split('\n')[1] if text.count('\n') >= 2 else ''
                if ('X, Y, Z' not in second) or (('R, G, B' in second) != (w == 6)):
                    return 'points3d: the column comment does not announce the number of columns written'
        return None
    if case['kind'] == 'loadhist':
        if obs['exc']:
            return 'history could not be set up: ' + obs['exc'].split(':')[0]
        want = cc.canon_plain(case['data'])
        for i, ld in enumerate(obs['loads']):
            when = 'first load' if i == 0 else f'load after a {case["stamp"]}-stamped directory was loaded in the same process'
            if ld['exc']:
                return f'{when}: a conformant 1.1 directory was rejected ({ld["exc"].split(":")[0]})'
            diff = cc.first_diff(want, ld['loaded'])
            if diff:
                return f'{when}: a conformant 1.1 directory loads to other content than its files hold ({diff})'
        return None
    if case['kind'] == 'layout':
        if obs.get('type_error'):
            return f'{part}: ' + obs['exc'][:80]
        if obs['exc']:
            return f'{part}: a conformant file was rejected ({obs["exc"].split(":")[0]})'
        got = cc.unjrows(obs['rows'])
        want = cc.unjrows(case['expect'])
        if part == 'points3d' and obs['width'] != case['width']:
            return f'points3d: a conformant {len(want)}x{case["width"]} file loads with {obs["width"]} columns'
        if not cc.same_cells(got, want):
            return f'{part}: a conformant file loads to other content than the specification assigns'
        return None
    return None     # malformed: only model / implementation agreement is checked (inside Coq)


def encode(case, obs):
    part = case['part']
    if case['kind'] == 'loadhist':
        if obs['exc'] or obs['text'] is None:
            raise RuntimeError('history could not be set up: ' + str(obs['exc']))
        w, rows = _expected_written(case['data'], 'points3d')
        last = obs['loads'][-1]['loaded'] if obs['loads'] else None
        p3 = last['points3d'] if last else None
        c = {'part': 'points3d', 'text': obs['text'], 'ids': None, 'kp': None, 'spec': {'width': w, 'rows': cc.jrows(rows)}}
        o = {'rows': cc.jrows([[cc.fx(v) for v in r] for r in p3[1]]), 'width': p3[0]} if p3 else {'rows': None}
        return cc.encode_file_case(c, o)
    if case['kind'] == 'written' and obs.get('slice'):
        sl = obs['slice']
        c = {'part': part, 'text': sl['text'], 'ids': None, 'kp': None, 'spec': {'width': 0, 'rows': sl['rows']}}
        return cc.encode_file_case(c, {'rows': sl['read'], 'width': 0})
    if case['kind'] == 'written':
        if obs['save_exc']:
            raise RuntimeError('implementation could not save: ' + obs['save_exc'])
        key, text, w, rows = _written_items(case, obs)[0]
        if text is None:
            raise RuntimeError('no file written')
        rd = obs['read'][key]
        c = {'part': part, 'text': text, 'ids': None, 'kp': None, 'spec': {'width': w, 'rows': cc.jrows(rows)}}
        return cc.encode_file_case(c, {'rows': rd['rows'], 'width': rd['width']})
    return cc.encode_file_case(case, obs)


def nontrivial(case, obs):
    if case['kind'] == 'loadhist':
        return True
    if case['kind'] == 'written':
        return any(t and t.count('\n') > 2 for t in obs.get('texts', {}).values())
    return case['text'].count('\n') > 2


def classify(case, obs):
    if case['kind'] == 'loadhist':
        return f'loadhist/{case["stamp"]}/other-{obs.get("other_exc") or "loaded"}'
    if case['kind'] == 'written':
        n = len(case['data'][case['part']] or []) if case['part'] != 'points3d' else 0
        return (f'written/{case["part"]}' + ('/after-edit' if case.get('mutations') is not None else '') +
                (f'/rows={n}' if case.get('slice') else ''))
    if case['kind'] == 'layout':
        return f'layout/{case["part"]}/{"filtered" if case.get("ids") is not None or case.get("kp") is not None else "all"}'
    return f'malformed/{case["part"]}/{case.get("mutation")}/{"raises" if obs["exc"] else "value"}'


def describe(case, obs):
    if case['kind'] == 'loadhist':
        return {'kind': 'loadhist', 'stamp': case['stamp'], 'other': obs.get('other_exc') or 'loaded',
                'loads': [ld['exc'] or 'ok' for ld in obs['loads']]}
    if case['kind'] == 'written':
        t = next(iter(obs.get('texts', {}).values()), None)
        return {'kind': 'written', 'part': case['part'], 'file_head': (t or '')[:300]}
    return {'kind': case['kind'], 'part': case['part'], 'text_head': case['text'][:300], 'ids': case.get('ids'),
            'reader': obs['exc'] or f'{len(obs["rows"])} rows'}


def shrink(case):
    if case['kind'] == 'loadhist' or case.get('slice'):
        return
    if case['kind'] != 'written':
        lines = case['text'].split('\n')
        for i in range(2, len(lines)):
            c = dict(case)
            c['text'] = '\n'.join(lines[:i] + lines[i + 1:])
            if case['kind'] == 'layout':
                continue        # the expected content would have to be recomputed
            yield c
        return
    if case.get('mutations') is not None:
        return                      # the edits refer to rows by index
    d, part = case['data'], case['part']
    v = d[part]
    rows = v[1] if part == 'points3d' else v
    for i in range(len(rows)):
        c = dict(d)
        if part == 'points3d':
            c[part] = [v[0], rows[:i] + rows[i + 1:]]
        elif part == 'sensors':
            continue
        else:
            c[part] = rows[:i] + rows[i + 1:]
        if part in cc.FEAT_PARTS and not c[part]:
            continue
        yield {'kind': 'written', 'part': part, 'data': c}


TECHNIQUE = ('Coq proof that every conformant rendering (all layouts) of a table is lexed and typed back to the table by the '
             'reader model and by the specification-level parser, and that what the writer model emits is such a rendering with '
             'the documented column order (checked against kapture_format.adoc on every run); tied to the code by running the '
             'verified parser on the bytes the implementation writes and the reader model on the same texts the real readers load')
LEVEL_TEXT = ('Theorems in coq/Props/C02.v hold for every table, every layout (blanks, comment/blank lines, CRLF, row order, '
              'leading zeros, float spellings) and every file kind listed; see docs/C02.md.')
LEVEL_NOTE = ('Trusted: Coq kernel + vm_compute, harness encoders, CPython float/int lexing, numpy.loadtxt on conformant files, '
              'column types transcribed from the adoc tables by hand (names and order are read from the adoc on every run).')
