"""C03 — feature, match and depth arrays persist bit-exactly as raw little-endian dumps.
Implementation under test: kapture.io.binary (array_to_file / array_from_file), kapture.io.tar
(TarHandler.add_array_to_tar / get_array_from_tar), the typed front ends of kapture.io.features and
kapture.io.records, and the path functions get_*_fullpath."""
import io
import os
import shutil
import struct
import tarfile

import kv

ID = 'C03'
COQ_MODELS = ['MBinary']
COQ_HEADER = 'From KV Require Import Eqb Str.\nFrom KV.Model Require Import MBinary.'
CASE_TYPE = 'MBinary.case'
CHECK_FN = 'MBinary.check_case'
SHARD_SIZE = 120
RULE = ('array case = front end (keypoints/descriptors/global_features/matches/depth/raw) x store (file/tar) x '
        'element type (11) x shape (0,1,n rows; 1..K columns; some 1-D/3-D) x in-memory byte order (little/big) x '
        'memory layout (C, Fortran, strided view, reversed view) x element bit patterns (NaN payloads, inf, -0, '
        'subnormals, int extremes, random) x reader arguments (same as writer / other type / other column count); '
        'bytes case = arbitrary byte strings (conformant and malformed lengths) given to the readers; path case = '
        'image names (nested, dots, spaces, unicode; plus non-normalised and absolute ones), feature types and roots '
        'given to get_*_fullpath, the tar front end and Matches.lexical_order; seq case = ONE array object written 2-4 times '
        'through several front ends / stores / views (writeable or read-only), every file and the caller\'s array checked; '
        'two case = two images of one feature type written in turn (names differing only by unicode normalisation form, '
        'case, spacing, or unrelated), first read back, ids listed; rewrite case = DIFFERENT arrays written in turn to the SAME '
        'destination (file or tar member; bigger, smaller, zero rows, other item size), bytes and read-back after every write '
        'and a bystander file at the end; hist case = a HISTORY of 2-8 writes and location queries on ONE kapture root '
        '(directory tree or tar archives): all four feature kinds, several types, both orientations (A,B)/(B,A) of image '
        'pairs, pairs sharing an image, self pairs, repeated destinations, look-alike names -- every returned location, '
        'every outcome, the WHOLE tree at the end (each file / tar member and its bytes), the arrays read back at the end '
        'and the ids / pairs listed. Names include non-NFC unicode. '
        'Non-trivial = array cases with at least one element or a zero-row array read back with its column count, '
        'and path cases with a nested or non-ASCII name; distinct = distinct case content.')
TRUSTED = ['numpy: ndarray.tofile / tobytes emit the elements in C order in the array\'s byte order; fromfile / frombuffer '
           '/ reshape failure cases (observed on every run through the correspondence, not proved)',
           'ndarray.astype(float32) used by depth_map_to_file for non-float32 input (Section variable `cast`; '
           'sampled on exactly representable values only)',
           'posixpath.join / normpath of CPython 3.12 (modelled; every path case compares the model with them)',
           'host is little-endian (harness/tables/binary.py fails closed otherwise)']
ASSUMPTIONS = ['image names and feature types are normalised relative POSIX paths (no empty, "." or ".." component, no '
               'backslash, not absolute) for the location clauses; other names are compared with the model only',
               'no directory component of the first image of a pair ends with ".overlapping" (otherwise two pairs can share '
               'one matches file: Example C03_pair_collision)',
               'depth maps have positive width and height; the reader is given the writer\'s column count / size',
               'a matches array that is not native float64 x 3 is refused by the writer (AssertionError): not judged',
               'python is not run with -O (the matches writer\'s checks are assert statements)']
EXHAUSTIVE = {'quick': False, 'thorough': False}
CASE_TIMEOUT = 60

DTYPES = ['float16', 'float32', 'float64', 'int8', 'int16', 'int32', 'int64', 'uint8', 'uint16', 'uint32', 'uint64']
ISZ = {'float16': 2, 'float32': 4, 'float64': 8, 'int8': 1, 'int16': 2, 'int32': 4, 'int64': 8,
       'uint8': 1, 'uint16': 2, 'uint32': 4, 'uint64': 8}
CQ_DT = {'float16': 'F16', 'float32': 'F32', 'float64': 'F64', 'int8': 'I8', 'int16': 'I16', 'int32': 'I32',
         'int64': 'I64', 'uint8': 'U8', 'uint16': 'U16', 'uint32': 'U32', 'uint64': 'U64'}
# the documented layout (kapture_format.adoc), stated here independently of the code
DOC = {'keypoints': ('reconstruction/keypoints', '.kpt'), 'descriptors': ('reconstruction/descriptors', '.desc'),
       'global_features': ('reconstruction/global_features', '.gfeat'), 'matches': ('reconstruction/matches', '.matches')}
DOC_TAR = {'keypoints': 'keypoints.tar', 'descriptors': 'descriptors.tar', 'global_features': 'global_features.tar',
           'matches': 'matches.tar'}
KIND = {'keypoints': 'Keypoints', 'descriptors': 'Descriptors', 'global_features': 'GlobalFeatures', 'matches': 'Matches'}
APIS = ['keypoints', 'descriptors', 'global_features', 'matches', 'depth', 'raw']
LAYOUTS = ['C', 'F', 'strided', 'reversed']

GOOD_NAMES = ['img.jpg', 'mapping/cam_01/00001.jpg', 'query/query001.jpg', 'a b/c d.png', 'dir.with.dots/im.age.jpeg',
              'ünï/cødé/图像.jpg', 'deep/1/2/3/4/5/x.jpg', '.hidden/.x', 'a..b/c', 'x.kpt',
              'n.overlapping.jpg', '-dash/~tilde.png', 'UPPER/Mixed.JPG', '00001', 'cam/\U0001f4f7.png', 'sp  ace/ x .jpg',
              'trailing.dot./x.', 'a/b.matches', "quo'te/q\"q.jpg", 'per%cent/#hash&amp;.jpg',
              # names that are NOT in unicode NFC form (decomposed accents as macOS tools emit, Hangul jamo,
              # Angstrom / Ohm signs, CJK compatibility ideograph) and mixed forms: still plain, legal names
              'cafe\u0301.jpg', 'mapping/cafe\u0301 01/vue d\u2019e\u0301te\u0301.jpg',
              '\u1112\u1161\u11ab/\u1100\u1173\u11af.png', 'A\u030a/\u212b.jpg', '\u2126hm/\uf900.png',
              'mixed e\u0301\u00e9.jpg']
NON_NFC_TWINS = [('cafe\u0301.jpg', 'caf\u00e9.jpg'), ('mapping/cafe\u0301 01/e\u0301te\u0301.jpg', 'mapping/caf\u00e9 01/\u00e9t\u00e9.jpg'),
                 ('\u1112\u1161\u11ab.png', '\ud55c.png'), ('A\u030a/x.jpg', '\u00c5/x.jpg'), ('\u212b.jpg', '\u00c5.jpg'),
                 ('\u2126.png', '\u03a9.png'), ('dir/\uf900.png', 'dir/\u8c48.png'), ('\ufb01le.jpg', 'file.jpg'),
                 ('IMG.JPG', 'img.jpg'), ('a b.jpg', 'a  b.jpg'), ('x.jpg', 'x.jpg '), ('a/b.jpg', 'a_b.jpg'),
                 ('n.jpg', 'n.jpg.kpt'), ('same.jpg', 'same.jpg')]
ODD_NAMES = ['a//b.jpg', './a.jpg', 'a/./b.jpg', 'a/../b.jpg', '../a.jpg', '/abs/a.jpg', 'a/', 'a\\b.jpg', '//a.jpg',
             '///a.jpg', '.', '..', 'a/..', '', 'a/b/../../c.jpg', '../../x', 'a\\..\\b', 'dir.overlapping/e.jpg']
GOOD_TYPES = ['SIFT', 'r2d2_WASF-N8_20k', 'd2 net', 'ünï', 'AP-GeM-LM18', 'v1.2', 'de\u0301tecteur', '\u212bkaze']
ODD_TYPES = ['a/b', '', '.', 'x/../y', '/abs']
GOOD_ROOTS = ['root', '/abs/root', 'some dir/käpture', 'a/b/c', 'donne\u0301es/k']
ODD_ROOTS = ['', '.', 'r/', 'a/../b', '/', '//net/x', './r', 'r//s']


# ---------------------------------------------------------------- bit patterns
def special_bits(dt):
    w = ISZ[dt]
    top = (1 << (8 * w)) - 1
    if dt == 'float16':
        return [0x0000, 0x8000, 0x3c00, 0xbc00, 0x7c00, 0xfc00, 0x7e00, 0x7e01, 0x7d01, 0xfe55, 0x0001, 0x7bff, 0x0400]
    if dt == 'float32':
        return [0x00000000, 0x80000000, 0x3f800000, 0x40000000, 0x7f800000, 0xff800000, 0x7fc00000, 0x7fc00001,
                0x7f800001, 0xffc12345, 0x00000001, 0x7f7fffff, 0x00800000, 0x01020304]
    if dt == 'float64':
        return [0, 1 << 63, 0x3ff0000000000000, 0x4000000000000000, 0x7ff0000000000000, 0xfff0000000000000,
                0x7ff8000000000000, 0x7ff8000000000001, 0x7ff0000000000001, 0xfff8123456789abc, 1,
                0x7fefffffffffffff, 0x0010000000000000, 0x0102030405060708]
    return [0, 1, top, top - 1, 1 << (8 * w - 1), (1 << (8 * w - 1)) - 1, int('0102030405060708'[:2 * w], 16)]


def rand_bits(rng, dt, n):
    w = ISZ[dt]
    sp = special_bits(dt)
    out = []
    for _ in range(n):
        r = rng.random()
        if r < 0.3:
            out.append(rng.choice(sp))
        elif r < 0.5 and dt.startswith('float'):
            v = rng.choice([0.5, -1.25, 3.0, 100.0, 640.0, 480.0, 0.7894, 1678.0])
            out.append(int.from_bytes(struct.pack({2: '<e', 4: '<f', 8: '<d'}[w], v), 'little'))
        else:
            out.append(rng.getrandbits(8 * w))
    return out


def value_of(dt, bits):
    """numeric value of a bit pattern, by struct / two's complement (no numpy)."""
    w = ISZ[dt]
    if dt.startswith('float'):
        return struct.unpack({2: '<e', 4: '<f', 8: '<d'}[w], bits.to_bytes(w, 'little'))[0]
    if dt.startswith('int') and bits >= 1 << (8 * w - 1):
        return bits - (1 << (8 * w))
    return bits


def f32_bits(v):
    return int.from_bytes(struct.pack('<f', v), 'little')


def castable_bits(rng, dt, n):
    """bit patterns of type dt whose values are exactly representable in float32 (no NaN)."""
    out = []
    for _ in range(n):
        if dt == 'float16':
            b = rng.getrandbits(16)
            while (b >> 10) & 0x1f == 0x1f and b & 0x3ff:
                b = rng.getrandbits(16)
            out.append(b)
        elif dt == 'float64':
            b = rng.choice([0x3f800000, 0xbfc00000, 0x7f800000, 0xff800000, 0, 0x80000000, 0x00000001, 0x7f7fffff,
                            rng.getrandbits(32)])
            while (b >> 23) & 0xff == 0xff and b & 0x7fffff:
                b = rng.getrandbits(32)
            v = struct.unpack('<f', b.to_bytes(4, 'little'))[0]
            out.append(int.from_bytes(struct.pack('<d', v), 'little'))
        else:
            w = ISZ[dt]
            lo, hi = (-(1 << (8 * w - 1)), (1 << (8 * w - 1)) - 1) if dt.startswith('int') else (0, (1 << (8 * w)) - 1)
            v = rng.choice([0, 1, lo, rng.randint(max(lo, -(1 << 24)), min(hi, 1 << 24)), min(hi, 1 << 24)])
            if abs(v) > (1 << 24):      # keep only exactly representable integers
                v = lo if lo == -(1 << (8 * w - 1)) and w >= 4 else 0   # -2^31 / -2^63 are powers of two
            out.append(v & ((1 << (8 * w)) - 1))
    return out


# ---------------------------------------------------------------- generation
def _arr(api, store, dt, shape, bits, big=False, layout='C', rd=None, name='img.jpg', name2='other.jpg',
         ftype='SIFT'):
    n = 1
    for s in shape:
        n *= s
    assert len(bits) == n
    c = {'k': 'array', 'api': api, 'store': store, 'dtype': dt, 'shape': list(shape), 'bits': list(bits), 'big': big,
         'layout': layout, 'name': name, 'name2': name2, 'ftype': ftype}
    cols = shape[-1] if len(shape) >= 2 else 1
    c['rd_dtype'] = dt
    c['rd_dsize'] = cols
    c['rd_size'] = [shape[1], shape[0]] if len(shape) == 2 else [1, n]
    if rd:
        c.update(rd)
    return c


def gen_cases(rng, tier):
    K = 6 if tier == 'quick' else 12
    NMAX = 9 if tier == 'quick' else 40
    reps = 1 if tier == 'quick' else 8
    cases = []

    def pick_name():
        return rng.choice(GOOD_NAMES)

    def shape_for(rk):
        rows = {0: 0, 1: 1}.get(rk, rng.randint(2, NMAX))
        return [rows, rng.randint(1, K)]

    # 1. generic front ends: every dtype x {0,1,n} rows x store x byte order, layouts and names drawn
    for _ in range(reps):
        for api in ('keypoints', 'descriptors', 'global_features', 'raw'):
            for store in ('file', 'tar'):
                for dt in DTYPES:
                    for rk in (0, 1, 2):
                        for big in (False, True):
                            if api in ('descriptors', 'global_features') and rng.random() < 0.5:
                                continue
                            shape = shape_for(rk)
                            if api == 'global_features' and rng.random() < 0.5:
                                shape[0] = min(shape[0], 1) if rk else 0
                            bits = rand_bits(rng, dt, shape[0] * shape[1])
                            cases.append(_arr(api, store, dt, shape, bits, big, rng.choice(LAYOUTS), None,
                                              pick_name(), pick_name(), rng.choice(GOOD_TYPES)))
    # 1b. every special bit pattern of every element type (NaN payloads, signalling NaN, inf, -0, subnormals,
    #     integer extremes): one row holding them all (quick), and each one alone through every store/order (thorough)
    for dt in DTYPES:
        sp = special_bits(dt)
        for store in ('file', 'tar'):
            for big in (False, True):
                cases.append(_arr(rng.choice(['keypoints', 'descriptors', 'global_features', 'raw']), store, dt,
                                  [1, len(sp)], sp, big, 'C', None, pick_name()))
                if tier == 'thorough':
                    for b in sp:
                        cases.append(_arr('keypoints', store, dt, [1, 1], [b], big, 'C', None, 'p.jpg'))
    # 2. reader given another type / another column count (also 0 and negative)
    for _ in range(60 * reps):
        dt = rng.choice(DTYPES)
        shape = shape_for(rng.choice([0, 1, 2, 2]))
        bits = rand_bits(rng, dt, shape[0] * shape[1])
        rd = {}
        r = rng.random()
        if r < 0.45:
            rd['rd_dtype'] = rng.choice(DTYPES)
        if r > 0.3:
            rd['rd_dsize'] = rng.choice([0, -1, -3, 1, 2, 3, shape[0] * shape[1], shape[1] + 1, 7, shape[0] or 1])
        cases.append(_arr(rng.choice(['keypoints', 'descriptors', 'global_features', 'raw']), rng.choice(['file', 'tar']),
                          dt, shape, bits, rng.random() < 0.3, rng.choice(LAYOUTS), rd, pick_name()))
    # 3. 1-D and 3-D arrays (the dump is the flat row-major content; the reader re-shapes)
    for _ in range(30 * reps):
        dt = rng.choice(DTYPES)
        shape = rng.choice([[rng.randint(0, 12)], [rng.randint(1, 3), rng.randint(1, 3), rng.randint(1, 4)], [0, 2, 2]])
        n = 1
        for s in shape:
            n *= s
        bits = rand_bits(rng, dt, n)
        rd = {'rd_dsize': rng.choice([1, 2, 3, 4, max(n, 1)])}
        cases.append(_arr(rng.choice(['keypoints', 'raw']), rng.choice(['file', 'tar']), dt, shape, bits,
                          rng.random() < 0.3, rng.choice(['C', 'F', 'reversed']), rd, pick_name()))
    # 4. matches: valid float64 x 3 (0, 1, n rows; layouts; both stores), and arrays the writer must refuse
    for _ in range(reps):
        for store in ('file', 'tar'):
            for rk in (0, 1, 2, 2, 2):
                for layout in LAYOUTS:
                    shape = [shape_for(rk)[0], 3]
                    bits = rand_bits(rng, 'float64', shape[0] * 3)
                    a, b = rng.sample(GOOD_NAMES, 2)
                    cases.append(_arr('matches', store, 'float64', shape, bits, False, layout, None, a, b,
                                      rng.choice(GOOD_TYPES)))
            for dt, shape, big in (('float64', [2, 3], True), ('float32', [2, 3], False), ('float64', [2, 2], False),
                                   ('float64', [3, 4], False), ('float64', [3], False), ('int64', [1, 3], False),
                                   ('float64', [0, 3], True), ('float64', [2, 3, 2], False)):
                n = 1
                for s in shape:
                    n *= s
                cases.append(_arr('matches', store, dt, shape, rand_bits(rng, dt, n), big, 'C', None, 'a.jpg', 'b.jpg'))
    # 5. depth maps: float32 h x w in both byte orders and all layouts; other element types are converted;
    #    reading with another size
    for _ in range(reps):
        for h in (1, 2, rng.randint(3, NMAX)):
            for wd in (1, 2, rng.randint(3, K + 2)):
                for big in (False, True):
                    bits = rand_bits(rng, 'float32', h * wd)
                    cases.append(_arr('depth', 'file', 'float32', [h, wd], bits, big, rng.choice(LAYOUTS), None,
                                      rng.choice(['mapping/cam_01/00001.depth', 'query/q 1.depth', 'd.depth',
                                                  'ü/深.depth', 'cafe\u0301/e\u0301te\u0301.depth', '\u212b/\u1112\u1161\u11ab.depth'])))
        for dt in DTYPES:
            if dt == 'float32':
                continue
            h, wd = rng.randint(1, 4), rng.randint(1, 4)
            cases.append(_arr('depth', 'file', dt, [h, wd], castable_bits(rng, dt, h * wd), rng.random() < 0.3,
                              rng.choice(LAYOUTS), None, 'conv/x.depth'))
        for size in ([2, 2], [3, 1], [6, 1], [1, 6], [0, 3], [3, 0], [-2, -3], [-1, 6], [12, 1], [2, 6], [3, 2]):
            bits = rand_bits(rng, 'float32', 6)
            cases.append(_arr('depth', 'file', 'float32', [2, 3], bits, False, 'C', {'rd_size': size}, 'size/x.depth'))
        cases.append(_arr('depth', 'file', 'float32', [0, 3], [], False, 'C', None, 'empty/x.depth'))
    # 6. arbitrary bytes given to the readers (conformant and malformed lengths)
    for _ in range(120 * reps):
        api = rng.choice(['keypoints', 'descriptors', 'global_features', 'raw', 'matches', 'depth'])
        store = 'file' if api == 'depth' else rng.choice(['file', 'tar'])
        dt = rng.choice(DTYPES)
        dsize = rng.choice([1, 2, 3, 4, 5])
        w = {'matches': 8, 'depth': 4}.get(api, ISZ[dt])
        ln = rng.choice([0, 1, w - 1, w, w + 1, w * dsize, w * dsize * 3, w * dsize * 2 + w, w * dsize + 1,
                         rng.randint(0, 64), 24, 48, 47])
        ln = max(ln, 0)
        cases.append({'k': 'bytes', 'api': api, 'store': store, 'hex': bytes(rng.getrandbits(8) for _ in range(ln)).hex(),
                      'rd_dtype': dt, 'rd_dsize': dsize, 'rd_size': rng.choice([[dsize, 1], [2, 3], [3, 2], [1, 1], [ln // 4 or 1, 1]])})
    # 6b. the SAME array object written several times (same or other front end / store / image): every file must
    #     be the dump, and the writer must leave its argument alone
    for _ in range(90 * reps):
        dt = rng.choice(DTYPES) if rng.random() < 0.7 else rng.choice(['float32', 'float64', 'uint16', 'int32'])
        shape = [rng.choice([0, 1, 2, 3, rng.randint(2, NMAX)]), rng.randint(1, K)]
        if rng.random() < 0.25:
            dt, shape = 'float64', [shape[0], 3]
        bits = rand_bits(rng, dt, shape[0] * shape[1])
        apis = ['keypoints', 'descriptors', 'global_features', 'raw']
        if dt == 'float64' and shape[1] == 3:
            apis.append('matches')
        if dt == 'float32' and shape[0] > 0:
            apis.append('depth')
        steps = []
        for i in range(rng.choice([2, 2, 3, 3, 4])):
            api = rng.choice(apis)
            steps.append({'api': api, 'store': 'file' if api == 'depth' else rng.choice(['file', 'tar']),
                          'name': rng.choice(GOOD_NAMES) if rng.random() < 0.7 else 'img.jpg',
                          'name2': rng.choice(GOOD_NAMES), 'alias': rng.random() < 0.3})
        cases.append({'k': 'seq', 'dtype': dt, 'shape': shape, 'bits': bits, 'big': rng.random() < 0.7,
                      'layout': rng.choice(LAYOUTS), 'writeable': rng.random() < 0.8, 'ftype': rng.choice(GOOD_TYPES),
                      'steps': steps})
    # 6c. two images of one feature type, one after the other: names that differ only by unicode normalisation
    #     form, case, spacing ... must get two files; the first is read back and the ids are listed
    pairs = list(NON_NFC_TWINS) + [tuple(rng.sample(GOOD_NAMES, 2)) for _ in range(12 * reps)]
    for (n1, n2) in pairs:
        for store in ('file', 'tar'):
            if rng.random() < 0.5:
                n1, n2 = n2, n1
            api = rng.choice(['keypoints', 'descriptors', 'global_features'])
            d1, d2 = rng.choice(DTYPES), rng.choice(DTYPES)
            s1, s2 = [rng.randint(1, 5), rng.randint(1, K)], [rng.randint(0, 4), rng.randint(1, K)]
            cases.append({'k': 'two', 'api': api, 'store': store, 'ftype': rng.choice(GOOD_TYPES), 'n1': n1, 'n2': n2,
                          'a1': {'dtype': d1, 'shape': s1, 'bits': rand_bits(rng, d1, s1[0] * s1[1])},
                          'a2': {'dtype': d2, 'shape': s2, 'bits': rand_bits(rng, d2, s2[0] * s2[1])}})
    # 6d. DIFFERENT arrays written in turn to the SAME destination (the file / tar member of one image): a write must
    #     replace what was there -- bigger then smaller, non-empty then zero rows, then bigger again, other item sizes
    for _ in range(reps):
        for api in ('keypoints', 'descriptors', 'global_features', 'raw', 'matches', 'depth'):
            for store in (('file',) if api == 'depth' else ('file', 'tar')):
                for _rep in range(4 if api in ('keypoints', 'depth') else 3):
                    plan = rng.choice([[3, 1], [4, 0, 2], [2, 5, 1, 0], [5, 2, 2, 6], [1, 0], [6, 3, 0, 4]])
                    cols = 3 if api == 'matches' else rng.randint(1, K)
                    arrays = []
                    for rows in plan:
                        if api == 'matches':
                            dt = 'float64'
                        elif api == 'depth':
                            dt = 'float32'
                        else:
                            dt = rng.choice(DTYPES)
                        c = cols if rng.random() < 0.7 or api == 'matches' else rng.randint(1, K)
                        if api == 'depth':
                            rows = max(rows, 1) if rng.random() < 0.8 else rows
                        arrays.append({'dtype': dt, 'shape': [rows, c], 'bits': rand_bits(rng, dt, rows * c),
                                       'big': api != 'matches' and rng.random() < 0.3, 'layout': rng.choice(LAYOUTS)})
                    name = rng.choice(GOOD_NAMES)
                    other = rng.choice([n for n in GOOD_NAMES if n != name])
                    if api == 'depth':
                        name, other = name + '.depth', other + '.depth'
                    cases.append({'k': 'rewrite', 'api': api, 'store': store, 'ftype': rng.choice(GOOD_TYPES),
                                  'name': name, 'name2': rng.choice(GOOD_NAMES), 'other': other, 'arrays': arrays})
    # 6e. a HISTORY on ONE kapture root: several feature kinds / types / images / image pairs written (and paths
    #     merely asked for) in turn in the same directory tree or tar archives -- the two orientations (A, B) and
    #     (B, A) of a pair, pairs sharing an image, the same destination written again, look-alike names.  Every path
    #     the code returns, every outcome, the WHOLE tree at the end (every file / tar member and its bytes), the arrays
    #     read back at the end and the ids / pairs listed are judged: the location is a function of the names alone,
    #     whatever the store already holds.
    for i in range(44 * reps):
        cases.append(_gen_hist(rng, K, NMAX, i))
    # 7. paths
    for kind in ('Keypoints', 'Descriptors', 'GlobalFeatures'):
        for name in GOOD_NAMES:
            cases.append({'k': 'fpath', 'kind': kind, 'root': rng.choice(GOOD_ROOTS), 'ftype': rng.choice(GOOD_TYPES),
                          'name': name})
        for name in ODD_NAMES:
            cases.append({'k': 'fpath', 'kind': kind, 'root': rng.choice(GOOD_ROOTS + ODD_ROOTS),
                          'ftype': rng.choice(GOOD_TYPES + ODD_TYPES), 'name': name})
    for _ in range(60 * reps):
        cases.append({'k': 'fpath', 'kind': rng.choice(['Keypoints', 'Descriptors', 'GlobalFeatures']),
                      'root': rng.choice(GOOD_ROOTS + ODD_ROOTS), 'ftype': rng.choice(GOOD_TYPES + ODD_TYPES),
                      'name': _rand_name(rng)})
    for a in GOOD_NAMES:
        b = rng.choice(GOOD_NAMES)
        cases.append({'k': 'mpath', 'root': rng.choice(GOOD_ROOTS), 'ftype': rng.choice(GOOD_TYPES), 'a': a, 'b': b})
        cases.append({'k': 'mpath', 'root': rng.choice(GOOD_ROOTS), 'ftype': rng.choice(GOOD_TYPES), 'a': b, 'b': a})
    for _ in range(80 * reps):
        pool = GOOD_NAMES + (ODD_NAMES if rng.random() < 0.5 else [])
        a, b = rng.choice(pool), rng.choice(pool)
        if rng.random() < 0.3:
            a, b = _rand_name(rng), _rand_name(rng)
        cases.append({'k': 'mpath', 'root': rng.choice(GOOD_ROOTS + ODD_ROOTS), 'ftype': rng.choice(GOOD_TYPES + ODD_TYPES),
                      'a': a, 'b': b})
    cases.append({'k': 'mpath', 'root': 'root', 'ftype': 'SIFT', 'a': 'd.overlapping/e', 'b': 'f'})
    cases.append({'k': 'mpath', 'root': 'root', 'ftype': 'SIFT', 'a': 'd', 'b': 'e.overlapping/f'})
    for name in GOOD_NAMES + ODD_NAMES + [_rand_name(rng) for _ in range(20 * reps)]:
        cases.append({'k': 'rpath', 'root': rng.choice(GOOD_ROOTS + ODD_ROOTS), 'name': name})
    return cases


def _hist_arr(rng, api, K, NMAX):
    if api == 'matches':
        dt, shape = 'float64', [rng.choice([0, 1, 2, 3, rng.randint(2, NMAX)]), 3]
    else:
        dt, shape = rng.choice(DTYPES), [rng.choice([0, 1, 2, rng.randint(2, NMAX)]), rng.randint(1, K)]
    return {'dtype': dt, 'shape': shape, 'bits': rand_bits(rng, dt, shape[0] * shape[1]),
            'big': api != 'matches' and rng.random() < 0.25, 'layout': rng.choice(LAYOUTS)}


def _gen_hist(rng, K, NMAX, i):
    """a history of writes / path queries on one kapture root (see gen_cases 6e)."""
    store = 'file' if i % 4 != 3 else 'tar'
    plain_names = [n for n in GOOD_NAMES]
    imgs = rng.sample(plain_names, rng.choice([2, 2, 3, 4]))
    if rng.random() < 0.3:                      # look-alike twins among the images
        t = rng.choice(NON_NFC_TWINS[:-1])
        imgs[:2] = [t[0], t[1]]
    ftypes = rng.sample(GOOD_TYPES, rng.choice([1, 1, 2]))
    steps = []
    flavour = i % 4 if i < 24 else rng.choice([0, 1, 2, 3, 4])
    a, b = imgs[0], imgs[1]

    def w(api, n1, n2=None, op='write', ft=None):
        steps.append({'op': op, 'api': api, 'ftype': ft or ftypes[0], 'name': n1, 'name2': n2 or rng.choice(imgs),
                      'arr': _hist_arr(rng, api, K, NMAX)})
    if flavour == 0:        # both orientations of one pair (second one written, or only asked for)
        if rng.random() < 0.5:
            a, b = b, a
        w('matches', b, a)
        w('matches', a, b, op=rng.choice(['write', 'write', 'path']))
        if rng.random() < 0.5:
            w('matches', b, a, op=rng.choice(['write', 'path']))
    elif flavour == 1:      # all ordered pairs over the images (self pairs included), shuffled
        pairs = [(x, y) for x in imgs[:3] for y in imgs[:3]]
        rng.shuffle(pairs)
        for x, y in pairs[:rng.randint(3, 6)]:
            w('matches', x, y, ft=rng.choice(ftypes))
    elif flavour == 2:      # one image through every feature kind, then again, then a pair in both orientations
        for api in rng.sample(['keypoints', 'descriptors', 'global_features'], 3):
            w(api, a, ft=rng.choice(ftypes))
        w(rng.choice(['keypoints', 'descriptors', 'global_features']), a)
        w('matches', a, b)
        w('matches', b, a)
    else:                   # free mix
        for _ in range(rng.randint(3, 7)):
            api = rng.choice(['keypoints', 'descriptors', 'global_features', 'matches', 'matches', 'matches'])
            x, y = rng.choice(imgs), rng.choice(imgs)
            w(api, x, y, op='write' if rng.random() < 0.8 else 'path', ft=rng.choice(ftypes))
        x, y = steps[-1]['name'], steps[-1]['name2']
        w('matches', y, x, ft=steps[-1]['ftype'])
    return {'k': 'hist', 'store': store, 'steps': steps}


def _rand_name(rng):
    alphabet = ['a', 'b', 'Z', '0', '9', '.', '.', ' ', '_', '-', 'é', '图', '/', '/', 'x.jpg', '..', 'img', '\\',
                '.overlapping', '\U0001f4f7']
    return ''.join(rng.choice(alphabet) for _ in range(rng.randint(1, 9)))


# ---------------------------------------------------------------- normalised names (domain of the location clauses)
def normalised(name):
    if not name or '\\' in name or '\x00' in name:
        return False
    return all(c not in ('', '.', '..') for c in name.split('/'))


def doc_location(case, root):
    """(path of the file or of the tar, member name or None) where the documentation puts the array."""
    api, store = case['api'], case['store']
    if api == 'raw':
        return (os.path.join(root, 'raw.tar'), case['name'] + '.bin') if store == 'tar' \
            else (os.path.join(root, 'raw', case['name'] + '.bin'), None)
    if api == 'depth':
        return os.path.join(root, 'sensors/records_data', case['name']), None
    d, ext = DOC[api]
    rel = case['name'] + ext if api != 'matches' else case['name'] + '.overlapping/' + case['name2'] + ext
    if store == 'tar':
        return os.path.join(root, d, case['ftype'], DOC_TAR[api]), rel
    return os.path.join(root, d, case['ftype'], rel), None


# ---------------------------------------------------------------- running the implementation
def build_array(case):
    import numpy as np
    dt, w = case['dtype'], ISZ[case['dtype']]
    order = 'big' if case['big'] else 'little'
    raw = b''.join(int(p).to_bytes(w, order) for p in case['bits'])
    ndt = np.dtype(dt).newbyteorder('>' if case['big'] else '<')
    base = np.frombuffer(raw, dtype=ndt).reshape(case['shape']).copy()
    lay = case['layout']
    if lay == 'F':
        arr = np.asfortranarray(base)
    elif lay == 'strided' and base.ndim == 2:
        bigger = np.zeros((base.shape[0], base.shape[1] * 2 + 1), dtype=ndt)
        bigger[:, 1::2] = base
        arr = bigger[:, 1::2]
    elif lay == 'reversed':
        arr = base[::-1].copy()[::-1]
    else:
        arr = base
    if arr.dtype != ndt or list(arr.shape) != list(case['shape']) or np.ascontiguousarray(arr).tobytes() != raw:
        raise RuntimeError('harness: array construction does not denote the intended bit patterns')
    return arr


def _bits_of(a):
    import numpy as np
    a = np.ascontiguousarray(a)
    w = a.dtype.itemsize
    raw = a.tobytes()
    order = 'big' if a.dtype.byteorder == '>' else 'little'
    return [int.from_bytes(raw[i:i + w], order) for i in range(0, len(raw), w)]


def _read_obs(fn):
    try:
        r = fn()
    except TypeError as e:
        return {'err': 'TypeError', 'msg': str(e)[:120]}
    except ValueError as e:
        return {'err': 'ValueError', 'msg': str(e)[:120]}
    except Exception as e:
        return {'err': 'other', 'msg': f'{type(e).__name__}: {e}'[:160]}
    return {'dtype': r.dtype.name, 'byteorder': r.dtype.byteorder, 'shape': [int(x) for x in r.shape], 'bits': _bits_of(r)}


def _front(api):
    import kapture
    import kapture.io.features as kf
    return {
        'keypoints': (kapture.Keypoints, kf.get_keypoints_fullpath, kf.image_keypoints_to_file, kf.image_keypoints_from_file),
        'descriptors': (kapture.Descriptors, kf.get_descriptors_fullpath, kf.image_descriptors_to_file,
                        kf.image_descriptors_from_file),
        'global_features': (kapture.GlobalFeatures, kf.get_global_features_fullpath, kf.image_global_features_to_file,
                            kf.image_global_features_from_file),
        'matches': (kapture.Matches, None, kf.image_matches_to_file, kf.image_matches_from_file),
    }[api]


def _tar_bytes(tar_path, member):
    """last member of that name, read with the standard library only."""
    if not os.path.exists(tar_path):
        return None, []
    with tarfile.open(tar_path, 'r') as t:
        names = t.getnames()
        hit = None
        for m in t.getmembers():
            if m.name == member:
                hit = m
        return (t.extractfile(hit).read() if hit is not None else None), names


def _locate(case, root, handler=None):
    """the location the CODE computes for this case: a path, or (member name, handler)."""
    import kapture.io.features as kf
    import kapture.io.records as kr
    api = case['api']
    if api == 'raw':
        return (case['name'] + '.bin', handler) if handler is not None else os.path.join(root, 'raw', case['name'] + '.bin')
    if api == 'depth':
        return kr.get_depth_map_fullpath(root, case['name'])
    if api == 'matches':
        return kf.get_matches_fullpath((case['name'], case['name2']), case['ftype'], root, handler)
    return _front(api)[1](case['ftype'], root, case['name'], handler)


def _tar_path(case, root):
    import kapture.io.tar as kt
    if case['api'] == 'raw':
        return os.path.join(root, 'raw.tar')
    p = kt.get_feature_tar_fullpath(_front(case['api'])[0], case['ftype'], root)
    return p


def _write(case, loc, arr):
    import kapture.io.binary as kb
    import kapture.io.records as kr
    api = case['api']
    if api == 'raw':
        if isinstance(loc, str):
            kb.array_to_file(loc, arr)
        else:
            loc[1].add_array_to_tar(loc[0], arr)
    elif api == 'depth':
        kr.depth_map_to_file(loc, arr)
    else:
        _front(api)[2](loc, arr)


def _read(case, loc):
    import numpy as np
    import kapture.io.binary as kb
    import kapture.io.records as kr
    api = case['api']
    dt = getattr(np, case['rd_dtype'])
    if api == 'raw':
        if isinstance(loc, str):
            return kb.array_from_file(loc, dt, case['rd_dsize'])
        return loc[1].get_array_from_tar(loc[0], dt, case['rd_dsize'])
    if api == 'depth':
        return kr.depth_map_from_file(loc, tuple(case['rd_size']))
    if api == 'matches':
        return _front(api)[3](loc)
    return _front(api)[3](loc, dt, case['rd_dsize'])


def _run_array(case, root):
    from kapture.io.tar import TarHandler
    obs = {'write': None, 'found': False, 'hex': None, 'read': None}
    arr = build_array(case) if case['k'] == 'array' else None
    doc_path, doc_member = doc_location(case, root)
    tar = case['store'] == 'tar'
    handler = None
    try:
        if tar:
            tp = _tar_path(case, root)
            os.makedirs(os.path.dirname(tp), exist_ok=True)
            handler = TarHandler(tp, 'a')
        loc = _locate(case, root, handler)
        if case['k'] == 'array':
            before = _snapshot(arr)
            try:
                try:
                    _write(case, loc, arr)
                finally:
                    obs['input_kept'] = (_snapshot(arr) == before)
                obs['write'] = 'ok'
            except AssertionError:
                obs['write'] = 'refused'
            except IndexError:
                obs['write'] = 'indexerr'
            except Exception as e:
                obs['write'] = f'other: {type(e).__name__}: {e}'[:200]
        else:                           # raw bytes put where the code will look for them
            data = bytes.fromhex(case['hex'])
            if tar:
                info = tarfile.TarInfo(loc[0])
                info.size = len(data)
                handler.fid.addfile(info, io.BytesIO(data))
            else:
                os.makedirs(os.path.dirname(loc), exist_ok=True)
                with open(loc, 'wb') as f:
                    f.write(data)
            obs['write'] = 'ok'
    finally:
        if handler is not None:
            handler.close()
    obs['loc'] = loc if isinstance(loc, str) else loc[0]
    if obs['write'] != 'ok':
        return obs
    # the bytes at the documented location, read with the standard library
    if tar:
        data, names = _tar_bytes(doc_path, doc_member)
        obs['members'] = names[:5]
        if data is None:            # not where the documentation says: take what the code wrote, wherever it is
            data2, _ = _tar_bytes(_tar_path(case, root), obs['loc'])
            obs['hex'] = None if data2 is None else data2.hex()
        else:
            obs['found'], obs['hex'] = True, data.hex()
    else:
        if os.path.isfile(doc_path):
            with open(doc_path, 'rb') as f:
                obs['found'], obs['hex'] = True, f.read().hex()
        elif os.path.isfile(obs['loc']):
            with open(obs['loc'], 'rb') as f:
                obs['hex'] = f.read().hex()
    # read back through the matching reader, and list the image ids / pairs stored
    handler = None
    try:
        if tar:
            handler = TarHandler(_tar_path(case, root), 'r')
            loc = (loc[0], handler)
        obs['read'] = _read_obs(lambda: _read(case, loc))
        obs['listing'] = _listing(case['api'], case['ftype'], root, handler)
    finally:
        if handler is not None:
            handler.close()
    return obs


def _snapshot(arr):
    """what the caller holds: dtype (with byte order), shape, strides-independent content, writeable flag."""
    import numpy as np
    return (arr.dtype.str, tuple(arr.shape), np.ascontiguousarray(arr).tobytes(), bool(arr.flags.writeable))


def _listing(api, ftype, root, handler):
    """image ids (or pairs) the code lists for this feature type; None for front ends without listing."""
    import kapture.io.features as kf
    if api not in KIND:
        return None
    try:
        if api == 'matches':
            it = kf.matching_pairs_from_tar(handler) if handler is not None else kf.matching_pairs_from_dirpath(ftype, root)
            return sorted([list(p) for p in it])
        kt = _front(api)[0]
        it = kf.image_ids_from_feature_tar(kt, handler) if handler is not None \
            else kf.image_ids_from_feature_dirpath(kt, ftype, root)
        return sorted(it)
    except Exception as e:
        return {'err': f'{type(e).__name__}: {e}'[:160]}


def _doc_bytes(case, root):
    """(found, bytes) at the documented location, read with the standard library."""
    doc_path, doc_member = doc_location(case, root)
    if case['store'] == 'tar':
        data, _ = _tar_bytes(doc_path, doc_member)
        return data is not None, data
    if os.path.isfile(doc_path):
        with open(doc_path, 'rb') as f:
            return True, f.read()
    return False, None


def _run_seq(case, root):
    from kapture.io.tar import TarHandler
    arr = build_array(case)
    if not case['writeable']:
        arr.flags.writeable = False
    before = _snapshot(arr)
    obs = {'writes': [], 'kept': []}
    for st in case['steps']:
        c = dict(case, api=st['api'], store=st['store'], name=st['name'], name2=st['name2'])
        o = {'write': None, 'found': False, 'hex': None}
        handler = None
        try:
            if st['store'] == 'tar':
                tp = _tar_path(c, root)
                os.makedirs(os.path.dirname(tp), exist_ok=True)
                handler = TarHandler(tp, 'a')
            loc = _locate(c, root, handler)
            given = arr[...] if st['alias'] else arr      # a view shares the caller's buffer
            try:
                _write(c, loc, given)
                o['write'] = 'ok'
            except AssertionError:
                o['write'] = 'refused'
            except IndexError:
                o['write'] = 'indexerr'
            except Exception as e:
                o['write'] = f'other: {type(e).__name__}: {e}'[:200]
        finally:
            if handler is not None:
                handler.close()
        if o['write'] == 'ok':
            found, data = _doc_bytes(c, root)
            o['found'], o['hex'] = found, (None if data is None else data.hex())
        obs['writes'].append(o)
        obs['kept'].append(_snapshot(arr) == before)
    obs['after_bits'] = _bits_of(arr)
    obs['dtype_kept'] = (arr.dtype.str == before[0] and tuple(arr.shape) == before[1])
    return obs


def _run_two(case, root):
    import numpy as np
    from kapture.io.tar import TarHandler
    api = case['api']
    _, get, write, read = _front(api)
    obs = {'writes': []}
    handler = None
    tp = _tar_path(dict(case, api=api), root)
    try:
        if case['store'] == 'tar':
            os.makedirs(os.path.dirname(tp), exist_ok=True)
            handler = TarHandler(tp, 'a')
        for n, a in ((case['n1'], case['a1']), (case['n2'], case['a2'])):
            arr = build_array(dict(a, big=False, layout='C'))
            try:
                write(get(case['ftype'], root, n, handler), arr)
                obs['writes'].append('ok')
            except Exception as e:
                obs['writes'].append(f'other: {type(e).__name__}: {e}'[:160])
    finally:
        if handler is not None:
            handler.close()
    handler = None
    try:
        if case['store'] == 'tar':
            handler = TarHandler(tp, 'r')
        a1 = case['a1']
        obs['read1'] = _read_obs(lambda: read(get(case['ftype'], root, case['n1'], handler),
                                              getattr(np, a1['dtype']), a1['shape'][1]))
        obs['listing'] = _listing(api, case['ftype'], root, handler)
    finally:
        if handler is not None:
            handler.close()
    d, ext = DOC[api]
    base = os.path.join(root, d, case['ftype'])
    if case['store'] == 'tar':
        with tarfile.open(os.path.join(base, DOC_TAR[api]), 'r') as t:
            names = set(t.getnames())
        obs['at_doc'] = [(n + ext) in names for n in (case['n1'], case['n2'])]
    else:
        obs['at_doc'] = [os.path.isfile(os.path.join(base, n + ext)) for n in (case['n1'], case['n2'])]
    return obs


def _run_rewrite(case, root):
    from kapture.io.tar import TarHandler
    tar = case['store'] == 'tar'
    obs = {'steps': []}

    def write_one(c, arr):
        handler = None
        try:
            if tar:
                tp = _tar_path(c, root)
                os.makedirs(os.path.dirname(tp), exist_ok=True)
                handler = TarHandler(tp, 'a')
            loc = _locate(c, root, handler)
            try:
                _write(c, loc, arr)
                return 'ok', loc
            except AssertionError:
                return 'refused', loc
            except IndexError:
                return 'indexerr', loc
            except Exception as e:
                return f'other: {type(e).__name__}: {e}'[:200], loc
        finally:
            if handler is not None:
                handler.close()
    first = case['arrays'][0]
    by_case = dict(case, name=case['other'], **{k: first[k] for k in ('dtype', 'shape', 'bits', 'big', 'layout')})
    obs['bystander_write'], _ = write_one(by_case, build_array(by_case))
    for a in case['arrays']:
        c = dict(case, **a)
        c['rd_dtype'], c['rd_dsize'], c['rd_size'] = a['dtype'], a['shape'][1], [a['shape'][1], a['shape'][0]]
        o = {'found': False, 'hex': None, 'read': None}
        o['write'], loc = write_one(c, build_array(c))
        if o['write'] == 'ok':
            found, data = _doc_bytes(c, root)
            o['found'], o['hex'] = found, (None if data is None else data.hex())
            handler = None
            try:
                if tar:
                    handler = TarHandler(_tar_path(c, root), 'r')
                    loc = (loc[0], handler)
                o['read'] = _read_obs(lambda: _read(c, loc))
            finally:
                if handler is not None:
                    handler.close()
        obs['steps'].append(o)
    found, data = _doc_bytes(by_case, root)
    obs['bystander_hex'] = None if data is None else data.hex()
    return obs


def _hist_key(api, ftype, member):
    return f'{KIND[api]}|{ftype}|{member}'


def _hist_doc(st, store):
    """the documented destination of a step, stated independently of the code: its key in the tree listing and the
    location the getter must return (path below the root written 'R/...', or tar member name)."""
    d, ext = DOC[st['api']]
    rel = st['name'] + ext if st['api'] != 'matches' else st['name'] + '.overlapping/' + st['name2'] + ext
    if store == 'tar':
        return _hist_key(st['api'], st['ftype'], rel), rel
    p = f'R/{d}/{st["ftype"]}/{rel}'
    return p, p


def _hist_dest(st):
    return (st['api'], st['ftype'], st['name'], st['name2'] if st['api'] == 'matches' else None)


def _run_hist(case, root):
    import numpy as np
    from kapture.io.tar import TarHandler
    tar = case['store'] == 'tar'
    obs = {'steps': [], 'reads': [], 'tree': [], 'listings': {}}

    def rel(p):
        return 'R' + p[len(root):] if isinstance(p, str) and p.startswith(root + '/') else p

    def with_handler(st, mode, fn):
        handler = None
        try:
            if tar:
                tp = _tar_path(st, root)
                if mode == 'a':
                    os.makedirs(os.path.dirname(tp), exist_ok=True)
                elif not os.path.exists(tp):
                    return {'err': 'other', 'msg': 'no tar archive'}
                handler = TarHandler(tp, mode)
            return fn(handler)
        finally:
            if handler is not None:
                handler.close()
    for st in case['steps']:
        o = {'path': None, 'write': None}

        def do(handler, st=st, o=o):
            try:
                loc = _locate(st, root, handler)
            except Exception as e:
                o['path'] = f'<{type(e).__name__}>'
                o['write'] = 'other: locate failed'
                return
            o['path'] = rel(loc) if isinstance(loc, str) else loc[0]
            if st['op'] != 'write':
                return
            try:
                _write(st, loc, build_array(st['arr']))
                o['write'] = 'ok'
            except AssertionError:
                o['write'] = 'refused'
            except IndexError:
                o['write'] = 'indexerr'
            except Exception as e:
                o['write'] = f'other: {type(e).__name__}: {e}'[:200]
        if tar and st['op'] != 'write' and not os.path.exists(_tar_path(st, root)):
            os.makedirs(os.path.dirname(_tar_path(st, root)), exist_ok=True)
        with_handler(st, 'a', do)
        obs['steps'].append(o)
    # the whole tree, read with the standard library only
    tars = {}
    for st in case['steps']:
        d, _ = DOC[st['api']]
        tars[os.path.join(root, d, st['ftype'], DOC_TAR[st['api']])] = (st['api'], st['ftype'])
    tree = {}
    for dp, _, fns in os.walk(root):
        for fn in fns:
            p = os.path.join(dp, fn)
            if tar and p in tars:
                with tarfile.open(p, 'r') as t:
                    for m in t.getmembers():            # a later member of the same name replaces the earlier one
                        tree[_hist_key(*tars[p], m.name)] = t.extractfile(m).read().hex()
            else:
                with open(p, 'rb') as f:
                    tree[rel(p)] = f.read().hex()
    obs['tree'] = sorted([k, v] for k, v in tree.items())
    # at the end: every destination read back through the real getter + reader (given what was last written there)
    last = {}
    for i, st in enumerate(case['steps']):
        if st['op'] == 'write' and obs['steps'][i]['write'] == 'ok':
            last[_hist_dest(st)] = i
    for i, st in enumerate(case['steps']):
        if last.get(_hist_dest(st)) != i:
            obs['reads'].append(None)
            continue
        c = dict(st, rd_dtype=st['arr']['dtype'], rd_dsize=st['arr']['shape'][1])
        obs['reads'].append(with_handler(st, 'r', lambda h, c=c: _read_obs(lambda: _read(c, _locate(c, root, h)))))
    for st in case['steps']:
        key = f'{st["api"]}|{st["ftype"]}'
        if key not in obs['listings']:
            if tar and not os.path.exists(_tar_path(st, root)):
                obs['listings'][key] = []
            else:
                obs['listings'][key] = with_handler(st, 'r', lambda h, st=st: _listing(st['api'], st['ftype'], root, h))
    return obs


def _run_path(case, root):
    import numpy as np
    import kapture
    import kapture.io.features as kf
    import kapture.io.records as kr
    from kapture.io.tar import TarHandler
    obs = {}
    tiny = np.array([[7]], dtype=np.uint8)

    def tar_name(get, write):
        tp = os.path.join(root, 't.tar')
        try:
            with TarHandler(tp, 'a') as h:
                write(get(h), tiny)
            with tarfile.open(tp, 'r') as t:
                return t.getnames()[-1]
        except Exception as e:
            return {'err': f'{type(e).__name__}: {e}'[:160]}
    if case['k'] == 'fpath':
        api = {v: k for k, v in KIND.items()}[case['kind']]
        _, get, write, _ = _front(api)
        obs['path'] = get(case['ftype'], case['root'], case['name'])
        obs['tar'] = tar_name(lambda h: get(case['ftype'], case['root'], case['name'], h), write) if case['name'] else None
    elif case['k'] == 'mpath':
        pair = (case['a'], case['b'])
        obs['path'] = kf.get_matches_fullpath(pair, case['ftype'], case['root'])
        m64 = np.zeros((1, 3), dtype=np.float64)
        obs['tar'] = tar_name(lambda h: kf.get_matches_fullpath(pair, case['ftype'], case['root'], h),
                              lambda loc, _: kf.image_matches_to_file(loc, m64))
        obs['order'] = list(kapture.Matches.lexical_order(*pair))
    else:
        obs['path'] = kr.get_depth_map_fullpath(case['root'], case['name'])
    return obs


def run_impl(case, ctx):
    import logging
    logging.getLogger('kapture').setLevel(logging.ERROR)     # depth_map_to_file warns when it converts
    root = os.path.join(ctx['tmp'], 'c')
    shutil.rmtree(root, ignore_errors=True)
    os.makedirs(root)
    try:
        if case['k'] in ('array', 'bytes'):
            c = dict(case)
            if case['k'] == 'bytes':
                c.setdefault('name', 'blob/x.jpg')
                c.setdefault('name2', 'y.jpg')
                c.setdefault('ftype', 'SIFT')
                if c['api'] == 'depth':
                    c['name'] = 'blob/x.depth'
            obs = _run_array(c, root)
            if isinstance(obs.get('loc'), str) and obs['loc'].startswith(root):
                obs['loc'] = '<root>' + obs['loc'][len(root):]
            return obs
        if case['k'] == 'seq':
            return _run_seq(case, root)
        if case['k'] == 'two':
            return _run_two(case, root)
        if case['k'] == 'rewrite':
            return _run_rewrite(case, root)
        if case['k'] == 'hist':
            return _run_hist(case, root)
        return _run_path(case, root)
    finally:
        shutil.rmtree(root, ignore_errors=True)


# ---------------------------------------------------------------- the property, stated on the observations
def expected_elems(case):
    """(element type name, bit patterns) the file must hold."""
    if case['api'] == 'depth' and case['dtype'] != 'float32':
        return 'float32', [f32_bits(value_of(case['dtype'], b)) for b in case['bits']]
    return case['dtype'], list(case['bits'])


def oracle(case, obs):
    k = case['k']
    if k == 'array':
        dt, bits = expected_elems(case)
        w = ISZ[dt]
        shape = case['shape']
        valid_matches = (case['dtype'] == 'float64' and not case['big'] and len(shape) >= 2 and shape[1] == 3)
        if obs['write'] != 'ok':
            if case['api'] == 'matches' and not valid_matches and obs['write'] in ('refused', 'indexerr'):
                return None
            return f'{case["api"]} writer failed on a supported array: {obs["write"]}'
        if case['api'] == 'matches' and not valid_matches:
            return None                 # written although not float64 x 3: nothing to demand
        if obs.get('input_kept') is False:
            return f'{case["api"]}/{case["store"]}: the writer modified the array it was given'
        if not obs['found']:
            return f'{case["api"]}/{case["store"]}: no file at the documented location for the image name(s)'
        if case['api'] in KIND:
            want_ids = [[case['name'], case['name2']]] if case['api'] == 'matches' else [case['name']]
            if obs.get('listing') != want_ids:
                return f'{case["api"]}/{case["store"]}: the ids listed from the store are not the image name(s) written'
        want = b''.join(b.to_bytes(w, 'little') for b in bits)
        got = bytes.fromhex(obs['hex'])
        if got != want:
            if len(got) != len(want):
                return (f'{case["api"]}/{case["store"]}: file size {len(got)} is not rows x columns x item size = {len(want)}')
            if got == b''.join(b.to_bytes(w, 'big') for b in bits):
                return f'{case["api"]}/{case["store"]}: big-endian in-memory array is dumped big-endian (format is little-endian)'
            return f'{case["api"]}/{case["store"]}: file is not the row-major little-endian dump of the array'
        same_reader = (case['api'] in ('matches',) or
                       (case['api'] == 'depth' and len(shape) == 2 and case['rd_size'] == [shape[1], shape[0]]
                        and shape[0] > 0 and shape[1] > 0) or
                       (case['api'] not in ('matches', 'depth') and case['rd_dtype'] == dt and len(shape) == 2
                        and case['rd_dsize'] == shape[1]))
        if same_reader and len(shape) == 2:
            r = obs['read']
            if 'err' in r:
                return f'{case["api"]}/{case["store"]}: reading back failed: {r["err"]}'
            if r['dtype'] != dt or r['byteorder'] not in ('=', '<', '|'):
                return f'{case["api"]}/{case["store"]}: element type read back is {r["byteorder"]}{r["dtype"]}, written {dt}'
            if r['shape'] != shape:
                return f'{case["api"]}/{case["store"]}: shape read back {r["shape"]} differs from {shape}'
            if r['bits'] != bits:
                return f'{case["api"]}/{case["store"]}: element bits read back differ from those written'
        return None
    if k == 'seq':
        for i, (st, o, kept) in enumerate(zip(case['steps'], obs['writes'], obs['kept'])):
            c = dict(case, api=st['api'], store=st['store'])
            dt, bits = expected_elems(c)
            w = ISZ[dt]
            valid_matches = (case['dtype'] == 'float64' and not case['big'] and case['shape'][1] == 3)
            tag = f'write #{i + 1} of the same array ({st["api"]}/{st["store"]})'
            if o['write'] != 'ok':
                if st['api'] == 'matches' and not valid_matches and o['write'] in ('refused', 'indexerr'):
                    continue
                return f'{tag}: writer failed: {o["write"]}'
            if not kept:
                return f'{tag}: the writer modified the array it was given'
            if st['api'] == 'matches' and not valid_matches:
                continue
            if not o['found']:
                return f'{tag}: no file at the documented location'
            if bytes.fromhex(o['hex']) != b''.join(b.to_bytes(w, 'little') for b in bits):
                return f'{tag}: file is not the row-major little-endian dump of the array'
        if obs['after_bits'] != case['bits'] or not obs['dtype_kept']:
            return 'the array given to the writers is not the same afterwards'
        return None
    if k == 'two':
        if any(wr != 'ok' for wr in obs['writes']):
            return f'{case["api"]}/{case["store"]}: writer failed: {obs["writes"]}'
        if not all(obs['at_doc']):
            return f'{case["api"]}/{case["store"]}: no file at the documented location for the image name'
        if case['n1'] != case['n2']:
            a1, r = case['a1'], obs['read1']
            if 'err' in r or r['dtype'] != a1['dtype'] or r['shape'] != a1['shape'] or r['bits'] != a1['bits']:
                return (f'{case["api"]}/{case["store"]}: the file of the first image was replaced when a second, '
                        f'differently named image was written')
        if obs['listing'] != sorted({case['n1'], case['n2']}):
            return f'{case["api"]}/{case["store"]}: the ids listed from the store are not the image names written'
        return None
    if k == 'rewrite':
        api = case['api']
        for i, (a, o) in enumerate(zip(case['arrays'], obs['steps'])):
            tag = f'{api}/{case["store"]}: write #{i + 1} to the same destination'
            c = dict(case, **a)
            dt, bits = expected_elems(c)
            w = ISZ[dt]
            if o['write'] != 'ok':
                return f'{tag}: writer failed on a supported array: {o["write"]}'
            if not o['found']:
                return f'{tag}: no file at the documented location'
            want = b''.join(b.to_bytes(w, 'little') for b in bits)
            got = bytes.fromhex(o['hex'])
            if len(got) != len(want):
                return (f'{tag}: file size {len(got)} is not rows x columns x item size = {len(want)} '
                        f'(content left from the previous write?)')
            if got != want:
                return f'{tag}: file is not the row-major little-endian dump of the array just written'
            if api != 'depth' or (a['shape'][0] > 0 and a['shape'][1] > 0):
                r = o['read']
                if 'err' in r:
                    return f'{tag}: reading back failed: {r["err"]}'
                if r['dtype'] != dt or r['shape'] != a['shape'] or r['bits'] != bits:
                    return f'{tag}: the array read back is not the array just written'
        first = dict(case, **case['arrays'][0])
        dt, bits = expected_elems(first)
        if obs['bystander_hex'] is None or bytes.fromhex(obs['bystander_hex']) != b''.join(b.to_bytes(ISZ[dt], 'little') for b in bits):
            return f'{api}/{case["store"]}: the file of another image changed while this one was rewritten'
        return None
    if k == 'hist':
        store = case['store']
        want, who, paths = {}, {}, {}
        for i, (st, o) in enumerate(zip(case['steps'], obs['steps'])):
            key, loc = _hist_doc(st, store)
            tag = f'history/{store}: {st["op"]} {st["api"]}'
            if o['path'] != loc:
                return (f'history/{store}: the location returned for {st["api"]} is not the documented path of the image '
                        f'name(s) (a history of {st["api"]} writes; the location must not depend on what the store holds)')
            if st['op'] != 'write':
                continue
            if o['write'] != 'ok':
                return f'{tag}: writer failed on a supported array: {o["write"]}'
            dt, bits = st['arr']['dtype'], st['arr']['bits']
            want[key] = b''.join(b.to_bytes(ISZ[dt], 'little') for b in bits)
            who[key] = (i, st)
        ks = sorted(want)
        for x, y in zip(ks, ks[1:]):
            if y.startswith(x + '/'):
                return None             # a file name that is also a directory of another image: not a legal history
        tree = {k2: v for k2, v in obs['tree']}
        for key in ks:
            i, st = who[key]
            if key not in tree:
                return f'history/{store}: no file at the documented location of a {st["api"]} array written earlier in the history'
        for key in ks:
            i, st = who[key]
            got = bytes.fromhex(tree[key])
            if got != want[key]:
                if len(got) != len(want[key]):
                    return (f'history/{store}: a {st["api"]} file no longer has the size of the last array written to it '
                            f'(replaced by the write of another image / pair?)')
                return f'history/{store}: a {st["api"]} file is not the dump of the last array written to it'
        if set(tree) != set(want):
            return f'history/{store}: the tree holds files that no write of the history should have created'
        for i, (st, r) in enumerate(zip(case['steps'], obs['reads'])):
            key, _ = _hist_doc(st, store)
            if st['op'] != 'write' or who.get(key, (None,))[0] != i:
                continue
            a = st['arr']
            if r is None or 'err' in r:
                return f'history/{store}: reading a {st["api"]} array back at the end failed'
            if r['dtype'] != a['dtype'] or r['shape'] != a['shape'] or r['bits'] != a['bits']:
                return f'history/{store}: the {st["api"]} array read back at the end is not the last one written for these image name(s)'
        for lk, listing in obs['listings'].items():
            api, ftype = lk.split('|', 1)
            names = set()
            for key, (i, st) in who.items():
                if st['api'] == api and st['ftype'] == ftype:
                    names.add((st['name'], st['name2']) if api == 'matches' else st['name'])
            if not names:
                continue
            exp = sorted([list(n) for n in names]) if api == 'matches' else sorted(names)
            if listing != exp:
                return f'history/{store}: the {api} ids listed from the store are not the image name(s) written'
        return None
    if k == 'bytes':
        # a conformant file (whole rows) must read as the array it denotes
        api = case['api']
        if api == 'depth':
            return None
        dt = 'float64' if api == 'matches' else case['rd_dtype']
        cols = 3 if api == 'matches' else case['rd_dsize']
        data = bytes.fromhex(case['hex'])
        w = ISZ[dt]
        if len(data) % (w * cols) == 0:
            r = obs['read']
            if 'err' in r:
                return f'{api}/{case["store"]}: conformant file refused: {r["err"]}'
            bits = [int.from_bytes(data[i:i + w], 'little') for i in range(0, len(data), w)]
            if r['dtype'] != dt or r['shape'] != [len(bits) // cols, cols] or r['bits'] != bits:
                return f'{api}/{case["store"]}: conformant file read as a different array'
        return None
    if k == 'fpath':
        api = {v: kk for kk, v in KIND.items()}[case['kind']]
        if normalised(case['name']) and normalised(case['ftype']) and _good_root(case['root']):
            d, ext = DOC[api]
            want = f'{case["root"]}/{d}/{case["ftype"]}/{case["name"]}{ext}'
            if obs['path'] != want:
                return f'{case["kind"]} path is not <root>/{d}/<type>/<image>{ext}'
            if obs['tar'] != case['name'] + ext:
                return f'{case["kind"]} tar member is not <image>{ext}'
        return None
    if k == 'mpath':
        if normalised(case['a']) and normalised(case['b']) and normalised(case['ftype']) and _good_root(case['root']):
            rel = f'{case["a"]}.overlapping/{case["b"]}.matches'
            if obs['path'] != f'{case["root"]}/reconstruction/matches/{case["ftype"]}/{rel}':
                return 'matches path is not <root>/reconstruction/matches/<type>/<a>.overlapping/<b>.matches'
            if obs['tar'] != rel:
                return 'matches tar member is not <a>.overlapping/<b>.matches'
        if obs['order'] != sorted([case['a'], case['b']]):
            return 'lexical_order does not return the pair in lexicographic order'
        return None
    if k == 'rpath':
        if normalised(case['name']) and _good_root(case['root']):
            if obs['path'] != f'{case["root"]}/sensors/records_data/{case["name"]}':
                return 'depth map path is not <root>/sensors/records_data/<name>'
        return None
    return 'unknown case kind'


def _good_root(root):
    return normalised(root[1:] if root.startswith('/') and not root.startswith('//') else root)


# ---------------------------------------------------------------- Coq encoding
def _cn_list(xs):
    return kv.clist(kv.cn(x) for x in xs)


def _robs(r):
    if r is None:
        return 'ONone'
    if 'err' in r:
        return {'TypeError': 'OErrType', 'ValueError': 'OErrValue'}.get(r['err'], 'OOther')
    name = r['dtype'] if r['byteorder'] in ('=', '<', '|') else r['byteorder'] + r['dtype']
    return f'(OArr {kv.cstr(name)} {_cn_list(r["shape"])} {_cn_list(r["bits"])})'


_API = {'keypoints': 'AKeypoints', 'descriptors': 'ADescriptors', 'global_features': 'AGlobalFeatures',
        'matches': 'AMatches', 'depth': 'ADepth', 'raw': 'ARaw'}
_LAY = {'C': 'LContig', 'F': 'LFortran', 'strided': 'LStrided', 'reversed': 'LReversed'}


def encode(case, obs):
    k = case['k']
    if k in ('array', 'bytes'):
        st = 'SFile' if case['store'] == 'file' else 'STar'
        rd = (f'{CQ_DT[case["rd_dtype"]]} {kv.cz(case["rd_dsize"])} {kv.cz(case["rd_size"][0])} {kv.cz(case["rd_size"][1])}')
        if k == 'bytes':
            return (f'(CBytes {_API[case["api"]]} {st} {_cn_list(bytes.fromhex(case["hex"]))} {rd} {_robs(obs["read"])})')
        m = ('{| m_dtype := %s; m_shape := %s; m_elems := %s; m_big := %s; m_layout := %s |}' % (
            CQ_DT[case['dtype']], _cn_list(case['shape']), _cn_list(case['bits']), kv.cbool(case['big']),
            _LAY[case['layout']]))
        tbl = '[]'
        if case['api'] == 'depth' and case['dtype'] != 'float32':
            seen = {}
            for b in case['bits']:
                seen[b] = f32_bits(value_of(case['dtype'], b))
            tbl = kv.clist(kv.cpair(kv.cn(a), kv.cn(b)) for a, b in sorted(seen.items()))
        ow = {'ok': 'WOk', 'refused': 'WRefused', 'indexerr': 'WIndexErr'}.get(obs['write'], 'WOther')
        ob = _cn_list(bytes.fromhex(obs['hex'])) if obs.get('hex') is not None else '[999%N]'
        return f'(CArray {_API[case["api"]]} {st} {m} {tbl} {rd} {ow} {ob} {_robs(obs.get("read"))})'
    if k == 'seq':
        m = ('{| m_dtype := %s; m_shape := %s; m_elems := %s; m_big := %s; m_layout := %s |}' % (
            CQ_DT[case['dtype']], _cn_list(case['shape']), _cn_list(case['bits']), kv.cbool(case['big']),
            _LAY[case['layout']]))
        ws = []
        for o in obs['writes']:
            ow = {'ok': 'WOk', 'refused': 'WRefused', 'indexerr': 'WIndexErr'}.get(o['write'], 'WOther')
            ob = _cn_list(bytes.fromhex(o['hex'])) if o.get('hex') is not None else ('[999%N]' if ow == 'WOk' else '[]')
            ws.append(kv.cpair(ow, ob))
        return (f'(CSeq {m} [] {kv.clist(_API[st["api"]] for st in case["steps"])} {kv.clist(ws)} '
                f'{_cn_list(obs["after_bits"])} {kv.cbool(obs["dtype_kept"])})')
    if k == 'rewrite':
        def mem2(a):
            return ('{| m_dtype := %s; m_shape := %s; m_elems := %s; m_big := %s; m_layout := %s |}' % (
                CQ_DT[a['dtype']], _cn_list(a['shape']), _cn_list(a['bits']), kv.cbool(a['big']), _LAY[a['layout']]))
        steps = []
        for a, o in zip(case['arrays'], obs['steps']):
            ow = {'ok': 'WOk', 'refused': 'WRefused', 'indexerr': 'WIndexErr'}.get(o['write'], 'WOther')
            ob = _cn_list(bytes.fromhex(o['hex'])) if o.get('hex') is not None else '[999%N]'
            steps.append(kv.cpair(mem2(a), ow, ob, _robs(o.get('read'))))
        first = dict(case, **case['arrays'][0])
        dt, bits = expected_elems(first)
        by = b''.join(b.to_bytes(ISZ[dt], 'little') for b in bits)
        oby = _cn_list(bytes.fromhex(obs['bystander_hex'])) if obs.get('bystander_hex') is not None else '[999%N]'
        return (f'(CRewrite {_API[case["api"]]} {"SFile" if case["store"] == "file" else "STar"} {_cn_list(by)} '
                f'{kv.clist(steps)} {oby})')
    if k == 'hist':
        def mem3(a):
            return ('{| m_dtype := %s; m_shape := %s; m_elems := %s; m_big := %s; m_layout := %s |}' % (
                CQ_DT[a['dtype']], _cn_list(a['shape']), _cn_list(a['bits']), kv.cbool(a['big']), _LAY[a['layout']]))
        steps = []
        for st, o, r in zip(case['steps'], obs['steps'], obs['reads']):
            hs = ('{| h_write := %s; h_api := %s; h_ftype := %s; h_a := %s; h_b := %s; h_mem := %s |}' % (
                kv.cbool(st['op'] == 'write'), _API[st['api']], kv.cstr(st['ftype']), kv.cstr(st['name']),
                kv.cstr(st['name2']), mem3(st['arr'])))
            ow = {None: 'WOk', 'ok': 'WOk', 'refused': 'WRefused', 'indexerr': 'WIndexErr'}.get(o['write'], 'WOther')
            steps.append(kv.cpair(hs, kv.cstr(str(o['path'])), ow, _robs(r)))
        tree = kv.clist(kv.cpair(kv.cstr(k2), _cn_list(bytes.fromhex(v))) for k2, v in obs['tree'])
        return f'(CHist {"SFile" if case["store"] == "file" else "STar"} {kv.clist(steps)} {tree})'
    if k == 'two':
        def mem(a):
            return ('{| m_dtype := %s; m_shape := %s; m_elems := %s; m_big := false; m_layout := LContig |}' % (
                CQ_DT[a['dtype']], _cn_list(a['shape']), _cn_list(a['bits'])))
        ids = obs['listing'] if isinstance(obs['listing'], list) else ['<error>']
        return (f'(CTwo {kv.cstr(KIND[case["api"]])} {"SFile" if case["store"] == "file" else "STar"} '
                f'{kv.cstr(case["n1"])} {kv.cstr(case["n2"])} {mem(case["a1"])} {mem(case["a2"])} '
                f'{_robs(obs.get("read1"))} {kv.clist(kv.cstr(x) for x in ids)})')
    if k == 'fpath':
        t = obs['tar']
        ot = 'None' if t is None else kv.copt(kv.cstr(t if isinstance(t, str) else '<error>'))
        return (f'(CFeatPath {kv.cstr(case["kind"])} {kv.cstr(case["root"])} {kv.cstr(case["ftype"])} '
                f'{kv.cstr(case["name"])} {kv.cstr(obs["path"])} {ot})')
    if k == 'mpath':
        t = obs['tar']
        ot = kv.copt(kv.cstr(t if isinstance(t, str) else '<error>'))
        return (f'(CMatchPath {kv.cstr(case["root"])} {kv.cstr(case["ftype"])} {kv.cstr(case["a"])} {kv.cstr(case["b"])} '
                f'{kv.cstr(obs["path"])} {ot} {kv.cpair(kv.cstr(obs["order"][0]), kv.cstr(obs["order"][1]))})')
    return f'(CRecPath {kv.cstr(case["root"])} {kv.cstr(case["name"])} {kv.cstr(obs["path"])})'


# ---------------------------------------------------------------- evidence helpers
def nontrivial(case, obs):
    if case['k'] == 'array':
        return obs['write'] == 'ok' and (len(case['bits']) > 0 or (obs.get('read') or {}).get('shape') == case['shape'])
    if case['k'] == 'bytes':
        return len(case['hex']) > 0
    if case['k'] == 'seq':
        return len(case['bits']) > 0
    if case['k'] == 'two':
        return case['n1'] != case['n2']
    if case['k'] == 'rewrite':
        return len(case['arrays']) >= 2
    if case['k'] == 'hist':
        return sum(1 for st in case['steps'] if st['op'] == 'write') >= 2
    name = case.get('name', case.get('a', ''))
    return '/' in name or any(ord(ch) > 127 for ch in name)


def classify(case, obs):
    k = case['k']
    if k == 'array':
        rows = case['shape'][0] if case['shape'] else 0
        rk = '0' if rows == 0 else ('1' if rows == 1 else 'n')
        rd = 'same' if (case['rd_dtype'] == case['dtype'] and (len(case['shape']) < 2 or case['rd_dsize'] == case['shape'][-1])) else 'other'
        r = obs.get('read') or {}
        kind = 'float' if case['dtype'].startswith('float') else ('int' if case['dtype'].startswith('int') else 'uint')
        return (f'array/{case["api"]}/{case["store"]}/{kind}{8 * ISZ[case["dtype"]]}/rows={rk}/dim={len(case["shape"])}/'
                f'{"BE" if case["big"] else "LE"}/reader={rd}/write={str(obs["write"])[:8]}/'
                f'read={"err:" + r["err"] if "err" in r else ("ok" if r else "-")}')
    if k == 'seq':
        return (f'seq/{len(case["steps"])}writes/{"BE" if case["big"] else "LE"}/'
                f'{"writeable" if case["writeable"] else "readonly"}/stores={"+".join(sorted({s["store"] for s in case["steps"]}))}')
    if k == 'rewrite':
        sizes = [a['shape'][0] * a['shape'][1] * ISZ[a['dtype']] for a in case['arrays']]
        shr = any(y < x for x, y in zip(sizes, sizes[1:]))
        zero = any(y == 0 and x > 0 for x, y in zip(sizes, sizes[1:]))
        return f'rewrite/{case["api"]}/{case["store"]}/{"shrinks" if shr else "grows"}{"+to-empty" if zero else ""}'
    if k == 'hist':
        pairs = [(st['name'], st['name2']) for st in case['steps'] if st['api'] == 'matches']
        both = any((y, x) in pairs and x != y for x, y in pairs)
        dests = [_hist_dest(st) for st in case['steps'] if st['op'] == 'write']
        return (f'hist/{case["store"]}/{"both-orientations" if both else "one-orientation"}/'
                f'{"rewrites" if len(set(dests)) < len(dests) else "fresh"}/'
                f'{"with-queries" if any(st["op"] != "write" for st in case["steps"]) else "writes-only"}')
    if k == 'two':
        import unicodedata
        twin = unicodedata.normalize('NFC', case['n1']) == unicodedata.normalize('NFC', case['n2'])
        return (f'two/{case["api"]}/{case["store"]}/'
                f'{"same" if case["n1"] == case["n2"] else ("nfc-twins" if twin else "distinct")}')
    if k == 'bytes':
        r = obs.get('read') or {}
        return f'bytes/{case["api"]}/{case["store"]}/read={"err:" + r["err"] if "err" in r else "ok"}'
    name = case.get('name', case.get('a', ''))
    import unicodedata
    if unicodedata.normalize('NFC', name + case.get('b', '')) != name + case.get('b', ''):
        return f'{k}/{"normalised" if normalised(name) else "odd"}/non-NFC'
    ok = normalised(name) and (k != 'mpath' or normalised(case['b']))
    return f'{k}/{"normalised" if ok else "odd"}/{"unicode" if any(ord(c) > 127 for c in name) else "ascii"}'


def describe(case, obs):
    c = dict(case)
    if 'bits' in c and len(c['bits']) > 12:
        c['bits'] = c['bits'][:12] + ['...']
    o = dict(obs)
    if o.get('hex') and len(o['hex']) > 96:
        o['hex'] = o['hex'][:96] + '...'
    if isinstance(o.get('read'), dict) and len(o['read'].get('bits', [])) > 12:
        o['read'] = dict(o['read'], bits=o['read']['bits'][:12] + ['...'])
    return {'case': c, 'observed': o}


def shrink(case):
    if case['k'] == 'seq':
        if len(case['steps']) > 2:
            for i in range(len(case['steps'])):
                yield dict(case, steps=case['steps'][:i] + case['steps'][i + 1:])
        r, c = case['shape']
        for (r2, c2) in ((1, c), (r, 1), (1, 1)):
            if (r2, c2) != (r, c) and r2 <= r and c2 <= c and not any(s['api'] == 'matches' for s in case['steps']):
                yield dict(case, shape=[r2, c2], bits=[case['bits'][i * c + j] for i in range(r2) for j in range(c2)])
        for i, st in enumerate(case['steps']):
            for key, val in (('store', 'file'), ('name', 'img.jpg'), ('alias', False)):
                if st[key] != val and not (key == 'store' and st['api'] == 'depth'):
                    steps = list(case['steps'])
                    steps[i] = dict(st, **{key: val})
                    yield dict(case, steps=steps)
        if case['layout'] != 'C':
            yield dict(case, layout='C')
        if case['ftype'] != 'SIFT':
            yield dict(case, ftype='SIFT')
        return
    if case['k'] == 'rewrite':
        arrs = case['arrays']
        if len(arrs) > 2:
            for i in range(len(arrs)):
                yield dict(case, arrays=arrs[:i] + arrs[i + 1:])
        for i, a in enumerate(arrs):
            r, c = a['shape']
            for (r2, c2) in ((r // 2, c), (r, 1), (1, c), (0, c)):
                if (r2, c2) != (r, c) and r2 <= r and c2 <= c and not (case['api'] == 'matches' and c2 != 3):
                    b = [a['bits'][x * c + y] for x in range(r2) for y in range(c2)]
                    yield dict(case, arrays=arrs[:i] + [dict(a, shape=[r2, c2], bits=b)] + arrs[i + 1:])
            if a['big'] or a['layout'] != 'C':
                yield dict(case, arrays=arrs[:i] + [dict(a, big=False, layout='C')] + arrs[i + 1:])
        for key, val in (('ftype', 'SIFT'), ('name', 'img.depth' if case['api'] == 'depth' else 'img.jpg')):
            if case[key] != val and case['other'] != val:
                yield dict(case, **{key: val})
        return
    if case['k'] == 'hist':
        steps = case['steps']
        if len(steps) > 1:
            for i in range(len(steps)):
                yield dict(case, steps=steps[:i] + steps[i + 1:])
        for i, st in enumerate(steps):
            a = st['arr']
            r, c = a['shape']
            for r2 in (0, 1):
                if r2 < r:
                    yield dict(case, steps=steps[:i] + [dict(st, arr=dict(a, shape=[r2, c], bits=a['bits'][:r2 * c]))] + steps[i + 1:])
            if a['big'] or a['layout'] != 'C':
                yield dict(case, steps=steps[:i] + [dict(st, arr=dict(a, big=False, layout='C'))] + steps[i + 1:])
            if st['ftype'] != 'SIFT':
                yield dict(case, steps=[dict(x, ftype='SIFT') for x in steps])
        return
    if case['k'] == 'two':
        for key in ('a1', 'a2'):
            a = case[key]
            if a['shape'] != [1, 1] and a['shape'][0] >= 1:
                yield dict(case, **{key: dict(a, shape=[1, 1], bits=a['bits'][:1])})
        if case['ftype'] != 'SIFT':
            yield dict(case, ftype='SIFT')
        if case['store'] != 'file':
            yield dict(case, store='file')
        return
    if case['k'] != 'array':
        return
    shape = case['shape']
    if len(shape) == 2:
        r, c = shape
        for (r2, c2) in ((1, c), (r, 1), (r // 2, c), (r, c // 2), (1, 1), (r - 1, c), (r, c - 1)):
            if 0 <= r2 <= r and 1 <= c2 <= c and (r2, c2) != (r, c) and not (case['api'] == 'matches' and c2 != 3):
                bits = [case['bits'][i * c + j] for i in range(r2) for j in range(c2)]
                d = dict(case, shape=[r2, c2], bits=bits)
                if case['rd_dsize'] == c:
                    d['rd_dsize'] = c2
                d['rd_size'] = [c2, r2]
                yield d
    for key, val in (('layout', 'C'), ('store', 'file'), ('name', 'img.jpg'), ('name2', 'other.jpg'), ('ftype', 'SIFT')):
        if case[key] != val and not (key == 'store' and case['api'] == 'depth'):
            yield dict(case, **{key: val})
    simple = {'float16': 0x3c00, 'float32': 0x3f800000, 'float64': 0x3ff0000000000000}.get(case['dtype'], 1)
    if any(b != simple for b in case['bits']) and not (case['api'] == 'depth' and case['dtype'] != 'float32'):
        yield dict(case, bits=[simple] * len(case['bits']))


TECHNIQUE = ('Coq proof (N-arithmetic lemmas on little-endian digits for every width, induction over the element list, '
             'component-wise reasoning on POSIX paths) over a Gallina model instantiated with tables regenerated from the '
             'source and the specification; differential correspondence by vm_compute on real files and tar members')
LEVEL_TEXT = ('Theorems in coq/Props/C03.v hold for all 11 element types, all shapes (including zero rows) and both stores: '
              'decode(encode a) = a; the file is exactly rows x columns x itemsize bytes and byte j of element i sits at '
              'offset i*itemsize+j with value (e / 256^j) mod 256 (row-major, little-endian, no header), independent of '
              'the in-memory byte order and layout; little-endian digits are a bijection for every width; the readers fail '
              'exactly in the characterised cases; matches are float64 x 3 and depth maps float32 h x w as the '
              'specification says; the path functions equal <root>/<dir>/<type>/<image><ext> and '
              '<a>.overlapping/<b>.matches on normalised names and are injective; after ANY history of writes on one root every '
              'destination holds the last array written to it (the two orientations of a pair keep separate files) and the '
              'location never depends on the store. The model is tied to the code by '
              'writing arrays through the real front ends into real files / tar archives and comparing the raw bytes and '
              'the arrays read back inside Coq.')
LEVEL_NOTE = ('Trusted: Coq kernel + vm_compute, harness encoders, numpy tofile/tobytes/fromfile/frombuffer/reshape and '
              'astype(float32) behaviour (sampled), CPython posixpath (modelled and sampled), little-endian host.')
