"""C04 — a loaded dataset has no dangling references and loses nothing that resolves.
Implementation under test: kapture.io.csv.kapture_from_dir (with get_all_tar_handlers for tar-packed features).

A case is a valid dataset (written by the real kapture_to_dir + the real feature writers) plus a list of edits
(rows inserted into the text files, data files added / removed, files or folders deleted, the version line
replaced, features packed into tars, an optional pairs file).  The harness then reads the resulting directory
with its own minimal reader (`scan`) to obtain the parsed raw tables the Coq model works on, runs the real
loader, and canonicalises what it returned."""
import itertools
import os
import re
import shutil
import tarfile
from decimal import Decimal

import kv

ID = 'C04'
COQ_MODELS = ['MLoad']
COQ_HEADER = 'From KV Require Import Eqb Str.\nFrom KV.Model Require Import MLoad.'
CASE_TYPE = 'MLoad.case'
CHECK_FN = 'MLoad.check_case'
SHARD_SIZE = 120
CASE_TIMEOUT = 60
SEARCH_CAP = 1500

RKINDS = ['camera', 'depth', 'lidar', 'wifi', 'bluetooth', 'gnss', 'accelerometer', 'gyroscope', 'magnetic']
RCTOR = {'camera': 'RCamera', 'depth': 'RDepth', 'lidar': 'RLidar', 'wifi': 'RWifi', 'bluetooth': 'RBluetooth',
         'gnss': 'RGnss', 'accelerometer': 'RAccelerometer', 'gyroscope': 'RGyroscope', 'magnetic': 'RMagnetic'}
FKINDS = ['keypoints', 'descriptors', 'global_features']
FCTOR = {'keypoints': 'FKeypoints', 'descriptors': 'FDescriptors', 'global_features': 'FGlobal'}
FEXT = {'keypoints': '.kpt', 'descriptors': '.desc', 'global_features': '.gfeat', 'matches': '.matches'}
HAS_EXTRA = {'camera', 'depth', 'lidar', 'wifi', 'bluetooth'}
SUBKEYED = {'wifi', 'bluetooth'}
CLASSES = ['rec_unknown', 'rec_wrongkind', 'traj_unknown', 'rig_unknown_member', 'rig_nested_dangling',
           'feat_unlisted', 'feat_missing', 'match_unknown', 'obs_missing_type', 'obs_missing_image',
           'dup_key', 'collision']
# further classes, combined with the above in dedicated streams (not part of the 2^12 enumeration)
CAM_NONE = ['cam_clear', 'cam_all_undeclared', 'cam_all_wrongkind']     # no camera record survives
LINKS = ['feat_symlink', 'feat_dangling_link', 'match_links']                          # folder storage only
# 'match_links' (matches files reached through / replaced by symbolic links) is implemented below but NOT generated:
# the unchanged loader lists matches with a walk that does not follow links and never tests the file, so it loads a
# pair whose .matches file is a link leading nowhere and drops pairs below a linked folder (shown in docs/C04.md,
# repair in fixes/C04-matches-listing-follows-links.patch).  Once that repair is in /repo, append 'match_links' to LINKS.
FEATURE_SIDE = ['feat_unlisted', 'feat_missing', 'match_unknown', 'obs_missing_type', 'obs_missing_image']
VERSIONS_MAIN = ['1.1', '1.0', '1.2']
# skip_list: the class names (kapture.<name>) of the parts the loader can be told not to load
REC_CLASS = {kd: 'Records' + kd.capitalize() for kd in RKINDS}
FEAT_CLASS = {'keypoints': 'Keypoints', 'descriptors': 'Descriptors', 'global_features': 'GlobalFeatures'}
SKIPPABLE = (['Rigs', 'Trajectories'] + [REC_CLASS[kd] for kd in RKINDS] + [FEAT_CLASS[fk] for fk in FKINDS]
             + ['Matches', 'Points3d', 'Observations'])
CAMERA_DEPENDENTS = ['Keypoints', 'Descriptors', 'GlobalFeatures', 'Matches', 'Observations']
THR_NUM, THR_DEN = 9907919180215093, 9007199254740992      # only used to build interesting version strings

RULE = ('case = valid dataset written by kapture_to_dir (random sensors of all 10 kinds, rigs incl. rigs of rigs, trajectories, '
        '9 record kinds, 3 feature kinds x types, matches, points, observations) + edits from 12 injection classes '
        '(unknown / wrong-kind sensors in every records file, unknown trajectory devices, unknown rig members, a nested rig '
        'whose members are all unknown, feature files for unlisted images, listed images without feature files, matches with '
        'unknown images, observations on missing types / images, duplicate keys, rig-sensor id collision) x version line '
        '(current, older, newer, odd strings around the float threshold, absent) x storage (folder, tar with handlers, tar '
        'without handlers) x optional pairs file + structural deletions (whole files / folders) + 3 ways of leaving no camera '
        'record (header-only file, all sensors undeclared, all cameras re-declared as lidar) x {tar, folder} + feature data '
        'reached through symbolic links (linked sub-folders inside / outside the dataset, linked files, links leading nowhere) '
        '+ image names that are not normalised (folder storage) + skip_list (every skippable part alone and with the parts that '
        'depend on it, rigs skipped with a collision, all parts, duplicates / kapture.Sensors in the list, skipped parts that do '
        'not exist, 40 random datasets with random skip lists). quick: all single classes and '
        'pairs on a fixed base + random; thorough: all 2^12 class subsets x {folder, tar} on a fixed base (x 3 versions for the '
        '2^8 subsets of 8 classes) + 10x random. Non-trivial = at least one raw entry is dropped by the loader or the load is '
        'refused; distinct = distinct case descriptions.')
TRUSTED = ['the harness reader `scan` (rows of the text files, folder / tar listings) that produces the parsed raw tables',
           'CPython float() is correctly rounded (the version gate is modelled on exact rationals through the midpoint '
           'computed in harness/tables/load.py; sampled by version strings on both sides of the midpoint)',
           'file-system / tarfile listing semantics (a data file "exists" iff the harness lists it)']
ASSUMPTIONS = ['sensor ids and image names are plain tokens / relative paths (no "..", commas, leading "#", surrounding blanks); '
               'image names that are not normalised ("a//b", "a/./b") are generated for folder storage only; version digits are ASCII',
               'a data file exists iff os.path.exists(<type folder>/<image><ext>) (links followed) or, with tar handlers, a regular '
               'member of that name; matches files reached through symbolic links are not generated (see docs/C04.md, '
               'fixes/C04-matches-listing-follows-links.patch)',
               'a version counts as newer / older for the oracle only when decimal order and (major, minor) order agree; '
               'and the value is not within 1e-12 of 1.1; otherwise ("1.10", "01.1", 1.1 followed by more digits) only the correspondence '
               'with the model is checked (the statement does not define the order of versions)',
               'exceptions raised by the loader assertions (feature folder without records_camera.txt, observations without '
               'keypoints or points3d.txt, sensors.txt without a version line or missing) are modelled outcomes and are not '
               'judged by the oracle: the statement does not say whether such directories may be refused',
               'a rig whose members were all expunged stays in the loaded rigs with no member; it counts as a declared rig',
               'tar-packed features are visible only when tar handlers are passed (API contract, tests/test_tar.py); without '
               'handlers the listing is the loose files']
EXHAUSTIVE = {'quick': False, 'thorough': True}
TECHNIQUE = ('Coq proof (iff-characterisation of every loaded part, closure, completeness, exact error conditions, version gate '
             'on exact rationals) over a Gallina model of kapture_from_dir on parsed tables; differential correspondence on real '
             'directories evaluated by vm_compute')
LEVEL_TEXT = ('Theorems in coq/Props/C04.v hold for every raw directory: whenever the load succeeds the result is reference-closed '
              '(records -> sensor of the matching kind, trajectories and rig members -> sensor or rig, rig ids disjoint from sensor '
              'ids, features / matches -> loaded image with an existing data file, observations -> loaded keypoints type and image) '
              'and complete (every raw entry whose references resolve is present; exact iff per part); a rig/sensor id collision '
              'and a newer version never load; an older version loads exactly the sensors-side parts; the conditions under which '
              'the loader raises are characterised exactly. The model is tied to the code by loading real directories '
              '(kapture_to_dir output + injected dangling entries, folder and tar storage, many version strings) and comparing '
              'every part of the loaded dataset, or the exception class, inside Coq.')
LEVEL_NOTE = ('Trusted: Coq kernel + vm_compute, harness reader/encoders, CPython float rounding, file-system and tarfile listing. '
              'Text parsing is C01/C02. Path normalisation of image names, non-ASCII version digits and malformed descriptor files '
              'are not modelled. skip_list is modelled (a skipped part = a part that does not exist) and compared.')


# ---------------------------------------------------------------------------------------------- generation
def _base_fixed():
    """A small valid dataset that has every part and every reference kind."""
    imgs = ['cam0/0.jpg', 'cam1/0.jpg', 'cam0/1.jpg']
    return {
        'sensors': [['cam0', 'camera'], ['cam1', 'camera'], ['dep0', 'depth'], ['lid0', 'lidar'], ['wifi0', 'wifi'],
                    ['gnss0', 'gnss'], ['mag0', 'magnetic']],
        'rigs': [['rig0', 'cam0'], ['rig0', 'cam1'], ['rigtop', 'rig0'], ['rigtop', 'lid0']],
        'traj': [[0, 'rigtop'], [1, 'rig0'], [1, 'gnss0']],
        'records': {'camera': [[0, 'cam0', imgs[0]], [0, 'cam1', imgs[1]], [1, 'cam0', imgs[2]]],
                    'depth': [[0, 'dep0', 'dep0/0.depth']],
                    'lidar': [[1, 'lid0', 'lid0/1.pcd']],
                    'wifi': [[0, 'wifi0', 'aa:bb'], [0, 'wifi0', 'cc:dd']],
                    'gnss': [[1, 'gnss0', '']],
                    'magnetic': [[1, 'mag0', '']]},
        'feat': {'keypoints': {'sift': list(imgs), 'r2d2': [imgs[0], imgs[1]]},
                 'descriptors': {'sift': [imgs[0], imgs[1]]},
                 'global_features': {'gem': [imgs[0], imgs[2]]}},
        'matches': {'sift': [[imgs[0], imgs[1]], [imgs[0], imgs[2]]]},
        'npoints': 3,
        'obs': [[0, 'sift', imgs[0], 1], [0, 'sift', imgs[1], 2], [2, 'sift', imgs[2], 0], [2, 'r2d2', imgs[0], 5]],
    }


ODD_IDS = ['cém', '007', 'cam A', 'lidar', 'rig', 'x.y']


def _base_random(rng):
    kinds_pool = ['camera', 'camera', 'depth', 'lidar', 'wifi', 'bluetooth', 'gnss', 'accelerometer', 'gyroscope',
                  'magnetic', 'odometry']
    sensors = [['cam0', 'camera']]
    n_extra = rng.choice([0, 2, 4, 8])
    for i in range(n_extra):
        kd = rng.choice(kinds_pool)
        sid = f'{kd[:3]}{i + 1}'
        if rng.random() < 0.08:
            sid = rng.choice(ODD_IDS) + str(i)
        sensors.append([sid, kd])
    ids_by_kind = {}
    for sid, kd in sensors:
        ids_by_kind.setdefault(kd, []).append(sid)
    all_ids = [s for s, _ in sensors]
    rigs = None
    if rng.random() < 0.7:
        rigs = []
        members = rng.sample(all_ids, min(len(all_ids), rng.randint(1, 3)))
        for m in members:
            rigs.append(['rig0', m])
        if rng.random() < 0.5:
            rigs.append(['rigtop', 'rig0'])
            if rng.random() < 0.5:
                rigs.append(['rigtop', rng.choice(all_ids)])
            if rng.random() < 0.3:
                rigs.append(['rigroot', 'rigtop'])
    rig_ids = sorted({r for r, _ in rigs}) if rigs else []
    traj = None
    if rng.random() < 0.8:
        traj = []
        for ts in range(rng.randint(0, 4)):
            for dev in rng.sample(all_ids + rig_ids, rng.randint(1, min(3, len(all_ids + rig_ids)))):
                traj.append([ts * rng.choice([1, 1000, 10 ** 12]), dev])
        traj = [list(x) for x in sorted({tuple(t) for t in traj})]
    records = {}
    nts = rng.randint(1, 4)
    for kd in RKINDS:
        if kd not in ids_by_kind or rng.random() < 0.25:
            continue
        rows = []
        for ts in range(nts):
            for sid in ids_by_kind[kd]:
                if rng.random() < 0.75:
                    if kd in ('camera', 'depth', 'lidar'):
                        ext = {'camera': 'jpg', 'depth': 'depth', 'lidar': 'pcd'}[kd]
                        rows.append([ts, sid, f'{sid}/{ts:03d}.{ext}' if rng.random() < 0.9 else f'{sid}_{ts}.{ext}'])
                    elif kd in SUBKEYED:
                        for b in range(rng.randint(1, 2)):
                            rows.append([ts, sid, f'a{b}:b{ts}'])
                    else:
                        rows.append([ts, sid, ''])
        if kd == 'camera' and not rows:
            rows.append([0, 'cam0', 'cam0/000.jpg'])
        records[kd] = rows
    images = [r[2] for r in records.get('camera', [])]
    feat, matches, npoints, obs = {}, None, None, None
    if images and rng.random() < 0.85:
        for fk in FKINDS:
            if rng.random() < (0.9 if fk == 'keypoints' else 0.6):
                feat[fk] = {}
                for t in rng.sample(['sift', 'r2d2', 'gem', 'd2_net'], rng.randint(1, 2)):
                    feat[fk][t] = [i for i in images if rng.random() < 0.8]
        if rng.random() < 0.6 and len(images) >= 2:
            matches = {}
            for t in rng.sample(['sift', 'r2d2'], rng.randint(1, 2)):
                ps = set()
                for _ in range(rng.randint(0, 4)):
                    a, b = rng.sample(images, 2)
                    ps.add((min(a, b), max(a, b)))
                matches[t] = [list(p) for p in sorted(ps)]
        if rng.random() < 0.7:
            npoints = rng.randint(1, 5)
            if feat.get('keypoints') and rng.random() < 0.85:
                obs = []
                for p in range(npoints):
                    for t, ims in feat['keypoints'].items():
                        for im in ims:
                            if rng.random() < 0.4:
                                obs.append([p, t, im, rng.randint(0, 9)])
    return {'sensors': sensors, 'rigs': rigs, 'traj': traj, 'records': records, 'feat': feat, 'matches': matches,
            'npoints': npoints, 'obs': obs}


def _empty_inj():
    return {'rows': {}, 'add_files': [], 'del_files': [], 'add_matches': [], 'del_paths': [],
            'clear_rows': [], 'link_files': [], 'link_dirs': [], 'link_matches': []}


def _add_row(inj, fkey, fields, pos=-1):
    inj['rows'].setdefault(fkey, []).append([pos, [str(x) for x in fields]])


def _rec_fields(kd, ts, sid, extra):
    """Fields of one row of records_<kd>.txt."""
    if kd in ('camera', 'depth', 'lidar'):
        return [ts, sid, extra]
    if kd == 'wifi':
        return [ts, sid, extra, 2412, -60.0, 'net', 0, 0]
    if kd == 'bluetooth':
        return [ts, sid, extra, -70.0, 'dev']
    if kd == 'gnss':
        return [ts, sid, 1.0, 2.0, 3.0, 4, 5.0]
    return [ts, sid, 1.0, 2.0, 3.0]


def apply_class(case, cls, rng):
    """Extend case['inj'] with the edits of one injection class.  Everything is decided here (replayable)."""
    base, inj = case['base'], case['inj']
    sensors = base['sensors']
    kind_of = dict((s, k) for s, k in sensors)
    rig_ids = sorted({r for r, _ in (base['rigs'] or [])})
    images = [r[2] for r in base['records'].get('camera', [])]

    def pos():
        return rng.choice([-1, -1, 0, 1])

    def extra_for(kd, i):
        if kd in ('camera', 'depth', 'lidar'):
            return f'inj/{kd}{i}.bin'
        return f'ee:{i}' if kd in SUBKEYED else ''
    if cls == 'rec_unknown':
        for kd in base['records']:
            _add_row(inj, 'records_' + kd, _rec_fields(kd, 90, f'ghost_{kd}', extra_for(kd, 0)), pos())
    elif cls == 'rec_wrongkind':
        for kd in base['records']:
            others = [s for s, k in sensors if k != kd] + rig_ids
            for i, sid in enumerate(rng.sample(others, min(2, len(others)))):
                _add_row(inj, 'records_' + kd, _rec_fields(kd, 91 + i, sid, extra_for(kd, 10 + i)), pos())
    elif cls == 'traj_unknown':
        if base['traj'] is not None:
            _add_row(inj, 'traj', [92, 'ghost_dev', 1, 0, 0, 0, 0, 0, 0], pos())
            _add_row(inj, 'traj', [0, 'ghost_dev2', '', '', '', '', 0, 0, 0], pos())
    elif cls == 'rig_unknown_member':
        if base['rigs'] is not None:
            for rg in rig_ids[:2] or ['rigZ']:
                _add_row(inj, 'rigs', [rg, 'ghost_member', 1, 0, 0, 0, 0, 0, 0], pos())
    elif cls == 'rig_nested_dangling':
        if base['rigs'] is not None:
            _add_row(inj, 'rigs', ['rigE', 'ghost_e1', 1, 0, 0, 0, 0, 0, 0], pos())
            _add_row(inj, 'rigs', ['rigE', 'ghost_e2', 1, 0, 0, 0, 0, 0, 0], pos())
            _add_row(inj, 'rigs', [(rig_ids or ['rigQ'])[-1], 'rigE', 1, 0, 0, 0, 0, 0, 0], pos())
            if base['traj'] is not None:
                _add_row(inj, 'traj', [93, 'rigE', 1, 0, 0, 0, 0, 0, 0], pos())
    elif cls == 'feat_unlisted':
        for fk, types in base['feat'].items():
            for t in types:
                inj['add_files'].append([fk, t, 'zz/unlisted.jpg'])
                if rng.random() < 0.5:
                    inj['add_files'].append([fk, t, 'unlisted2.jpg'])
    elif cls == 'feat_missing':
        for fk, types in base['feat'].items():
            for t, ims in types.items():
                if ims:
                    k = rng.choice([1, 1, len(ims)])
                    for im in rng.sample(ims, k):
                        inj['del_files'].append([fk, t, im])
    elif cls == 'match_unknown':
        for t in (base['matches'] or {}):
            if images:
                inj['add_matches'].append([t, images[0], 'zz/unlisted.jpg'])
                inj['add_matches'].append([t, 'aa/unlisted0.jpg', images[-1]])
            inj['add_matches'].append([t, 'aa/unlisted0.jpg', 'zz/unlisted.jpg'])
    elif cls == 'obs_missing_type':
        if base['obs'] is not None:
            _add_row(inj, 'obs', [0, 'no_such_type', (images or ['x.jpg'])[0], 3], pos())
            dt = [t for t in base['feat'].get('descriptors', {}) if t not in base['feat'].get('keypoints', {})]
            if dt:
                _add_row(inj, 'obs', [1, dt[0], (images or ['x.jpg'])[0], 4], pos())
    elif cls == 'obs_missing_image':
        if base['obs'] is not None:
            kts = sorted(base['feat'].get('keypoints', {}))
            for t in kts[:2]:
                row = [0, t, 'zz/unlisted.jpg', 7]
                have = base['feat']['keypoints'][t]
                lacking = [i for i in images if i not in have]
                if lacking:
                    row += [lacking[0], 8]
                if have:
                    row += [have[0], 9]          # this one resolves and must survive
                _add_row(inj, 'obs', row, pos())
    elif cls == 'dup_key':
        cam = base['records'].get('camera')
        if cam:
            r = rng.choice(cam)
            _add_row(inj, 'records_camera', [r[0], r[1], 'dup/replaced.jpg'], rng.choice([-1, 0]))
        if rng.random() < 0.5:
            sid, kd = rng.choice(sensors)
            nk = rng.choice([k for k in ['camera', 'lidar', 'wifi', 'gnss'] if k != kd])
            params = ['SIMPLE_PINHOLE', 640, 480, 500, 320, 240] if nk == 'camera' else (['EPSG:4326'] if nk == 'gnss' else [])
            _add_row(inj, 'sensors', [sid, 'redeclared', nk] + params, -1)
    elif cls == 'collision':
        if base['rigs'] is not None:
            sid = rng.choice(sensors)[0]
            _add_row(inj, 'rigs', [sid, sensors[0][0], 1, 0, 0, 0, 0, 0, 0], pos())
    elif cls == 'cam_clear':                      # records_camera.txt keeps its header only
        inj['clear_rows'].append('records_camera')
    elif cls == 'cam_all_undeclared':             # every camera record names an undeclared sensor
        inj['clear_rows'].append('records_camera')
        for ts, sid, im in base['records'].get('camera', []):
            _add_row(inj, 'records_camera', [ts, 'ghost_' + sid, im], -1)
    elif cls == 'cam_all_wrongkind':              # every camera is re-declared as a lidar: all camera records are wrong-kind
        for sid, kd in sensors:
            if kd == 'camera':
                _add_row(inj, 'sensors', [sid, 'redeclared', 'lidar'], -1)
    elif cls == 'feat_symlink':                   # data reached through links: nothing may be dropped
        n = 0
        for fk, types in base['feat'].items():
            for t, ims in types.items():
                subs = sorted({i.split('/')[0] for i in ims if '/' in i})
                if subs:
                    inj['link_dirs'].append([fk, t, rng.choice(subs), 'inside' if n % 2 == 0 else 'outside'])
                    n += 1
                if ims:
                    inj['link_files'].append([fk, t, rng.choice(ims), 'live'])
    elif cls == 'match_links':
        for t, ps in (base['matches'] or {}).items():
            if len(images) >= 2:
                inj['link_matches'].append([t, images[0], images[-1], 'dangling'])
            subs = sorted({a.split('/')[0] for a, _ in ps if '/' in a})
            if subs:
                inj['link_dirs'].append(['matches', t, subs[0], 'inside'])
    elif cls == 'feat_dangling_link':             # a link that leads nowhere is not an existing data file
        for fk, types in base['feat'].items():
            for t, ims in types.items():
                if ims:
                    inj['link_files'].append([fk, t, rng.choice(ims), 'dangling'])
                lacking = [i for i in images if i not in ims]
                if lacking:
                    inj['link_files'].append([fk, t, lacking[0], 'dangling'])
    else:
        raise ValueError(cls)


def _skip_closure(skip):
    """Extend a skip list with the parts whose load would make the loader assert (so that the load goes through)."""
    out = list(skip)
    if 'RecordsCamera' in out:
        out += [p for p in CAMERA_DEPENDENTS if p not in out]
    if ('Keypoints' in out or 'Points3d' in out) and 'Observations' not in out:
        out.append('Observations')
    return out


def _mk(base, classes, rng, ver='1.1', mode='dir', pairs=None, del_paths=(), skip=()):
    case = {'ver': None if ver is None else ('# kapture format: ' + ver if not ver.startswith('#') else ver),
            'mode': mode, 'pairs': pairs, 'base': base, 'inj': _empty_inj(), 'classes': list(classes),
            'skip': list(skip)}
    for c in classes:
        apply_class(case, c, rng)
    case['inj']['del_paths'] = list(del_paths)
    return case


def _odd_versions():
    from fractions import Fraction
    mid = Fraction(THR_NUM, THR_DEN)

    def dec(fr, digits=60):
        n = fr.numerator * 10 ** digits // fr.denominator
        s = str(n).rjust(digits + 1, '0')
        return s[:-digits] + '.' + s[-digits:]
    exact_mid = dec(mid, 53)
    assert Fraction(exact_mid) == mid
    return ['1.10', '01.1', '1.1000', '0.9', '2.0', '1.11', '10.0', '0.0', '1.09', '1.1000000000000000888',
            '1.1000000000000002', '1.10000000000000019', '1.10000000000000020', exact_mid, exact_mid + '1',
            exact_mid[:-1] + '4', '9' * 400 + '.5', '1.' + '0' * 30 + '1', '001.100', '1.2', '1.0']


def _pairs_for(base, rng):
    ps = []
    for t, pairs in (base['matches'] or {}).items():
        for a, b in pairs:
            if rng.random() < 0.7:
                ps.append([a, b] if rng.random() < 0.5 else [b, a])
    ims = [r[2] for r in base['records'].get('camera', [])]
    if len(ims) >= 2:
        ps.append(rng.sample(ims, 2))
    ps.append(['zz/unlisted.jpg', 'aa/unlisted0.jpg'])
    return ps


def gen_cases(rng, tier):
    cases = []
    fixed = _base_fixed()
    import copy

    def fb():
        return copy.deepcopy(fixed)
    # 1. plain, every single class, both storages, main versions
    for mode in ('dir', 'tar'):
        for ver in VERSIONS_MAIN:
            cases.append(_mk(fb(), [], rng, ver, mode))
        for c in CLASSES:
            cases.append(_mk(fb(), [c], rng, '1.1', mode))
    for c in CLASSES:
        cases.append(_mk(fb(), [c], rng, '1.0', 'dir'))
    cases.append(_mk(fb(), CLASSES[:-1], rng, '1.1', 'tar-nohandler'))
    cases.append(_mk(fb(), [], rng, '1.1', 'tar-nohandler'))
    # 2. class subsets on the fixed base
    if tier == 'quick':
        for a, b in itertools.combinations(CLASSES, 2):
            cases.append(_mk(fb(), [a, b], rng, '1.1', rng.choice(['dir', 'tar'])))
        cases.append(_mk(fb(), CLASSES[:-1], rng, '1.1', 'dir'))
        cases.append(_mk(fb(), CLASSES[:-1], rng, '1.1', 'tar'))
        cases.append(_mk(fb(), CLASSES, rng, '1.1', 'dir'))
    else:
        for bits in range(1 << len(CLASSES)):
            sub = [c for i, c in enumerate(CLASSES) if bits >> i & 1]
            for mode in ('dir', 'tar'):
                cases.append(_mk(fb(), sub, rng, '1.1', mode))
        small = CLASSES[:4] + ['feat_unlisted', 'obs_missing_image', 'dup_key', 'collision']
        for bits in range(1 << len(small)):
            sub = [c for i, c in enumerate(small) if bits >> i & 1]
            for ver in ('1.0', '1.2', '1.10'):
                cases.append(_mk(fb(), sub, rng, ver, 'dir' if bits & 1 else 'tar'))
    # 3. version strings
    for v in _odd_versions():
        cases.append(_mk(fb(), rng.sample(CLASSES[:-1], 2), rng, v, rng.choice(['dir', 'tar'])))
    cases.append(_mk(fb(), [], rng, None, 'dir'))
    for line in ['# kapture format:1.1', '# kapture format:    1.1 beta', '# kapture format: 1.1.5', '#kapture format: 1.1',
                 '# kapture format: 1', '# sensor_id, name, sensor_type', '# kapture format: v1.1', '# kapture format: 1.2.0']:
        cases.append(_mk(fb(), ['rec_unknown'], rng, line, 'dir'))
    # 4. pairs file
    for mode in ('dir', 'tar'):
        cases.append(_mk(fb(), ['match_unknown'], rng, '1.1', mode, pairs=_pairs_for(fixed, rng)))
        cases.append(_mk(fb(), [], rng, '1.1', mode, pairs=[]))
    # 5. structural deletions (absent parts, loader assertions)
    dels = [['sensors/rigs.txt'], ['sensors/trajectories.txt'], ['sensors/records_camera.txt'], ['reconstruction/points3d.txt'],
            ['reconstruction/keypoints'], ['reconstruction/observations.txt'], ['reconstruction/matches'],
            ['reconstruction/keypoints/sift/keypoints.txt', 'reconstruction/keypoints/r2d2/keypoints.txt'],
            ['reconstruction/keypoints/r2d2/keypoints.txt'], ['sensors/sensors.txt'], ['reconstruction'],
            ['reconstruction/keypoints', 'reconstruction/observations.txt', 'reconstruction/descriptors',
             'reconstruction/global_features', 'reconstruction/matches', 'sensors/records_camera.txt'],
            ['sensors/records_gnss.txt'], ['reconstruction/descriptors/sift/descriptors.txt'],
            ['reconstruction/matches/sift']]
    for d in dels:
        cases.append(_mk(fb(), rng.sample(CLASSES[:-1], 2), rng, '1.1', 'dir', del_paths=d))
        cases.append(_mk(fb(), [], rng, rng.choice(['1.1', '1.0']), 'dir', del_paths=d))
    # no gnss sensor declared but a gnss records file
    b = fb()
    b['sensors'] = [s for s in b['sensors'] if s[1] != 'gnss']
    b['traj'] = [t for t in b['traj'] if t[1] != 'gnss0']
    del b['records']['gnss']
    for ver, mode in (('1.1', 'dir'), ('1.0', 'tar'), ('1.1', 'tar')):
        c = _mk(copy.deepcopy(b), ['rec_wrongkind'], rng, ver, mode)
        _add_row(c['inj'], 'records_gnss', _rec_fields('gnss', 5, 'cam0', ''))
        _add_row(c['inj'], 'records_gnss', _rec_fields('gnss', 6, 'ghost_gnss', ''))
        cases.append(c)
    # 5b. no camera record survives (x storage), data reached through symbolic links (folder storage),
    #     image names that are not normalised (folder storage)
    for c0 in CAM_NONE:
        for mode in ('tar', 'dir'):
            cases.append(_mk(fb(), [c0], rng, '1.1', mode))
        cases.append(_mk(fb(), [c0, 'feat_unlisted', 'obs_missing_image'], rng, '1.1', 'tar'))
        cases.append(_mk(fb(), [c0, 'feat_missing', 'match_unknown'], rng, '1.1', rng.choice(['tar', 'dir'])))
    for sub in (['feat_symlink'], ['feat_dangling_link'], LINKS, LINKS + ['feat_missing'], LINKS + ['feat_unlisted'],
                ['feat_symlink', 'obs_missing_image'], ['feat_dangling_link', 'obs_missing_image', 'rec_wrongkind'],
                LINKS + ['cam_all_undeclared']):
        cases.append(_mk(fb(), sub, rng, '1.1', 'dir'))
    ub = fb()
    odd = 'cam0//2.jpg'
    ub['records']['camera'].append([2, 'cam0', odd])
    ub['records']['camera'].append([3, 'cam1', 'cam1/./3.jpg'])
    for fk in ub['feat']:
        for t in ub['feat'][fk]:
            ub['feat'][fk][t].append(odd)
    ub['feat']['keypoints']['sift'].append('cam1/./3.jpg')
    ub['obs'].append([1, 'sift', odd, 4])
    for sub in ([], ['feat_missing'], ['feat_dangling_link']):
        cases.append(_mk(copy.deepcopy(ub), sub, rng, '1.1', 'dir'))
    if tier != 'quick':
        for bits in range(1 << len(FEATURE_SIDE)):
            sub = [c for i, c in enumerate(FEATURE_SIDE) if bits >> i & 1]
            for c0 in CAM_NONE:
                for mode in ('tar', 'dir'):
                    cases.append(_mk(fb(), [c0] + sub, rng, '1.1', mode))
            for ls in (['feat_symlink'], ['feat_dangling_link'], LINKS):
                cases.append(_mk(fb(), ls + sub, rng, '1.1', 'dir'))
    # 6. random datasets, random class subsets
    n_rand = 140 if tier == 'quick' else 1400
    for i in range(n_rand):
        base = _base_random(rng)
        k = rng.choice([0, 1, 2, 3, 5, len(CLASSES) - 1])
        sub = rng.sample(CLASSES[:-1], k)
        if rng.random() < 0.12:
            sub.append('collision')
        ver = rng.choice(['1.1'] * 6 + ['1.0', '1.2', '0.9', '1.10', '2.0'])
        mode = rng.choice(['dir', 'dir', 'tar', 'tar', 'tar-nohandler'])
        if rng.random() < 0.1:
            sub.append(rng.choice(CAM_NONE))
        if mode == 'dir' and rng.random() < 0.2:
            sub.extend(rng.sample(LINKS, rng.randint(1, 2)))
        pairs = _pairs_for(base, rng) if rng.random() < 0.15 else None
        dp = []
        if rng.random() < 0.1:
            dp = [rng.choice(['sensors/rigs.txt', 'sensors/trajectories.txt', 'reconstruction/points3d.txt',
                              'reconstruction/observations.txt', 'reconstruction/matches'])]
        cases.append(_mk(base, sub, rng, ver, mode, pairs=pairs, del_paths=dp))
    # 7. skip_list (drawn after everything else: the streams above are the same as without it)
    modes2 = ['dir', 'tar']
    for n, p in enumerate(SKIPPABLE + ['Sensors']):
        cases.append(_mk(fb(), [], rng, '1.1', modes2[n % 2], skip=[p]))                    # alone: asserts for 3 of them
        cases.append(_mk(fb(), CLASSES[:-1], rng, '1.1', modes2[(n + 1) % 2], skip=_skip_closure([p])))
    for sk, cl, ver, mode in (
            (['Rigs'], ['collision'], '1.1', 'dir'), (['Rigs'], ['collision', 'traj_unknown'], '1.1', 'tar'),
            (['Trajectories'], ['collision'], '1.1', 'dir'),
            (['Rigs', 'Trajectories'], ['rig_nested_dangling'], '1.1', 'dir'),
            (['Rigs'], ['rig_nested_dangling', 'traj_unknown', 'rig_unknown_member'], '1.0', 'dir'),
            (['Keypoints', 'Observations'], ['feat_unlisted', 'obs_missing_image'], '1.1', 'tar'),
            (['Points3d', 'Observations'], ['obs_missing_type'], '1.1', 'dir'),
            (['Observations', 'Matches', 'Matches', 'Rigs', 'Observations'], ['match_unknown'], '1.1', 'dir'),
            (list(reversed(SKIPPABLE)), CLASSES[:-1], '1.1', 'dir'), (list(SKIPPABLE), CLASSES, '1.1', 'tar'),
            (['Keypoints', 'Descriptors', 'GlobalFeatures', 'Matches', 'Points3d', 'Observations'], ['rec_unknown'], '1.0', 'tar'),
            (['RecordsCamera'], [], '1.0', 'dir'), (['Keypoints'], [], '1.2', 'dir'),
            (['Descriptors', 'RecordsLidar'], ['feat_missing', 'rec_wrongkind'], '1.1', 'tar-nohandler'),
            (_skip_closure(['RecordsCamera']), ['cam_all_undeclared', 'feat_unlisted'], '1.1', 'tar'),
            (['GlobalFeatures'], ['feat_symlink', 'feat_dangling_link'], '1.1', 'dir')):
        cases.append(_mk(fb(), cl, rng, ver, mode, skip=sk))
    cases.append(_mk(fb(), ['match_unknown'], rng, '1.1', 'dir', pairs=_pairs_for(fixed, rng), skip=['Keypoints', 'Observations']))
    cases.append(_mk(fb(), ['match_unknown'], rng, '1.1', 'tar', pairs=_pairs_for(fixed, rng), skip=['Matches']))
    cases.append(_mk(fb(), ['traj_unknown'], rng, '1.1', 'dir', del_paths=['sensors/rigs.txt'], skip=['Rigs']))
    cases.append(_mk(fb(), [], rng, '1.1', 'dir', del_paths=['reconstruction/keypoints'], skip=['Observations']))
    cases.append(_mk(fb(), [], rng, '1.1', 'dir', del_paths=['sensors/records_camera.txt'], skip=_skip_closure(['RecordsCamera'])[1:]))
    if tier != 'quick':
        for a, b in itertools.combinations(SKIPPABLE, 2):
            cases.append(_mk(fb(), rng.sample(CLASSES[:-1], 3), rng, '1.1', rng.choice(modes2), skip=[a, b]))
            cases.append(_mk(fb(), CLASSES[:-1], rng, '1.1', rng.choice(modes2), skip=_skip_closure([a, b])))
    for i in range(40 if tier == 'quick' else 400):
        base = _base_random(rng)
        sub = rng.sample(CLASSES[:-1], rng.choice([0, 1, 2, 3, 5]))
        if rng.random() < 0.15:
            sub.append('collision')
        sk = rng.sample(SKIPPABLE, rng.choice([1, 1, 2, 3, 4, 8]))
        if rng.random() < 0.7:
            sk = _skip_closure(sk)
        if rng.random() < 0.15:
            sk.insert(rng.randint(0, len(sk)), rng.choice(sk + ['Sensors']))       # duplicates, the no-op Sensors
        ver = rng.choice(['1.1'] * 6 + ['1.0', '1.2', '1.10'])
        mode = rng.choice(['dir', 'dir', 'tar', 'tar', 'tar-nohandler'])
        pairs = _pairs_for(base, rng) if rng.random() < 0.15 else None
        cases.append(_mk(base, sub, rng, ver, mode, pairs=pairs, skip=sk))
    return cases


# ---------------------------------------------------------------------------------------------- building the directory
def _sensor_params(kind):
    if kind in ('camera', 'depth'):
        return ['SIMPLE_PINHOLE', 640, 480, 500, 320, 240]
    if kind == 'gnss':
        return ['EPSG:4326']
    return []


def _build_kapture(base):
    import numpy as np
    import kapture
    k = kapture.Kapture()
    k.sensors = kapture.Sensors()
    for sid, kind in base['sensors']:
        k.sensors[sid] = kapture.create_sensor(kind, _sensor_params(kind), 'n_' + kind)
    if base['rigs'] is not None:
        k.rigs = kapture.Rigs()
        for rg, m in base['rigs']:
            k.rigs[rg, m] = kapture.PoseTransform()
    if base['traj'] is not None:
        k.trajectories = kapture.Trajectories()
        for ts, dev in base['traj']:
            k.trajectories[int(ts), dev] = kapture.PoseTransform(r=[1, 0, 0, 0], t=[float(ts % 7), 0, 0])
    ctor = {'camera': kapture.RecordsCamera, 'depth': kapture.RecordsDepth, 'lidar': kapture.RecordsLidar,
            'wifi': kapture.RecordsWifi, 'bluetooth': kapture.RecordsBluetooth, 'gnss': kapture.RecordsGnss,
            'accelerometer': kapture.RecordsAccelerometer, 'gyroscope': kapture.RecordsGyroscope,
            'magnetic': kapture.RecordsMagnetic}
    for kd, rows in base['records'].items():
        rec = ctor[kd]()
        for ts, sid, extra in rows:
            ts = int(ts)
            if kd in ('camera', 'depth', 'lidar'):
                rec[ts, sid] = extra
            elif kd == 'wifi':
                if (ts, sid) not in rec:
                    rec[ts, sid] = kapture.RecordWifi()
                rec[ts, sid][extra] = kapture.RecordWifiSignal(2412, -60.0, 'net', 0, 0)
            elif kd == 'bluetooth':
                if (ts, sid) not in rec:
                    rec[ts, sid] = kapture.RecordBluetooth()
                rec[ts, sid][extra] = kapture.RecordBluetoothSignal(-70.0, 'dev')
            elif kd == 'gnss':
                rec[ts, sid] = kapture.RecordGnss(1.0, 2.0, 3.0, 4, 5.0)
            elif kd == 'accelerometer':
                rec[ts, sid] = kapture.RecordAccelerometer(1.0, 2.0, 3.0)
            elif kd == 'gyroscope':
                rec[ts, sid] = kapture.RecordGyroscope(1.0, 2.0, 3.0)
            else:
                rec[ts, sid] = kapture.RecordMagnetic(1.0, 2.0, 3.0)
        setattr(k, 'records_' + kd, rec)
    feat = base['feat']
    if 'keypoints' in feat:
        k.keypoints = {t: kapture.Keypoints(t, np.float32, 2, ims) for t, ims in feat['keypoints'].items()}
    if 'descriptors' in feat:
        k.descriptors = {t: kapture.Descriptors(t, np.float32, 4, t, 'L2', ims) for t, ims in feat['descriptors'].items()}
    if 'global_features' in feat:
        k.global_features = {t: kapture.GlobalFeatures(t, np.float32, 4, 'L2', ims)
                             for t, ims in feat['global_features'].items()}
    if base['matches'] is not None:
        k.matches = {t: kapture.Matches([tuple(p) for p in ps]) for t, ps in base['matches'].items()}
    if base['npoints'] is not None:
        k.points3d = kapture.Points3d(np.arange(base['npoints'] * 6, dtype=float).reshape((-1, 6)))
    if base['obs'] is not None:
        k.observations = kapture.Observations()
        for p, t, im, idx in base['obs']:
            k.observations.add(int(p), t, im, int(idx))
    return k


TXT = {'sensors': 'sensors/sensors.txt', 'rigs': 'sensors/rigs.txt', 'traj': 'sensors/trajectories.txt',
       'obs': 'reconstruction/observations.txt', 'points': 'reconstruction/points3d.txt'}
for _k in RKINDS:
    TXT['records_' + _k] = f'sensors/records_{_k}.txt'


def _feature_file(root, fk, t, image):
    import kapture
    import kapture.io.features as kf
    cls = {'keypoints': kapture.Keypoints, 'descriptors': kapture.Descriptors,
           'global_features': kapture.GlobalFeatures}[fk]
    return kf.get_features_fullpath(cls, t, root, image)


def _write_bytes(p, data=b'\x00' * 16):
    os.makedirs(os.path.dirname(p), exist_ok=True)
    with open(p, 'wb') as f:
        f.write(data)


def _insert_rows(path, items):
    """Insert rows (pos = index among the data lines, -1 = append) into a text file, keeping its comment lines."""
    if os.path.exists(path):
        lines = open(path, encoding='utf-8').read().split('\n')
        if lines and lines[-1] == '':
            lines.pop()
    else:
        os.makedirs(os.path.dirname(path), exist_ok=True)
        lines = ['# kapture format: 1.1', '# injected file']
    head = [ln for ln in lines if ln.startswith('#')]
    data = [ln for ln in lines if not ln.startswith('#')]
    for pos, fields in items:
        text = ', '.join(fields)
        if pos < 0 or pos > len(data):
            data.append(text)
        else:
            data.insert(pos, text)
    with open(path, 'w', encoding='utf-8') as f:
        f.write('\n'.join(head + data) + '\n')


def build_dir(case, root):
    import numpy as np
    import kapture
    import kapture.io.csv as kcsv
    import kapture.io.features as kf
    base, inj = case['base'], case['inj']
    k = _build_kapture(base)
    kcsv.kapture_to_dir(root, k)
    for t, s in (k.keypoints or {}).items():
        for im in s:
            kf.image_keypoints_to_file(kf.get_keypoints_fullpath(t, root, im), np.zeros((2, 2), np.float32))
    for t, s in (k.descriptors or {}).items():
        for im in s:
            kf.image_descriptors_to_file(kf.get_descriptors_fullpath(t, root, im), np.zeros((2, 4), np.float32))
    for t, s in (k.global_features or {}).items():
        for im in s:
            kf.image_global_features_to_file(kf.get_global_features_fullpath(t, root, im), np.zeros((1, 4), np.float32))
    for t, s in (k.matches or {}).items():
        os.makedirs(kf.get_matches_fullpath(None, t, root), exist_ok=True)
        for p in s:
            kf.image_matches_to_file(kf.get_matches_fullpath(p, t, root), np.zeros((1, 3), np.float64))
    # --- edits
    for fkey in inj.get('clear_rows', []):
        fp = os.path.join(root, TXT[fkey])
        if os.path.exists(fp):
            head = [ln for ln in open(fp, encoding='utf-8').read().split('\n') if ln.startswith('#')]
            with open(fp, 'w', encoding='utf-8') as f:
                f.write('\n'.join(head) + '\n')
    for fkey, items in inj['rows'].items():
        _insert_rows(os.path.join(root, TXT[fkey]), items)
    for fk, t, im in inj['add_files']:
        _write_bytes(_feature_file(root, fk, t, im))
    for fk, t, im in inj['del_files']:
        p = _feature_file(root, fk, t, im)
        if os.path.exists(p):
            os.remove(p)
    for t, a, b in inj['add_matches']:
        _write_bytes(kf.get_matches_fullpath((a, b), t, root), b'\x00' * 24)
    for rel in inj['del_paths']:
        p = os.path.join(root, rel)
        if os.path.isdir(p):
            shutil.rmtree(p)
        elif os.path.exists(p):
            os.remove(p)
    # --- symbolic links (folder storage only): files first, then whole sub-folders
    if case['mode'] == 'dir':
        store = os.path.join(root, 'linked_store')
        outside = os.path.join(os.path.dirname(root), 'outside')
        for n, (fk, t, im, how) in enumerate(inj.get('link_files', [])):
            p = _feature_file(root, fk, t, im)
            if not os.path.isdir(os.path.join(root, 'reconstruction', fk, t)):
                continue
            if how == 'live':
                if os.path.isfile(p) and not os.path.islink(p):
                    target = os.path.join(store, 'files', f'{n}.bin')
                    os.makedirs(os.path.dirname(target), exist_ok=True)
                    shutil.move(p, target)
                    os.symlink(target, p)
            else:
                if os.path.lexists(p):
                    os.remove(p)
                os.makedirs(os.path.dirname(p), exist_ok=True)
                os.symlink(os.path.join(store, f'nonexistent_{n}'), p)
        for n, (t, a, b, how) in enumerate(inj.get('link_matches', [])):
            p = kf.get_matches_fullpath((a, b), t, root)
            if os.path.isdir(os.path.join(root, 'reconstruction', 'matches', t)):
                if os.path.lexists(p):
                    os.remove(p)
                os.makedirs(os.path.dirname(p), exist_ok=True)
                os.symlink(os.path.join(store, f'nonexistent_m{n}'), p)
        for n, (fk, t, sub, where) in enumerate(inj.get('link_dirs', [])):
            d = os.path.join(root, 'reconstruction', fk, t, sub)
            if os.path.isdir(d) and not os.path.islink(d):
                target = os.path.join(store if where == 'inside' else outside, 'dirs', f'{n}_{fk}_{t}')
                os.makedirs(os.path.dirname(target), exist_ok=True)
                shutil.move(d, target)
                os.symlink(target, d)
    # --- version line of sensors.txt
    sp = os.path.join(root, TXT['sensors'])
    if os.path.exists(sp):
        lines = open(sp, encoding='utf-8').read().split('\n')
        if case['ver'] is None:
            lines = lines[1:]
        else:
            lines[0] = case['ver']
        with open(sp, 'w', encoding='utf-8') as f:
            f.write('\n'.join(lines))
    # --- tar packing of every feature / matches type folder
    if case['mode'] in ('tar', 'tar-nohandler'):
        for fk in FKINDS + ['matches']:
            d = os.path.join(root, 'reconstruction', fk)
            if not os.path.isdir(d):
                continue
            for t in sorted(os.listdir(d)):
                td = os.path.join(d, t)
                if not os.path.isdir(td):
                    continue
                files = []
                for dp, _, fs in os.walk(td):
                    for fn in fs:
                        if fn.endswith(FEXT[fk]):
                            files.append(os.path.relpath(os.path.join(dp, fn), td))
                with tarfile.open(os.path.join(td, fk + '.tar'), 'w') as tf:
                    for fn in sorted(files):
                        tf.add(os.path.join(td, fn), arcname=fn.replace(os.sep, '/'))
                for fn in files:
                    os.remove(os.path.join(td, fn))
    pairs_path = None
    if case['pairs'] is not None:
        pairs_path = os.path.join(os.path.dirname(root), 'pairs.txt')
        with open(pairs_path, 'w', encoding='utf-8') as f:
            f.write('# query, map, score\n')
            for a, b in case['pairs']:
                f.write(f'{a}, {b}, 0.5\n')
    return pairs_path


# ---------------------------------------------------------------------------------------------- the harness reader
_VER = re.compile(r'# kapture format\:\s*(\d+\.\d+)')


def _rows(path):
    out = []
    for line in open(path, encoding='utf-8').read().split('\n'):
        line = line.rstrip('\r')
        if not line.strip() or line.startswith('#'):
            continue
        out.append([f.strip() for f in line.split(',')])
    return out


def _listing(td, fk, use_tar, candidates=None):
    """Names (without extension) of the data files of one type folder, as the loader can see them.
    Tar with a handler: the regular members.  Folder, per-image kinds (candidates given): the image names i for which
    os.path.exists(<folder>/<i><ext>) holds, i.e. symbolic links are followed and a link that leads nowhere is not
    a data file; candidates = every name found by a link-following walk + every image name of records_camera.txt.
    Matches: the same, candidates = the names found by the link-following walk."""
    ext = FEXT[fk]
    names = []
    tarp = os.path.join(td, fk + '.tar')
    if use_tar and os.path.isfile(tarp):
        with tarfile.open(tarp) as tf:
            names = sorted({m.name for m in tf.getmembers() if m.isfile()})
        return sorted(n[:-len(ext)] for n in names if n.endswith(ext))
    cand = set(candidates or [])
    for dp, _, fs in os.walk(td, followlinks=True):
        for fn in fs:
            n = os.path.relpath(os.path.join(dp, fn), td).replace(os.sep, '/')
            if n.endswith(ext):
                cand.add(n[:-len(ext)])
    return sorted(i for i in cand if i and os.path.exists(os.path.join(td, i + ext)))


def scan(root, case):
    use_tar = case['mode'] == 'tar'
    raw = {'has_sensors': False, 'version': None, 'sensors': [], 'rigs': None, 'traj': None, 'records': {},
           'feat': {}, 'matches': None, 'pairs': case['pairs'], 'points': None, 'obs': None}
    sp = os.path.join(root, TXT['sensors'])
    if os.path.isfile(sp):
        raw['has_sensors'] = True
        first = open(sp, encoding='utf-8').readline()
        m = _VER.search(first)
        raw['version'] = m.group(1) if m else None
        raw['sensors'] = [[f[0], f[2]] for f in _rows(sp)]
    p = os.path.join(root, TXT['rigs'])
    if os.path.exists(p):
        raw['rigs'] = [[f[0], f[1]] for f in _rows(p)]
    p = os.path.join(root, TXT['traj'])
    if os.path.exists(p):
        raw['traj'] = [[int(f[0]), f[1]] for f in _rows(p)]
    for kd in RKINDS:
        p = os.path.join(root, TXT['records_' + kd])
        if os.path.exists(p):
            raw['records'][kd] = [[int(f[0]), f[1], f[2] if kd in HAS_EXTRA else ''] for f in _rows(p)]
    for fk in FKINDS:
        d = os.path.join(root, 'reconstruction', fk)
        if os.path.exists(d):
            raw['feat'][fk] = {}
            for t in sorted(os.listdir(d)):
                if os.path.isfile(os.path.join(d, t, fk + '.txt')):
                    raw['feat'][fk][t] = _listing(os.path.join(d, t), fk, use_tar,
                                                  [r[2] for r in raw['records'].get('camera', [])])
    d = os.path.join(root, 'reconstruction', 'matches')
    if os.path.exists(d):
        raw['matches'] = {}
        for t in sorted(os.listdir(d)):
            if os.path.isdir(os.path.join(d, t)):
                ps = []
                for n in _listing(os.path.join(d, t), 'matches', use_tar):
                    cut = n.split('.overlapping/')
                    if len(cut) == 2:
                        ps.append(cut)
                raw['matches'][t] = ps
    p = os.path.join(root, TXT['points'])
    if os.path.exists(p):
        raw['points'] = len(_rows(p))
    p = os.path.join(root, TXT['obs'])
    if os.path.exists(p):
        obs = []
        for f in _rows(p):
            rest = f[2:]
            if len(rest) > 1:
                for im, idx in zip(rest[0::2], rest[1::2]):
                    obs.append([int(f[0]), f[1], im, int(idx)])
        raw['obs'] = obs
    return raw


def canon(k):
    out = {'version': k.format_version, 'sensors': sorted([sid, s.sensor_type] for sid, s in k.sensors.items())}
    out['rigs'] = None if k.rigs is None else {'ids': sorted(k.rigs.keys()),
                                               'pairs': sorted([r, m] for r, ms in k.rigs.items() for m in ms)}
    out['traj'] = None if k.trajectories is None else sorted([ts, d] for ts, d in k.trajectories.key_pairs())
    out['records'] = {}
    for kd in RKINDS:
        rec = getattr(k, 'records_' + kd)
        if rec is None:
            out['records'][kd] = None
            continue
        rows = []
        for ts, sid in rec.key_pairs():
            v = rec[ts, sid]
            if kd in ('camera', 'depth', 'lidar'):
                rows.append([ts, sid, v])
            elif kd in SUBKEYED:
                rows.extend([ts, sid, sub] for sub in v.keys())
            else:
                rows.append([ts, sid, ''])
        out['records'][kd] = sorted(rows)
    out['feat'] = {}
    for fk in FKINDS:
        f = getattr(k, fk)
        out['feat'][fk] = None if f is None else {t: sorted(s) for t, s in f.items()}
    out['matches'] = None if k.matches is None else {t: sorted([a, b] for a, b in s) for t, s in k.matches.items()}
    out['points'] = None if k.points3d is None else int(len(k.points3d))
    out['obs'] = None if k.observations is None else sorted(
        [p, t, im, idx] for p, t in k.observations.key_pairs() for im, idx in k.observations[p, t])
    return out


def run_impl(case, ctx):
    import logging
    import warnings
    import kapture.io.csv as kcsv
    work = os.path.join(ctx['tmp'], 'c')
    shutil.rmtree(work, ignore_errors=True)
    os.makedirs(work)
    root = os.path.join(work, 'data')
    logging.disable(logging.CRITICAL)
    try:
        with warnings.catch_warnings():
            warnings.simplefilter('ignore')
            pairs_path = build_dir(case, root)
            raw = scan(root, case)
            exc, loaded = None, None
            try:
                kw = {}
                if case.get('skip'):          # a fresh list each time; left out (the default) when nothing is skipped
                    import kapture
                    kw['skip_list'] = [getattr(kapture, n) for n in case['skip']]
                if case['mode'] == 'tar':
                    with kcsv.get_all_tar_handlers(root) as th:
                        k = kcsv.kapture_from_dir(root, pairs_path, tar_handlers=th, **kw)
                else:
                    k = kcsv.kapture_from_dir(root, pairs_path, **kw)
                loaded = canon(k)
            except Exception as e:      # the implementation's exceptions are observed outcomes
                exc = {'cls': type(e).__name__, 'msg': str(e)[:200]}
    finally:
        logging.disable(logging.NOTSET)
        shutil.rmtree(work, ignore_errors=True)
    return {'raw': raw, 'exc': exc, 'loaded': loaded}


# ---------------------------------------------------------------------------------------------- oracle
def _version_class(v):
    """'current' | 'newer' | 'older' when every reasonable order agrees, else 'undetermined'."""
    if v is None or not re.fullmatch(r'[0-9]+\.[0-9]+', v):
        return 'undetermined'
    if v == '1.1':
        return 'current'
    a, b = v.split('.')
    tup = (int(a), int(b))
    dec = Decimal(v)
    eps = Decimal('1e-12')      # closer than that to 1.1 the binary64 comparison of the loader cannot tell them apart
    if dec > Decimal('1.1') + eps and tup > (1, 1):
        return 'newer'
    if dec < Decimal('1.1') - eps and tup < (1, 1):
        return 'older'
    return 'undetermined'


def _last_wins(rows, keyf):
    d = {}
    for r in rows:
        d[keyf(r)] = r
    return d


def _apply_skip(raw, skip):
    """The directory as the loader was asked to see it: the parts named in skip_list are not to be loaded."""
    if not skip:
        return raw
    s = set(skip)
    out = dict(raw)
    out['records'] = {kd: v for kd, v in raw['records'].items() if REC_CLASS[kd] not in s}
    out['feat'] = {fk: v for fk, v in raw['feat'].items() if FEAT_CLASS[fk] not in s}
    for name, key in (('Rigs', 'rigs'), ('Trajectories', 'traj'), ('Matches', 'matches'), ('Points3d', 'points'),
                      ('Observations', 'obs')):
        if name in s:
            out[key] = None
    return out


def oracle(case, obs):
    """Closure + completeness stated on the loaded object versus the raw directory contents.
    With a skip list: closure is judged against the real directory (data files), completeness and the refusals
    against the parts that were to be loaded; whether a skipped part is absent is not the business of the statement
    (the correspondence with the model compares it)."""
    full, L, exc = obs['raw'], obs['loaded'], obs['exc']
    raw = _apply_skip(full, case.get('skip') or [])
    vc = _version_class(raw['version'])
    decl = {}
    for sid, kind in raw['sensors']:
        decl[sid] = kind
    collision = raw['rigs'] is not None and any(r in decl for r, _ in raw['rigs'])
    feat_dirs = bool(raw['feat']) or raw['matches'] is not None
    unjudged_refusal = (not raw['has_sensors'] or raw['version'] is None or vc == 'undetermined'
                        or (vc in ('current', 'undetermined') and feat_dirs and 'camera' not in raw['records'])
                        or (vc in ('current', 'undetermined') and raw['obs'] is not None
                            and (not raw['feat'].get('keypoints') or raw['points'] is None)))
    if vc == 'newer':
        return None if exc else 'a directory declaring a newer version was loaded'
    if collision and raw['has_sensors'] and raw['version'] is not None:
        return None if exc else 'a rig id colliding with a sensor id was accepted'
    if exc:
        if unjudged_refusal:
            return None
        return f'load refused although nothing demands it: {exc["cls"]}'
    # ---- loaded: closure
    sens = dict((s, k) for s, k in L['sensors'])
    if sens != decl:
        return 'loaded sensors differ from the declared sensors'
    rig_ids = set(L['rigs']['ids']) if L['rigs'] else set()
    if rig_ids & set(sens):
        return 'a loaded rig id collides with a sensor id'
    for kd in RKINDS:
        for ts, sid, _ in (L['records'][kd] or []):
            if sens.get(sid) != kd:
                return f'dangling: records_{kd} entry refers to {sid!r} which is not a declared {kd} sensor'
    for ts, dev in (L['traj'] or []):
        if dev not in sens and dev not in rig_ids:
            return f'dangling: trajectory entry refers to unknown device {dev!r}'
    for r, m in (L['rigs']['pairs'] if L['rigs'] else []):
        if r not in rig_ids or (m not in sens and m not in rig_ids):
            return f'dangling: rig member {m!r} of {r!r} is neither a sensor nor a rig'
    images = set(x for _, _, x in (L['records']['camera'] or []))
    for fk in FKINDS:
        for t, ims in (L['feat'][fk] or {}).items():
            have = set((full['feat'].get(fk) or {}).get(t, []))
            for im in ims:
                if im not in images:
                    return f'dangling: {fk}/{t} entry for unknown image {im!r}'
                if im not in have:
                    return f'dangling: {fk}/{t} entry {im!r} without a data file'
    for t, ps in (L['matches'] or {}).items():
        have = set(map(tuple, (full['matches'] or {}).get(t, [])))
        for a, b in ps:
            if a not in images or b not in images:
                return f'dangling: matches/{t} pair with unknown image'
            if (a, b) not in have:
                return f'dangling: matches/{t} pair without a matches file'
    kps = L['feat']['keypoints'] or {}
    for p, t, im, idx in (L['obs'] or []):
        if t not in kps or im not in kps[t]:
            return f'dangling: observation on {t!r}/{im!r} which has no loaded keypoints'
    # ---- loaded: version clauses
    if vc == 'older':
        if any(L['feat'][fk] is not None for fk in FKINDS) or L['matches'] is not None or L['points'] is not None \
                or L['obs'] is not None:
            return 'an older version loaded part of the reconstruction'
    # ---- loaded: completeness (sensors side, all versions)
    raw_rig_ids = set(r for r, _ in (raw['rigs'] or []))
    if raw['rigs'] is not None:
        if L['rigs'] is None or not raw_rig_ids <= rig_ids:
            return 'dropped: a declared rig is missing'
        got = set(map(tuple, L['rigs']['pairs']))
        for r, m in raw['rigs']:
            if (m in decl or m in raw_rig_ids) and (r, m) not in got:
                return f'dropped: rig member {m!r} of {r!r} resolves but is missing'
    if raw['traj'] is not None:
        got = set(map(tuple, L['traj'] or []))
        if L['traj'] is None:
            return 'dropped: trajectories missing'
        for ts, dev in raw['traj']:
            if (dev in decl or dev in raw_rig_ids) and (ts, dev) not in got:
                return f'dropped: trajectory entry ({ts}, {dev!r}) resolves but is missing'
    for kd, rows in raw['records'].items():
        ok = [r for r in rows if decl.get(r[1]) == kd]
        if L['records'][kd] is None:
            if ok:
                return f'dropped: records_{kd} missing although entries resolve'
            continue
        got = set(map(tuple, L['records'][kd]))
        keyf = (lambda r: (r[0], r[1], r[2])) if kd in SUBKEYED else (lambda r: (r[0], r[1]))
        for r in _last_wins(ok, keyf).values():
            if tuple(r) not in got:
                return f'dropped: records_{kd} entry {tuple(r)!r} resolves but is missing'
    if vc != 'current':
        return None
    # ---- loaded: completeness (reconstruction, current version)
    for fk in FKINDS:
        for t, have in (raw['feat'].get(fk) or {}).items():
            got = (L['feat'][fk] or {}).get(t)
            if got is None:
                return f'dropped: {fk}/{t} missing'
            for im in have:
                if im in images and im not in got:
                    return f'dropped: {fk}/{t} entry {im!r} has a known image and a data file but is missing'
    allowed = None
    if raw['pairs'] is not None:
        allowed = set((a, b) if a < b else (b, a) for a, b in raw['pairs'])
    for t, have in (raw['matches'] or {}).items():
        got = (L['matches'] or {}).get(t)
        if got is None:
            return f'dropped: matches/{t} missing'
        got = set(map(tuple, got))
        for a, b in have:
            if a in images and b in images and (allowed is None or (a, b) in allowed) and (a, b) not in got:
                return f'dropped: matches/{t} pair ({a!r}, {b!r}) resolves but is missing'
    if raw['points'] is not None and L['points'] != raw['points']:
        return 'dropped: number of loaded 3-D points differs'
    if raw['obs'] is not None:
        if L['obs'] is None:
            return 'dropped: observations missing'
        want = sorted(o for o in raw['obs'] if o[1] in kps and o[2] in kps[o[1]])
        if want != sorted(L['obs']):
            return 'dropped: an observation whose keypoints type and image are loaded is missing (or one was invented)'
    return None


# ---------------------------------------------------------------------------------------------- Coq encoding
def _cs(s):
    return kv.cstr(s)


def _row(r):
    return kv.cpair(kv.cz(r[0]), _cs(r[1]), _cs(r[2]))


def _obsrow(o):
    return kv.cpair(kv.cz(o[0]), _cs(o[1]), _cs(o[2]), kv.cz(o[3]))


def _pairs(ps):
    return kv.clist(kv.cpair(_cs(a), _cs(b)) for a, b in ps)


def _ftable(tb):
    return kv.clist(kv.cpair(_cs(t), kv.clist(_cs(i) for i in ims)) for t, ims in sorted(tb.items()))


def _mtable(tb):
    return kv.clist(kv.cpair(_cs(t), _pairs(ps)) for t, ps in sorted(tb.items()))


def _recfun(records):
    arms = ' | '.join(f'{RCTOR[kd]} => ' + kv.copt(None if records.get(kd) is None else kv.clist(_row(r) for r in records[kd]))
                      for kd in RKINDS)
    return f'(fun k => match k with {arms} end)'


def _featfun(feat):
    arms = ' | '.join(f'{FCTOR[fk]} => ' + kv.copt(None if feat.get(fk) is None else _ftable(feat[fk])) for fk in FKINDS)
    return f'(fun k => match k with {arms} end)'


def _enc_raw(raw):
    return ('{| r_has_sensors := %s; r_version := %s; r_sensors := %s; r_rigs := %s; r_traj := %s; r_records := %s; '
            'r_feat := %s; r_matches := %s; r_pairs := %s; r_points := %s; r_obs := %s |}' % (
                kv.cbool(raw['has_sensors']), kv.copt(None if raw['version'] is None else _cs(raw['version'])),
                _pairs(raw['sensors']),
                kv.copt(None if raw['rigs'] is None else _pairs(raw['rigs'])),
                kv.copt(None if raw['traj'] is None else kv.clist(kv.cpair(kv.cz(t), _cs(d)) for t, d in raw['traj'])),
                _recfun(raw['records']), _featfun(raw['feat']),
                kv.copt(None if raw['matches'] is None else _mtable(raw['matches'])),
                kv.copt(None if raw['pairs'] is None else _pairs(raw['pairs'])),
                kv.copt(None if raw['points'] is None else kv.cn(raw['points'])),
                kv.copt(None if raw['obs'] is None else kv.clist(_obsrow(o) for o in raw['obs']))))


def _enc_data(L):
    if L is None:
        L = {'version': '', 'sensors': [], 'rigs': None, 'traj': None, 'records': {}, 'feat': {}, 'matches': None,
             'points': None, 'obs': None}
    rigs = None
    if L['rigs'] is not None:
        rigs = kv.cpair(kv.clist(_cs(x) for x in L['rigs']['ids']), _pairs(L['rigs']['pairs']))
    return ('{| d_version := %s; d_sensors := %s; d_rigs := %s; d_traj := %s; d_records := %s; d_feat := %s; '
            'd_matches := %s; d_points := %s; d_obs := %s |}' % (
                _cs(L['version'] if L['version'] is not None else ''), _pairs(L['sensors']), kv.copt(rigs),
                kv.copt(None if L['traj'] is None else kv.clist(kv.cpair(kv.cz(t), _cs(d)) for t, d in L['traj'])),
                _recfun(L['records']), _featfun(L['feat']),
                kv.copt(None if L['matches'] is None else _mtable(L['matches'])),
                kv.copt(None if L['points'] is None else kv.cn(L['points'])),
                kv.copt(None if L['obs'] is None else kv.clist(_obsrow(o) for o in L['obs']))))


def _enc_skip(skip):
    s = set(skip or [])
    rec = ' | '.join(f'{RCTOR[kd]} => {kv.cbool(REC_CLASS[kd] in s)}' for kd in RKINDS)
    feat = ' | '.join(f'{FCTOR[fk]} => {kv.cbool(FEAT_CLASS[fk] in s)}' for fk in FKINDS)
    return ('{| sk_rigs := %s; sk_traj := %s; sk_rec := (fun k => match k with %s end); '
            'sk_feat := (fun k => match k with %s end); sk_matches := %s; sk_points := %s; sk_obs := %s |}' % (
                kv.cbool('Rigs' in s), kv.cbool('Trajectories' in s), rec, feat, kv.cbool('Matches' in s),
                kv.cbool('Points3d' in s), kv.cbool('Observations' in s)))


def encode(case, obs):
    exc = None if obs['exc'] is None else _cs(obs['exc']['cls'])
    return '{| c_raw := %s; c_skip := %s; o_exc := %s; o_data := %s |}' % (
        _enc_raw(obs['raw']), _enc_skip(case.get('skip')), kv.copt(exc), _enc_data(obs['loaded']))


# ---------------------------------------------------------------------------------------------- evidence helpers
def _counts(obs):
    raw, L = obs['raw'], obs['loaded']
    n_raw = len(raw['rigs'] or []) + len(raw['traj'] or []) + sum(len(v) for v in raw['records'].values()) + \
        sum(len(i) for tb in raw['feat'].values() for i in tb.values()) + \
        sum(len(i) for i in (raw['matches'] or {}).values()) + len(raw['obs'] or [])
    if L is None:
        return n_raw, None
    n_l = len(L['rigs']['pairs'] if L['rigs'] else []) + len(L['traj'] or []) + \
        sum(len(v or []) for v in L['records'].values()) + \
        sum(len(i) for tb in L['feat'].values() if tb for i in tb.values()) + \
        sum(len(i) for i in (L['matches'] or {}).values()) + len(L['obs'] or [])
    return n_raw, n_l


def nontrivial(case, obs):
    n_raw, n_l = _counts(obs)
    return n_l is None or n_l < n_raw


def classify(case, obs):
    n_raw, n_l = _counts(obs)
    out = obs['exc']['cls'] if obs['exc'] else ('all-kept' if n_l == n_raw else 'dropped-some')
    nskip = len(set(case.get('skip') or []))
    sk = '' if not nskip else f'/skip={nskip if nskip < 3 else "3+"}'
    return f'{case["mode"]}/v={_version_class(obs["raw"]["version"])}/inj={min(len(case["classes"]), 4)}{sk}/{out}'


def describe(case, obs):
    n_raw, n_l = _counts(obs)
    return {'version_line': case['ver'], 'mode': case['mode'], 'classes': case['classes'],
            'pairs_file': case['pairs'] is not None, 'deleted': case['inj']['del_paths'], 'skip_list': case.get('skip') or [],
            'raw_entries': n_raw, 'loaded_entries': n_l, 'exception': obs['exc'],
            'raw_rigs': obs['raw']['rigs'], 'loaded_rigs': (obs['loaded'] or {}).get('rigs')}


def shrink(case):
    import copy
    inj = case['inj']
    for fkey in list(inj['rows']):
        for i in range(len(inj['rows'][fkey])):
            c = copy.deepcopy(case)
            del c['inj']['rows'][fkey][i]
            if not c['inj']['rows'][fkey]:
                del c['inj']['rows'][fkey]
            yield c
    for key in ('add_files', 'del_files', 'add_matches', 'del_paths', 'link_files', 'link_dirs', 'link_matches'):
        for i in range(len(inj.get(key, []))):
            c = copy.deepcopy(case)
            del c['inj'][key][i]
            yield c
    if case['pairs'] is not None:
        c = copy.deepcopy(case)
        c['pairs'] = None
        yield c
    for i in range(len(case.get('skip') or [])):
        c = copy.deepcopy(case)
        del c['skip'][i]
        yield c
    if case['mode'] != 'dir':
        c = copy.deepcopy(case)
        c['mode'] = 'dir'
        yield c
    base = case['base']
    for part in ('obs', 'matches', 'traj', 'rigs'):
        if base[part]:
            c = copy.deepcopy(case)
            c['base'][part] = None if part != 'obs' else []
            yield c
    for fk in list(base['feat']):
        if fk != 'keypoints' or not base['obs']:
            c = copy.deepcopy(case)
            del c['base']['feat'][fk]
            yield c
    for kd in list(base['records']):
        if kd != 'camera':
            c = copy.deepcopy(case)
            del c['base']['records'][kd]
            yield c
