"""C05 — poses form a rigid-transform group: compose, inverse and point transform agree.
Implementation under test: kapture.PoseTransform.compose / inverse / transform_points
(kapture/core/PoseTransform.py, including _as_rotation_matrix_njit with its two branches)."""
import math

import numpy as np

import kv

ID = 'C05'
COQ_MODELS = ['MQV', 'MPose', 'MPoseMemo']
COQ_HEADER = 'From Coq Require Import Uint63.\nFrom KV.Model Require Import MQV MPose.'
CASE_TYPE = 'MPose.case'
CHECK_FN = 'MPose.check_case'
SHARD_SIZE = 12
CASE_TIMEOUT = 60
RULE = ('one case = a chain of 1..6 poses (quaternion class: unit / scaled 1e-3..1e3 / within 1e-15..3e-2 of unit norm '
        '(both sides of the 1e-14 branch threshold) / near-180-degree / axis-aligned / small integers; translation class: '
        'zero / small / moderate / up to 1e6 / mixed magnitudes / integers) plus an Nx3 or Nx6 point array (N=0..8). '
        'On it the real code is called: compose(chain), compose of both halves at chosen split points and of the two '
        'results, inverse of poses and of the composition, compose([p,inv]), compose([inv,p]), inverse(inverse), '
        'transform_points by the composition and successively, and back by the inverse; operands are snapshotted '
        '(bit level) around every call; every pose of the chain is also applied and inverted on its own, in chain order. '
        'A nearby stream makes chains whose rotations are close to each other but not equal (slow turn, refined copy, '
        'revisited rotation, slightly rescaled quaternion; steps 1e-9..1e-3), so that a result depending on the arguments '
        'of an earlier call shows. Every call with its float result is one model-vs-code comparison inside Coq. '
        'A separate malformed stream (r/t None, zero quaternion, empty chain, 4-column points) checks only the modelled '
        'outcome. Non-trivial = valid chain of length >= 2 or with >= 2 points; distinct = distinct input bits.')
TRUSTED = ['harness/tables/pose.py: the ast scan of kapture/core/PoseTransform.py that lists instance attributes and mutable '
           'module-level state (premises of the history models, theorem C05_source_keeps_no_state)',
           'numpy-quaternion product and inverse() are modelled as the Hamilton product and conj(q)/|q|^2 '
           '(checked by the correspondence on every call, not assumed by the theorems)',
           'IEEE-754 rounding of the implementation is outside the model: inputs enter Coq as the exact rationals of the '
           'doubles, and results are compared with the relative tolerance 1e-9 stated by the property']
ASSUMPTIONS = ['quaternions have non-negligible norm (1e-3..1e3 per pose, so squared norms of 6-chains stay within '
               '1e-36..1e36) and translations / points are finite and at most 1e6 in magnitude, as the property quantifies',
               'poses with r or t None, the zero quaternion and arrays with a column count other than 3 or 6 are outside the '
               'property: their modelled outcome (exception / NaN result) is compared, the oracle does not judge them',
               'relative tolerance 1e-9 is taken relative to the magnitude of the data entering a result: rotation matrix '
               'entries absolutely (they are <= 1), translations relative to the sum of the |t|_inf of the poses involved, '
               'points relative to |x|_inf + |t|_inf']
EXHAUSTIVE = {'quick': False, 'thorough': False}
TOL = 1e-9


# ------------------------------------------------------------------------------------------ generator
def _unit(rng):
    while True:
        v = [rng.gauss(0, 1) for _ in range(4)]
        n = math.sqrt(sum(x * x for x in v))
        if n > 1e-3:
            return [x / n for x in v]


def _axis(rng):
    while True:
        v = [rng.gauss(0, 1) for _ in range(3)]
        n = math.sqrt(sum(x * x for x in v))
        if n > 1e-3:
            return [x / n for x in v]


_AXIS_ALIGNED = [[1, 0, 0, 0], [0, 1, 0, 0], [0, 0, 1, 0], [0, 0, 0, 1], [-1, 0, 0, 0], [0, 0, -1, 0],
                 [1, 1, 0, 0], [1, 0, 1, 0], [1, 0, 0, 1], [1, -1, 0, 0], [1, 0, -1, 0], [1, 0, 0, -1],
                 [0, 1, 1, 0], [0, 1, 0, 1], [0, 0, 1, 1], [0, 1, -1, 0], [1, 1, 1, 1], [1, -1, 1, -1],
                 [0, 0, 2, 0], [3, 0, 0, 0], [0, 0.5, 0, 0]]
_S2 = math.sqrt(0.5)
_AXIS_UNIT = [[_S2, _S2, 0, 0], [_S2, 0, _S2, 0], [_S2, 0, 0, _S2], [_S2, -_S2, 0, 0], [0, _S2, _S2, 0],
              [0.5, 0.5, 0.5, 0.5], [0.5, -0.5, 0.5, -0.5], [0, 0, _S2, -_S2]]
QCLASSES = ['unit', 'scaled', 'nearunit', 'near180', 'axis', 'int']


def gen_quat(rng, cls):
    if cls == 'unit':
        return _unit(rng)
    if cls == 'scaled':
        s = 10 ** rng.uniform(-3, 3)
        return [x * s for x in _unit(rng)]
    if cls == 'nearunit':     # both sides of the branch threshold abs(q_norm - 1) < 1e-14 (q_norm ~ 1 + 2 eps)
        eps = rng.choice([1e-16, 2e-15, 4e-15, 6e-15, 1e-14, 1e-13, 1e-11, 1e-9, 1e-7, 1e-5, 1e-3, 1e-2, 3e-2])
        s = 1 + rng.choice([-1, 1]) * eps
        return [x * s for x in _unit(rng)]
    if cls == 'near180':
        d = rng.choice([0.0, 1e-15, 1e-12, 1e-8, 1e-5, 1e-3]) * rng.choice([-1, 1])
        th = math.pi + d
        a = _axis(rng)
        s = rng.choice([1.0, 1.0, 10 ** rng.uniform(-3, 3)])
        return [s * math.cos(th / 2)] + [s * math.sin(th / 2) * x for x in a]
    if cls == 'axis':
        q = list(rng.choice(_AXIS_ALIGNED + _AXIS_UNIT))
        return [float(x) for x in q]
    if cls == 'int':
        while True:
            q = [float(rng.randint(-3, 3)) for _ in range(4)]
            if any(q):
                return q
    raise ValueError(cls)


TCLASSES = ['zero', 'small', 'moderate', 'large', 'mixed', 'int', 'axis']


def gen_trans(rng, cls):
    if cls == 'zero':
        return [0.0, 0.0, 0.0]
    if cls == 'small':
        return [rng.uniform(-1, 1) for _ in range(3)]
    if cls == 'moderate':
        return [rng.uniform(-100, 100) for _ in range(3)]
    if cls == 'large':
        return [rng.uniform(-1e6, 1e6) for _ in range(3)]
    if cls == 'mixed':
        return [rng.choice([-1, 1]) * 10 ** rng.uniform(-6, 6) for _ in range(3)]
    if cls == 'int':
        return [float(rng.randint(-20, 20)) for _ in range(3)]
    if cls == 'axis':
        t = [0.0, 0.0, 0.0]
        t[rng.randrange(3)] = rng.choice([-1, 1]) * rng.choice([1.0, 1e3, 1e6, 0.25])
        return t
    raise ValueError(cls)


PDTYPES = ['float64', 'float64', 'float64', 'float32', 'float32', 'int32', 'int64', 'uint8', 'int16', 'float16']
PLAYOUTS = ['C', 'C', 'C', 'F', 'strided', 'reversed']
_INT_RANGE = {'int32': 10 ** 6, 'int64': 10 ** 6, 'int16': 30000, 'uint8': 255}


def gen_points(rng, n, ncols, mag, dtype='float64'):
    """Rows whose every value is exactly representable in `dtype` (so that the array handed to the code holds
    exactly these numbers and the exact rational result is well defined)."""
    pts = []
    for _ in range(n):
        if dtype in _INT_RANGE:
            hi = int(min(_INT_RANGE[dtype], max(1, mag)))
            lo = 0 if dtype == 'uint8' else -hi
            row = [float(rng.randint(lo, hi)) for _ in range(3)]
        else:
            m = min(mag, 1e3) if dtype == 'float16' else mag
            row = [float(np.dtype(dtype).type(rng.uniform(-m, m))) for _ in range(3)]
        if ncols == 6:
            row += [float(rng.randint(0, 255)) for _ in range(3)]
        pts.append(row)
    return pts


SCALES = [2.5, 0.1, -3.0, 1000.0, 0.001, 1.0, 7, 0.0, -1.0]


def gen_program(rng, n, kind='valid'):
    """A program on the SAME PoseTransform objects.  Handles 0..n-1 are fresh copies of the case's poses, n is
    PoseTransform() and n+1 is PoseTransform([1,0,0,0],[0,0,0]) (exact identities); every inverse / compose appends
    its result as a new handle.  'laws' re-checks the group laws on an object as it is at that moment."""
    prog, size = [], n + 2
    id1, id2 = n, n + 1

    def pick():
        return rng.randrange(size)

    def pick_pose():
        return rng.randrange(n)
    template = rng.choice(['inv_rescale', 'rescale_inverse', 'random', 'identity_chain', 'identity_chain', 'traj'])
    if n == 0:
        return []
    if template == 'inv_rescale':          # invert, rescale the pose, invert again
        i = pick_pose()
        prog += [['inverse', i], ['rescale', i, rng.choice(SCALES)], ['laws', i], ['inverse', i]]
        size += 2
    elif template == 'rescale_inverse':    # invert, rescale the INVERSE in place, invert it back (kapture_import_4seasons)
        i = pick_pose()
        prog += [['inverse', i], ['rescale', size, rng.choice(SCALES)], ['laws', size], ['inverse', size], ['laws', i]]
        size += 2
    elif template == 'traj':               # the same through Trajectories.inverse / trajectory_rescale_inplace
        prog += [['traj', rng.choice([s for s in SCALES if s != 0.0])]]
        size += 2 * n
        prog += [['laws', pick()]]
    elif template == 'identity_chain':     # chains with exact identity members at every position; then the RESULT is
        for _ in range(rng.choice([1, 2, 3])):   # rescaled in place: no operand may change (results are fresh objects)
            a, b = pick_pose(), pick_pose()
            chain = rng.choice([[a, id1], [id2, a], [id1, a, id2], [id1, id2, a], [a, id1, id2], [a, id2, b], [id1, id2],
                                [id1, a, id2, b], [a], [id1]])
            prog += [['compose', chain], ['rescale', size, rng.choice([s for s in SCALES if s != 1.0])], ['laws', a]]
            size += 1
    for _ in range(rng.choice([1, 2, 3]) if template != 'random' else rng.choice([3, 4, 5, 6])):
        op = rng.choice(['inverse', 'inverse', 'rescale', 'rescale', 'compose', 'compose', 'laws', 'laws'])
        if size >= 11 and op in ('inverse', 'compose'):
            op = 'laws'
        if op == 'inverse':
            prog.append(['inverse', pick()])
            size += 1
        elif op == 'rescale':
            prog.append(['rescale', pick(), rng.choice(SCALES)])
        elif op == 'compose':
            prog.append(['compose', [pick() for _ in range(rng.choice([1, 2, 2, 3]))]])
            size += 1
            if rng.random() < 0.5:          # in-place operation on the result
                prog.append(['rescale', size - 1, rng.choice(SCALES)])
        else:
            prog.append(['laws', pick()])
    prog.append(['laws', pick_pose()])
    return prog


def _valid_case(rng, n=None, qcls=None, tcls=None):
    n = n or rng.choice([1, 2, 2, 3, 3, 4, 5, 6])
    qmode = qcls or rng.choice(QCLASSES + ['any', 'any'])
    tmode = tcls or rng.choice(TCLASSES + ['any', 'any'])
    poses, qc, tc = [], [], []
    for _ in range(n):
        a = rng.choice(QCLASSES) if qmode == 'any' else qmode
        b = rng.choice(TCLASSES) if tmode == 'any' else tmode
        poses.append({'r': gen_quat(rng, a), 't': gen_trans(rng, b)})
        qc.append(a)
        tc.append(b)
    npts = rng.choice([0, 1, 2, 3, 3, 5, 8])
    ncols = rng.choice([3, 3, 6])
    mag = rng.choice([1.0, 1e3, 1e6, 1e-2])
    splits = sorted(rng.sample(range(1, n), min(n - 1, 2))) if n > 1 else []
    inv_of = sorted(rng.sample(range(n), min(n, 2)))
    pdtype, playout = rng.choice(PDTYPES), rng.choice(PLAYOUTS)
    return {'kind': 'valid', 'direct_max': rng.choice([2, 2, 2, 3]), 'poses': poses,
            'points': gen_points(rng, npts, ncols, mag, pdtype), 'ncols': ncols, 'pdtype': pdtype, 'playout': playout,
            'splits': splits, 'inv_of': inv_of, 'qclass': qmode, 'tclass': tmode, 'program': gen_program(rng, n)}


def _qmul(a, b):
    return [a[0] * b[0] - a[1] * b[1] - a[2] * b[2] - a[3] * b[3],
            a[0] * b[1] + a[1] * b[0] + a[2] * b[3] - a[3] * b[2],
            a[0] * b[2] - a[1] * b[3] + a[2] * b[0] + a[3] * b[1],
            a[0] * b[3] + a[1] * b[2] - a[2] * b[1] + a[3] * b[0]]


NEARBY_KINDS = ['slow_turn', 'slow_turn', 'refined', 'revisit', 'scaled_copy', 'nearby_t']


def _nearby_case(rng, how=None):
    """Chains whose rotations are CLOSE TO EACH OTHER BUT NOT EQUAL (consecutive poses of a slowly turning device, a
    pose and its refined copy, a rotation revisited after another one, the same rotation at a slightly different
    quaternion scale), mixed with exact repetitions: every call must be a function of ITS OWN arguments, however
    similar the arguments of the previous calls were.  Steps 1e-9..1e-3 (rad, or relative per component)."""
    how = how or rng.choice(NEARBY_KINDS)
    n = rng.choice([2, 2, 3, 3, 4, 5, 6])
    base_cls = rng.choice(['unit', 'unit', 'scaled', 'axis', 'int', 'near180', 'nearunit'])
    base = gen_quat(rng, base_cls)
    step = 10 ** rng.uniform(-9, -3)
    qs = []
    if how == 'slow_turn':
        ax = _axis(rng)
        for k in range(n):
            h = step * k / 2
            qs.append(_qmul([math.cos(h)] + [math.sin(h) * v for v in ax], base))
    elif how == 'refined':
        m = max(abs(v) for v in base)
        qs = [base] + [[v + rng.uniform(-1, 1) * step * rng.choice([abs(v), m]) for v in base] for _ in range(n - 1)]
    elif how == 'revisit':
        ax, h = _axis(rng), step / 2
        near = _qmul([math.cos(h)] + [math.sin(h) * v for v in ax], base)
        other = gen_quat(rng, rng.choice(QCLASSES))
        qs = [list(rng.choice([base, near, near, other])) for _ in range(n)]
        qs[0], qs[1] = base, near
    elif how == 'scaled_copy':
        ks = [1 + rng.choice([-1, 1]) * step * rng.uniform(0.1, 1) for _ in range(n - 1)]
        qs = [base] + [[v * k for v in base] for k in ks]
    else:                                     # nearby_t: rotations as in slow_turn, translations nearly equal too
        ax = _axis(rng)
        for k in range(n):
            h = step * k / 2
            qs.append(_qmul([math.cos(h)] + [math.sin(h) * v for v in ax], base))
    tcls = rng.choice(['zero', 'small', 'small', 'moderate', 'int', 'axis', 'large'])
    ts = [gen_trans(rng, tcls) for _ in range(n)]
    if how == 'nearby_t':
        t0 = gen_trans(rng, rng.choice(['small', 'moderate', 'int']))
        ts = [[v * (1 + k * step) for v in t0] for k in range(n)]
    poses = [{'r': [float(v) for v in q], 't': t} for q, t in zip(qs, ts)]
    if rng.random() < 0.3:
        rng.shuffle(poses)
    npts = rng.choice([1, 2, 3, 3, 5])
    ncols = rng.choice([3, 3, 6])
    mag = rng.choice([1.0, 10.0, 1e3])
    splits = sorted(rng.sample(range(1, n), min(n - 1, 2)))
    inv_of = sorted(rng.sample(range(n), 2))
    # programs on live objects: the laws on one pose right after the laws on its neighbour
    prog = []
    order = list(range(n))
    rng.shuffle(order)
    for i in order[:3]:
        prog.append(['laws', i])
    if rng.random() < 0.5:
        i, j = order[0], order[1]
        prog += [['inverse', i], ['inverse', j], ['compose', [i, j]], ['compose', [j, i]], ['laws', j]]
    return {'kind': 'valid', 'direct_max': rng.choice([2, 2, 2, 3]), 'poses': poses,
            'points': gen_points(rng, npts, ncols, mag, 'float64'), 'ncols': ncols, 'pdtype': 'float64',
            'playout': rng.choice(['C', 'C', 'F']), 'splits': splits, 'inv_of': inv_of,
            'qclass': 'nearby-' + how, 'tclass': tcls if how != 'nearby_t' else 'nearby', 'program': prog}


def _malformed_case(rng):
    c = _valid_case(rng, n=rng.choice([1, 2, 3]))
    c['kind'] = 'malformed'
    how = rng.choice(['r_none', 't_none', 'zero_q', 'zero_q_last', 'empty', 'cols4', 'both_none'])
    c['how'] = how
    i = rng.randrange(len(c['poses']))
    if how == 'r_none':
        c['poses'][i]['r'] = None
    elif how == 't_none':
        c['poses'][i]['t'] = None
    elif how == 'both_none':
        c['poses'][i]['r'] = None
        c['poses'][i]['t'] = None
    elif how == 'zero_q':
        c['poses'][i]['r'] = [0.0, 0.0, 0.0, 0.0]
    elif how == 'zero_q_last':
        c['poses'][-1]['r'] = [0.0, 0.0, 0.0, 0.0]
    elif how == 'empty':
        c['poses'] = []
        c['splits'], c['inv_of'], c['program'] = [], [], []
    elif how == 'cols4':
        c['ncols'] = 4
        c['pdtype'], c['playout'] = 'float64', 'C'
        c['points'] = [[rng.uniform(-1, 1) for _ in range(4)] for _ in range(max(1, len(c['points'])))]
    return c


def gen_cases(rng, tier):
    cases = []
    # a fixed skeleton: every quaternion class x translation class at chain length 2, every length with mixed classes
    for qc in QCLASSES:
        for tc in TCLASSES:
            cases.append(_valid_case(rng, n=2, qcls=qc, tcls=tc))
    for n in range(1, 7):
        for _ in range(3):
            cases.append(_valid_case(rng, n=n, qcls='any', tcls='any'))
    if tier == 'thorough':    # every ordered pair of the axis-aligned quaternions (exactly representable)
        for qa in _AXIS_ALIGNED + _AXIS_UNIT:
            for qb in _AXIS_ALIGNED + _AXIS_UNIT:
                c = _valid_case(rng, n=2, qcls='axis', tcls=rng.choice(['int', 'axis', 'moderate']))
                c['poses'][0]['r'] = [float(x) for x in qa]
                c['poses'][1]['r'] = [float(x) for x in qb]
                c['points'] = c['points'][:2]
                cases.append(c)
    n_rand = 200 if tier == 'quick' else 3000
    for _ in range(n_rand):
        cases.append(_valid_case(rng))
    for how in NEARBY_KINDS[1:]:              # rotations close to each other but not equal
        cases.append(_nearby_case(rng, how))
    for _ in range(30 if tier == 'quick' else 400):
        cases.append(_nearby_case(rng))
    n_bad = 40 if tier == 'quick' else 300
    for _ in range(n_bad):
        cases.append(_malformed_case(rng))
    return cases


# ------------------------------------------------------------------------------------------ implementation runner
def _spec_of(obj):
    return {'r': obj.r_raw, 't': obj.t_raw}


def _bits(obj):
    r = obj.r_raw
    t = obj.t_raw
    return (None if r is None else tuple(float(x).hex() for x in r),
            None if t is None else tuple(float(x).hex() for x in t),
            None if obj.t is None else obj.t.shape)


def _finite_pose(spec):
    return all(x is None or all(math.isfinite(v) for v in x) for x in (spec['r'], spec['t']))


class _Runner:
    """Makes calls on the real PoseTransform, records (inputs, outcome) of each, and snapshots operands."""

    def __init__(self, direct_max=2):
        from kapture import PoseTransform
        self.P = PoseTransform
        self.direct_max = direct_max
        self.calls = []
        self.mutations = []

    def mk(self, spec):
        r, t = spec['r'], spec['t']
        return self.P(r=(list(r) if r is not None else None), t=(list(t) if t is not None else None))

    def _compose1(self, objs):
        try:
            res = self.P.compose(list(objs))
            spec = _spec_of(res)
            return res, ({'status': 'ok', **spec} if _finite_pose(spec) else {'status': 'nonfinite'})
        except Exception as e:  # the implementation's exception is an observed outcome
            return None, {'status': 'raises', 'exc': type(e).__name__}

    def compose(self, objs):
        """compose(objs) on the real code.  Chains longer than direct_max are recorded together with the
        results of compose on every prefix (MPose.CChain), shorter ones as one call (MPose.CCompose)."""
        before = [_bits(o) for o in objs]
        specs = [_spec_of(o) for o in objs]
        if len(objs) > self.direct_max:
            outs = []
            for k in range(1, len(objs) + 1):
                res, out = self._compose1(objs[:k])
                outs.append(out)
            self.calls.append({'op': 'chain', 'in': specs, 'outs': outs, 'out': out})
        else:
            res, out = self._compose1(objs)
            self.calls.append({'op': 'compose', 'in': specs, 'out': out})
        if [_bits(o) for o in objs] != before:
            self.mutations.append('compose')
        return res if out['status'] == 'ok' else None

    def inverse(self, obj):
        before = _bits(obj)
        spec_in = _spec_of(obj)
        res = None
        try:
            res = obj.inverse()
            spec = _spec_of(res)
            out = {'status': 'ok', **spec} if _finite_pose(spec) else {'status': 'nonfinite'}
        except Exception as e:
            out = {'status': 'raises', 'exc': type(e).__name__}
        if _bits(obj) != before:
            self.mutations.append('inverse')
        self.calls.append({'op': 'inverse', 'in': spec_in, 'out': out})
        return res if out['status'] == 'ok' else None

    def transform(self, obj, arr):
        before = _bits(obj)
        abytes, ashape = arr.tobytes(), arr.shape
        rows_in = arr.astype(float).tolist()
        spec_in = _spec_of(obj)
        res = None
        try:
            res = obj.transform_points(arr)
            res_dtype = str(getattr(res, 'dtype', type(res).__name__))
            res = np.array(res, dtype=float)
            if res.ndim != 2 or res.shape[1] != 3 or res.shape[0] != arr.shape[0]:
                out = {'status': 'ok', 'pts': res.tolist(), 'bad_shape': list(res.shape)}
            elif not np.all(np.isfinite(res)):
                out = {'status': 'nonfinite'}
            else:
                out = {'status': 'ok', 'pts': res.tolist()}
        except Exception as e:
            out = {'status': 'raises', 'exc': type(e).__name__}
        if _bits(obj) != before:
            self.mutations.append('transform_points(pose)')
        if arr.tobytes() != abytes or arr.shape != ashape:
            self.mutations.append('transform_points(points)')
        self.calls.append({'op': 'transform', 'in': spec_in, 'rows': rows_in, 'ncols': int(ashape[1]), 'out': out,
                           'in_dtype': str(arr.dtype)})
        return res if out['status'] == 'ok' and 'bad_shape' not in out else None


def _history(R, case, X):
    """Run case['program'] on fresh PoseTransform objects kept alive for the whole program (the pool; results are
    appended).  Returns the trace for MPose.CHistory and the law records for the oracle."""
    import kapture
    n0 = len(case['poses'])
    # the case's poses, then two exact identities: the default constructor and an explicit one
    pool = [R.mk(s) for s in case['poses']] + [kapture.PoseTransform(), kapture.PoseTransform(r=[1.0, 0.0, 0.0, 0.0], t=[0.0, 0.0, 0.0])]
    steps, laws = [], []
    X64 = X[:, 0:3].astype(float) if X.shape[1] in (3, 6) else np.zeros((0, 3))
    size = n0 + 2                           # a program must only name handles that exist (else: harness error)
    alias = list(range(size))               # documented aliasing only: compose([p]) returns p itself
    for st in case.get('program', []):
        ids = st[1] if st[0] == 'compose' else ([] if st[0] == 'traj' else [st[1]])
        if any(not 0 <= i < size for i in ids) or (st[0] == 'compose' and len(ids) < 1):
            raise ValueError('invalid program for this pool')
        if st[0] == 'compose':
            alias.append(alias[ids[0]] if len(ids) == 1 else size)
        elif st[0] == 'inverse':
            alias.append(size)
        elif st[0] == 'traj':
            alias.extend(range(size, size + 2 * n0))
        size += {'inverse': 1, 'compose': 1, 'traj': 2 * n0}.get(st[0], 0)

    def same_object(a, b):
        """the same Python object, or two objects sharing a mutable part (translation buffer, quaternion object)"""
        if a is b:
            return True
        if a.t is not None and b.t is not None and np.shares_memory(a.t, b.t):
            return True
        return a.r is not None and a.r is b.r

    def snapshot():
        specs = [_spec_of(o) for o in pool]
        if not all(_finite_pose(sp) for sp in specs):
            return None
        canon = [min(j for j in range(k + 1) if same_object(pool[j], pool[k])) for k in range(len(pool))]
        return [{'canon': c, **sp} for c, sp in zip(canon, specs)]

    init = snapshot()

    for st in case.get('program', []):
        op = st[0]
        before = [_bits(o) for o in pool]
        allowed = set()                     # ids whose value may change in this step
        prim, ok = [], True
        try:
            if op == 'inverse':
                prim = [['inverse', st[1]]]
                pool.append(pool[st[1]].inverse())
            elif op == 'compose':
                prim = [['compose', list(st[1])]]
                pool.append(kapture.PoseTransform.compose([pool[i] for i in st[1]]))
            elif op == 'rescale':
                prim = [['rescale', st[1], st[2]]]
                allowed = {k for k in range(len(pool)) if alias[k] == alias[st[1]]}
                pool[st[1]].rescale(st[2])
            elif op == 'traj':              # Trajectories.inverse(); trajectory_rescale_inplace(); Trajectories.inverse()
                base = len(pool)
                prim = ([['inverse', ts] for ts in range(n0)] + [['rescale', base + ts, st[1]] for ts in range(n0)]
                        + [['inverse', base + ts] for ts in range(n0)])
                allowed = set(range(base, base + n0))
                traj = kapture.Trajectories()
                for ts in range(n0):
                    traj[ts, 'cam'] = pool[ts]
                inv = traj.inverse()
                pool.extend(inv[ts, 'cam'] for ts in range(n0))
                kapture.trajectory_rescale_inplace(inv, st[1])
                back = inv.inverse()
                pool.extend(back[ts, 'cam'] for ts in range(n0))
            elif op == 'laws':
                o = pool[st[1]]
                e = {'id': st[1], 'p': _spec_of(o)}
                I = R.inverse(o)
                fresh = R.inverse(R.mk(e['p']))        # the same value, no history
                e['I'] = _spec_of(I) if I is not None else None
                e['I_fresh'] = _spec_of(fresh) if fresh is not None else None
                if I is not None:
                    pI, Ip, II = R.compose([o, I]), R.compose([I, o]), R.inverse(I)
                    e['pI'] = _spec_of(pI) if pI is not None else None
                    e['Ip'] = _spec_of(Ip) if Ip is not None else None
                    e['II'] = _spec_of(II) if II is not None else None
                    Yo = R.transform(o, X64)
                    bk = R.transform(I, Yo) if Yo is not None else None
                    e['back'] = bk.tolist() if bk is not None else None
                laws.append(e)
                # the law calls must not change any object either
                if [_bits(x) for x in pool] != before:
                    R.mutations.append('inverse/compose/transform_points (object with history)')
                continue
        except Exception as ex:  # observed outcome
            ok = False
            laws.append({'id': None, 'raised': f'{op}: {type(ex).__name__}'})
        after = [_bits(x) for x in pool[:len(before)]]
        if any(a != b for i, (a, b) in enumerate(zip(after, before)) if i not in allowed):
            R.mutations.append('rescale of a different pose (a returned pose is, or shares state with, an operand)'
                               if op in ('rescale', 'traj') else op + ' (changed another live pose)')
        snap = snapshot() if ok else None
        steps.append({'ops': prim, 'store': snap})
        if snap is None:
            break
    R.calls.append({'op': 'history', 'init': init, 'steps': steps, 'out': {'status': 'ok'}})
    return laws


def _arr(case):
    """The point array handed to the code: dtype and memory layout from the case, values exactly case['points']."""
    pts, ncols = case['points'], case['ncols']
    dt = case.get('pdtype', 'float64')
    a = np.array(pts, dtype=float).reshape(-1, ncols).astype(dt)
    assert a.astype(float).tolist() == [list(map(float, r)) for r in pts], 'points not representable in ' + dt
    layout = case.get('playout', 'C')
    if layout == 'F':
        a = np.asfortranarray(a)
    elif layout == 'strided':            # every second row / column of a larger array
        big = np.zeros((2 * a.shape[0] + 1, 2 * ncols + 1), dtype=dt)
        big[::2, ::2][:a.shape[0], :ncols] = a
        a = big[::2, ::2][:a.shape[0], :ncols]
    elif layout == 'reversed':           # negative stride
        a = np.ascontiguousarray(a[::-1])[::-1]
    return a


def run_impl(case, ctx):
    R = _Runner(case.get('direct_max', 2))
    # every case starts from the same process history: one conversion of a fixed rotation unrelated to any generated
    # one, so that what a case observes cannot depend on the case that ran before it (replays and shrinking reproduce)
    w = R.mk({'r': [1.5, -2.5, 0.5, 3.5], 't': [1.0, 2.0, 3.0]})
    w.transform_points(np.zeros((1, 3)))
    w.inverse()
    objs = [R.mk(s) for s in case['poses']]
    law = {'assoc': [], 'inv': []}
    X = _arr(case)
    C = R.compose(objs)
    law['C'] = _spec_of(C) if C is not None else None
    if case['kind'] == 'malformed':
        for o in objs[:2]:
            R.inverse(o)
            R.transform(o, X)
        if objs:
            R.compose(objs[:1])
            R.compose(list(reversed(objs)))
        _history(R, case, X)
        return {'calls': R.calls, 'law': None, 'mutations': R.mutations}
    # associativity: any bracketing gives the same pose
    for k in case['splits']:
        A, B = R.compose(objs[:k]), R.compose(objs[k:])
        AB = R.compose([A, B]) if A is not None and B is not None else None
        law['assoc'].append({'k': k, 'AB': _spec_of(AB) if AB is not None else None})
    # inverse laws
    for i in case['inv_of']:
        p = objs[i]
        I = R.inverse(p)
        e = {'i': i, 'I': None, 'pI': None, 'Ip': None, 'II': None}
        if I is not None:
            e['I'] = _spec_of(I)
            pI, Ip, II = R.compose([p, I]), R.compose([I, p]), R.inverse(I)
            e['pI'] = _spec_of(pI) if pI is not None else None
            e['Ip'] = _spec_of(Ip) if Ip is not None else None
            e['II'] = _spec_of(II) if II is not None else None
        law['inv'].append(e)
    # inverse of the composition = composition of the inverses in reverse order
    CI = R.inverse(C) if C is not None else None
    law['CI'] = _spec_of(CI) if CI is not None else None
    if len(objs) > 1:
        invs = [R.inverse(o) for o in reversed(objs)]
        IC = R.compose(invs) if all(x is not None for x in invs) else None
        law['IC'] = _spec_of(IC) if IC is not None else None
    # points
    law['X'] = X[:, 0:3].astype(float).tolist()
    Y = R.transform(C, X) if C is not None else None
    law['Y'] = Y.tolist() if Y is not None else None
    Z = X
    for o in reversed(objs):
        Z = R.transform(o, Z) if Z is not None else None
    law['Z'] = Z.tolist() if Z is not None else None
    back = R.transform(CI, Y) if (CI is not None and Y is not None) else None
    law['back'] = back.tolist() if back is not None else None
    # one pose alone, and the same pose with its quaternion normalised beforehand
    i0 = case['inv_of'][0]
    Y1 = R.transform(objs[i0], X)
    q = case['poses'][i0]['r']
    nq = math.sqrt(sum(v * v for v in q))
    Yn = R.transform(R.mk({'r': [v / nq for v in q], 't': case['poses'][i0]['t']}), X)
    law['single'] = {'i': i0, 'Y1': Y1.tolist() if Y1 is not None else None, 'Yn': Yn.tolist() if Yn is not None else None}
    # every pose of the chain on its own, in chain order (the successive transforms above ran in reverse order):
    # transform_points and inverse, each to be judged against the pose's own r, t only
    law['each'] = []
    for o in objs:
        Ye, Ie = R.transform(o, X), R.inverse(o)
        law['each'].append({'Y': Ye.tolist() if Ye is not None else None, 'I': _spec_of(Ie) if Ie is not None else None})
    law['history'] = _history(R, case, X)
    return {'calls': R.calls, 'law': law, 'mutations': R.mutations}


# ------------------------------------------------------------------------------------------ oracle (floats, no model)
def _rotm(q):
    """Rotation matrix of the normalised quaternion, written independently of the implementation."""
    w, x, y, z = (float(v) for v in q)
    n = math.sqrt(w * w + x * x + y * y + z * z)
    w, x, y, z = w / n, x / n, y / n, z / n
    return np.array([[w * w + x * x - y * y - z * z, 2 * (x * y - w * z), 2 * (x * z + w * y)],
                     [2 * (x * y + w * z), w * w - x * x + y * y - z * z, 2 * (y * z - w * x)],
                     [2 * (x * z - w * y), 2 * (y * z + w * x), w * w - x * x - y * y + z * z]])


def _tmax(*specs):
    return sum(max((abs(v) for v in s['t']), default=0.0) for s in specs)


def _same_pose(a, b, tscale):
    """None when equal within the property's tolerance, else which part differs."""
    if a is None or b is None:
        return 'missing'
    if np.max(np.abs(_rotm(a['r']) - _rotm(b['r']))) > TOL:
        return 'rotation'
    if np.max(np.abs(np.array(a['t']) - np.array(b['t']))) > TOL * tscale:
        return 'translation'
    return None


def oracle(case, obs):
    if case['kind'] != 'valid':
        return None
    if obs['mutations']:
        return 'operand modified by ' + sorted(set(obs['mutations']))[0]
    for c in obs['calls']:
        if c['out']['status'] != 'ok':
            return f"{c['op']} on valid poses did not return a finite result ({c['out'].get('exc', 'nan/inf')})"
        if 'bad_shape' in c['out']:
            return 'transform_points returned an array of the wrong shape'
    law, poses = obs['law'], case['poses']
    ident = {'r': [1.0, 0.0, 0.0, 0.0], 't': [0.0, 0.0, 0.0]}
    ts = _tmax(*poses)
    for a in law['assoc']:
        d = _same_pose(law['C'], a['AB'], ts)
        if d:
            return f'compose is not associative ({d})'
    for e in law['inv']:
        p = poses[e['i']]
        s = _tmax(p)
        d = _same_pose(e['pI'], ident, 2 * s)
        if d:
            return f'pose composed with its inverse is not the identity ({d})'
        d = _same_pose(e['Ip'], ident, 2 * s)
        if d:
            return f'inverse composed with the pose is not the identity ({d})'
        d = _same_pose(e['II'], p, s)
        if d:
            return f'inverting twice does not return the pose ({d})'
    if len(poses) > 1:
        d = _same_pose(law['CI'], law['IC'], 2 * ts)
        if d:
            return f'inverse of a composition differs from the reversed composition of inverses ({d})'
    # the same laws on objects with a history (earlier inverse / rescale / compose calls on the same object): they
    # must hold for the pose as it is NOW, and inverse() must agree with inverse() of a fresh pose of the same value
    X0 = np.array(law['X']).reshape(-1, 3)
    for e in law.get('history') or []:
        if e.get('raised'):
            return 'call on a valid pose with a history raised (' + e['raised'] + ')'
        p, s = e['p'], _tmax(e['p'])
        tag = ' (object with earlier calls on it)'
        d = _same_pose(e.get('I'), e.get('I_fresh'), 2 * s)
        if d:
            return f'inverse() depends on earlier calls, not only on the current r,t ({d})'
        d = _same_pose(e.get('pI'), ident, 2 * s)
        if d:
            return f'pose composed with its inverse is not the identity ({d})' + tag
        d = _same_pose(e.get('Ip'), ident, 2 * s)
        if d:
            return f'inverse composed with the pose is not the identity ({d})' + tag
        d = _same_pose(e.get('II'), p, s)
        if d:
            return f'inverting twice does not return the pose ({d})' + tag
        if e.get('back') is None:
            return 'transform_points did not return' + tag
        if len(X0) and np.max(np.abs(np.array(e['back']).reshape(-1, 3) - X0)) > TOL * 2 * (float(np.max(np.abs(X0))) + s):
            return 'transform by the inverse does not undo the transform' + tag
    # every pose alone: R(q/|q|) x + t with an independently written matrix, and the inverse written out:
    # rotation of conj(q), translation -R(q)^T t -- whatever was converted in the calls before
    for p, e in zip(poses, law.get('each') or []):
        if e['Y'] is None or e['I'] is None:
            return 'transform_points / inverse of a single valid pose did not return'
        Rp, tp, s = _rotm(p['r']), np.array(p['t']), _tmax(p)
        if len(X0) and np.max(np.abs(np.array(e['Y']).reshape(-1, 3) - (X0 @ Rp.T + tp))) > TOL * (float(np.max(np.abs(X0))) + s):
            return 'point transform of a pose is not R(q/|q|) x + t of that pose (it depends on other calls)'
        q = p['r']
        d = _same_pose(e['I'], {'r': [q[0], -q[1], -q[2], -q[3]], 't': list(-(Rp.T @ tp))}, 2 * s)
        if d:
            return f'inverse of a pose is not (conj q, -R(q)^T t) of that pose ({d})'
    X, Y, Z = np.array(law['X']).reshape(-1, 3), law['Y'], law['Z']
    if Y is None or Z is None or law['back'] is None:
        return 'transform_points did not return'
    Y, Z, back = (np.array(v).reshape(-1, 3) for v in (Y, Z, law['back']))
    if len(X):
        scale = float(np.max(np.abs(X))) + ts
        if np.max(np.abs(Y - Z)) > TOL * scale:
            return 'transform by a composition differs from successive transforms (right-most first)'
        if np.max(np.abs(back - X)) > TOL * 2 * scale:
            return 'transform by the inverse does not undo the transform'
        dx = np.linalg.norm(X[:, None, :] - X[None, :, :], axis=2)
        dy = np.linalg.norm(Y[:, None, :] - Y[None, :, :], axis=2)
        if np.max(np.abs(dx - dy)) > TOL * 2 * scale:
            return 'point transform does not preserve distances'
        sg = law['single']
        if sg['Y1'] is None or sg['Yn'] is None:
            return 'transform_points did not return'
        p0 = poses[sg['i']]
        Y1, Yn = np.array(sg['Y1']).reshape(-1, 3), np.array(sg['Yn']).reshape(-1, 3)
        want = X @ _rotm(p0['r']).T + np.array(p0['t'])
        s0 = float(np.max(np.abs(X))) + _tmax(p0)
        if np.max(np.abs(Y1 - want)) > TOL * s0:
            return 'point transform is not R(q/|q|) x + t'
        if np.max(np.abs(Y1 - Yn)) > TOL * s0:
            return 'a non-unit quaternion does not act as its normalisation'
    return None


# ------------------------------------------------------------------------------------------ Coq encoding
def _cf(x):
    """An IEEE double as an exact Coq Q term: (+/-) m * 2^(+/-)e with primitive-integer m (odd or 0) and e."""
    x = float(x)
    if x == 0.0:
        return '(fpp 0 0)'
    num, den = abs(x).as_integer_ratio()      # lowest terms; one of them is a power of two
    if den == 1:
        e = (num & -num).bit_length() - 1
        m = num >> e
        assert m < 2 ** 62 and e < 2 ** 20
        return '(%s %d %d)' % ('fnp' if x < 0 else 'fpp', m, e)
    e = den.bit_length() - 1
    assert num < 2 ** 62 and den == 1 << e
    return '(%s %d %d)' % ('fnn' if x < 0 else 'fpn', num, e)


def _cquat(r):
    return 'None' if r is None else '(Some (mkQ %s %s %s %s))' % tuple(_cf(x) for x in r)


def _cvec(t):
    return '(mkV %s %s %s)' % tuple(_cf(x) for x in t)


def _copose(s):
    t = 'None' if s['t'] is None else '(Some %s)' % _cvec(s['t'])
    return '(mkO %s %s)' % (_cquat(s['r']), t)


def _cout_pose(o):
    if o['status'] == 'ok':
        return '(Ok %s)' % _copose(o)
    return 'Raises' if o['status'] == 'raises' else 'NonFinite'


def encode(case, obs):
    terms = []
    for c in obs['calls']:
        if c['op'] == 'compose':
            terms.append('CCompose %s %s' % (kv.clist(_copose(s) for s in c['in']), _cout_pose(c['out'])))
        elif c['op'] == 'history':
            def hop(o):
                if o[0] == 'inverse':
                    return 'HInverse %d%%nat' % o[1]
                if o[0] == 'compose':
                    return 'HCompose %s' % kv.clist('%d%%nat' % i for i in o[1])
                return 'HRescale %d%%nat %s' % (o[1], _cf(o[2]))
            def cstore(store):
                return kv.clist('(%d%%nat, %s)' % (x['canon'], _copose(x)) for x in store)
            steps = kv.clist(kv.cpair(kv.clist(hop(o) for o in st['ops']),
                                      'None' if st['store'] is None else '(Some %s)' % cstore(st['store']))
                             for st in c['steps'])
            terms.append('CHistory %s %s' % (cstore(c['init'] or []), steps))
        elif c['op'] == 'chain':
            terms.append('CChain %s %s' % (kv.clist(_copose(s) for s in c['in']),
                                           kv.clist(_cout_pose(o) for o in c['outs'])))
        elif c['op'] == 'inverse':
            terms.append('CInverse %s %s' % (_copose(c['in']), _cout_pose(c['out'])))
        else:
            rows = kv.clist(kv.clist(_cf(x) for x in row) for row in c['rows'])
            o = c['out']
            if o['status'] == 'ok':
                out = '(Ok %s)' % kv.clist(_cvec(p) for p in o['pts'])
            else:
                out = 'Raises' if o['status'] == 'raises' else 'NonFinite'
            terms.append('CTransform %s %s %s' % (_copose(c['in']), rows, out))
    return kv.clist(terms)


# ------------------------------------------------------------------------------------------ evidence helpers
def nontrivial(case, obs):
    return case['kind'] == 'valid' and (len(case['poses']) >= 2 or len(case['points']) >= 2)


def classify(case, obs):
    if case['kind'] != 'valid':
        outs = ','.join(sorted({c['out']['status'] for c in obs['calls']}))
        return f"malformed/{case.get('how')}/{outs}"
    return f"valid/q={case['qclass']}/t={case['tclass']}/chain={len(case['poses'])}/pts={len(case['points'])}x{case['ncols']}"


def describe(case, obs):
    return {'poses': case['poses'], 'points': case['points'][:2], 'kind': case['kind'],
            'calls': len(obs['calls']), 'composed': (obs.get('law') or {}).get('C'),
            'outcomes': [c['op'] + ':' + c['out']['status'] for c in obs['calls']][:8]}


def shrink(case):
    n = len(case['poses'])
    prog = case.get('program') or []
    if prog:                                 # histories: drop the tail, or one step that creates no object
        for c_prog in ([], prog[:len(prog) // 2], prog[:-1]):
            if c_prog != prog:
                c = dict(case)
                c['program'] = c_prog
                yield c
        for k, st in enumerate(prog):
            if st[0] in ('laws', 'rescale'):
                c = dict(case)
                c['program'] = prog[:k] + prog[k + 1:]
                yield c
    if case.get('pdtype', 'float64') == 'float64' and case.get('playout', 'C') != 'C':
        c = dict(case)
        c['playout'] = 'C'
        yield c
    for i in range(n):
        if n > 1:
            c = dict(case)
            c['program'] = []
            c['poses'] = case['poses'][:i] + case['poses'][i + 1:]
            m = len(c['poses'])
            c['splits'] = [k for k in case['splits'] if 0 < k < m]
            c['inv_of'] = sorted({min(j, m - 1) for j in case['inv_of']})
            yield c
    if len(case['points']) > 1:
        for i in range(len(case['points'])):
            c = dict(case)
            c['points'] = case['points'][:i] + case['points'][i + 1:]
            yield c
    for i in range(n):
        p = case['poses'][i]
        if p['t'] is not None and any(p['t']):
            c = dict(case)
            c['poses'] = [dict(q) for q in case['poses']]
            c['poses'][i]['t'] = [0.0, 0.0, 0.0]
            yield c
        if p['r'] is not None:
            rr = [float(round(x, 2)) for x in p['r']]
            if rr != p['r'] and any(rr):
                c = dict(case)
                c['poses'] = [dict(q) for q in case['poses']]
                c['poses'][i]['r'] = rr
                yield c


TECHNIQUE = ('Coq proof over Q (field/ring identities, induction over chains) about a Gallina model of PoseTransform; '
             'differential correspondence on every call, evaluated by vm_compute with exact rational arithmetic and the '
             'property tolerance')
LEVEL_TEXT = ('Theorems in coq/Props/C05.v hold for all rational poses with non-zero quaternion norm and chains of any length: '
              'associativity (any bracketing of a chain), left/right inverse, involution of inverse, inverse of a composition, '
              'transform by a composition = successive transforms right-most first, distances preserved, scale/sign invariance, '
              'the rotation matrix is orthogonal with determinant 1, the code never raises on such poses, and the code branch for '
              'nearly-unit quaternions deviates from the exact rotation by less than 2e-14 per entry; over whole process histories '
              'a remembered quaternion->matrix conversion is invisible iff it is reused only for quaternions with the same matrix '
              '(HEAD: never; np.allclose: refuted). The model is tied to the code '
              'by running compose / inverse / transform_points on generated chains and comparing every result inside Coq.')
LEVEL_NOTE = ('Float rounding of the implementation is outside the model (tolerance 1e-9 from the property). Non-modification of '
              'operands is checked by bit-level snapshots in the harness, not proved. Poses with None parts / zero quaternion are '
              'modelled as outcomes and compared, but not part of the property.')
