"""C06 — switching between rig poses and per-sensor poses never moves a sensor.
Implementation under test: kapture.rigs_remove, rigs_remove_inplace, rigs_recover, rigs_recover_inplace
(kapture/core/Trajectories.py), through Rigs and PoseTransform.compose / inverse.
Two kinds of cases: a single configuration (the four functions on fresh objects), and `kind: history` (a sequence of
calls, rig edits and trajectory refills on ONE Rigs and ONE Trajectories object, each call judged against the objects as
they are at that call)."""
import copy
from fractions import Fraction

import kv

ID = 'C06'
COQ_MODELS = ['MQV', 'MPose', 'MRigs']
COQ_HEADER = 'From KV Require Import Eqb AL Str.\nFrom KV.Model Require Import MQV MPose MRigs.'
CASE_TYPE = 'MRigs.xcase'
CHECK_FN = 'MRigs.check_xcase'
SHARD_SIZE = 16
CASE_TIMEOUT = 60
RULE = ('case = rig forest (0..4 rigs, 1..4 members, nesting 0..3, members sensors or rigs, free sensors) + trajectories over '
        '0..4 timestamps (class roots: only top-level rigs and free sensors posed; mixed-consistent: one posed device per '
        'root path, member poses derived exactly from one rig pose per tree and timestamp; mixed-arbitrary: same key '
        'pattern, independent poses) + master list (none / one live member per rig and timestamp / junk); plus a malformed '
        'stream outside the quantifier (double sources, a sensor in two rigs, empty rigs, empty timestamps, cyclic rigs, '
        'chains of depth 4..12, explicit recover inputs) on which only model/code agreement is required; plus a '
        'near-identity stream (member poses, sub-rig mounts and rig poses that are exactly the identity / within 1e-6 of it / '
        'inside the tolerance of PoseTransform.__eq__ (1e-5 on t, 1e-2 per quaternion component) but not the identity / just '
        'outside it, next to translations of 100..1000); plus a print-precision stream (quaternions of member poses, sub-rig '
        'mounts and rig poses that are unit only to 6 / 7 / 8 decimals, to float32 or to 2^-20..2^-26: norm^2 = 1 +- 1e-8..1e-6, '
        'with world translations up to 1e6); plus a numpy-dtype stream (rig geometry, sub-rig mounts and some rig / free poses '
        'built from numpy arrays -- t float32 / float16 / float64 / int64 / int32, 1-D or (3,1), r float32 / float16 / float64 / '
        'int64 -- with values exactly representable in the dtype, next to full-double world poses); plus histories on ONE Rigs and ONE Trajectories object: 4..14 steps '
        'of rigs_remove / rigs_remove_inplace / rigs_recover / rigs_recover_inplace interleaved with edits of the rigs through '
        'rigs[r, d] = p, rigs[r] = {..}, rigs[r][d] = p, rigs[r].update, del rigs[r][d], rigs[r].pop, del rigs[r], pop, '
        'popitem, update, |=, setdefault, clear (some raising KeyError) and refills of the trajectories; every call is judged '
        'against the rigs and trajectories as they are at that call; plus a max-depth stream: forests of nesting 1..3 and '
        'chains of 2..6 rigs with the max_depth argument of the two in-place functions given explicitly (0, 1, depth-1, depth, '
        'depth+1, 12, 14, 25): judged by the oracle when max_depth >= depth, model == code otherwise. '
        'Non-trivial = at least one rig is posed at some timestamp (history: at some call); distinct = distinct case content.')
NOTES = ['copy.deepcopy(Trajectories) rebuilds the copy through __setitem__, which drops empty timestamps (repo fix for C07): the '
         'copying variants therefore differ from the in-place ones on inputs that hold an empty timestamp; modelled (deepcopy_traj)']
TRUSTED = ['float rounding of PoseTransform.compose / inverse (numpy, numpy-quaternion, numba): the model is exact over Q and '
           'the comparison allows 1e-9 relative to the pose magnitude',
           'copy.deepcopy of Trajectories (copying variants): observed through argument snapshots only']
ASSUMPTIONS = ['every PoseTransform has both parts and a non-zero quaternion (zero quaternions raise ZeroDivisionError in '
               'compose; C05 models that outcome); check_case refuses cases outside this domain',
               'the oracle judges remove only when the forest is valid (one parent, acyclic, every rig has a member), no '
               'device has two pose sources at one timestamp and no timestamp is empty; it judges recover only on the output '
               'of remove for trajectories whose poses are consistent with one rig pose per tree and timestamp, with masters '
               'unspecified or hitting one live member per rig and timestamp',
               'in a history every call is judged on the snapshot of the Rigs / Trajectories objects taken just before it: '
               'remove as above; recover when the forest is valid, no device has two sources and the posed devices of every '
               'tree agree on one root pose (1e-12) -- then no posed sensor may move; the top-level rig poses must come back '
               'when the trajectories are the untouched result of a judged rigs_remove_inplace under the same rigs']
EXHAUSTIVE = {'quick': False, 'thorough': False}
TOL = Fraction(1, 10 ** 9)


# ------------------------------------------------------------------ exact pose algebra of the oracle / generator
def _fr(p):
    return [Fraction(*float(x).as_integer_ratio()) for x in p]


def _qmul(a, b):
    return [a[0] * b[0] - a[1] * b[1] - a[2] * b[2] - a[3] * b[3],
            a[0] * b[1] + a[1] * b[0] + a[2] * b[3] - a[3] * b[2],
            a[0] * b[2] - a[1] * b[3] + a[2] * b[0] + a[3] * b[1],
            a[0] * b[3] + a[1] * b[2] - a[2] * b[1] + a[3] * b[0]]


def _rotate(q, v):
    w, x, y, z = q
    n = w * w + x * x + y * y + z * z
    m = [[1 - 2 * (y * y + z * z) / n, 2 * (x * y - z * w) / n, 2 * (x * z + y * w) / n],
         [2 * (x * y + z * w) / n, 1 - 2 * (x * x + z * z) / n, 2 * (y * z - x * w) / n],
         [2 * (x * z - y * w) / n, 2 * (y * z + x * w) / n, 1 - 2 * (x * x + y * y) / n]]
    return [sum(m[i][j] * v[j] for j in range(3)) for i in range(3)]


def _compose(a, b):
    """a o b on exact poses [qw,qx,qy,qz,tx,ty,tz]: x -> R(a) (R(b) x + tb) + ta."""
    q = _qmul(a[:4], b[:4])
    t = _rotate(a[:4], b[4:])
    return q + [t[i] + a[4 + i] for i in range(3)]


def _inverse(a):
    w, x, y, z = a[:4]
    n = w * w + x * x + y * y + z * z
    qi = [w / n, -x / n, -y / n, -z / n]
    return qi + _rotate(qi, [-c for c in a[4:]])


def _close(obs, ref):
    """observed doubles vs exact reference, 1e-9 relative to the pose magnitude."""
    obs, ref = _fr(obs), list(ref)
    sq = max(abs(c) for c in ref[:4])
    st = max(Fraction(1), max(abs(c) for c in ref[4:]))
    return (all(abs(o - r) <= TOL * sq for o, r in zip(obs[:4], ref[:4])) and
            all(abs(o - r) <= TOL * st for o, r in zip(obs[4:], ref[4:])))


# ------------------------------------------------------------------ forest helpers (on the case structure)
def _forest(case):
    rigs = {r: dict((d, g) for d, g in ms) for r, ms in case['rigs']}
    parents = {}
    for r, ms in case['rigs']:
        for d, _ in ms:
            parents.setdefault(d, [])
            if r not in parents[d]:
                parents[d].append(r)
    return rigs, parents


def _chain_up(parents, rigs, d, limit=64):
    """[(rig, pose d'_from_rig)] from d upwards, or None when a device has two parents or there is a cycle."""
    out, seen = [], {d}
    while d in parents:
        if len(parents[d]) != 1:
            return None
        r = parents[d][0]
        if r in seen or len(out) > limit:
            return None
        out.append((r, rigs[r][d]))
        seen.add(r)
        d = r
    return out


def _judge(case):
    """Which clauses of the property apply to this case (decided from the case alone)."""
    rigs, parents = _forest(case)
    devices = set(parents) | set(rigs) | {d for _, m in case['traj'] for d, _ in m}
    chains = {d: _chain_up(parents, rigs, d) for d in devices}
    forest_ok = (all(c is not None for c in chains.values()) and all(len(ms) > 0 for _, ms in case['rigs'])
                 and len({r for r, _ in case['rigs']}) == len(case['rigs'])
                 and all(len({d for d, _ in ms}) == len(ms) for _, ms in case['rigs']))
    depth = 0
    if forest_ok:
        for d in rigs:
            depth = max(depth, 1 + len(chains[d]))
    traj_ok = (len({t for t, _ in case['traj']}) == len(case['traj'])
               and all(len(m) > 0 and len({d for d, _ in m}) == len(m) for _, m in case['traj']))
    single = True
    if forest_ok and traj_ok:
        for _, m in case['traj']:
            posed = {d for d, _ in m}
            for d in posed:
                if any(a in posed for a, _ in chains[d]):
                    single = False
    return {'rigs': rigs, 'parents': parents, 'chains': chains, 'forest_ok': forest_ok, 'depth': depth,
            'traj_ok': traj_ok, 'single': single,
            'remove_judged': forest_ok and traj_ok and single and depth <= 10}


def _expected_remove(case, J):
    """The statement: every non-rig entry stays, every leaf below a posed rig gets the chain composition."""
    rigs, chains = J['rigs'], J['chains']
    exp = {}
    for t, m in case['traj']:
        posed = {d: _fr(p) for d, p in m}
        e = {}
        for d, p in m:
            if d not in rigs:
                e[d] = ('same', p)
        # every leaf (non-rig device) with a posed proper ancestor
        for d in chains:
            if d in rigs or d in posed:
                continue
            acc = []
            for r, g in chains[d]:
                acc.append(_fr(g))
                if r in posed:
                    w = posed[r]
                    for g_ in reversed(acc):
                        w = _compose(g_, w)
                    e[d] = ('calc', w)
                    break
        exp[t] = e
    return exp


def _consistent(case, J):
    """Do all posed devices of a tree agree on one rig pose per timestamp?  (decided exactly, 1e-12 slack)"""
    chains = J['chains']
    for _, m in case['traj']:
        roots = {}
        for d, p in m:
            w = _fr(p)
            ch = chains[d]
            # pose(d) = g0 o (g1 o ... o W_root)  =>  W_root = inv(g_k-1) o ... o inv(g0) o pose(d)
            for _, g in ch:
                w = _compose(_inverse(_fr(g)), w)
            root = ch[-1][0] if ch else d
            if root in roots:
                ref = roots[root]
                sq = max(abs(c) for c in ref[:4])
                st = max(Fraction(1), max(abs(c) for c in ref[4:]))
                if not (all(abs(a - b) <= Fraction(1, 10 ** 12) * sq for a, b in zip(w[:4], ref[:4])) and
                        all(abs(a - b) <= Fraction(1, 10 ** 12) * st for a, b in zip(w[4:], ref[4:]))):
                    return False
            else:
                roots[root] = w
    return True


def _masters_ok(case, J, removed):
    """masters unspecified, or: for every rig and timestamp with a live member (posed itself or above a posed
    device in the input of recover) some live member is a master."""
    if case['masters'] is None:
        return True
    ms = set(case['masters'])
    rigs, chains = J['rigs'], J['chains']
    for _, m in removed:
        live = set()
        for d, _ in m:
            live.add(d)
            for a, _ in chains.get(d, []) or []:
                live.add(a)
        for r, members in rigs.items():
            lm = [d for d in members if d in live]
            if lm and not any(d in ms for d in lm):
                return False
    return True


# ------------------------------------------------------------------ generator
_QUATS = [[1, 0, 0, 0], [0, 1, 0, 0], [0, 0, 1, 0], [0, 0, 0, 1], [0.5, 0.5, 0.5, 0.5], [0.5, -0.5, 0.5, -0.5],
          [1, 1, 0, 0], [1, 2, 3, 4], [0, 3, 0, -4], [2, 0, 0, 0], [-1, 0, 0, 0], [0.6, 0.8, 0, 0]]
_NAMES_R = ['rig0', 'rig1', 'Rig2', 'a_rig', 'zrig', 'rig10', 'r', 'base', 'head', 'Body', 'arm', 'rigé']
_NAMES_S = ['cam0', 'cam1', 'cam2', 'Cam3', 'lidar', 'gnss', 'a', 'z', 'cam10', '0cam', 'cám', 'wifi', 'depth0', 'B', 'imu', '_s']


def _short(rng, bound, bits=6):
    """a double with a short mantissa: k / 2^s -- keeps the exact rationals of the Coq side small"""
    s = rng.randint(0, bits)
    return rng.randint(-bound * 2 ** s, bound * 2 ** s) / float(2 ** s)


def _rand_quat(rng, full):
    k = rng.random()
    if k < 0.35:
        return [float(x) for x in rng.choice(_QUATS)]
    if not full:
        while True:
            q = [_short(rng, 2) for _ in range(4)]
            if sum(x * x for x in q) >= 0.05:
                return q                               # any norm: the normalising branch of the matrix code
    q = [rng.uniform(-1, 1) for _ in range(4)]
    n = sum(x * x for x in q) ** 0.5
    if n < 1e-3:
        return [1.0, 0.0, 0.0, 0.0]
    if k < 0.8:
        return [x / n for x in q]                      # unit up to rounding: exercises the 1e-14 band
    s = rng.choice([1e-2, 0.1, 0.5, 2.0, 10.0, 100.0])
    return [x / n * s for x in q]                      # scaled: exercises the normalising branch


def _rand_pose(rng, full=False):
    k = rng.random()
    if k < 0.3:
        t = [float(rng.randint(-5, 5)) for _ in range(3)]
    elif not full:
        t = [_short(rng, 10 if k < 0.9 else 1000) for _ in range(3)]
    elif k < 0.9:
        t = [rng.uniform(-10, 10) for _ in range(3)]
    else:
        t = [rng.uniform(-1000, 1000) for _ in range(3)]
    return _rand_quat(rng, full) + t


def _gen_forest(rng, n_rigs, max_nest, n_free, full=False, pose_fn=None):
    pose_fn = pose_fn or (lambda: _rand_pose(rng, full))
    rnames = rng.sample(_NAMES_R, n_rigs)
    snames = rng.sample(_NAMES_S, len(_NAMES_S))
    level = {}
    members = {r: [] for r in rnames}
    for i, r in enumerate(rnames):
        cands = [p for p in rnames[:i] if level[p] < max_nest and len(members[p]) < 4]
        if cands and rng.random() < 0.65:
            p = rng.choice(cands)
            members[p].append(r)
            level[r] = level[p] + 1
        else:
            level[r] = 1
    for r in rnames:
        want = rng.randint(1, 4)
        while len(members[r]) < want and snames:
            members[r].append(snames.pop())
        if not members[r] and snames:
            members[r].append(snames.pop())
        rng.shuffle(members[r])
    order = list(rnames)
    rng.shuffle(order)
    rigs = [[r, [[d, pose_fn()] for d in members[r]]] for r in order]
    free = [snames.pop() for _ in range(min(n_free, len(snames)))]
    return rigs, free


def _gen_traj(rng, rigs, free, n_ts, cls, full=False, pose_fn=None):
    pose_fn = pose_fn or (lambda: _rand_pose(rng, full))
    case0 = {'rigs': rigs, 'traj': []}
    rg, parents = _forest(case0)
    roots = [r for r in rg if r not in parents]
    ts_pool = rng.choice([list(range(0, 50)), list(range(-5, 6)), [10 ** 9 + i * 33 for i in range(20)],
                          [1614362592378 + 1000 * i for i in range(20)]])
    tss = rng.sample(ts_pool, n_ts)
    traj = []
    for t in tss:
        m = []
        for f in free:
            if rng.random() < 0.7:
                m.append([f, pose_fn()])
        for root in roots:
            w_root = pose_fn()
            exact = {root: _fr(w_root)}

            def world(d, r=None):
                return exact[d]

            def visit(d, top):
                # returns the list of posed devices below (and including) d: an antichain
                if d != root:
                    par = parents[d][0]
                    exact[d] = _compose(_fr(rg[par][d]), exact[par])
                p_here = {'roots': 1.0 if top else 0.0, 'mixed': 0.45, 'arb': 0.45}[cls]
                if top and cls == 'roots' and rng.random() < 0.2:
                    return
                if d not in rg:
                    if rng.random() < (0.8 if cls != 'roots' else 0.0):
                        emit(d)
                    return
                if rng.random() < p_here:
                    emit(d)
                    return
                for c in rg[d]:
                    visit(c, False)

            def emit(d):
                if cls == 'arb' and d != root:
                    m.append([d, pose_fn()])
                elif d == root:
                    m.append([d, w_root])
                else:
                    m.append([d, [float(x) for x in exact[d]]])
            visit(root, True)
        rng.shuffle(m)
        if m:
            traj.append([t, m])
    return traj


def _gen_masters(rng, rigs, traj, kind):
    if kind == 'none':
        return None
    case0 = {'rigs': rigs, 'traj': traj}
    J = _judge(case0)
    if kind == 'junk' or not J['forest_ok']:
        pool = [d for _, ms in rigs for d, _ in ms] + ['nobody', 'cam0']
        return rng.sample(pool, rng.randint(0, min(3, len(pool))))
    # one live member per rig and timestamp, by a fixed preference order per rig; live is computed on what remove
    # will produce: the leaves below posed devices
    rg, chains = J['rigs'], J['chains']
    pref = {r: rng.sample(list(ms), len(ms)) for r, ms in rg.items()}
    masters = []
    for _, m in traj:
        posed = {d for d, _ in m}
        live = set()
        for d in chains:
            if d in rg:
                continue
            up = [a for a, _ in chains[d]]
            if d in posed or any(a in posed for a in up):
                live.add(d)
                live.update(up)
        for r in rg:
            lm = [d for d in pref[r] if d in live]
            if lm and not any(d in masters for d in lm):
                masters.append(lm[0])
    rng.shuffle(masters)
    if rng.random() < 0.3:
        masters.append('nobody')
    return masters


def _malformed(rng, k):
    """Outside the quantifier: only the agreement between model and code is checked."""
    P = lambda: _rand_pose(rng)  # noqa: E731
    kind = ['double_source', 'two_rigs', 'empty_rig', 'empty_ts', 'cycle', 'deep', 'explicit_recover', 'self_member',
            'order'][k % 9]
    c = {'masters': None, 'rec_in': None, 'cls': 'malformed:' + kind}
    if kind == 'double_source':
        c['rigs'] = [['R', [['A', P()], ['s3', P()]]], ['A', [['s1', P()], ['s2', P()]]]]
        m = [['R', P()], ['A', P()]] + ([['s1', P()]] if rng.random() < 0.5 else [])
        rng.shuffle(m)
        c['traj'] = [[1, m], [2, [['A', P()], ['s3', P()]]]]
    elif kind == 'two_rigs':
        c['rigs'] = [['R1', [['s', P()], ['a', P()]]], ['R2', [['s', P()], ['b', P()]]]]
        c['traj'] = [[5, [['R1', P()]]], [6, [['R2', P()]]], [7, [['R1', P()], ['R2', P()]]]]
    elif kind == 'empty_rig':
        c['rigs'] = [['R', []], ['Q', [['s', P()]]]]
        c['traj'] = rng.choice([[[1, [['R', P()]]], [2, [['x', P()]]]], [[2, [['x', P()]]], [1, [['R', P()]]]],
                                [[1, [['R', P()], ['Q', P()]]]], [[1, [['R', P()]]], [3, [['R', P()]]], [2, [['Q', P()]]]]])
    elif kind == 'empty_ts':
        c['rigs'] = [['Q', [['s', P()]]]]
        c['traj'] = rng.choice([[[4, []], [2, [['Q', P()]]]], [[2, [['Q', P()]]], [4, []], [5, []]], [[9, []]]])
    elif kind == 'cycle':
        c['rigs'] = [['A', [['B', P()], ['s', P()]]], ['B', [['A', P()]]]]
        c['traj'] = [[1, [[rng.choice(['A', 'B']), P()]]]]
    elif kind == 'self_member':
        c['rigs'] = [['A', [['A', P()], ['s', P()]]]]
        c['traj'] = [[1, [['A', P()]]]]
    elif kind == 'deep':
        n = rng.randint(4, 12)
        c['rigs'] = [[f'r{i:02d}', [[f'r{i - 1:02d}' if i else 'leaf', P()]] + ([[f's{i}', P()]] if rng.random() < 0.4 else [])]
                     for i in range(n)]
        rng.shuffle(c['rigs'])
        c['traj'] = [[1, [[f'r{n - 1:02d}', P()]]]]
    elif kind == 'explicit_recover':
        c['rigs'] = [['R', [['A', P()], ['s3', P()]]], ['A', [['s1', P()], ['s2', P()]]]]
        c['traj'] = [[1, [['R', P()]]]]
        devs = ['R', 'A', 's1', 's2', 's3', 'free']
        c['rec_in'] = [[t, [[d, P()] for d in rng.sample(devs, rng.randint(0 if rng.random() < 0.3 else 1, 5))]]
                       for t in rng.sample(range(9), rng.randint(1, 3))]   # sometimes with an empty timestamp
        c['masters'] = rng.choice([None, ['s1'], ['s2', 's3'], ['A'], ['s1', 'A'], []])
    else:  # order: which sensor wins depends on the sorted order of the names
        names = rng.sample(['a', 'B', 'Z', 'b', '0', '_', 'ab', 'aa', 'é'], 3)
        c['rigs'] = [['R', [[n, P()] for n in names]]]
        c['traj'] = [[1, [['R', P()]]]]
        c['rec_in'] = [[t, [[n, P()] for n in rng.sample(names, rng.randint(1, 3))]] for t in (3, 1, 2)]
        c['masters'] = rng.choice([None, None, names[:1], names[1:]])
    return c


# ------------------------------------------------------------------ structured poses around the identity
# PoseTransform.__eq__ is tolerant (math.isclose: 1e-5 on every translation component, 1e-2 on every quaternion
# component), so "is this pose the identity" asked with == says yes for a co-located sensor with an angular offset of
# up to about one degree.  The classes: exactly the identity / within 1e-6 of it / inside that tolerance / just outside.
_NEAR_CLASSES = ['id', 'tiny', 'in', 'in', 'in', 'edge', 'edge']


def _near_identity(rng, full=False, cls=None):
    cls = cls or rng.choice(_NEAR_CLASSES)
    if cls == 'id':
        return [1.0, 0.0, 0.0, 0.0, 0.0, 0.0, 0.0]
    shape = rng.choice(['rot', 'rot', 'trans', 'both', 'both'])   # rot: co-located, small angular offset
    if full:
        aq, at = {'tiny': (1e-6, 1e-6), 'in': (9.9e-3, 9.9e-6), 'edge': (9.9e-3, 9.9e-6)}[cls]
        q = [1.0] + [rng.uniform(-aq, aq) for _ in range(3)]
        t = [rng.uniform(-at, at) for _ in range(3)]
        if cls == 'edge':
            k, sgn = rng.randrange(3), rng.choice([-1, 1])
            if shape == 'trans' or (shape == 'both' and rng.random() < 0.5):
                t[k] = sgn * rng.uniform(1.01e-5, 1.3e-5)
            else:
                q[1 + k] = sgn * rng.uniform(1.03e-2, 1.3e-2)   # still > 1e-2 after normalisation
        if rng.random() < 0.6:
            n = sum(x * x for x in q) ** 0.5
            q = [x / n for x in q]
    else:
        # short dyadic values: 10/1024 = 0.0098 < 1e-2 < 11/1024;  10/2^20 = 9.5e-6 < 1e-5 < 11/2^20;  16/2^24 = 9.5e-7
        kq, dq, kt, dt = {'tiny': (16, 2 ** 24, 16, 2 ** 24), 'in': (10, 1024, 10, 2 ** 20), 'edge': (10, 1024, 10, 2 ** 20)}[cls]
        q = [1.0] + [rng.randint(-kq, kq) / dq for _ in range(3)]
        if rng.random() < 0.3:
            q[0] = 1.0 + rng.randint(-kq, kq) / dq              # not a unit quaternion, still == identity
        t = [rng.randint(-kt, kt) / dt for _ in range(3)]
        if cls == 'edge':
            k, sgn = rng.randrange(3), rng.choice([-1, 1])
            if shape == 'trans' or (shape == 'both' and rng.random() < 0.5):
                t[k] = sgn * rng.choice([11, 12, 16]) / 2 ** 20
            else:
                q[1 + k] = sgn * rng.choice([11 / 1024, 21 / 2048, 3 / 256])
    if shape == 'rot':
        t = [0.0, 0.0, 0.0]
    elif shape == 'trans':
        q = [1.0, 0.0, 0.0, 0.0]
    if q == [1.0, 0.0, 0.0, 0.0] and t == [0.0, 0.0, 0.0]:          # must not be the identity
        if shape == 'trans':
            t[rng.randrange(3)] = {'tiny': 2.0 ** -24, 'in': 2.0 ** -18, 'edge': 11 / 2 ** 20}[cls]
        else:
            q[1 + rng.randrange(3)] = {'tiny': 2.0 ** -24, 'in': 2.0 ** -8, 'edge': 11 / 1024}[cls]
    return [float(x) for x in q + t]


def _far_pose(rng, full=False):
    """a general rotation with a translation of 100..1000: next to it a dropped 1-degree offset moves a sensor by metres"""
    q = _rand_quat(rng, full)
    if full:
        return q + [rng.choice([-1, 1]) * rng.uniform(50, 1000) for _ in range(3)]
    return q + [float(rng.choice([-1, 1]) * rng.randint(50, 1000)) for _ in range(3)]


def _gen_near_identity_case(rng):
    full = rng.random() < 0.2
    p_near = rng.choice([0.3, 0.6, 1.0])
    far = rng.random() < 0.6

    def other():
        return _far_pose(rng, full) if far and rng.random() < 0.7 else _rand_pose(rng, full)

    def member_pose():
        return _near_identity(rng, full) if rng.random() < p_near else other()

    def world_pose():                       # rig poses / free sensors: near the world origin now and then
        return _near_identity(rng, full) if rng.random() < 0.3 else other()
    n_rigs = rng.choice([1, 1, 2, 2, 3, 4])
    rigs, free = _gen_forest(rng, n_rigs, rng.choice([1, 2, 3]), rng.randint(0, 1), full, member_pose)
    cls = rng.choice(['roots', 'roots', 'mixed'])
    traj = _gen_traj(rng, rigs, free, rng.choice([1, 2, 3]), cls, full, world_pose)
    mk = rng.choice(['none', 'none', 'valid'])
    masters = _gen_masters(rng, rigs, traj, mk)
    return {'rigs': rigs, 'traj': traj, 'masters': masters, 'rec_in': None,
            'cls': 'near-identity:' + cls + '/m=' + mk + ('/full' if full else '')}


# ------------------------------------------------------------------ quaternions that are unit to PRINT precision
# A unit quaternion read back from rigs.txt / trajectories.txt, or stored as float32, has norm^2 = 1 +- 1e-8..1e-6: not unit
# for the code (its unit branch is |norm^2 - 1| < 1e-14), so the rotation matrix must be divided by norm^2.  Skipping that
# scales R t by norm^2: 1e-7 relative on every translation, far above the property's 1e-9.
_NICE_ANGLES = [10, 15, 30, 45, 60, 90, 120, 135, 170, 180, 1, 0.5]


def _print_quat(rng):
    import math
    import struct
    if rng.random() < 0.3:                                    # a 'nice' rotation about an axis, as typed in a file
        a = math.radians(rng.choice(_NICE_ANGLES)) / 2
        ax = rng.choice([[1, 0, 0], [0, 1, 0], [0, 0, 1], [1, 1, 0], [1, 1, 1], [0, 3, -4]])
        n = math.sqrt(sum(x * x for x in ax))
        q = [math.cos(a)] + [math.sin(a) * x / n for x in ax]
    else:
        q = [rng.gauss(0, 1) for _ in range(4)]
        n = math.sqrt(sum(x * x for x in q)) or 1.0
        q = [x / n for x in q]
    how = rng.choice(['dec7', 'dec7', 'dec7', 'dec6', 'dec8', 'f32', 'f32', 'dy23', 'dy23', 'dy20', 'dy26'])
    if how.startswith('dec'):
        q = [round(x, int(how[3:])) for x in q]
    elif how == 'f32':
        q = [struct.unpack('f', struct.pack('f', x))[0] for x in q]
    else:
        k = 2 ** int(how[2:])
        q = [round(x * k) / k for x in q]
    if rng.random() < 0.25:
        q = [-x for x in q]
    return [float(x) for x in q], how


def _gen_print_precision_case(rng):
    big = rng.choice([10, 1000, 10 ** 4, 10 ** 5, 10 ** 6])     # vehicle up to 1000 km from the origin
    p_q = rng.choice([0.5, 0.8, 1.0])

    def trans(bound):
        if rng.random() < 0.5:
            return [float(rng.randint(-bound, bound)) for _ in range(3)]
        return [_short(rng, bound, 4) for _ in range(3)]

    def quat():
        return _print_quat(rng)[0] if rng.random() < p_q else _rand_quat(rng, False)

    def member_pose():
        return quat() + trans(rng.choice([1, 10, 10, 100]))

    def world_pose():
        return quat() + trans(big)
    rigs, free = _gen_forest(rng, rng.choice([1, 1, 2, 2, 3]), rng.choice([1, 2, 3]), rng.randint(0, 1), False, member_pose)
    cls = rng.choice(['roots', 'roots', 'mixed'])
    traj = _gen_traj(rng, rigs, free, rng.choice([1, 2, 2, 3]), cls, False, world_pose)
    mk = rng.choice(['none', 'none', 'valid'])
    masters = _gen_masters(rng, rigs, traj, mk)
    return {'rigs': rigs, 'traj': traj, 'masters': masters, 'rec_in': None, 'cls': 'print-precision:' + cls + '/m=' + mk}


# ------------------------------------------------------------------ poses built from numpy arrays of various dtypes
# PoseTransform(t=<ndarray>) keeps the array, dtype included (float16 / float32 calibration blobs, integer arrays as in
# tools/kapture_import_bundler.py); r arrays become a float64 quaternion.  /repo computes compose / inverse in float64 whatever
# the dtype (recorded 2026-10-01, numpy 2.5), so the exact model applies unchanged: the values are chosen exactly
# representable in the dtype, the OTHER poses have general values so that results are not representable in float32.
def _gen_dtype_case(rng):
    import numpy as np

    def vals(dt, bound):
        if dt.startswith('int'):
            return [float(rng.randint(-bound, bound)) for _ in range(3)]
        if dt == 'float16':
            return [rng.randint(-2000, 2000) / rng.choice([1, 2, 4, 16]) for _ in range(3)]
        return [float(np.float32(rng.uniform(-bound, bound))) if rng.random() < 0.5 else _short(rng, bound, 6) for _ in range(3)]

    def quat(dt):
        if dt is None:
            return _rand_quat(rng, False)
        while True:
            q = [float(rng.randint(-8, 8)) for _ in range(4)] if dt.startswith('int') else [_short(rng, 2, 5) for _ in range(4)]
            if sum(x * x for x in q) >= 0.05:
                return q
    ctor = {}

    def spec(p_np):
        if rng.random() >= p_np:
            return None
        sp = {'t': rng.choice(['float32', 'float32', 'float32', 'float16', 'float64', 'int64', 'int32']),
              'r': rng.choice([None, None, 'float32', 'float16', 'float64', 'int64']), 'col': rng.random() < 0.3}
        return sp
    p_geo = rng.choice([0.6, 1.0])
    rigs, free = _gen_forest(rng, rng.choice([1, 1, 2, 2, 3]), rng.choice([1, 2, 3]), rng.randint(0, 1), False,
                             lambda: _far_pose(rng, True) if rng.random() < 0.5 else _rand_pose(rng, True))
    for r, ms in rigs:
        for m in ms:
            sp = spec(p_geo)
            if sp:
                m[1] = quat(sp['r']) + vals(sp['t'], rng.choice([5, 100, 1000]))
                ctor[f'R|{r}|{m[0]}'] = sp
            else:                                   # general geometry, short values (the world poses stay full doubles)
                m[1] = _rand_pose(rng, False)
    cls = rng.choice(['roots', 'roots', 'mixed'])
    traj = _gen_traj(rng, rigs, free, rng.choice([1, 2, 2]), cls, True,
                     lambda: _far_pose(rng, True) if rng.random() < 0.6 else _rand_pose(rng, True))
    rg, parents = _forest({'rigs': rigs})
    for t, m in traj:                               # now and then a top-level rig pose / free pose from arrays too
        # (entries of mounted devices stay: in class mixed they are derived from a root pose that is not posed itself)
        for e in m:
            if e[0] not in parents and rng.random() < 0.3:
                sp = spec(1.0)
                e[1] = quat(sp['r']) + vals(sp['t'], rng.choice([100, 10 ** 4, 10 ** 6]))
                ctor[f'T|{int(t)}|{e[0]}'] = sp
    mk = rng.choice(['none', 'none', 'valid'])
    masters = _gen_masters(rng, rigs, traj, mk)
    return {'rigs': rigs, 'traj': traj, 'masters': masters, 'rec_in': None, 'ctor': ctor,
            'cls': 'numpy-dtype:' + cls + '/m=' + mk}


# ------------------------------------------------------------------ histories on ONE Rigs and ONE Trajectories object
_EDIT_PATHS = ['inner_set'] * 4 + ['inner_del'] * 3 + ['inner_pop', 'inner_update', 'pair_set', 'rig_set', 'rig_del', 'pop',
                                                         'popitem', 'update', 'update', 'update', 'ior', 'setdefault', 'clear']


def _model_edit(R, e):
    """the edit on the list-of-lists picture of the rigs (generator's bookkeeping only; the oracle uses the snapshots of
    the real object, the Coq model has its own apply_edit).  Returns False for a KeyError."""
    how = e['how']
    idx = {r: i for i, (r, _) in enumerate(R)}

    def put(ms, d, p):
        for x in ms:
            if x[0] == d:
                x[1] = p
                return
        ms.append([d, p])
    if how == 'pair_set':
        if e['r'] not in idx:
            R.append([e['r'], []])
            idx[e['r']] = len(R) - 1
        put(R[idx[e['r']]][1], e['d'], e['p'])
    elif how in ('rig_set', 'setdefault'):
        if e['r'] in idx:
            if how == 'rig_set':
                R[idx[e['r']]][1] = copy.deepcopy(e['m'])
        else:
            R.append([e['r'], copy.deepcopy(e['m'])])
    elif how in ('inner_set', 'inner_update'):
        if e['r'] not in idx:
            return False
        for d, p in ([[e['d'], e['p']]] if how == 'inner_set' else e['m']):
            put(R[idx[e['r']]][1], d, p)
    elif how in ('inner_del', 'inner_pop'):
        if e['r'] not in idx or e['d'] not in [d for d, _ in R[idx[e['r']]][1]]:
            return False
        R[idx[e['r']]][1] = [x for x in R[idx[e['r']]][1] if x[0] != e['d']]
    elif how in ('rig_del', 'pop'):
        if e['r'] not in idx:
            return False
        del R[idx[e['r']]]
    elif how == 'popitem':
        if not R:
            return False
        R.pop()
    elif how in ('update', 'ior'):
        for r, ms in e['o']:
            if r in idx:
                R[idx[r]][1] = copy.deepcopy(ms)
            else:
                R.append([r, copy.deepcopy(ms)])
                idx[r] = len(R) - 1
    elif how == 'clear':
        del R[:]
    return True


def _gen_edit(rng, R, free, P):
    """one edit of the rigs, mostly keeping a valid forest; `free` = known devices that are neither rigs nor mounted"""
    rg, parents = _forest({'rigs': R})
    used = set(rg) | set(parents) | set(free)
    how = rng.choice(_EDIT_PATHS)
    if not R and how not in ('clear', 'popitem', 'pop', 'inner_del'):
        how = rng.choice(['pair_set', 'rig_set', 'update', 'ior', 'setdefault'])

    def fresh(pool, n=1):
        cands = [x for x in pool if x not in used]
        out = rng.sample(cands, min(n, len(cands)))
        used.update(out)
        return out

    def new_sensor():
        if free and rng.random() < 0.3:
            return rng.choice(free)                      # re-mount a device that was unmounted / was free
        f = fresh(_NAMES_S)
        return f[0] if f else 'extra_sensor'

    def new_rig_entry():
        name = (fresh(_NAMES_R) or ['extra_rig'])[0]
        return [name, [[d, P()] for d in fresh(_NAMES_S, rng.randint(1, 3))] or [['extra_sensor2', P()]]]
    nonempty = [r for r, ms in R if ms]
    if how in ('inner_set', 'pair_set'):
        if how == 'pair_set' and (not R or rng.random() < 0.25):
            r, ms = new_rig_entry()
            return {'how': how, 'r': r, 'd': ms[0][0], 'p': P()}
        if rng.random() < 0.05 and how == 'inner_set':
            return {'how': how, 'r': 'no_such_rig', 'd': 'x', 'p': P()}           # KeyError
        r = rng.choice(nonempty or [x for x, _ in R])
        up = {r} | {a for a, _ in (_chain_up(parents, rg, r) or [])}
        tops = [x for x in rg if x not in parents and x not in up]
        k = rng.random()
        if rg[r] and k < 0.65:
            d = rng.choice(list(rg[r]))                                              # re-calibration of a member
        elif tops and k < 0.8:
            d = rng.choice(tops)                                                     # a top-level rig becomes a sub-rig
        else:
            d = new_sensor()
        return {'how': how, 'r': r, 'd': d, 'p': P()}
    if how == 'inner_update':
        r = rng.choice([x for x, _ in R])
        ds = ([rng.choice(list(rg[r]))] if rg[r] else []) + ([new_sensor()] if rng.random() < 0.5 else [])
        return {'how': how, 'r': r, 'm': [[d, P()] for d in dict.fromkeys(ds)]}
    if how in ('inner_del', 'inner_pop'):
        if not R or rng.random() < 0.06:
            return {'how': how, 'r': rng.choice([x for x, _ in R] + ['no_such_rig']), 'd': 'no_such_member'}   # KeyError
        big = [r for r, ms in R if len(ms) >= 2]
        r = rng.choice(big) if big and rng.random() < 0.9 else rng.choice(nonempty or [x for x, _ in R])
        if not rg[r]:
            return {'how': how, 'r': r, 'd': 'no_such_member'}
        return {'how': how, 'r': r, 'd': rng.choice(list(rg[r]))}
    if how == 'rig_set':
        if R and rng.random() < 0.4:
            r = rng.choice([x for x, _ in R])                                       # same members, new geometry
            return {'how': how, 'r': r, 'm': [[d, P()] for d in rg[r]] or [[new_sensor(), P()]]}
        r, ms = new_rig_entry()
        return {'how': how, 'r': r, 'm': ms}
    if how in ('rig_del', 'pop'):
        if not R or rng.random() < 0.06:
            return {'how': how, 'r': 'no_such_rig'}                                 # KeyError
        return {'how': how, 'r': rng.choice([x for x, _ in R])}
    if how in ('update', 'ior'):
        o = []
        for _ in range(rng.choice([1, 1, 2])):
            if R and rng.random() < 0.35:
                r = rng.choice([x for x, _ in R])
                if r not in [x for x, _ in o]:
                    o.append([r, [[d, P()] for d in rg[r]] or [[new_sensor(), P()]]])   # same members, new geometry
            else:
                o.append(new_rig_entry())
        return {'how': how, 'o': o}
    if how == 'setdefault':
        if R and rng.random() < 0.3:
            return {'how': how, 'r': rng.choice([x for x, _ in R]), 'm': [[new_sensor(), P()]]}   # present: no effect
        r, ms = new_rig_entry()
        return {'how': how, 'r': r, 'm': ms}
    return {'how': how}                                                             # popitem / clear


def _gen_history(rng):
    full = rng.random() < 0.15
    near = rng.random() < 0.25

    def P():
        if near and rng.random() < 0.4:
            return _near_identity(rng, full)
        return _rand_pose(rng, full)
    rigs, free = _gen_forest(rng, rng.choice([1, 2, 2, 3]), rng.choice([1, 2, 2, 3]), rng.randint(0, 2), full, P)
    cls = rng.choice(['roots', 'roots', 'mixed'])
    traj = _gen_traj(rng, rigs, free, rng.choice([1, 2, 2, 3]), cls, full, P)
    R = copy.deepcopy(rigs)
    G = traj                      # the last trajectories the generator wrote itself (for master lists)
    free = list(free)
    steps, level, hows = [], 'rigs', []

    def call(fn):
        st = {'s': 'call', 'fn': fn, 'masters': None}
        if fn.startswith('recover'):
            mk = rng.choice(['none'] * 7 + ['valid', 'valid', 'junk'])
            try:
                st['masters'] = _gen_masters(rng, copy.deepcopy(R), G, mk)
            except Exception:   # noqa  (forest no longer valid: any list will do)
                st['masters'] = ['nobody']
        steps.append(st)
    for b in range(rng.randint(2, 4)):
        if b > 0:
            for _ in range(rng.choice([1, 1, 2, 3])):
                e = _gen_edit(rng, R, free, P)
                before = {d for _, ms in R for d, _ in ms}
                _model_edit(R, e)
                rg, parents = _forest({'rigs': R})
                free = [d for d in dict.fromkeys(free + sorted(before)) if d not in rg and d not in parents]
                steps.append(dict(e, s='edit'))
                hows.append(e['how'])
            if level == 'sensors' or rng.random() < 0.6:
                try:
                    c = rng.choice(['roots', 'roots', 'mixed'])
                    if not _judge({'rigs': R, 'traj': []})['forest_ok']:
                        raise ValueError
                    G = _gen_traj(rng, copy.deepcopy(R), [f for f in free if rng.random() < 0.7], rng.choice([1, 2, 2, 3]), c, full, P)
                except Exception:   # noqa
                    G = [[1, [[r, P()] for r, _ in R[:2]] or [['lonely', P()]]]]
                steps.append({'s': 'traj', 'traj': G})
                level = 'rigs'
        if level == 'rigs':
            seq, level = rng.choice([(['remove_ip', 'recover', 'recover_ip'], 'rigs'),
                                     (['remove', 'remove_ip', 'recover_ip'], 'rigs'),
                                     (['recover', 'remove_ip', 'recover_ip'], 'rigs'),
                                     (['recover_ip', 'remove_ip', 'recover'], 'sensors'),
                                     (['remove_ip', 'recover'], 'sensors')])
        else:
            seq, level = rng.choice([(['recover', 'recover_ip'], 'rigs'), (['recover'], 'sensors'),
                                     (['recover_ip', 'remove_ip', 'recover'], 'sensors')])
        for fn in seq:
            call(fn)
    return {'kind': 'history', 'rigs': rigs, 'traj': traj, 'steps': steps,
            'cls': 'history:' + cls + ('/near' if near else '') + ('/full' if full else '')}


def _gen_max_depth_case(rng):
    """The `max_depth` argument of rigs_remove_inplace / rigs_recover_inplace (range(max_depth) iterations), drawn around
    the nesting depth of the forest: below it (rig ids / mounted devices are left: only model == code is compared), equal to
    it, above it (the property applies to the in-place results too; the result does not depend on the value)."""
    if rng.random() < 0.5:
        rigs, free = _gen_forest(rng, rng.choice([1, 2, 3, 4, 4]), rng.choice([1, 2, 3, 3]), rng.randint(0, 1))
    else:
        n = rng.randint(2, 6)
        rigs = [[f'r{i:02d}', [[f'r{i - 1:02d}' if i else 'leaf', _rand_pose(rng)]]
                 + ([[f's{i}', _rand_pose(rng)]] if rng.random() < 0.5 else [])] for i in range(n)]
        rng.shuffle(rigs)
        free = ['free'] if rng.random() < 0.3 else []
    cls = rng.choice(['roots', 'roots', 'mixed'])
    traj = _gen_traj(rng, rigs, free, rng.choice([1, 1, 2, 3]), cls)
    mk = rng.choice(['none', 'none', 'valid'])
    masters = _gen_masters(rng, rigs, traj, mk)
    depth = _judge({'rigs': rigs, 'traj': traj})['depth']
    k = rng.choice([0, 1, max(depth - 1, 0), max(depth - 1, 0), depth, depth, depth + 1, depth + 1, 12, 14, 25])
    rel = 'below' if k < depth else 'exact' if k == depth else 'above'
    return {'rigs': rigs, 'traj': traj, 'masters': masters, 'rec_in': None, 'max_depth': k,
            'cls': f'max-depth:{rel}/{cls}/m={mk}'}


def gen_cases(rng, tier):
    cases = []
    n_main = 230 if tier == 'quick' else 2000
    for i in range(n_main):
        n_rigs = rng.choice([0, 1, 1, 2, 2, 3, 3, 4, 4])
        max_nest = rng.choice([1, 2, 3, 3])
        full = rng.random() < 0.2          # full-precision doubles (large exact rationals: slower in Coq)
        rigs, free = _gen_forest(rng, n_rigs, max_nest, rng.randint(0, 2), full)
        cls = rng.choice(['roots', 'roots', 'mixed', 'mixed', 'arb'])
        n_ts = rng.choice([0, 1, 1, 2, 2, 3, 4])
        traj = _gen_traj(rng, rigs, free, n_ts, cls, full)
        mk = rng.choice(['none', 'none', 'valid', 'valid', 'junk'])
        masters = _gen_masters(rng, rigs, traj, mk)
        cases.append({'rigs': rigs, 'traj': traj, 'masters': masters, 'rec_in': None, 'cls': cls + '/m=' + mk + ('/full' if full else '')})
    n_bad = 45 if tier == 'quick' else 360
    for k in range(n_bad):
        cases.append(_malformed(rng, k))
    # the two streams below come last so that the streams above draw the same cases as before they were added
    for _ in range(48 if tier == 'quick' else 400):
        cases.append(_gen_near_identity_case(rng))
    for _ in range(40 if tier == 'quick' else 320):
        cases.append(_gen_history(rng))
    for _ in range(32 if tier == 'quick' else 280):
        cases.append(_gen_print_precision_case(rng))
    for _ in range(24 if tier == 'quick' else 200):
        cases.append(_gen_dtype_case(rng))
    for _ in range(36 if tier == 'quick' else 300):
        cases.append(_gen_max_depth_case(rng))
    return cases


# ------------------------------------------------------------------ running the implementation
def _mk_pose(p, spec=None):
    """PoseTransform from lists (default) or, when the case asks for it (`ctor`), from numpy arrays of a given dtype for r
    and / or t -- PoseTransform keeps a numpy t as given, dtype included.  Only when every value is exactly representable
    in that dtype, so that the exact rational input of the oracle and of the model is the value the object holds."""
    import kapture
    import numpy as np
    r, t = list(p[:4]), list(p[4:])
    if spec:
        def arr(vals, dt, col):
            if dt is None:
                return vals
            a = np.array(vals, dtype=dt)
            if [float(x) for x in a.tolist()] != [float(x) for x in vals]:
                return vals
            return a.reshape((len(vals), 1)) if col else a
        r, t = arr(r, spec.get('r'), False), arr(t, spec.get('t'), bool(spec.get('col')))
    return kapture.PoseTransform(r=r, t=t)


def _build(rigs_l, traj_l, ctor=None):
    import kapture
    ctor = ctor or {}
    rigs = kapture.Rigs()
    for r, ms in rigs_l:
        rigs[r] = {}
        for d, g in ms:
            rigs[r, d] = _mk_pose(g, ctor.get(f'R|{r}|{d}'))
    traj = kapture.Trajectories()
    for t, m in traj_l:
        # dict.setdefault is not overridden by Trajectories: this is how the code itself creates a timestamp, and the
        # only public way to hold an empty one (rigs_recover leaves such timestamps behind); `traj[t] = {}` drops it
        traj.setdefault(int(t), {})
        for d, p in m:
            traj[int(t), d] = _mk_pose(p, ctor.get(f'T|{int(t)}|{d}'))
    assert [k for k in traj.keys()] == [int(t) for t, _ in traj_l], 'harness could not build the requested trajectories'
    return rigs, traj


def _dump(m2):
    return [[k, [[d, [float(x) for x in p.r_raw] + [float(x) for x in p.t_raw]] for d, p in inner.items()]]
            for k, inner in m2.items()]


def _call(fn):
    try:
        return 'none', fn()
    except RuntimeError as e:
        return ('runtime' if 'changed size during iteration' in str(e) else 'other:RuntimeError'), None
    except KeyError:
        return 'key', None
    except Exception as e:  # noqa
        return 'other:' + type(e).__name__, None


def _pt(p):
    import kapture
    return kapture.PoseTransform(r=list(p[:4]), t=list(p[4:]))


def _apply_edit(rigs, e):
    """the edit on the real Rigs object, through the very path it names"""
    import kapture
    how = e['how']
    if how == 'pair_set':
        rigs[e['r'], e['d']] = _pt(e['p'])
    elif how == 'rig_set':
        rigs[e['r']] = {d: _pt(p) for d, p in e['m']}
    elif how == 'inner_set':
        rigs[e['r']][e['d']] = _pt(e['p'])
    elif how == 'inner_update':
        rigs[e['r']].update({d: _pt(p) for d, p in e['m']})
    elif how == 'inner_del':
        del rigs[e['r']][e['d']]
    elif how == 'inner_pop':
        rigs[e['r']].pop(e['d'])
    elif how == 'rig_del':
        del rigs[e['r']]
    elif how == 'pop':
        rigs.pop(e['r'])
    elif how == 'popitem':
        rigs.popitem()
    elif how in ('update', 'ior'):
        other = kapture.Rigs()
        for r, ms in e['o']:
            other[r] = {}
            for d, p in ms:
                other[r, d] = _pt(p)
        if how == 'update':
            rigs.update(other)
        else:
            same = rigs
            same |= other
            assert same is rigs
    elif how == 'setdefault':
        rigs.setdefault(e['r'], {d: _pt(p) for d, p in e['m']})
    elif how == 'clear':
        rigs.clear()
    else:
        raise ValueError('unknown edit ' + how)


def _run_history(case):
    """every step on the SAME Rigs object and the SAME Trajectories object"""
    import kapture
    rigs, traj = _build(case['rigs'], case['traj'], case.get('ctor'))
    fns = {'remove': kapture.rigs_remove, 'remove_ip': kapture.rigs_remove_inplace,
           'recover': kapture.rigs_recover, 'recover_ip': kapture.rigs_recover_inplace}
    out = []
    for st in case['steps']:
        if st['s'] == 'edit':
            exc, _ = _call(lambda: _apply_edit(rigs, st))
            out.append({'exc': exc, 'rigs': _dump(rigs)})
        elif st['s'] == 'traj':
            traj.clear()
            for t, m in st['traj']:
                traj.setdefault(int(t), {})
                for d, p in m:
                    traj[int(t), d] = _pt(p)
            out.append({'traj': _dump(traj)})
        else:
            fn, ms = st['fn'], st.get('masters')
            name = 'rigs_' + fn.replace('_ip', '_inplace')
            r0, t0 = _dump(rigs), _dump(traj)
            if fn.startswith('recover'):
                exc, res = _call(lambda: fns[fn](traj, rigs, None if ms is None else list(ms)))
            else:
                exc, res = _call(lambda: fns[fn](traj, rigs))
            after, impure = _dump(traj), []
            if _dump(rigs) != r0:
                impure.append(name + ' changed rigs')
            if fn.endswith('_ip'):
                state = after
            else:
                state = _dump(res) if res is not None else None
                if after != t0:
                    impure.append(name + ' changed its trajectories argument')
                if res is traj:
                    impure.append(name + ' returned its argument')
            out.append({'before': t0, 'exc': exc, 'state': state, 'pure': not impure, 'impure': impure})
    return {'steps': out}


def run_impl(case, ctx):
    import kapture
    if case.get('kind') == 'history':
        return _run_history(case)
    obs = {'pure': True, 'impure': []}
    # explicit max_depth for the two in-place functions (the copying variants have no such argument); absent = default call
    kw = {'max_depth': case['max_depth']} if case.get('max_depth') is not None else {}

    def run_pair(copy_fn, inplace_fn, traj_l):
        rigs, traj = _build(case['rigs'], traj_l, case.get('ctor'))
        r0, t0 = _dump(rigs), _dump(traj)
        exc, res = _call(lambda: copy_fn(traj, rigs))
        o_copy = {'exc': exc, 'state': _dump(res) if res is not None else None}
        if _dump(rigs) != r0:
            obs['pure'] = False
            obs['impure'].append(copy_fn.__name__ + ' changed rigs')
        if _dump(traj) != t0:
            obs['pure'] = False
            obs['impure'].append(copy_fn.__name__ + ' changed its trajectories argument')
        if res is traj:
            obs['pure'] = False
            obs['impure'].append(copy_fn.__name__ + ' returned its argument')
        rigs2, traj2 = _build(case['rigs'], traj_l, case.get('ctor'))
        exc2, _ = _call(lambda: inplace_fn(traj2, rigs2, **kw))
        o_ip = {'exc': exc2, 'state': _dump(traj2)}
        if _dump(rigs2) != r0:
            obs['pure'] = False
            obs['impure'].append(inplace_fn.__name__ + ' changed rigs')
        return o_copy, o_ip

    obs['remove'], obs['remove_ip'] = run_pair(kapture.rigs_remove, kapture.rigs_remove_inplace, case['traj'])
    rec_in = case.get('rec_in')
    if rec_in is None and obs['remove']['exc'] == 'none':
        rec_in = obs['remove']['state']
    obs['rec_in'] = rec_in
    if rec_in is not None:
        ms = case['masters']
        obs['recover'], obs['recover_ip'] = run_pair(
            lambda t, r: kapture.rigs_recover(t, r, None if ms is None else list(ms)),
            lambda t, r, **k: kapture.rigs_recover_inplace(t, r, None if ms is None else list(ms), **k), rec_in)
        obs['impure'] = [s.replace('<lambda>', 'rigs_recover') for s in obs['impure']]
    else:
        obs['recover'] = obs['recover_ip'] = None
    return obs


# ------------------------------------------------------------------ oracle: the property on what the code did
def _check_removed(case, J, o, which):
    if o['exc'] != 'none' or o['state'] is None:
        return f'{which} raised {o["exc"]} on a configuration inside the quantifier'
    exp = _expected_remove(case, J)
    got = {t: dict(m) for t, m in o['state']}
    inp = {t: dict(m) for t, m in case['traj']}
    rigs = J['rigs']
    for t, m in got.items():
        for d in m:
            if d in rigs:
                return f'{which}: a rig identifier is still posed after the replacement'
    for t, e in exp.items():
        g = got.get(t, {})
        for d, (how, ref) in e.items():
            if d not in g:
                return f'{which}: a sensor that should be posed is missing ({how})'
            if how == 'same':
                if [float(x) for x in g[d]] != [float(x) for x in inp[t][d]]:
                    return f'{which}: the entry of a device that is not a rig was modified'
            elif not _close(g[d], ref):
                return f'{which}: a sensor below a posed rig does not get rig pose composed with the rig geometry'
        extra = set(g) - set(e)
        if extra:
            return f'{which}: a device got a pose from nowhere'
    if set(got) - set(exp):
        return f'{which}: a timestamp appeared'
    for t, e in exp.items():
        if e and t not in got:
            return f'{which}: a timestamp disappeared'
    return None


def _check_recovered(inp_l, J, removed, o, which):
    """inp_l: the trajectories rigs_remove replaced (None when the input of recover is not such a result)"""
    if o['exc'] != 'none' or o['state'] is None:
        return f'{which} raised {o["exc"]} on the output of rigs_remove'
    rigs, parents, chains = J['rigs'], J['parents'], J['chains']
    got = {t: dict(m) for t, m in o['state']}
    inp = {t: dict(m) for t, m in (inp_l or [])}
    for t, m in inp.items():
        for d, p in m.items():
            if d in rigs and d not in parents:
                if d not in got.get(t, {}):
                    return f'{which}: the pose of a top-level rig that was replaced is not recovered'
                if not _close(got[t][d], _fr(p)):
                    return f'{which}: the recovered pose of a top-level rig differs from the pose that was replaced'
    for t, m in removed:
        g = got.get(t, {})
        for d, p in m:
            acc, w = [], None
            if d in g:
                w = _fr(g[d])
            else:
                for r, gg in chains[d]:
                    acc.append(_fr(gg))
                    if r in g:
                        w = _fr(g[r])
                        break
            if w is None:
                return f'{which}: a posed sensor lost its world pose (no posed rig above it)'
            for g_ in reversed(acc):
                w = _compose(g_, w)
            if not _close(p, w):
                return f'{which}: a sensor moved (world pose implied by the recovered rig pose differs)'
    return None


def _same_rigs(a, b):
    return {r: dict((d, tuple(g)) for d, g in ms) for r, ms in a} == {r: dict((d, tuple(g)) for d, g in ms) for r, ms in b}


def _oracle_history(case, obs):
    """every call against the rigs and the trajectories AS THEY ARE at that call (snapshots of the real objects)"""
    R = case['rigs']
    origin = None          # the trajectories are the untouched result of a judged rigs_remove_inplace(inp) under rigs R0
    for st, o in zip(case['steps'], obs['steps']):
        if st['s'] == 'edit':
            R = o['rigs']
            continue
        if st['s'] == 'traj':
            origin = None
            continue
        fn = st['fn']
        name = 'rigs_' + fn.replace('_ip', '_inplace')
        if not o['pure']:
            return 'arguments modified: ' + '; '.join(sorted(set(o['impure'])))
        tb = o['before']
        pc = {'rigs': R, 'traj': tb, 'masters': st.get('masters')}
        J = _judge(pc)
        if fn.startswith('remove'):
            if J['remove_judged']:
                sig = _check_removed(pc, J, o, name)
                if sig:
                    return sig + ' (history on one Rigs object)'
            if fn == 'remove_ip':
                origin = ({'inp': tb, 'rigs': R, 'out': o['state']}
                          if J['remove_judged'] and o['exc'] == 'none' and _consistent(pc, J) else None)
        else:
            if J['remove_judged'] and _consistent(pc, J) and _masters_ok(pc, J, tb):
                inp = None
                if origin is not None and origin['out'] == tb and _same_rigs(origin['rigs'], R):
                    inp = origin['inp']
                sig = _check_recovered(inp, J, tb, o, name)
                if sig:
                    return sig + ' (history on one Rigs object)'
            if fn == 'recover_ip':
                origin = None
    return None


def oracle(case, obs):
    if case.get('kind') == 'history':
        return _oracle_history(case, obs)
    if not obs['pure']:
        return 'arguments modified: ' + '; '.join(sorted(set(obs['impure'])))
    J = _judge(case)
    if not J['remove_judged']:
        return None
    # an explicit max_depth below the nesting depth is outside the statement for the in-place call that received it
    ip_judged = case.get('max_depth') is None or case['max_depth'] >= J['depth']
    for which in ('remove', 'remove_ip'):
        if which == 'remove_ip' and not ip_judged:
            continue
        sig = _check_removed(case, J, obs[which], 'rigs_remove' + ('_inplace' if which.endswith('ip') else ''))
        if sig:
            return sig
    if case.get('rec_in') is not None or obs['recover'] is None:
        return None
    removed = obs['rec_in']
    if not _consistent(case, J) or not _masters_ok(case, J, removed):
        return None
    for which in ('recover', 'recover_ip'):
        if which == 'recover_ip' and not ip_judged:
            continue
        sig = _check_recovered(case['traj'], J, removed, obs[which], 'rigs_recover' + ('_inplace' if which.endswith('ip') else ''))
        if sig:
            return sig
    return None


# ------------------------------------------------------------------ Coq encoding
def _cpose(p):
    return ('(mkP (mkQ %s %s %s %s) (mkV %s %s %s))' % tuple(kv.cq(float(x)) for x in p))


def _cinner(m):
    return kv.clist(kv.cpair(kv.cstr(d), _cpose(p)) for d, p in m)


def _ctraj(tr):
    return kv.clist(kv.cpair(kv.cz(t), _cinner(m)) for t, m in tr)


_EXC = {'none': 'ENone', 'runtime': 'ERuntime', 'key': 'EKey'}


def _cedit(e):
    how = e['how']
    S, inner = kv.cstr, _cinner
    if how == 'pair_set':
        return f'(ESetPair {S(e["r"])} {S(e["d"])} {_cpose(e["p"])})'
    if how == 'rig_set':
        return f'(ESetRig {S(e["r"])} {inner(e["m"])})'
    if how == 'inner_set':
        return f'(ESetInner {S(e["r"])} {S(e["d"])} {_cpose(e["p"])})'
    if how == 'inner_update':
        return f'(EUpdInner {S(e["r"])} {inner(e["m"])})'
    if how in ('inner_del', 'inner_pop'):
        return f'(EDelInner {S(e["r"])} {S(e["d"])})'
    if how in ('rig_del', 'pop'):
        return f'(EDelRig {S(e["r"])})'
    if how == 'popitem':
        return 'EPopItem'
    if how in ('update', 'ior'):
        return '(EUpdate %s)' % kv.clist(kv.cpair(S(r), inner(ms)) for r, ms in e['o'])
    if how == 'setdefault':
        return f'(ESetDefault {S(e["r"])} {inner(e["m"])})'
    if how == 'clear':
        return 'EClear'
    raise ValueError(how)


_KIND = {'remove': 'KRemove', 'remove_ip': 'KRemoveIp', 'recover': 'KRecover', 'recover_ip': 'KRecoverIp'}


def _encode_history(case, obs):
    lets, names = [], {}

    def share(x, ty, enc):
        key = ty + repr(x)
        if key not in names:
            names[key] = f'u{len(names)}'
            lets.append(f'let {names[key]} : {ty} pose := {enc(x)} in')
        return names[key]

    def crigs(rl):
        return kv.clist(kv.cpair(kv.cstr(r), _cinner(ms)) for r, ms in rl)
    steps = []
    for st, o in zip(case['steps'], obs['steps']):
        if st['s'] == 'edit':
            steps.append(f'HEdit {_cedit(st)} {_EXC.get(o["exc"], "EOther")} {share(o["rigs"], "rigs", crigs)}')
        elif st['s'] == 'traj':
            steps.append(f'HTraj {share(o["traj"], "traj", _ctraj)}')
        else:
            ms = st.get('masters')
            state = 'None' if o['state'] is None else f'(Some {share(o["state"], "traj", _ctraj)})'
            steps.append('HCall %s %s {| o_exc := %s; o_state := %s |} %s' % (
                _KIND[st['fn']], kv.copt(None if ms is None else kv.clist(kv.cstr(x) for x in ms)),
                _EXC.get(o['exc'], 'EOther'), state, kv.cbool(o['pure'])))
    body = '{| h_rigs := %s; h_traj := %s; h_steps := %s |}' % (
        share(case['rigs'], 'rigs', crigs), share(case['traj'], 'traj', _ctraj), kv.clist(steps))
    return '(XHist (' + '\n'.join(lets) + '\n' + body + '))'


def encode(case, obs):
    if case.get('kind') == 'history':
        return _encode_history(case, obs)
    lets, names = [], {}

    def share(tr):
        """bind each distinct trajectories term once (the in-place result usually equals the returned one)."""
        key = repr(tr)
        if key not in names:
            names[key] = f'u{len(names)}'
            lets.append(f'let {names[key]} : traj pose := {_ctraj(tr)} in')
        return names[key]

    def cobs(o):
        st = 'None' if o['state'] is None else f'(Some {share(o["state"])})'
        return '{| o_exc := %s; o_state := %s |}' % (_EXC.get(o['exc'], 'EOther'), st)
    rigs = kv.clist(kv.cpair(kv.cstr(r), _cinner(ms)) for r, ms in case['rigs'])
    fields = {
        'c_rigs': rigs, 'c_traj': share(case['traj']),
        'c_masters': kv.copt(None if case['masters'] is None else kv.clist(kv.cstr(s) for s in case['masters'])),
        'c_fuel': kv.cnat(case['max_depth'] if case.get('max_depth') is not None else 10),
        'o_remove': cobs(obs['remove']), 'o_remove_ip': cobs(obs['remove_ip']),
        'c_rec_in': 'None' if obs['rec_in'] is None else f'(Some {share(obs["rec_in"])})',
        'o_recover': 'None' if obs['recover'] is None else f'(Some {cobs(obs["recover"])})',
        'o_recover_ip': 'None' if obs['recover_ip'] is None else f'(Some {cobs(obs["recover_ip"])})',
        'o_pure': kv.cbool(obs['pure']),
    }
    body = '{| ' + '; '.join(f'{k} := {v}' for k, v in fields.items()) + ' |}'
    return '(XOne (' + '\n'.join(lets) + '\n' + body + '))'


# ------------------------------------------------------------------ evidence helpers
def _history_calls(case, obs):
    """(rigs snapshot, step, observation) for every call of a history"""
    R = case['rigs']
    for st, o in zip(case['steps'], obs['steps']):
        if st['s'] == 'edit':
            R = o['rigs']
        elif st['s'] == 'call':
            yield R, st, o


def nontrivial(case, obs):
    if case.get('kind') == 'history':
        return any(d in {r for r, _ in R} for R, _, o in _history_calls(case, obs) for _, m in o['before'] for d, _ in m)
    rigs = {r for r, _ in case['rigs']}
    return any(d in rigs for _, m in case['traj'] for d, _ in m)


def classify(case, obs):
    if case.get('kind') == 'history':
        judged = sum(1 for R, st, o in _history_calls(case, obs) if _judge({'rigs': R, 'traj': o['before']})['remove_judged'])
        edits = [st['how'] for st in case['steps'] if st['s'] == 'edit']
        excs = sorted({o['exc'] for _, _, o in _history_calls(case, obs)} - {'none'})
        calls = sum(1 for st in case['steps'] if st['s'] == 'call')
        kinds = sorted({'inner' if h.startswith('inner') else 'setitem' if h in ('pair_set', 'rig_set') else 'dict' for h in edits})
        return (f'{case.get("cls", "history")}/edits={"+".join(kinds) or "-"}/all_calls_judged={int(judged == calls)}'
                f'/exc={"+".join(excs) or "none"}')
    J = _judge(case)
    rec = 'norec' if obs['recover'] is None else obs['recover']['exc']
    return (f'{case.get("cls", "?")}/depth={J["depth"] if J["forest_ok"] else "x"}/judged={int(J["remove_judged"])}'
            f'/remove={obs["remove"]["exc"]}/recover={rec}')


def describe(case, obs):
    if case.get('kind') == 'history':
        def brief(st, o):
            if st['s'] == 'edit':
                return {k: v for k, v in st.items() if k in ('how', 'r', 'd')} | {'raised': o['exc']}
            if st['s'] == 'traj':
                return {'refill': [[t, [d for d, _ in m]] for t, m in o['traj']]}
            return {'call': st['fn'], 'masters': st.get('masters'), 'exc': o['exc'],
                    'before': [[t, [d for d, _ in m]] for t, m in o['before']],
                    'result': None if o['state'] is None else [[t, [d for d, _ in m]] for t, m in o['state']]}
        return {'rigs': [[r, [d for d, _ in ms]] for r, ms in case['rigs']],
                'traj_keys': [[t, [d for d, _ in m]] for t, m in case['traj']],
                'steps': [brief(st, o) for st, o in zip(case['steps'], obs['steps'])]}
    return {'rigs': [[r, [d for d, _ in ms]] for r, ms in case['rigs']],
            'traj_keys': [[t, [d for d, _ in m]] for t, m in case['traj']], 'masters': case['masters'],
            'after_remove': None if obs['remove']['state'] is None else [[t, [d for d, _ in m]] for t, m in obs['remove']['state']],
            'after_recover': None if not obs['recover'] or obs['recover']['state'] is None
            else [[t, [d for d, _ in m]] for t, m in obs['recover']['state']],
            'exceptions': [obs['remove']['exc'], obs['remove_ip']['exc'], obs['recover'] and obs['recover']['exc']]}


def _shrink_history(case):
    for i in reversed(range(len(case['steps']))):
        c = copy.deepcopy(case)
        del c['steps'][i]
        yield c
    for i in range(len(case['traj'])):
        if len(case['traj']) > 1:
            c = copy.deepcopy(case)
            del c['traj'][i]
            yield c
    for k, st in enumerate(case['steps']):
        if st['s'] == 'traj':
            for i in range(len(st['traj'])):
                if len(st['traj']) > 1:
                    c = copy.deepcopy(case)
                    del c['steps'][k]['traj'][i]
                    yield c
        if st['s'] == 'call' and st.get('masters'):
            c = copy.deepcopy(case)
            c['steps'][k]['masters'] = None
            yield c


def _prune_ctor(c):
    if c.get('ctor'):
        live = {f'R|{r}|{d}' for r, ms in c['rigs'] for d, _ in ms} | {f'T|{int(t)}|{d}' for t, m in c['traj'] for d, _ in m}
        c['ctor'] = {k: v for k, v in c['ctor'].items() if k in live}
    return c


def shrink(case):
    if case.get('kind') == 'history':
        yield from _shrink_history(case)
        return
    yield from (_prune_ctor(c) for c in _shrink_single(case))


def _shrink_single(case):
    for i in range(len(case['traj'])):
        c = copy.deepcopy(case)
        del c['traj'][i]
        yield c
    for i, (t, m) in enumerate(case['traj']):
        for j in range(len(m)):
            if len(m) > 1:
                c = copy.deepcopy(case)
                del c['traj'][i][1][j]
                yield c
    for i, (r, ms) in enumerate(case['rigs']):
        c = copy.deepcopy(case)
        del c['rigs'][i]
        yield c
        for j in range(len(ms)):
            if len(ms) > 1:
                c = copy.deepcopy(case)
                del c['rigs'][i][1][j]
                yield c
    if case['masters']:
        c = copy.deepcopy(case)
        c['masters'] = None
        yield c


TECHNIQUE = ('Coq proofs about an executable Gallina model of the job-list iterations of rigs_remove_inplace / '
             'rigs_recover_inplace, parametric in the pose algebra and instantiated with the rigid-transform group over Q '
             '(MPose/PPose, C05): invariants over the job folds and over the fuel (max_depth), a consistency invariant '
             '(every entry equals the world pose of its device) for the inverse law; differential correspondence of the '
             'model with the four real functions by vm_compute, on single calls and on histories (calls interleaved with edits '
             'of ONE Rigs object through every dict path; the model applies the edits itself and is compared at every call)')
LEVEL_TEXT = ('Theorems in coq/Props/C06.v hold for every rig forest of nesting depth <= 10 and every trajectories: after '
              'rigs_remove no rig id remains, entries of non-rig devices are untouched, each sensor below a posed rig gets '
              'compose(path poses leaf->root ++ [rig pose]), nothing else appears, no exception; recover after remove (masters '
              'unspecified, any depth) gives back (==) every top-level rig pose and leaves every posed sensor at its world pose, '
              'with no world hypothesis when only top-level rigs and free sensors are posed; with a master list that names a live member '
              'of every rig with something posed below it (any depth): every such top-level rig is recovered, no sensor moves; KeyError unreachable; a depth-11 '
              'chain keeps a rig id (the bound is real); over histories (calls interleaved with any edits of the rigs and refills) '
              'every call returns what the function returns on the current (rigs, trajectories), and the inverse law holds for the '
              'geometry of now; for every explicit max_depth >= nesting depth the same results, literally independent of its value; '
              'trajectories with nothing to replace / recover come back literally unchanged, both operations are idempotent, and '
              'remove o recover o remove poses every sensor where the first remove did. The model is tied to the code by running the four real functions on '
              'generated forests / trajectories (single calls and histories on one Rigs / one Trajectories object) and comparing '
              'key sets exactly and poses to 1e-9 inside Coq.')
LEVEL_NOTE = ('not modelled: float rounding of compose/inverse (1e-9 tolerance of the property), numba/numpy internals; deepcopy is '
              'modelled (drops empty timestamps) and observed by snapshots; the executable (code-arithmetic) instance and the '
              'specification instance of the model differ by the 1e-14 unit-band branch of the rotation matrix (C05). '
              'Trusted: Coq kernel + vm_compute, harness encoders.')
