"""C06 — switching between rig poses and per-sensor poses never moves a sensor.
Implementation under test: kapture.rigs_remove, rigs_remove_inplace, rigs_recover, rigs_recover_inplace
(kapture/core/Trajectories.py), through Rigs and PoseTransform.compose / inverse."""
import copy
from fractions import Fraction

import kv

ID = 'C06'
COQ_MODELS = ['MQV', 'MPose', 'MRigs']
COQ_HEADER = 'From KV Require Import Eqb AL Str.\nFrom KV.Model Require Import MQV MPose MRigs.'
CASE_TYPE = 'MRigs.case'
CHECK_FN = 'MRigs.check_case'
SHARD_SIZE = 16
CASE_TIMEOUT = 60
RULE = ('case = rig forest (0..4 rigs, 1..4 members, nesting 0..3, members sensors or rigs, free sensors) + trajectories over '
        '0..4 timestamps (class roots: only top-level rigs and free sensors posed; mixed-consistent: one posed device per '
        'root path, member poses derived exactly from one rig pose per tree and timestamp; mixed-arbitrary: same key '
        'pattern, independent poses) + master list (none / one live member per rig and timestamp / junk); plus a malformed '
        'stream outside the quantifier (double sources, a sensor in two rigs, empty rigs, empty timestamps, cyclic rigs, '
        'chains of depth 4..12, explicit recover inputs) on which only model/code agreement is required. '
        'Non-trivial = at least one rig is posed at some timestamp; distinct = distinct case content.')
NOTES = ['copy.deepcopy(Trajectories) rebuilds the copy through __setitem__, which drops empty timestamps (repo fix for C07): the '
         'copying variants therefore differ from the in-place ones on inputs that hold an empty timestamp; modelled (deepcopy_traj)']
TRUSTED = ['float rounding of PoseTransform.compose / inverse (numpy, numpy-quaternion, numba): the model is exact over Q and '
           'the comparison allows 1e-9 relative to the pose magnitude',
           'copy.deepcopy of Trajectories (copying variants): observed through argument snapshots only']
ASSUMPTIONS = ['every PoseTransform has both parts and a non-zero quaternion (zero quaternions raise ZeroDivisionError in '
               'compose; C05 models that outcome); check_case refuses cases outside this domain',
               'the oracle judges remove only when the forest is valid (one parent, acyclic, every rig has a member), no '
               'device has two pose sources at one timestamp and no timestamp is empty; it judges recover only on the output '
               'of remove for trajectories whose poses are consistent with one rig pose per tree and timestamp, with masters '
               'unspecified or hitting one live member per rig and timestamp']
EXHAUSTIVE = {'quick': False, 'thorough': False}
TOL = Fraction(1, 10 ** 9)


# ------------------------------------------------------------------ exact pose algebra of the oracle / generator
def _fr(p):
    return [Fraction(*float(x).as_integer_ratio()) for x in p]


def _qmul(a, b):
    return [a[0] * b[0] - a[1] * b[1] - a[2] * b[2] - a[3] * b[3],
            a[0] * b[1] + a[1] * b[0] + a[2] * b[3] - a[3] * b[2],
            a[0] * b[2] - a[1] * b[3] + a[2] * b[0] + a[3] * b[1],
            a[0] * b[3] + a[1] * b[2] - a[2] * b[1] + a[3] * b[0]]


def _rotate(q, v):
    w, x, y, z = q
    n = w * w + x * x + y * y + z * z
    m = [[1 - 2 * (y * y + z * z) / n, 2 * (x * y - z * w) / n, 2 * (x * z + y * w) / n],
         [2 * (x * y + z * w) / n, 1 - 2 * (x * x + z * z) / n, 2 * (y * z - x * w) / n],
         [2 * (x * z - y * w) / n, 2 * (y * z + x * w) / n, 1 - 2 * (x * x + y * y) / n]]
    return [sum(m[i][j] * v[j] for j in range(3)) for i in range(3)]


def _compose(a, b):
    """a o b on exact poses [qw,qx,qy,qz,tx,ty,tz]: x -> R(a) (R(b) x + tb) + ta."""
    q = _qmul(a[:4], b[:4])
    t = _rotate(a[:4], b[4:])
    return q + [t[i] + a[4 + i] for i in range(3)]


def _inverse(a):
    w, x, y, z = a[:4]
    n = w * w + x * x + y * y + z * z
    qi = [w / n, -x / n, -y / n, -z / n]
    return qi + _rotate(qi, [-c for c in a[4:]])


def _close(obs, ref):
    """observed doubles vs exact reference, 1e-9 relative to the pose magnitude."""
    obs, ref = _fr(obs), list(ref)
    sq = max(abs(c) for c in ref[:4])
    st = max(Fraction(1), max(abs(c) for c in ref[4:]))
    return (all(abs(o - r) <= TOL * sq for o, r in zip(obs[:4], ref[:4])) and
            all(abs(o - r) <= TOL * st for o, r in zip(obs[4:], ref[4:])))


# ------------------------------------------------------------------ forest helpers (on the case structure)
def _forest(case):
    rigs = {r: dict((d, g) for d, g in ms) for r, ms in case['rigs']}
    parents = {}
    for r, ms in case['rigs']:
        for d, _ in ms:
            parents.setdefault(d, [])
            if r not in parents[d]:
                parents[d].append(r)
    return rigs, parents


def _chain_up(parents, rigs, d, limit=64):
    """[(rig, pose d'_from_rig)] from d upwards, or None when a device has two parents or there is a cycle."""
    out, seen = [], {d}
    while d in parents:
        if len(parents[d]) != 1:
            return None
        r = parents[d][0]
        if r in seen or len(out) > limit:
            return None
        out.append((r, rigs[r][d]))
        seen.add(r)
        d = r
    return out


def _judge(case):
    """Which clauses of the property apply to this case (decided from the case alone)."""
    rigs, parents = _forest(case)
    devices = set(parents) | set(rigs) | {d for _, m in case['traj'] for d, _ in m}
    chains = {d: _chain_up(parents, rigs, d) for d in devices}
    forest_ok = (all(c is not None for c in chains.values()) and all(len(ms) > 0 for _, ms in case['rigs'])
                 and len({r for r, _ in case['rigs']}) == len(case['rigs'])
                 and all(len({d for d, _ in ms}) == len(ms) for _, ms in case['rigs']))
    depth = 0
    if forest_ok:
        for d in rigs:
            depth = max(depth, 1 + len(chains[d]))
    traj_ok = (len({t for t, _ in case['traj']}) == len(case['traj'])
               and all(len(m) > 0 and len({d for d, _ in m}) == len(m) for _, m in case['traj']))
    single = True
    if forest_ok and traj_ok:
        for _, m in case['traj']:
            posed = {d for d, _ in m}
            for d in posed:
                if any(a in posed for a, _ in chains[d]):
                    single = False
    return {'rigs': rigs, 'parents': parents, 'chains': chains, 'forest_ok': forest_ok, 'depth': depth,
            'traj_ok': traj_ok, 'single': single,
            'remove_judged': forest_ok and traj_ok and single and depth <= 10}


def _expected_remove(case, J):
    """The statement: every non-rig entry stays, every leaf below a posed rig gets the chain composition."""
    rigs, chains = J['rigs'], J['chains']
    exp = {}
    for t, m in case['traj']:
        posed = {d: _fr(p) for d, p in m}
        e = {}
        for d, p in m:
            if d not in rigs:
                e[d] = ('same', p)
        # every leaf (non-rig device) with a posed proper ancestor
        for d in chains:
            if d in rigs or d in posed:
                continue
            acc = []
            for r, g in chains[d]:
                acc.append(_fr(g))
                if r in posed:
                    w = posed[r]
                    for g_ in reversed(acc):
                        w = _compose(g_, w)
                    e[d] = ('calc', w)
                    break
        exp[t] = e
    return exp


def _consistent(case, J):
    """Do all posed devices of a tree agree on one rig pose per timestamp?  (decided exactly, 1e-12 slack)"""
    chains = J['chains']
    for _, m in case['traj']:
        roots = {}
        for d, p in m:
            w = _fr(p)
            ch = chains[d]
            # pose(d) = g0 o (g1 o ... o W_root)  =>  W_root = inv(g_k-1) o ... o inv(g0) o pose(d)
            for _, g in ch:
                w = _compose(_inverse(_fr(g)), w)
            root = ch[-1][0] if ch else d
            if root in roots:
                ref = roots[root]
                sq = max(abs(c) for c in ref[:4])
                st = max(Fraction(1), max(abs(c) for c in ref[4:]))
                if not (all(abs(a - b) <= Fraction(1, 10 ** 12) * sq for a, b in zip(w[:4], ref[:4])) and
                        all(abs(a - b) <= Fraction(1, 10 ** 12) * st for a, b in zip(w[4:], ref[4:]))):
                    return False
            else:
                roots[root] = w
    return True


def _masters_ok(case, J, removed):
    """masters unspecified, or: for every rig and timestamp with a live member (posed itself or above a posed
    device in the input of recover) some live member is a master."""
    if case['masters'] is None:
        return True
    ms = set(case['masters'])
    rigs, chains = J['rigs'], J['chains']
    for _, m in removed:
        live = set()
        for d, _ in m:
            live.add(d)
            for a, _ in chains.get(d, []) or []:
                live.add(a)
        for r, members in rigs.items():
            lm = [d for d in members if d in live]
            if lm and not any(d in ms for d in lm):
                return False
    return True


# ------------------------------------------------------------------ generator
_QUATS = [[1, 0, 0, 0], [0, 1, 0, 0], [0, 0, 1, 0], [0, 0, 0, 1], [0.5, 0.5, 0.5, 0.5], [0.5, -0.5, 0.5, -0.5],
          [1, 1, 0, 0], [1, 2, 3, 4], [0, 3, 0, -4], [2, 0, 0, 0], [-1, 0, 0, 0], [0.6, 0.8, 0, 0]]
_NAMES_R = ['rig0', 'rig1', 'Rig2', 'a_rig', 'zrig', 'rig10', 'r', 'base', 'head', 'Body', 'arm', 'rigé']
_NAMES_S = ['cam0', 'cam1', 'cam2', 'Cam3', 'lidar', 'gnss', 'a', 'z', 'cam10', '0cam', 'cám', 'wifi', 'depth0', 'B', 'imu', '_s']


def _short(rng, bound, bits=6):
    """a double with a short mantissa: k / 2^s -- keeps the exact rationals of the Coq side small"""
    s = rng.randint(0, bits)
    return rng.randint(-bound * 2 ** s, bound * 2 ** s) / float(2 ** s)


def _rand_quat(rng, full):
    k = rng.random()
    if k < 0.35:
        return [float(x) for x in rng.choice(_QUATS)]
    if not full:
        while True:
            q = [_short(rng, 2) for _ in range(4)]
            if sum(x * x for x in q) >= 0.05:
                return q                               # any norm: the normalising branch of the matrix code
    q = [rng.uniform(-1, 1) for _ in range(4)]
    n = sum(x * x for x in q) ** 0.5
    if n < 1e-3:
        return [1.0, 0.0, 0.0, 0.0]
    if k < 0.8:
        return [x / n for x in q]                      # unit up to rounding: exercises the 1e-14 band
    s = rng.choice([1e-2, 0.1, 0.5, 2.0, 10.0, 100.0])
    return [x / n * s for x in q]                      # scaled: exercises the normalising branch


def _rand_pose(rng, full=False):
    k = rng.random()
    if k < 0.3:
        t = [float(rng.randint(-5, 5)) for _ in range(3)]
    elif not full:
        t = [_short(rng, 10 if k < 0.9 else 1000) for _ in range(3)]
    elif k < 0.9:
        t = [rng.uniform(-10, 10) for _ in range(3)]
    else:
        t = [rng.uniform(-1000, 1000) for _ in range(3)]
    return _rand_quat(rng, full) + t


def _gen_forest(rng, n_rigs, max_nest, n_free, full=False):
    rnames = rng.sample(_NAMES_R, n_rigs)
    snames = rng.sample(_NAMES_S, len(_NAMES_S))
    level = {}
    members = {r: [] for r in rnames}
    for i, r in enumerate(rnames):
        cands = [p for p in rnames[:i] if level[p] < max_nest and len(members[p]) < 4]
        if cands and rng.random() < 0.65:
            p = rng.choice(cands)
            members[p].append(r)
            level[r] = level[p] + 1
        else:
            level[r] = 1
    for r in rnames:
        want = rng.randint(1, 4)
        while len(members[r]) < want and snames:
            members[r].append(snames.pop())
        if not members[r] and snames:
            members[r].append(snames.pop())
        rng.shuffle(members[r])
    order = list(rnames)
    rng.shuffle(order)
    rigs = [[r, [[d, _rand_pose(rng, full)] for d in members[r]]] for r in order]
    free = [snames.pop() for _ in range(min(n_free, len(snames)))]
    return rigs, free


def _gen_traj(rng, rigs, free, n_ts, cls, full=False):
    case0 = {'rigs': rigs, 'traj': []}
    rg, parents = _forest(case0)
    roots = [r for r in rg if r not in parents]
    ts_pool = rng.choice([list(range(0, 50)), list(range(-5, 6)), [10 ** 9 + i * 33 for i in range(20)],
                          [1614362592378 + 1000 * i for i in range(20)]])
    tss = rng.sample(ts_pool, n_ts)
    traj = []
    for t in tss:
        m = []
        for f in free:
            if rng.random() < 0.7:
                m.append([f, _rand_pose(rng, full)])
        for root in roots:
            w_root = _rand_pose(rng, full)
            exact = {root: _fr(w_root)}

            def world(d, r=None):
                return exact[d]

            def visit(d, top):
                # returns the list of posed devices below (and including) d: an antichain
                if d != root:
                    par = parents[d][0]
                    exact[d] = _compose(_fr(rg[par][d]), exact[par])
                p_here = {'roots': 1.0 if top else 0.0, 'mixed': 0.45, 'arb': 0.45}[cls]
                if top and cls == 'roots' and rng.random() < 0.2:
                    return
                if d not in rg:
                    if rng.random() < (0.8 if cls != 'roots' else 0.0):
                        emit(d)
                    return
                if rng.random() < p_here:
                    emit(d)
                    return
                for c in rg[d]:
                    visit(c, False)

            def emit(d):
                if cls == 'arb' and d != root:
                    m.append([d, _rand_pose(rng, full)])
                elif d == root:
                    m.append([d, w_root])
                else:
                    m.append([d, [float(x) for x in exact[d]]])
            visit(root, True)
        rng.shuffle(m)
        if m:
            traj.append([t, m])
    return traj


def _gen_masters(rng, rigs, traj, kind):
    if kind == 'none':
        return None
    case0 = {'rigs': rigs, 'traj': traj}
    J = _judge(case0)
    if kind == 'junk' or not J['forest_ok']:
        pool = [d for _, ms in rigs for d, _ in ms] + ['nobody', 'cam0']
        return rng.sample(pool, rng.randint(0, min(3, len(pool))))
    # one live member per rig and timestamp, by a fixed preference order per rig; live is computed on what remove
    # will produce: the leaves below posed devices
    rg, chains = J['rigs'], J['chains']
    pref = {r: rng.sample(list(ms), len(ms)) for r, ms in rg.items()}
    masters = []
    for _, m in traj:
        posed = {d for d, _ in m}
        live = set()
        for d in chains:
            if d in rg:
                continue
            up = [a for a, _ in chains[d]]
            if d in posed or any(a in posed for a in up):
                live.add(d)
                live.update(up)
        for r in rg:
            lm = [d for d in pref[r] if d in live]
            if lm and not any(d in masters for d in lm):
                masters.append(lm[0])
    rng.shuffle(masters)
    if rng.random() < 0.3:
        masters.append('nobody')
    return masters


def _malformed(rng, k):
    """Outside the quantifier: only the agreement between model and code is checked."""
    P = lambda: _rand_pose(rng)  # noqa: E731
    kind = ['double_source', 'two_rigs', 'empty_rig', 'empty_ts', 'cycle', 'deep', 'explicit_recover', 'self_member',
            'order'][k % 9]
    c = {'masters': None, 'rec_in': None, 'cls': 'malformed:' + kind}
    if kind == 'double_source':
        c['rigs'] = [['R', [['A', P()], ['s3', P()]]], ['A', [['s1', P()], ['s2', P()]]]]
        m = [['R', P()], ['A', P()]] + ([['s1', P()]] if rng.random() < 0.5 else [])
        rng.shuffle(m)
        c['traj'] = [[1, m], [2, [['A', P()], ['s3', P()]]]]
    elif kind == 'two_rigs':
        c['rigs'] = [['R1', [['s', P()], ['a', P()]]], ['R2', [['s', P()], ['b', P()]]]]
        c['traj'] = [[5, [['R1', P()]]], [6, [['R2', P()]]], [7, [['R1', P()], ['R2', P()]]]]
    elif kind == 'empty_rig':
        c['rigs'] = [['R', []], ['Q', [['s', P()]]]]
        c['traj'] = rng.choice([[[1, [['R', P()]]], [2, [['x', P()]]]], [[2, [['x', P()]]], [1, [['R', P()]]]],
                                [[1, [['R', P()], ['Q', P()]]]], [[1, [['R', P()]]], [3, [['R', P()]]], [2, [['Q', P()]]]]])
    elif kind == 'empty_ts':
        c['rigs'] = [['Q', [['s', P()]]]]
        c['traj'] = rng.choice([[[4, []], [2, [['Q', P()]]]], [[2, [['Q', P()]]], [4, []], [5, []]], [[9, []]]])
    elif kind == 'cycle':
        c['rigs'] = [['A', [['B', P()], ['s', P()]]], ['B', [['A', P()]]]]
        c['traj'] = [[1, [[rng.choice(['A', 'B']), P()]]]]
    elif kind == 'self_member':
        c['rigs'] = [['A', [['A', P()], ['s', P()]]]]
        c['traj'] = [[1, [['A', P()]]]]
    elif kind == 'deep':
        n = rng.randint(4, 12)
        c['rigs'] = [[f'r{i:02d}', [[f'r{i - 1:02d}' if i else 'leaf', P()]] + ([[f's{i}', P()]] if rng.random() < 0.4 else [])]
                     for i in range(n)]
        rng.shuffle(c['rigs'])
        c['traj'] = [[1, [[f'r{n - 1:02d}', P()]]]]
    elif kind == 'explicit_recover':
        c['rigs'] = [['R', [['A', P()], ['s3', P()]]], ['A', [['s1', P()], ['s2', P()]]]]
        c['traj'] = [[1, [['R', P()]]]]
        devs = ['R', 'A', 's1', 's2', 's3', 'free']
        c['rec_in'] = [[t, [[d, P()] for d in rng.sample(devs, rng.randint(0 if rng.random() < 0.3 else 1, 5))]]
                       for t in rng.sample(range(9), rng.randint(1, 3))]   # sometimes with an empty timestamp
        c['masters'] = rng.choice([None, ['s1'], ['s2', 's3'], ['A'], ['s1', 'A'], []])
    else:  # order: which sensor wins depends on the sorted order of the names
        names = rng.sample(['a', 'B', 'Z', 'b', '0', '_', 'ab', 'aa', 'é'], 3)
        c['rigs'] = [['R', [[n, P()] for n in names]]]
        c['traj'] = [[1, [['R', P()]]]]
        c['rec_in'] = [[t, [[n, P()] for n in rng.sample(names, rng.randint(1, 3))]] for t in (3, 1, 2)]
        c['masters'] = rng.choice([None, None, names[:1], names[1:]])
    return c


def gen_cases(rng, tier):
    cases = []
    n_main = 230 if tier == 'quick' else 2000
    for i in range(n_main):
        n_rigs = rng.choice([0, 1, 1, 2, 2, 3, 3, 4, 4])
        max_nest = rng.choice([1, 2, 3, 3])
        full = rng.random() < 0.2          # full-precision doubles (large exact rationals: slower in Coq)
        rigs, free = _gen_forest(rng, n_rigs, max_nest, rng.randint(0, 2), full)
        cls = rng.choice(['roots', 'roots', 'mixed', 'mixed', 'arb'])
        n_ts = rng.choice([0, 1, 1, 2, 2, 3, 4])
        traj = _gen_traj(rng, rigs, free, n_ts, cls, full)
        mk = rng.choice(['none', 'none', 'valid', 'valid', 'junk'])
        masters = _gen_masters(rng, rigs, traj, mk)
        cases.append({'rigs': rigs, 'traj': traj, 'masters': masters, 'rec_in': None, 'cls': cls + '/m=' + mk + ('/full' if full else '')})
    n_bad = 45 if tier == 'quick' else 360
    for k in range(n_bad):
        cases.append(_malformed(rng, k))
    return cases


# ------------------------------------------------------------------ running the implementation
def _build(rigs_l, traj_l):
    import kapture
    rigs = kapture.Rigs()
    for r, ms in rigs_l:
        rigs[r] = {}
        for d, g in ms:
            rigs[r, d] = kapture.PoseTransform(r=list(g[:4]), t=list(g[4:]))
    traj = kapture.Trajectories()
    for t, m in traj_l:
        # dict.setdefault is not overridden by Trajectories: this is how the code itself creates a timestamp, and the
        # only public way to hold an empty one (rigs_recover leaves such timestamps behind); `traj[t] = {}` drops it
        traj.setdefault(int(t), {})
        for d, p in m:
            traj[int(t), d] = kapture.PoseTransform(r=list(p[:4]), t=list(p[4:]))
    assert [k for k in traj.keys()] == [int(t) for t, _ in traj_l], 'harness could not build the requested trajectories'
    return rigs, traj


def _dump(m2):
    return [[k, [[d, [float(x) for x in p.r_raw] + [float(x) for x in p.t_raw]] for d, p in inner.items()]]
            for k, inner in m2.items()]


def _call(fn):
    try:
        return 'none', fn()
    except RuntimeError as e:
        return ('runtime' if 'changed size during iteration' in str(e) else 'other:RuntimeError'), None
    except KeyError:
        return 'key', None
    except Exception as e:  # noqa
        return 'other:' + type(e).__name__, None


def run_impl(case, ctx):
    import kapture
    obs = {'pure': True, 'impure': []}

    def run_pair(copy_fn, inplace_fn, traj_l):
        rigs, traj = _build(case['rigs'], traj_l)
        r0, t0 = _dump(rigs), _dump(traj)
        exc, res = _call(lambda: copy_fn(traj, rigs))
        o_copy = {'exc': exc, 'state': _dump(res) if res is not None else None}
        if _dump(rigs) != r0:
            obs['pure'] = False
            obs['impure'].append(copy_fn.__name__ + ' changed rigs')
        if _dump(traj) != t0:
            obs['pure'] = False
            obs['impure'].append(copy_fn.__name__ + ' changed its trajectories argument')
        if res is traj:
            obs['pure'] = False
            obs['impure'].append(copy_fn.__name__ + ' returned its argument')
        rigs2, traj2 = _build(case['rigs'], traj_l)
        exc2, _ = _call(lambda: inplace_fn(traj2, rigs2))
        o_ip = {'exc': exc2, 'state': _dump(traj2)}
        if _dump(rigs2) != r0:
            obs['pure'] = False
            obs['impure'].append(inplace_fn.__name__ + ' changed rigs')
        return o_copy, o_ip

    obs['remove'], obs['remove_ip'] = run_pair(kapture.rigs_remove, kapture.rigs_remove_inplace, case['traj'])
    rec_in = case.get('rec_in')
    if rec_in is None and obs['remove']['exc'] == 'none':
        rec_in = obs['remove']['state']
    obs['rec_in'] = rec_in
    if rec_in is not None:
        ms = case['masters']
        obs['recover'], obs['recover_ip'] = run_pair(
            lambda t, r: kapture.rigs_recover(t, r, None if ms is None else list(ms)),
            lambda t, r: kapture.rigs_recover_inplace(t, r, None if ms is None else list(ms)), rec_in)
        obs['impure'] = [s.replace('<lambda>', 'rigs_recover') for s in obs['impure']]
    else:
        obs['recover'] = obs['recover_ip'] = None
    return obs


# ------------------------------------------------------------------ oracle: the property on what the code did
def _check_removed(case, J, o, which):
    if o['exc'] != 'none' or o['state'] is None:
        return f'{which} raised {o["exc"]} on a configuration inside the quantifier'
    exp = _expected_remove(case, J)
    got = {t: dict(m) for t, m in o['state']}
    inp = {t: dict(m) for t, m in case['traj']}
    rigs = J['rigs']
    for t, m in got.items():
        for d in m:
            if d in rigs:
                return f'{which}: a rig identifier is still posed after the replacement'
    for t, e in exp.items():
        g = got.get(t, {})
        for d, (how, ref) in e.items():
            if d not in g:
                return f'{which}: a sensor that should be posed is missing ({how})'
            if how == 'same':
                if [float(x) for x in g[d]] != [float(x) for x in inp[t][d]]:
                    return f'{which}: the entry of a device that is not a rig was modified'
            elif not _close(g[d], ref):
                return f'{which}: a sensor below a posed rig does not get rig pose composed with the rig geometry'
        extra = set(g) - set(e)
        if extra:
            return f'{which}: a device got a pose from nowhere'
    if set(got) - set(exp):
        return f'{which}: a timestamp appeared'
    for t, e in exp.items():
        if e and t not in got:
            return f'{which}: a timestamp disappeared'
    return None


def _check_recovered(case, J, removed, o, which):
    if o['exc'] != 'none' or o['state'] is None:
        return f'{which} raised {o["exc"]} on the output of rigs_remove'
    rigs, parents, chains = J['rigs'], J['parents'], J['chains']
    got = {t: dict(m) for t, m in o['state']}
    inp = {t: dict(m) for t, m in case['traj']}
    for t, m in inp.items():
        for d, p in m.items():
            if d in rigs and d not in parents:
                if d not in got.get(t, {}):
                    return f'{which}: the pose of a top-level rig that was replaced is not recovered'
                if not _close(got[t][d], _fr(p)):
                    return f'{which}: the recovered pose of a top-level rig differs from the pose that was replaced'
    for t, m in removed:
        g = got.get(t, {})
        for d, p in m:
            acc, w = [], None
            if d in g:
                w = _fr(g[d])
            else:
                for r, gg in chains[d]:
                    acc.append(_fr(gg))
                    if r in g:
                        w = _fr(g[r])
                        break
            if w is None:
                return f'{which}: a posed sensor lost its world pose (no posed rig above it)'
            for g_ in reversed(acc):
                w = _compose(g_, w)
            if not _close(p, w):
                return f'{which}: a sensor moved (world pose implied by the recovered rig pose differs)'
    return None


def oracle(case, obs):
    if not obs['pure']:
        return 'arguments modified: ' + '; '.join(sorted(set(obs['impure'])))
    J = _judge(case)
    if not J['remove_judged']:
        return None
    for which in ('remove', 'remove_ip'):
        sig = _check_removed(case, J, obs[which], 'rigs_remove' + ('_inplace' if which.endswith('ip') else ''))
        if sig:
            return sig
    if case.get('rec_in') is not None or obs['recover'] is None:
        return None
    removed = obs['rec_in']
    if not _consistent(case, J) or not _masters_ok(case, J, removed):
        return None
    for which in ('recover', 'recover_ip'):
        sig = _check_recovered(case, J, removed, obs[which], 'rigs_recover' + ('_inplace' if which.endswith('ip') else ''))
        if sig:
            return sig
    return None


# ------------------------------------------------------------------ Coq encoding
def _cpose(p):
    return ('(mkP (mkQ %s %s %s %s) (mkV %s %s %s))' % tuple(kv.cq(float(x)) for x in p))


def _cinner(m):
    return kv.clist(kv.cpair(kv.cstr(d), _cpose(p)) for d, p in m)


def _ctraj(tr):
    return kv.clist(kv.cpair(kv.cz(t), _cinner(m)) for t, m in tr)


_EXC = {'none': 'ENone', 'runtime': 'ERuntime', 'key': 'EKey'}


def encode(case, obs):
    lets, names = [], {}

    def share(tr):
        """bind each distinct trajectories term once (the in-place result usually equals the returned one)."""
        key = repr(tr)
        if key not in names:
            names[key] = f'u{len(names)}'
            lets.append(f'let {names[key]} : traj pose := {_ctraj(tr)} in')
        return names[key]

    def cobs(o):
        st = 'None' if o['state'] is None else f'(Some {share(o["state"])})'
        return '{| o_exc := %s; o_state := %s |}' % (_EXC.get(o['exc'], 'EOther'), st)
    rigs = kv.clist(kv.cpair(kv.cstr(r), _cinner(ms)) for r, ms in case['rigs'])
    fields = {
        'c_rigs': rigs, 'c_traj': share(case['traj']),
        'c_masters': kv.copt(None if case['masters'] is None else kv.clist(kv.cstr(s) for s in case['masters'])),
        'o_remove': cobs(obs['remove']), 'o_remove_ip': cobs(obs['remove_ip']),
        'c_rec_in': 'None' if obs['rec_in'] is None else f'(Some {share(obs["rec_in"])})',
        'o_recover': 'None' if obs['recover'] is None else f'(Some {cobs(obs["recover"])})',
        'o_recover_ip': 'None' if obs['recover_ip'] is None else f'(Some {cobs(obs["recover_ip"])})',
        'o_pure': kv.cbool(obs['pure']),
    }
    body = '{| ' + '; '.join(f'{k} := {v}' for k, v in fields.items()) + ' |}'
    return '(' + '\n'.join(lets) + '\n' + body + ')'


# ------------------------------------------------------------------ evidence helpers
def nontrivial(case, obs):
    rigs = {r for r, _ in case['rigs']}
    return any(d in rigs for _, m in case['traj'] for d, _ in m)


def classify(case, obs):
    J = _judge(case)
    rec = 'norec' if obs['recover'] is None else obs['recover']['exc']
    return (f'{case.get("cls", "?")}/depth={J["depth"] if J["forest_ok"] else "x"}/judged={int(J["remove_judged"])}'
            f'/remove={obs["remove"]["exc"]}/recover={rec}')


def describe(case, obs):
    return {'rigs': [[r, [d for d, _ in ms]] for r, ms in case['rigs']],
            'traj_keys': [[t, [d for d, _ in m]] for t, m in case['traj']], 'masters': case['masters'],
            'after_remove': None if obs['remove']['state'] is None else [[t, [d for d, _ in m]] for t, m in obs['remove']['state']],
            'after_recover': None if not obs['recover'] or obs['recover']['state'] is None
            else [[t, [d for d, _ in m]] for t, m in obs['recover']['state']],
            'exceptions': [obs['remove']['exc'], obs['remove_ip']['exc'], obs['recover'] and obs['recover']['exc']]}


def shrink(case):
    for i in range(len(case['traj'])):
        c = copy.deepcopy(case)
        del c['traj'][i]
        yield c
    for i, (t, m) in enumerate(case['traj']):
        for j in range(len(m)):
            if len(m) > 1:
                c = copy.deepcopy(case)
                del c['traj'][i][1][j]
                yield c
    for i, (r, ms) in enumerate(case['rigs']):
        c = copy.deepcopy(case)
        del c['rigs'][i]
        yield c
        for j in range(len(ms)):
            if len(ms) > 1:
                c = copy.deepcopy(case)
                del c['rigs'][i][1][j]
                yield c
    if case['masters']:
        c = copy.deepcopy(case)
        c['masters'] = None
        yield c


TECHNIQUE = ('Coq proofs about an executable Gallina model of the job-list iterations of rigs_remove_inplace / '
             'rigs_recover_inplace, parametric in the pose algebra and instantiated with the rigid-transform group over Q '
             '(MPose/PPose, C05): invariants over the job folds and over the fuel (max_depth), a consistency invariant '
             '(every entry equals the world pose of its device) for the inverse law; differential correspondence of the '
             'model with the four real functions by vm_compute')
LEVEL_TEXT = ('Theorems in coq/Props/C06.v hold for every rig forest of nesting depth <= 10 and every trajectories: after '
              'rigs_remove no rig id remains, entries of non-rig devices are untouched, each sensor below a posed rig gets '
              'compose(path poses leaf->root ++ [rig pose]), nothing else appears, no exception; recover after remove (masters '
              'unspecified, any depth) gives back (==) every top-level rig pose and leaves every posed sensor at its world pose, '
              'with no world hypothesis when only top-level rigs and free sensors are posed; with a master list that names a live member '
              'of every rig with something posed below it (any depth): every such top-level rig is recovered, no sensor moves; KeyError unreachable; a depth-11 '
              'chain keeps a rig id (the bound is real). The model is tied to the code by running the four real functions on '
              'generated forests / trajectories and comparing key sets exactly and poses to 1e-9 inside Coq.')
LEVEL_NOTE = ('not modelled: float rounding of compose/inverse (1e-9 tolerance of the property), numba/numpy internals; deepcopy is '
              'modelled (drops empty timestamps) and observed by snapshots; the executable (code-arithmetic) instance and the '
              'specification instance of the model differ by the 1e-14 unit-band branch of the rotation matrix (C05). '
              'Trusted: Coq kernel + vm_compute, harness encoders.')
